/-
Line protocol of kernel `exportmatch` (harness/cmd/hinternal/k_exportmatch.go):

  exportmatch <TAB> link <TAB> keepESM(0/1) <TAB> file|file|…
    file    = kind(n/c/e/d);noExports(0/1);isTS(0/1);exportsRef;exports;stars;imports
    exports = alias:ref:loc,…            ("-" = none)
    stars   = target,…                   (x = external, "-" = none)
    imports = ref:target:alias:isStar:nsRef:isExported:preNs,…   (target/nsRef: x = none; preNs = the parser already
              gave the import symbol the namespace alias (nsRef, alias): a generated import item `ns.alias`)

  exportmatch <TAB> thm <TAB> file|file|…     the theorem statements evaluated on the table: `ok` or `FAIL:…`
  exportmatch <TAB> thmx <TAB> skipped hypotheses <TAB> table,  exportmatch <TAB> spec <TAB> table    (diagnostics)

answer of `link`: one block per file, `res=… ali=… imp=…`, blocks separated by " | "; `PANIC` if the model says the Go code
would index out of range; `bad-op` for a malformed operation.
-/
import EsbuildModel.Impl.ExportMatch
import EsbuildModel.Impl.ExportMatchCheck
namespace EsbuildModel.ExportMatch
open EsbuildModel.Wire

def parseList {α : Type} (sep : String) (p : String → Option α) (s : String) : Option (List α) :=
  if s = "-" then some [] else mapOpt p (s.splitOn sep)

def parseBool (s : String) : Option Bool :=
  if s = "1" then some true else if s = "0" then some false else none

def parseOptNat (s : String) : Option (Option Nat) :=
  if s = "x" then some none else (parseNat s).map some

def parseKind (s : String) : Option Kind :=
  match s with
  | "n" => some .none | "c" => some .cjs | "e" => some .esm | "d" => some .dyn | _ => none

def parseExport (s : String) : Option NamedExport :=
  match s.splitOn ":" with
  | [a, r, l] =>
    match parseNat r, parseNat l with
    | some r, some l => some ⟨a, r, l⟩
    | _, _ => none
  | _ => none

def parseImport (s : String) : Option (NamedImport × Bool) :=
  match s.splitOn ":" with
  | [r, tg, a, st, ns, ex, pre] =>
    match parseNat r, parseOptNat tg, parseBool st, parseOptNat ns, parseBool ex, parseBool pre with
    | some r, some tg, some st, some ns, some ex, some pre => some (⟨r, tg, a, st, ns, ex⟩, pre)
    | _, _, _, _, _, _ => none
  | _ => none

/-- a file and, per import, the `preNs` flag -/
def parseFile (s : String) : Option (File × List Bool) :=
  match s.splitOn ";" with
  | [k, ne, ts, er, exs, sts, ims] =>
    match parseKind k, parseBool ne, parseBool ts, parseNat er, parseList "," parseExport exs,
          parseList "," parseOptNat sts, parseList "," parseImport ims with
    | some k, some ne, some ts, some er, some exs, some sts, some ims =>
      some (⟨k, ne, ts, er, exs, sts, ims.map (·.1)⟩, ims.map (·.2))
    | _, _, _, _, _, _, _ => none
  | _ => none

def parseTable (s : String) : Option (Table × List (List Bool)) :=
  (parseList "|" parseFile s).map (fun l => (l.map (·.1), l.map (·.2)))

def showData (s r l : Nat) : String := s!"{s}.{r}.{l}"

def showResolved (res : Resolved) : String :=
  let items := res.map (fun p => p.1 ++ ":" ++ "+".intercalate (showData p.2.src p.2.ref p.2.loc :: p.2.ambs.map (fun a => showData a.src a.ref a.loc)))
  if items.isEmpty then "-" else ",".intercalate (items.mergeSort (fun a b => decide (a ≤ b)))

def showNames (l : List Name) : String :=
  if l.isEmpty then "-" else ",".intercalate (l.mergeSort (fun a b => decide (a ≤ b)))

/-- what can be observed of a result after linking: `ImportsToBind`, the symbol's namespace alias (set by the linker, or
left as the parser set it), and the error/TypeScript flags; then the status of the import's own first step, as far as
a log message shows it -/
def showResult (c : Ctx) (s : Nat) (ni : NamedImport) (pre : Bool) (r : MResult) : String :=
  let b := if r.kind = .normal ∨ r.kind = .normalAndNamespace then s!"{r.src}.{r.ref}" else "-"
  let n :=
    if r.kind = .namespace ∨ r.kind = .normalAndNamespace then s!"{r.nsSrc}.{r.nsRef}.{r.alias}"
    else if pre then s!"{s}.{ni.nsRef.getD 0}.{ni.alias}" else "-"
  let f := (if r.kind = .cycle then "C" else "") ++ (if r.kind = .ambiguous then "A" else "") ++
    (if r.kind = .probablyTS then "T" else "") ++
    (match advance c ⟨s, 0, ni.ref⟩ with
     | some (_, .noMatch, _) => "!"
     | some (_, .commonJSWithoutExports, _) => "w"
     | _ => "")
  s!"{ni.ref}:{b}/{n}/{f}"

def showImports (c : Ctx) (s : Nat) (f : File) (pres : List Bool) (l : List (Nat × MResult)) : String :=
  if l.isEmpty then "-" else
    ",".intercalate ((f.imports.zip (pres.zip l)).map (fun (ni, pre, p) => showResult c s ni pre p.2))

def link (keepESM : Bool) (t : Table) (pres : List (List Bool)) : Option String :=
  match allResolved t with
  | none => none
  | some resolved =>
    let c : Ctx := ⟨t, resolved, keepESM⟩
    match matchAll c with
    | none => none
    | some results =>
      let blocks := (List.range t.length).map (fun s =>
        let res := resolved.getD s []
        s!"res={showResolved res} ali={showNames (filteredAliases results res)} imp={showImports c s (t.getD s ⟨.none, false, false, 0, [], [], []⟩) (pres.getD s []) (results.getD s [])}")
      some (" | ".intercalate blocks)

def driver (args : List String) : String :=
  match args with
  | ["link", k, tbl] =>
    match parseBool k, parseTable tbl with
    | some k, some (t, pres) => (link k t pres).getD "PANIC"
    | _, _ => "bad-op"
  | ["thm", tbl] =>
    -- the statements of Props/C02ExportMatch.lean evaluated on this table: `ok` (they hold, or a hypothesis fails)
    match parseTable tbl with
    | some (t, _) =>
      let r := thmCheck t
      if r = "ok" ∨ r.startsWith "hyp:" then "ok" else r
    | none => "bad-op"
  | ["spec", tbl] =>
    -- the specification alone, on the module records of the table (used to compare the transcription with Node)
    match parseTable tbl with
    | some (t, _) =>
      let T := toSpec t
      let names := "zz" :: "default" :: allNames t
      " | ".intercalate ((List.range t.length).map (fun m =>
        let showRes (n : Name) : String :=
          match Spec.EsModules.resolveExport T m n with
          | some (.binding ⟨m', .name b⟩) => s!"{n}:B{m'}.{b}"
          | some (.binding ⟨m', .namespace⟩) => s!"{n}:B{m'}.ns"
          | some .null => s!"{n}:N"
          | some .ambiguous => s!"{n}:A"
          | none => s!"{n}:FUEL"
        s!"names={showNames ((Spec.EsModules.getExportedNames T m).getD ["FUEL"])} ns={showNames ((Spec.EsModules.namespaceExports T m).getD ["FUEL"])} res={",".intercalate (names.map showRes)}"))
    | none => "bad-op"
  | ["thmx", skip, tbl] =>
    match parseTable tbl with
    | some (t, _) => thmCheck t (skip.splitOn ",")
    | none => "bad-op"
  | _ => "bad-op"

end EsbuildModel.ExportMatch
