import EsbuildModel.Util.F64
import EsbuildModel.Impl.NumText
import EsbuildModel.Impl.CssNumber
import EsbuildModel.Spec.JsNumber
/-
Model of `printNonNegativeFloat`, `smallIntToBytes`, `parseSmallInt` (internal/js_printer/js_printer.go).

The Go routine first formats the float with `strconv.FormatFloat(absValue,'g',-1,64)` (TRUSTED; its output TEXT is
an input of the model) and then rewrites that text in place.  Byte slices are modelled as `List Char`
(all bytes are ASCII); slice expressions become `take`/`drop`; an index or slice expression that is out of
range in Go (a run-time panic) is `none` here.  The in-place `append`s of the Go code only ever copy towards
the front of the same buffer (memmove semantics) or append bytes that come from another buffer
(`intToBytesBuffer`, the hex string), so list concatenation is exact.

Inputs of `printNonNegativeFloat`:
  * `minify`  = `p.options.MinifyWhitespace`
  * `intVal`  = `some n` iff `absValue` is the (exact) non-negative integer n; this is all the routine learns
                from the float itself (`absValue < 1000`, `absValue == float64(int64(absValue))`,
                `absValue >= 1e12 && absValue <= 0xFFFF_FFFF_FFFF_F800`, `absValue == float64(uint64(absValue))`)
  * `text`    = `strconv.FormatFloat(absValue,'g',-1,64)`
Go's `int` is 64 bit, the model uses unbounded `Int`/`Nat` (exponents of a float64 have at most 3 digits).
-/
namespace EsbuildModel.NumPrint
open EsbuildModel.NumText

/-- `'0' + byte(d)` for d < 10 -/
def digitChar (d : Nat) : Char :=
  match d with
  | 0 => '0' | 1 => '1' | 2 => '2' | 3 => '3' | 4 => '4'
  | 5 => '5' | 6 => '6' | 7 => '7' | 8 => '8' | _ => '9'

/-- the `for` loop of `smallIntToBytes`: writes the digits of n from the end to the front -/
def natToBytes (n : Nat) (acc : List Char) : List Char :=
  if n / 10 = 0 then digitChar (n % 10) :: acc
  else natToBytes (n / 10) (digitChar (n % 10) :: acc)
termination_by n
decreasing_by omega

/-- `smallIntToBytes` (the 64-byte buffer is never exceeded by a 64-bit int) -/
def smallIntToBytes (n : Int) : List Char :=
  if n < 0 then '-' :: natToBytes n.natAbs [] else natToBytes n.natAbs []

/-- `int(c - '0')` on a byte: wraps modulo 256 -/
def byteMinusZero (c : Char) : Int := ((c.toNat + 208) % 256 : Nat)

/-- `parseSmallInt`; `none` = `bytes[0]` on an empty slice (index out of range) -/
def parseSmallInt : List Char → Option Int
  | [] => none
  | c :: r =>
    if c = '-' then some (-(r.foldl (fun n c => n * 10 + byteMinusZero c) (0 : Int)))
    else some ((c :: r).foldl (fun n c => n * 10 + byteMinusZero c) (0 : Int))

/-- "Simplify the exponent": `"e+05" => "e5"`, `"e-05" => "e-5"` -/
def simplifyExponent (r : List Char) : Option (List Char) :=
  match lastIndexOf 'e' r with
  | none => some r
  | some e =>
    match r[e + 1]? with
    | none => none                     -- `result[from]`, from = len(result)
    | some c =>
      let to := if c = '-' then e + 2 else e + 1
      let frm := if c = '+' ∨ c = '-' then e + 2 else e + 1
      let frm := frm + countZeros (r.drop frm)     -- `for from < len(result) && result[from] == '0'`
      some (r.take to ++ r.drop frm)

/-- the branch `dot == 1 && result[0] == '0'` ("0.5" => ".5", "0.001" => "1e-3") -/
def branchZeroDot (minify : Bool) (r0 : List Char) : Option (List Char) :=
  let r := if minify then r0.drop 1 else r0
  let afterDot := if minify then 1 else 2
  match r[afterDot]? with
  | none => none                       -- `result[afterDot]` out of range
  | some c =>
    if c = '0' then
      let i := afterDot + 1 + countZeros (r.drop (afterDot + 1))
      if r.length ≤ i then none        -- `for result[i] == '0'` runs off the end
      else
        let remaining := r.drop i
        let exponent := smallIntToBytes ((afterDot : Int) - (i : Int) - (remaining.length : Int))
        if r.length > remaining.length + 1 + exponent.length then some (remaining ++ 'e' :: exponent)
        else some r
    else some r

/-- the branch `dot != -1` ("1.2e1" => "12", "1.2e4" => "12e3") -/
def branchDot (r : List Char) (dot : Nat) : Option (List Char) :=
  match lastIndexOf 'e' r with
  | none => some r
  | some e =>
    if e < dot + 1 then none           -- `result[dot+1 : e]` with dot+1 > e
    else
      let integer := r.take dot
      let fraction := (r.take e).drop (dot + 1)
      match parseSmallInt (r.drop (e + 1)) with
      | none => none
      | some x =>
        let exponent : Int := x - (fraction.length : Int)
        if 0 ≤ exponent ∧ exponent ≤ 2 then
          if (r.length : Int) ≥ (integer.length : Int) + (fraction.length : Int) + exponent then
            some (integer ++ fraction ++ List.replicate exponent.toNat '0')
          else some r
        else
          let ex := smallIntToBytes exponent
          if r.length ≥ integer.length + fraction.length + 1 + ex.length then
            some (integer ++ fraction ++ 'e' :: ex)
          else some r

/-- the branch `result[len(result)-1] == '0'` ("1000" => "1e3"); the caller has checked the last byte -/
def branchTrailingZeros (r : List Char) : List Char :=
  let tz := countZeros r.reverse       -- `for i > 0 && result[i-1] == '0' { i-- }` starting at len-1
  let i := r.length - tz
  let remaining := r.take i
  let exponent := smallIntToBytes (tz : Int)
  if r.length > remaining.length + 1 + exponent.length then remaining ++ 'e' :: exponent else r

/-- the text rewriting of `printNonNegativeFloat` between `FormatFloat` and the hex test -/
def rewrite (minify : Bool) (t : List Char) : Option (List Char) :=
  match simplifyExponent t with
  | none => none
  | some r =>
    match indexOf '.' r with
    | some dot =>
      if dot = 1 ∧ r.head? = some '0' then branchZeroDot minify r else branchDot r dot
    | none =>
      match r.getLast? with
      | none => none                   -- `result[len(result)-1]` on an empty slice
      | some c => if c = '0' then some (branchTrailingZeros r) else some r

def hexChar (d : Nat) : Char :=
  match d with
  | 10 => 'a' | 11 => 'b' | 12 => 'c' | 13 => 'd' | 14 => 'e' | 15 => 'f' | d => digitChar d

/-- `strconv.FormatUint(n, 16)` -/
def hexToBytes (n : Nat) (acc : List Char) : List Char :=
  if n / 16 = 0 then hexChar (n % 16) :: acc
  else hexToBytes (n / 16) (hexChar (n % 16) :: acc)
termination_by n
decreasing_by omega

/-- the hex test at the end: `0x…` when minifying, the value is an integer in [1e12, 0xFFFF_FFFF_FFFF_F800]
and the hex form is strictly shorter -/
def hexStep (minify : Bool) (intVal : Option Nat) (result : List Char) : List Char :=
  match intVal with
  | some n =>
    if minify ∧ 1000000000000 ≤ n ∧ n ≤ 0xFFFFFFFFFFFFF800 then
      let hex := hexToBytes n []
      if 2 + hex.length < result.length then '0' :: 'x' :: hex else result
    else result
  | none => result

/-- `printNonNegativeFloat`: the printed bytes and whether `needSpaceBeforeDot` was set to the end of them -/
def printNonNegativeFloat (minify : Bool) (intVal : Option Nat) (text : List Char) : Option (List Char × Bool) :=
  match intVal with
  | some n =>
    if n < 1000 then some (smallIntToBytes (n : Int), true)
    else (rewrite minify text).map fun r =>
      let r := hexStep minify intVal r
      (r, !(r.any fun c => c = '.' ∨ c = 'e' ∨ c = 'x'))
  | none =>
    (rewrite minify text).map fun r => (r, !(r.any fun c => c = '.' ∨ c = 'e' ∨ c = 'x'))

/-! ## line protocol
`js` also reports whether the FormatFloat text satisfies `Spec.Num.ffShape` (the hypothesis of the theorems), so that the
correspondence run checks that hypothesis on every sampled output of the real `strconv.FormatFloat`. -/

/-- the integer value of a non-negative finite double, if it is an integer -/
def intValOfBits (bits : Nat) : Option (Option Nat) :=
  match F64.ofBits bits with
  | .fin false m e => some (if F64.isIntegral m e then some (F64.truncAbs m e) else none)
  | _ => none

open Wire in
def driver (args : List String) : String :=
  match args with
  | ["js", m, bits, text] =>
    match parseNat m, parseNat bits, parseText text with
    | some m, some bits, some text =>
      (match intValOfBits bits with
       | some iv =>
         (match printNonNegativeFloat (m == 1) iv text with
          | some (r, sp) => s!"{showText r} {sp} shape={Spec.Num.ffShape text}"
          | none => s!"PANIC shape={Spec.Num.ffShape text}")
       | none => "bad-op")
    | _, _, _ => "bad-op"
  | ["smallint", n] =>
    match parseInt n with
    | some n => showText (smallIntToBytes n)
    | none => "bad-op"
  | ["parsesmallint", text] =>
    match parseText text with
    | some t => (match parseSmallInt t with | some v => toString v | none => "PANIC")
    | none => "bad-op"
  | "css" :: rest => CssNumber.driver rest
  | _ => "bad-op"

end EsbuildModel.NumPrint
