/-
The Go functions of the build context as structured programs (see Impl/CtxLock.lean for the language).
Each `…Body` is the body of the Go function of that name, statement by statement; `skelL body` must equal the
token list regenerated from the source (Props/C20Lock.lean `facts_match_model`).
-/
import EsbuildModel.Impl.CtxLock
namespace EsbuildModel.CtxLock
open EsbuildModel.Gen.CtxLock (Mu Wg Fld Fn Cnd Tok)

/-- receiver registers of top-level code and of calls that keep the receiver -/
def rcTop : Recv := ⟨.sw, .sh⟩

-- ---------------------------------------------------------------- library / environment (no esbuild source)

/-- rebuildImpl: the build begins (on-start callbacks), does finitely many steps, ends (on-end callbacks ran) -/
def rebuildImplBody : List Stmt := [.act .buildBegin, .loop .moreWork [.act .buildStep], .act .buildEnd]
def cancelFlagBody : List Stmt := [.act .setCancel]
def serverCloseBody : List Stmt := [.act .closeServer]
def listenerAcceptBody : List Stmt := [.act .accept]

-- ---------------------------------------------------------------- pkg/api/watcher.go

def setWatchDataBody : List Stmt := [.deferUnlock .watcher, .lock .watcher]

def tryToFindDirtyPathBody : List Stmt := [.deferUnlock .watcher, .lock .watcher, .maybeRet, .ret]

def watcherStopBody : List Stmt := [.act .setWStop, .wait .stop]

-- ---------------------------------------------------------------- pkg/api/serve_other.go (1)

def broadcastBody : List Stmt :=
  [.lock .handler,
   .ite (.gen .other) [.act .getStreams, .loop .streams [.act .sendStream]] none,
   .unlock .handler]

-- ---------------------------------------------------------------- pkg/api/api_impl.go

def rebuildBody : List Stmt :=
  [.lock .ctx,
   .ite (.gen .didDispose) [.unlock .ctx, .act .retEmpty, .ret] none,
   .act .readActive,
   .ite (.gen .buildNonNil) [.unlock .ctx, .wait .build, .act .readState, .ret] none,
   .act .newBuild, .add .build, .act .setActive, .act .readWatcher, .act .readHandler,
   .unlock .ctx,
   .call .rebuildImpl rcTop rebuildImplBody, .act .writeState,
   .ite (.gen .localHandlerNonNil) [.call .broadcast ⟨.sw, .lh⟩ broadcastBody] none,
   .ite (.gen .localWatcherNonNil) [.call .setWatchData ⟨.lw, .sh⟩ setWatchDataBody] none,
   .lock .ctx, .act .clearActive, .act .setRecent, .unlock .ctx,
   .go [.act .sleep, .lock .ctx, .ite (.gen .recentIsMine) [.act .clearRecent] none, .unlock .ctx],
   .done .build,
   .act .readState, .ret]

def RebuildBody : List Stmt := [.call .rebuild rcTop rebuildBody, .ret]

def abrBody : List Stmt :=
  [.lock .ctx,
   .act .readActive,
   .ite (.gen .buildNonNil) [.unlock .ctx, .wait .build, .act .readState, .ret] none,
   .act .readRecent,
   .ite (.gen .buildNonNil) [.unlock .ctx, .act .retRecent, .ret] none,
   .unlock .ctx,
   .call .Rebuild rcTop RebuildBody, .ret]

/-- the function literal `rebuild:` of the watcher created in Watch -/
def watcherRebuildBody : List Stmt := [.call .rebuild rcTop rebuildBody, .ret]

/-- watcher.start: the goroutine is the polling loop -/
def watcherStartBody : List Stmt :=
  [.add .stop,
   .go [.loop (.gen .wNotStopped)
          [.act .sleep,
           .call .tryToFindDirtyPath rcTop tryToFindDirtyPathBody,
           .ite (.gen .other)
             [.ite (.gen .other) [.act .sleep] none,
              .call .watcherRebuild rcTop watcherRebuildBody,
              .call .setWatchData rcTop setWatchDataBody] none],
        .done .stop]]

def WatchBody : List Stmt :=
  [.lock .ctx, .deferUnlock .ctx,
   .ite (.gen .didDispose) [.act .retErr, .ret] none,
   .ite (.gen .ctxWatcherNonNil) [.act .retErr, .ret] none,
   .act .newWatcher,
   .call .watcherStart rcTop (.act .loadCtxWatcher :: watcherStartBody),
   .go [.lock .ctx, .act .readActive, .unlock .ctx,
        .ite (.gen .buildNonNil) [.wait .build] none,
        .call .Rebuild rcTop RebuildBody],
   .act .retOk, .ret]

def CancelBody : List Stmt :=
  [.lock .ctx,
   .ite (.gen .didDispose) [.unlock .ctx, .ret] none,
   .act .readActive,
   .unlock .ctx,
   .ite (.gen .buildNonNil) [.call .cancelFlag rcTop cancelFlagBody, .wait .build] none]

-- ---------------------------------------------------------------- pkg/api/serve_other.go (2)

/-- the function literal `rebuild:` of the handler created in Serve -/
def handlerRebuildBody : List Stmt :=
  [.ite (.gen .sStopped) [.act .retEmpty, .ret] (some [.call .abr rcTop abrBody, .ret])]

/-- the function literal assigned to `handler.stop` in Serve -/
def handlerStopBody : List Stmt :=
  [.act .setSStop,
   .call .serverClose rcTop serverCloseBody,
   .lock .handler, .act .getStreams, .loop .streams [.act .closeStream], .act .clrStreams, .unlock .handler,
   .wait .serve]

def hackAcceptBody : List Stmt :=
  [.lock .hack,
   .ite (.gen .hackNotDone) [.act .setHackDone, .done .hack] none,
   .unlock .hack,
   .call .listenerAccept rcTop listenerAcceptBody, .ret]

/-- net/http Server.Serve (library): the accept loop. Every iteration calls Accept of the listener it was given (the
hackListener); an accepted connection is served on its own goroutine, which asks handler.rebuild(); the loop ends
when the server was closed (result ErrServerClosed) or Accept failed (another error). -/
def serverServeBody : List Stmt :=
  [.loop .srvLoop
     [.call .listenerAccept rcTop hackAcceptBody,
      .ite (.gen .other) [.go [.call .handlerRebuild rcTop handlerRebuildBody]] none],
   .act .srvResult]

def ServeBody : List Stmt :=
  [.lock .ctx, .deferUnlock .ctx,
   .ite (.gen .didDispose) [.act .retErr, .ret] none,
   .ite (.gen .ctxHandlerNonNil) [.act .retErr, .ret] none,
   .act .retErr, .maybeRet,
   .act .newHandler,
   .add .hack,
   .add .serve,
   .go [.ite (.gen .other) [.call .serverServe rcTop serverServeBody] (some [.call .serverServe rcTop serverServeBody]),
        .ite (.gen .errNotClosed)
          [.lock .hack,
           .ite (.gen .hackNotDone) [.act .setHackDone, .act .setHackErr, .done .hack] none,
           .unlock .hack] none,
        .done .serve],
   .wait .hack,
   .ite (.gen .hackErr) [.act .retHackErr, .ret] none,
   .act .sleep,
   .act .setHandler,
   .go [.act .sleep, .call .handlerRebuild rcTop handlerRebuildBody],
   .act .retOk, .ret]

def DisposeBody : List Stmt :=
  [.lock .ctx,
   .ite (.gen .didDispose) [.unlock .ctx, .ret] none,
   .act .setDisposed, .act .clearRecent, .act .readActive,
   .unlock .ctx,
   .ite (.gen .ctxWatcherNonNil) [.call .watcherStop rcTop (.act .loadCtxWatcher :: watcherStopBody)] none,
   .ite (.gen .ctxHandlerNonNil) [.call .handlerStop rcTop (.act .loadCtxHandler :: handlerStopBody)] none,
   .ite (.gen .buildNonNil) [.wait .build] none,
   .loop .bounded [.act .tick, .goCall .external]]

-- ---------------------------------------------------------------- the code

/-- the API methods a caller thread can run -/
inductive Method where
  | rebuild | cancel | dispose | watch | serve
deriving DecidableEq, Repr

def Method.body : Method → List Stmt
  | .rebuild => RebuildBody | .cancel => CancelBody | .dispose => DisposeBody | .watch => WatchBody | .serve => ServeBody

def Method.entry : Method → Nat
  | .rebuild => 0
  | .cancel => sizeF RebuildBody
  | .dispose => sizeF RebuildBody + sizeF CancelBody
  | .watch => sizeF RebuildBody + sizeF CancelBody + sizeF DisposeBody
  | .serve => sizeF RebuildBody + sizeF CancelBody + sizeF DisposeBody + sizeF WatchBody

def codeGen : List Instr :=
  compileF (Method.entry .rebuild) RebuildBody ++ compileF (Method.entry .cancel) CancelBody ++
  compileF (Method.entry .dispose) DisposeBody ++ compileF (Method.entry .watch) WatchBody ++
  compileF (Method.entry .serve) ServeBody

end EsbuildModel.CtxLock
