import EsbuildModel.Util.F64Arith
import EsbuildModel.Util.Wire
/-
Model of `(*Lexer).parseNumericLiteralOrDot` (internal/js_lexer/js_lexer.go, NotJSON mode), transcribed line by line.

Representation
* the source is the list of code points starting at `lexer.start` (the first one is `first`); `lexer.codePoint` is the
  head of the remaining list (`[]` = -1, end of file); every code point the routine steps over is ASCII, so the byte
  offset `lexer.end - lexer.start` is the number of code points consumed (`St.end_`);
* `lastUnderscoreEnd` is kept relative to `lexer.start` with 0 = "never set"; every underscore of a literal has a
  relative position ≥ 1 (the first character is a digit or a dot), so the Go test `lastUnderscoreEnd > 0 && lexer.end ==
  lastUnderscoreEnd+1` is `St.prevUS`;
* `lexer.SyntaxError()` panics with `LexerPanic`: nothing after it runs.  Result `Res.err pos`, pos = the `lexer.end`
  the error is reported at (relative to `lexer.start`);
* `lexer.Number` is an `F64`.  Parameters (`Params`): `pf` = `strconv.ParseFloat(text, 64)` (error value ignored as in the
  code), `rnd` = IEEE-754 round-to-nearest-even of a non-negative integer to binary64 — used for (1) the float64
  operation `Number*base + digit` (Number is a non-negative integer-valued double, `base` a power of two, so the product
  is exact — also under FMA contraction — and the sum is rounded once; +Inf stays +Inf), (2) `float64(uint32)`,
  (3) `new(big.Float).SetInt(exact).Float64()`; `idStartNA` = `unicode.Is(idStartES5OrESNext, c)` for c ≥ 0x7F.
* not modelled: the JSON check at the end (`lexer.json == JSON`), `isMissingDigitAfterDot` (read by that check only),
  the text of the error message.
-/
namespace EsbuildModel.LexNum

structure Params where
  pf : List Char → F64
  rnd : Nat → F64
  idStartNA : Char → Bool

structure St where
  end_ : Nat       -- lexer.end - lexer.start
  lastUS : Nat     -- lastUnderscoreEnd (relative, 0 = unset)
  usCount : Nat    -- underscoreCount
  deriving Repr, DecidableEq

/-- `lexer.step()` over an ASCII code point -/
def St.step (s : St) : St := { s with end_ := s.end_ + 1 }
/-- `lastUnderscoreEnd = lexer.end; underscoreCount++` -/
def St.us (s : St) : St := { s with lastUS := s.end_, usCount := s.usCount + 1 }
/-- `lastUnderscoreEnd > 0 && lexer.end == lastUnderscoreEnd+1` -/
def St.prevUS (s : St) : Bool := decide (s.lastUS > 0) && s.end_ == s.lastUS + 1

inductive Res
  | dot
  | dotDotDot
  /-- TNumericLiteral: token length, `lexer.Number`, `lexer.IsLegacyOctalLiteral` -/
  | num (len : Nat) (v : F64) (legacy : Bool)
  /-- TBigIntegerLiteral: token length (with the `n`), `lexer.Identifier.String`, `lexer.IsLegacyOctalLiteral` -/
  | big (len : Nat) (text : List Char) (legacy : Bool)
  | err (pos : Nat)
  /-- the routine is only called on `.` or a digit -/
  | notNumeric
  deriving Repr, DecidableEq

def isDig (c : Char) : Bool := 48 ≤ c.toNat && c.toNat ≤ 57

/-- value of the digit cases of the integer loop: `codePoint-'0'`, `codePoint+10-'A'`, `codePoint+10-'a'` -/
def hexValOf (c : Char) : Option Nat :=
  if 48 ≤ c.toNat ∧ c.toNat ≤ 57 then some (c.toNat - 48)
  else if 97 ≤ c.toNat ∧ c.toNat ≤ 102 then some (c.toNat - 87)
  else if 65 ≤ c.toNat ∧ c.toNat ≤ 70 then some (c.toNat - 55)
  else none

def headIsDig (l : List Char) : Bool :=
  match l with
  | c :: _ => isDig c
  | [] => false

/-- `p(lexer.codePoint)` (false at the end of the file) -/
def headIs (l : List Char) (p : Char → Bool) : Bool :=
  match l with
  | c :: _ => p c
  | [] => false

/-- `js_ast.IsIdentifierStart` -/
def isIdStart (P : Params) (c : Char) : Bool :=
  c == '_' || c == '$' || (97 ≤ c.toNat && c.toNat ≤ 122) || (65 ≤ c.toNat && c.toNat ≤ 90) ||
  (decide (c.toNat ≥ 0x7F) && P.idStartNA c)

/-- the three digit loops of the floating-point branch ("Initial digits", "Fractional digits", exponent digits):
digits and underscores; `il` = `isInvalidLegacyOctalLiteral` (tested in the first loop only) -/
def digLoop (il : Bool) : List Char → St → Except Nat (List Char × St)
  | [], st => .ok ([], st)
  | c :: cs, st =>
    if isDig c then digLoop il cs st.step
    else if c ≠ '_' then .ok (c :: cs, st)
    else if st.prevUS then .error st.end_
    else if il then .error st.end_
    else digLoop il cs st.us.step

/-- `lexer.Number = lexer.Number*base + float64(digit)` -/
def accStep (P : Params) (x : F64) (base d : Nat) : F64 :=
  match x with
  | .fin _ m e => P.rnd (F64.truncAbs m e * base + d)
  | o => o

/-- the `integerLiteral:` loop; state: remaining input, positions, `isFirst`, `isInvalidLegacyOctalLiteral`, `lexer.Number` -/
def intLoop (P : Params) (base : Nat) (legacy : Bool) :
    List Char → St → Bool → Bool → F64 → Except Nat (List Char × St × Bool × F64)
  | [], st, isFirst, inv, x => if isFirst then .error st.end_ else .ok ([], st, inv, x)
  | c :: cs, st, isFirst, inv, x =>
    if c = '_' then
      if st.prevUS then .error st.end_
      else if isFirst || legacy then .error st.end_
      else intLoop P base legacy cs st.us.step false inv x
    else
      match hexValOf c with
      | some d =>
        if d < 2 then intLoop P base legacy cs st.step false inv (accStep P x base d)
        else if d < 8 then
          if base = 2 then .error st.end_
          else intLoop P base legacy cs st.step false inv (accStep P x base d)
        else if d < 10 then
          if legacy then intLoop P base legacy cs st.step false true (accStep P x base d)
          else if base < 10 then .error st.end_
          else intLoop P base legacy cs st.step false inv (accStep P x base d)
        else
          if base ≠ 16 then .error st.end_
          else intLoop P base legacy cs st.step false inv (accStep P x base d)
      | none => if isFirst then .error st.end_ else .ok (c :: cs, st, inv, x)

/-- "Filter out underscores" (`if underscoreCount > 0`) -/
def stripUS (usCount : Nat) (raw : List Char) : List Char :=
  if usCount > 0 then raw.filter (fun c => c != '_') else raw

/-- `big.Int.SetString(digits, base)` for base 2, 8, 16 on a text without sign: `none` = `ok == false` -/
def parseRadix (base : Nat) : List Char → Option Nat
  | [] => none
  | c :: cs => go (c :: cs) 0
where go : List Char → Nat → Option Nat
  | [], a => some a
  | c :: cs, a =>
    match hexValOf c with
    | some d => if d < base then go cs (a * base + d) else none
    | none => none

/-- the "very fast path": `number = number*10 + uint32(c-'0')` in uint32 arithmetic -/
def u32Loop (t : List Char) : Nat :=
  t.foldl (fun n c => (n * 10 + (c.toNat + 4294967296 - 48)) % 4294967296) 0

/-- `lexer.Number >= 1<<53` -/
def ge53 (x : F64) : Bool := F64.ieeeGe x (.fin false (2 ^ 53) 0)

/-- the common tail: underscore-at-end check, the bigint suffix, "Identifiers can't occur immediately after numbers" -/
def finish (P : Params) (r : List Char) (s : St) (hasDotOrExp legacy : Bool) (v : F64) (ident : List Char) : Res :=
  if s.prevUS then .err (s.end_ - 1)
  else
    let isBig := headIs r (fun c => c == 'n') && !hasDotOrExp
    let r' := if isBig then r.tail else r
    let e' := if isBig then s.end_ + 1 else s.end_
    if headIs r' (isIdStart P) then .err e'
    else if isBig then .big e' ident legacy else .num e' v legacy

def st1 : St := ⟨1, 0, 0⟩

/-- "Fractional digits"; the Bool is `hasDotOrExponent` -/
def fracPart (first : Char) (r1 : List Char) (s1 : St) : Except Nat (List Char × St × Bool) :=
  match r1 with
  | c :: r =>
    if first ≠ '.' ∧ c = '.' then
      if s1.prevUS then .error (s1.end_ - 1)
      else if headIs r (fun d => d == '_') then .error s1.step.end_
      else
        match digLoop false r s1.step with
        | .error p => .error p
        | .ok (r2, s2) => .ok (r2, s2, true)
    else .ok (r1, s1, first == '.')
  | [] => .ok (r1, s1, first == '.')

/-- `if lexer.codePoint == '+' || lexer.codePoint == '-' { lexer.step() }` -/
def signStep (r : List Char) (s : St) : List Char × St :=
  match r with
  | sg :: r' => if sg = '+' ∨ sg = '-' then (r', s.step) else (r, s)
  | [] => (r, s)

/-- "Exponent"; the Bool says whether an exponent was read -/
def expPart (r2 : List Char) (s2 : St) : Except Nat (List Char × St × Bool) :=
  match r2 with
  | c :: r =>
    if c = 'e' ∨ c = 'E' then
      if s2.prevUS then .error (s2.end_ - 1)
      else
        let rs := signStep r s2.step
        if !headIsDig rs.1 then .error rs.2.end_
        else
          match digLoop false rs.1 rs.2 with
          | .error p => .error p
          | .ok (r3, s3) => .ok (r3, s3, true)
    else .ok (r2, s2, false)
  | [] => .ok (r2, s2, false)

/-- the `else` branch "Floating-point literal" followed by the common tail.  `src = first :: rest`. -/
def floatPath (P : Params) (first : Char) (src rest : List Char) : Res :=
  let il := first == '0' && headIs rest (fun c => c == '8' || c == '9')
  match digLoop il rest st1 with
  | .error p => .err p
  | .ok (r1, s1) =>
    match fracPart first r1 s1 with
    | .error p => .err p
    | .ok (r2, s2, hd) =>
      match expPart r2 s2 with
      | .error p => .err p
      | .ok (r3, s3, he) =>
        let hasDE := hd || he
        -- "Take a slice of the text to parse", "Filter out underscores"
        let text := stripUS s3.usCount (src.take s3.end_)
        if headIs r3 (fun c => c == 'n') && !hasDE then
          -- "The only bigint literal that can start with 0 is 0n"
          if decide (text.length > 1) && first == '0' then .err s3.end_
          else finish P r3 s3 hasDE il (P.rnd 0) text
        else if !hasDE && decide (s3.end_ < 10) then
          finish P r3 s3 hasDE il (P.rnd (u32Loop text)) []
        else finish P r3 s3 hasDE il (P.pf text) []

/-- the `if base != 0` branch "Integer literal" followed by the common tail.  `src = '0' :: rest`. -/
def basePath (P : Params) (src rest : List Char) (base : Nat) (legacy : Bool) : Res :=
  -- `if !lexer.IsLegacyOctalLiteral { lexer.step() }`
  let cs := if legacy then rest else rest.tail
  let s0 := if legacy then st1 else st1.step
  match intLoop P base legacy cs s0 true false (P.rnd 0) with
  | .error p => .err p
  | .ok (r, s, inv, x) =>
    let isBig := headIs r (fun c => c == 'n')
    -- the exact re-conversion above 2^53
    let x :=
      if ge53 x && !isBig && !inv then
        let digits := ((src.take s.end_).filter (fun c => c != '_')).drop (if legacy then 1 else 2)
        match parseRadix base digits with
        | some n => P.rnd n
        | none => x
      else x
    -- "Slow path: do we need to re-scan the input as text?"
    if isBig || inv then
      if isBig && legacy then .err s.end_
      else
        let text := stripUS s.usCount (src.take s.end_)
        let x := if isBig then x else P.pf text
        finish P r s false legacy x text
    else finish P r s false legacy x []

/-- `parseNumericLiteralOrDot` on the source text from `lexer.start` -/
def lexNum (P : Params) (src : List Char) : Res :=
  match src with
  | [] => .notNumeric
  | first :: rest =>
    if first = '.' then
      if !headIsDig rest then
        match rest with
        | c1 :: c2 :: _ => if c1 = '.' ∧ c2 = '.' then .dotDotDot else .dot
        | _ => .dot
      else floatPath P first src rest
    else if isDig first then
      if first = '0' then
        match rest with
        | c :: _ =>
          if c = 'b' ∨ c = 'B' then basePath P src rest 2 false
          else if c = 'o' ∨ c = 'O' then basePath P src rest 8 false
          else if c = 'x' ∨ c = 'X' then basePath P src rest 16 false
          else if (48 ≤ c.toNat ∧ c.toNat ≤ 55) ∨ c = '_' then basePath P src rest 8 true
          else floatPath P first src rest
        | [] => floatPath P first src rest
      else floatPath P first src rest
    else .notNumeric

-- ---------------------------------------------------------------- driver instances of the parameters

def natOfDigits (ds : List Char) : Nat := ds.foldl (fun a c => a * 10 + (c.toNat - 48)) 0

/-- reference decimal → binary64 conversion (correctly rounded, ties to even): the driver's instance of the
`strconv.ParseFloat` parameter on texts `digits* [. digits*] [(e|E) [+-] digits+]` -/
def parseFloatRef (t : List Char) : F64 :=
  let intDs := t.takeWhile isDig
  let r := t.dropWhile isDig
  let fr : List Char × List Char :=
    match r with
    | c :: r' => if c = '.' then (r'.takeWhile isDig, r'.dropWhile isDig) else ([], r)
    | [] => ([], r)
  let ex : Int :=
    match fr.2 with
    | c :: r' =>
      if c = 'e' ∨ c = 'E' then
        match r' with
        | s :: ds => if s = '-' then -(natOfDigits ds : Int) else if s = '+' then (natOfDigits ds : Int) else (natOfDigits r' : Int)
        | [] => 0
      else 0
    | [] => 0
  let ms := intDs ++ fr.1
  let m := natOfDigits ms
  let e : Int := ex - (fr.1.length : Int)
  if m = 0 then F64.round false 0 0
  else if e ≥ 0 then
    if e > 400 then .inf false else F64.round false (m * 10 ^ e.toNat) 0
  else
    let k := (-e).toNat
    if k > ms.length + 400 then F64.round false 0 0
    else
      let q := m * 2 ^ 1080 / 10 ^ k
      let sticky : Nat := if m * 2 ^ 1080 % 10 ^ k = 0 then 0 else 1
      F64.round false (2 * q + sticky) (-1081)

/-- the non-ASCII code points the correspondence generator places after a literal, with their ID_Start status -/
def driverIdStartNA (c : Char) : Bool :=
  c.toNat == 0xE9 || c.toNat == 0x3C0 || c.toNat == 0x1D4B3 || c.toNat == 0xAA || c.toNat == 0x4E2D

def driverParams : Params := ⟨parseFloatRef, fun n => F64.round false n 0, driverIdStartNA⟩

def showRes : Res → String
  | .dot => "dot"
  | .dotDotDot => "dotdotdot"
  | .num len v legacy => s!"num {len} {Wire.hexUnit 16 (F64.toBits v)} {if legacy then 1 else 0}"
  | .big len text legacy => s!"big {len} {String.ofList text} {if legacy then 1 else 0}"
  | .err pos => s!"err {pos}"
  | .notNumeric => "not-numeric"

/-- `lexnum\t<code points, comma separated>` -/
def driver (args : List String) : String :=
  match args with
  | [cps] =>
    match Wire.parseNatList cps with
    | some l => showRes (lexNum driverParams (l.map Char.ofNat))
    | none => "bad-op"
  | _ => "bad-op"

end EsbuildModel.LexNum
