import EsbuildModel.Util.Wire
/-
Model of the linker's output-piece machinery (internal/linker/linker.go):
`breakOutputIntoPieces`, `substituteFinalPaths` (byte result), `accurateFinalByteCount`,
`hashWriteUint32`, `hashWriteLengthPrefixed`.
Bytes are `Nat`s < 256.
-/
namespace EsbuildModel.Pieces

inductive Kind | none | asset | chunk
  deriving DecidableEq, Repr

structure Piece where
  data : List Nat
  index : Nat
  kind : Kind
  /-- ghost: the key bytes that followed `data` in the scanned output (empty for the final piece) -/
  raw : List Nat := []
  deriving DecidableEq, Repr

/-- `bytes.Index(s, pre)` -/
def indexOf (pre : List Nat) : List Nat → Option Nat
  | [] => if pre.isEmpty then some 0 else none
  | x :: xs => if pre.isPrefixOf (x :: xs) then some 0 else (indexOf pre xs).map (· + 1)

/-- the 8-digit loop: `none` when a byte is not an ASCII digit -/
def parseDigits : List Nat → Nat → Option Nat
  | [], acc => some acc
  | c :: cs, acc => if c < 48 ∨ c > 57 then none else parseDigits cs (acc * 10 + (c - 48))

/-- "Try to parse the piece boundary" + "Validate the boundary": the key that starts right after
the prefix, given the 9 bytes following it. -/
def parseKey (nFiles nChunks : Nat) (nine : List Nat) : Option (Kind × Nat) :=
  match nine with
  | k :: digits =>
    let kind := if k = 65 then Kind.asset else if k = 67 then Kind.chunk else Kind.none
    match parseDigits digits 0 with
    | none => none
    | some index =>
      match kind with
      | .asset => if index ≥ nFiles then none else some (kind, index)
      | .chunk => if index ≥ nChunks then none else some (kind, index)
      | .none => none
  | [] => none

/-- `breakOutputIntoPieces`; `fuel` bounds the number of loop iterations (each consumes ≥ 9 bytes). -/
def breakOutput (pre : List Nat) (nFiles nChunks : Nat) : Nat → List Nat → List Piece
  | 0, output => [{ data := output, index := 0, kind := .none }]
  | fuel + 1, output =>
    match indexOf pre output with
    | none => [{ data := output, index := 0, kind := .none }]
    | some boundary =>
      let start := boundary + pre.length
      if start + 9 > output.length then [{ data := output, index := 0, kind := .none }]
      else
        match parseKey nFiles nChunks ((output.drop start).take 9) with
        | none => [{ data := output, index := 0, kind := .none }]
        | some (kind, index) =>
          { data := output.take boundary, index := index, kind := kind,
            raw := (output.drop boundary).take (pre.length + 9) }
            :: breakOutput pre nFiles nChunks fuel (output.drop (boundary + pre.length + 9))

/-- bytes appended by `substituteFinalPaths` for all pieces; `pathOf` abstracts `modifyPath(...)`. -/
def substitute (pathOf : Kind → Nat → List Nat) : List Piece → List Nat
  | [] => []
  | p :: ps =>
    p.data ++ (match p.kind with | .none => [] | k => pathOf k p.index) ++ substitute pathOf ps

/-- `accurateFinalByteCount` -/
def byteCount (pathOf : Kind → Nat → List Nat) : List Piece → Nat
  | [] => 0
  | p :: ps =>
    p.data.length + (match p.kind with | .none => 0 | k => (pathOf k p.index).length) + byteCount pathOf ps

/-- `binary.LittleEndian.PutUint32` -/
def le32 (v : Nat) : List Nat := [v % 256, v / 256 % 256, v / 65536 % 256, v / 16777216 % 256]

/-- `hashWriteLengthPrefixed` -/
def lenPrefixed (b : List Nat) : List Nat := le32 (b.length % 4294967296) ++ b

/-- a sequence of `hashWriteLengthPrefixed` calls -/
def preimage (items : List (List Nat)) : List Nat := items.flatMap lenPrefixed

-- ---------------------------------------------------------------- driver
open Wire

def kindCode : Kind → Nat | .none => 0 | .asset => 1 | .chunk => 2
def kindOf : Nat → Kind | 1 => .asset | 2 => .chunk | _ => .none

def showPieces (ps : List Piece) : String :=
  " ".intercalate (ps.map fun p => s!"{hexUnits 2 p.data}:{kindCode p.kind}:{p.index}")

def parsePieces (s : String) : Option (List Piece) :=
  if s = "-" then some [] else
  (s.splitOn " ").mapM fun item =>
    match item.splitOn ":" with
    | [d, k, i] => do
      let d ← parseHexUnits 2 d
      let k ← parseNat k
      let i ← parseNat i
      pure { data := d, index := i, kind := kindOf k }
    | _ => none

def driver (args : List String) : String :=
  match args with
  | ["break", pre, nf, nc, out] =>
    match parseHexUnits 2 pre, parseNat nf, parseNat nc, parseHexUnits 2 out with
    | some pre, some nf, some nc, some out => showPieces (breakOutput pre nf nc (out.length + 1) out)
    | _, _, _, _ => "bad-op"
  | ["subst", paths, pieces] =>
    -- paths: space separated hex strings = final import path per chunk index
    match (if paths = "-" then some [] else (paths.splitOn " ").mapM (parseHexUnits 2)), parsePieces pieces with
    | some paths, some ps =>
      let pathOf : Kind → Nat → List Nat := fun _ i => paths.getD i []
      s!"{hexUnits 2 (substitute pathOf ps)} {byteCount pathOf ps}"
    | _, _ => "bad-op"
  | ["preimage", items] =>
    match (if items = "." then some [] else (items.splitOn " ").mapM (parseHexUnits 2)) with
    | some items => hexUnits 2 (preimage items)
    | none => "bad-op"
  | _ => "bad-op"

end EsbuildModel.Pieces
