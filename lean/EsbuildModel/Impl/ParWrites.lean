/-
C08 (determinism under every goroutine schedule) — the interleaving model behind the classification of
`Gen/ParWrites.lean` / `Impl/ParWritesReview.lean`.

esbuild forks workers with `go func` and joins them with a `sync.WaitGroup` (or by receiving from a channel).
What the join observes is the state after SOME interleaving of the workers' atomic steps. The model:

* a worker is the list of its atomic steps (`σ → σ`), executed in program order;
* a schedule is any merge (`Merge`) of the workers' step lists: at every point some worker that still has steps
  left executes its next one — ANY number of workers, ANY such merge;
* `run` executes a merged step list; the sequential loop (`for i := range xs { body(i) }` without `go`) is the
  merge that runs worker 0 to completion, then worker 1, … (`List.flatten`).

Atomicity of a step is what the Go memory model gives to (a) a write to a location no other goroutine touches
before the join, (b) a critical section between `Lock`/`Unlock` of one mutex, (c) a channel send, (d) a sync/atomic
operation.  What the model does NOT give: two steps of different workers that touch the same unprotected location
(a data race) have no meaning here at all — the extractor's job is to show there are none (`slot` discipline).

Also here: the line protocol of kernel `parwrites` (schedule-perturbation correspondence).
-/
namespace EsbuildModel.ParWrites

/-- `Merge ls out`: `out` is an interleaving of the lists `ls` that keeps each list's own order. -/
inductive Merge {α : Type} : List (List α) → List α → Prop
  | done {ls : List (List α)} : (∀ l ∈ ls, l = []) → Merge ls []
  | step {ls : List (List α)} {out : List α} (i : Nat) (h : i < ls.length) (a : α) (rest : List α) :
      ls[i] = a :: rest → Merge (ls.set i rest) out → Merge ls (a :: out)

/-- execute a list of atomic steps -/
def run {σ : Type} (steps : List (σ → σ)) (s : σ) : σ := steps.foldl (fun s f => f s) s

/-- steps of DIFFERENT workers commute (as state transformers) -/
def CrossCommute {σ : Type} (ls : List (List (σ → σ))) : Prop :=
  ∀ (i j : Nat) (hi : i < ls.length) (hj : j < ls.length), i ≠ j →
    ∀ a ∈ ls[i], ∀ b ∈ ls[j], ∀ s, a (b s) = b (a s)

/-! ### 1. slot writers -/

/-- memory: slots addressed by a number (a slice `x` of the forking function; `x[k]` is slot k) -/
abbrev Mem (V : Type) := Nat → V

/-- write `g (old value)` into slot `i`: everything a `slot` worker does to shared memory. `g` may close over
any data that was fixed before the fork; it does not see the other slots. -/
def slotStep {V : Type} (i : Nat) (g : V → V) : Mem V → Mem V :=
  fun m k => if k = i then g (m i) else m k

/-- the atomic steps of worker `i`, whose program is the list `gs` of updates of its own slot -/
def slotWorker {V : Type} (i : Nat) (gs : List (V → V)) : List (Mem V → Mem V) := gs.map (slotStep i)

/-- workers 0 … n-1, worker i running `progs[i]` on slot i -/
def slotWorkersFrom {V : Type} : Nat → List (List (V → V)) → List (List (Mem V → Mem V))
  | _, [] => []
  | i, gs :: rest => slotWorker i gs :: slotWorkersFrom (i + 1) rest

def slotWorkers {V : Type} (progs : List (List (V → V))) : List (List (Mem V → Mem V)) := slotWorkersFrom 0 progs

/-- what the sequential loop leaves in the array: slot k went through worker k's updates, the rest is untouched -/
def sequentialResult {V : Type} (progs : List (List (V → V))) (m : Mem V) : Mem V :=
  fun k => match progs[k]? with
    | some gs => gs.foldl (fun v g => g v) (m k)
    | none => m k

/-- a worker that READS a neighbour's slot (copies slot `j` into its own slot `i`): NOT a slot worker -/
def copyStep {V : Type} (i j : Nat) : Mem V → Mem V := fun m k => if k = i then m j else m k

/-! ### 2. accumulators under a mutex -/

/-- an accumulator: state `σ`, operations `op x`, any two of which commute -/
structure CommAcc (σ X : Type) where
  op : X → σ → σ
  comm : ∀ x y s, op x (op y s) = op y (op x s)

/-- the critical sections of a worker that applies `xs` one after the other, each under the mutex -/
def accWorker {σ X : Type} (A : CommAcc σ X) (xs : List X) : List (σ → σ) := xs.map A.op

/-- counter add (`atomic.AddInt32`, `n += k` under a mutex) -/
def counterAcc : CommAcc Int Int := ⟨fun x s => s + x, by intro x y s; omega⟩

/-- set insert / union into a set given by its membership predicate -/
def setAcc (K : Type) [DecidableEq K] : CommAcc (K → Bool) K :=
  ⟨fun x s k => if k = x then true else s k, by
    intro x y s; funext k; by_cases h1 : k = x <;> by_cases h2 : k = y <;> simp [h1, h2]⟩

/-- map store `m[k] = v` (a map is a partial function) -/
def mapInsert {K V : Type} [DecidableEq K] (kv : K × V) (m : K → Option V) : K → Option V :=
  fun k => if k = kv.1 then some kv.2 else m k

/-! ### 3. channel, then sort -/

/-- the receiver's view: it appends what it receives; the sends of one worker arrive in that worker's order -/
def received {R : Type} (arrival : List R) : List R := arrival

/-! ### 4. first writer wins -/

/-- `mutex.Lock(); if firstErr == nil { firstErr = e }; mutex.Unlock()` -/
def firstWins {E : Type} (e : E) : Option E → Option E
  | none => some e
  | some x => some x

/-! ### line protocol of kernel `parwrites`

`parwrites <TAB> digest₁ <TAB> digest₂ …` — the digests of the same build under different schedules
(GOMAXPROCS, delays in plugin callbacks). Answer `same:<digest>` when all are equal (and there are ≥ 2),
`DIFFERENT` otherwise. -/
def driver (args : List String) : String :=
  match args with
  | d :: rest@(_ :: _) =>
    if d.isEmpty then "bad-op"
    else if rest.all (· == d) then "same:" ++ d else "DIFFERENT"
  | _ => "bad-op"

end EsbuildModel.ParWrites
