/-
Executable versions of the hypotheses of Props/C02ExportMatch.lean and an evaluator of the theorem statements on a
concrete table (driver operation `thm`): the correspondence kernel sends every real table through it, so the statements
are also *tested* on the tables the real linker produced (answer `ok …` or `FAIL …`).  Nothing here is used in a proof.
-/
import EsbuildModel.Impl.ExportMatchView
namespace EsbuildModel.ExportMatch
open EsbuildModel.Spec EsbuildModel.Spec.EsModules

def nodupB {α : Type} [DecidableEq α] : List α → Bool
  | [] => true
  | a :: as => !as.contains a && nodupB as

def esmOnlyB (t : Table) : Bool :=
  t.all (fun f => f.kind = .esm && !f.noExports && !f.isTS && f.stars.all Option.isSome && f.imports.all (·.target.isSome))

def wfB (t : Table) : Bool :=
  t.all (fun f =>
    f.stars.all (fun s => match s with | some o => decide (o < t.length) | none => true) &&
    f.imports.all (fun ni => match ni.target with | some o => decide (o < t.length) | none => true) &&
    nodupB (f.imports.map (·.ref)) && nodupB (f.exports.map (·.alias)) &&
    !f.imports.any (·.ref = f.exportsRef) && !f.exports.any (·.ref = f.exportsRef))

/-- successors of a (module, export name) request in ResolveExport -/
def succs (T : EsModules.Table) (x : Nat × Name) : List (Nat × Name) × Bool :=
  match T[x.1]? with
  | none => ([], false)
  | some mod =>
    match mod.localExportEntries.find? (·.exportName = x.2) with
    | some _ => ([], false)
    | none =>
      match mod.indirectExportEntries.find? (·.exportName = x.2) with
      | some e =>
        match e.importName with
        | .all => ([], false)
        | .name n' => ([(e.moduleRequest, n')], true)
      | none => if x.2 = "default" then ([], false) else (mod.starExportEntries.map (fun s => (s, x.2)), false)

def closure (T : EsModules.Table) : Nat → List (Nat × Name) → List (Nat × Name) → List (Nat × Name)
  | 0, _, seen => seen
  | _ + 1, [], seen => seen
  | fuel + 1, x :: rest, seen =>
    if seen.contains x then closure T fuel rest seen
    else closure T fuel ((succs T x).1 ++ rest) (x :: seen)

def allNames (t : Table) : List Name :=
  (t.flatMap (fun f => f.exports.map (·.alias) ++ f.imports.map (·.alias))).eraseDups

/-- no named re-export leads back to itself (possibly through export stars) -/
def stratifiedB (t : Table) : Bool :=
  let T := toSpec t
  let names := allNames t
  let big := (t.length + 1) * (names.length + 2) * (t.length + 2) + 10
  (List.range t.length).all (fun m => names.all (fun n =>
    match succs T (m, n) with
    | ([y], true) => !(closure T big [y] []).contains (m, n)
    | _ => true))

/-- every named re-export resolves to a binding when looked at on its own (InitializeEnvironment step 7.a: otherwise
the module that contains it fails to link with a SyntaxError) -/
def reexportsResolveB (t : Table) : Bool :=
  let T := toSpec t
  (List.range t.length).all (fun m =>
    match T[m]? with
    | none => true
    | some mod => mod.indirectExportEntries.all (fun e =>
        match e.importName with
        | .all => true
        | .name _ => match resolveExport T m e.exportName with
          | some (.binding _) => true
          | _ => false))

def sameSet (a b : List Name) : Bool := a.all b.contains && b.all a.contains

def thmCheck (t : Table) (skip : List String := []) : String :=
  if !wfB t then "hyp:wf" else
  if !esmOnlyB t then "hyp:esm-only" else
  let T := toSpec t
  match allResolved t with
  | none => "FAIL:model-panic-resolved"
  | some resolved =>
    let c : Ctx := ⟨t, resolved, true⟩
    match matchAll c with
    | none => "FAIL:model-panic-match"
    | some results =>
      -- keys of ResolvedExports = GetExportedNames (needs no further hypothesis)
      let keysOk := (List.range t.length).all (fun m =>
        match getExportedNames T m with
        | some names => sameSet names ((resolved.getD m []).map (·.1))
        | none => false)
      if !keysOk then "FAIL:keys" else
      if !skip.contains "stratified" && !stratifiedB t then "hyp:stratified" else
      if !skip.contains "reexports-resolve" && !reexportsResolveB t then "hyp:reexports-resolve" else
      let names := "zz" :: "default" :: allNames t
      let t1 := (List.range t.length).all (fun m => names.all (fun n =>
        match resolveExport T m n, (resolved.getD m []).lookup n with
        | some .null, none => true
        | some .ambiguous, some ex => !keepAlias results ex
        | some (.binding b), some ex => keepAlias results ex && bindingOf t (finalRef results ex.src ex.ref) = b
        | _, _ => false))
      if !t1 then "FAIL:resolved-exports" else
      let nsOk := (List.range t.length).all (fun m =>
        match namespaceExports T m with
        | some names => sameSet names (filteredAliases results (resolved.getD m []))
        | none => false)
      if !nsOk then "FAIL:namespace-exports" else
      let t2 := (List.range t.length).all (fun s =>
        ((t.getD s ⟨.none, false, false, 0, [], [], []⟩).imports.zip (results.getD s [])).all (fun (ni, p) =>
          match ni.target with
          | none => false
          | some tg => resolveImport T ⟨tg, importNameOf ni, ni.ref⟩ = some (resolutionOf t p.2)))
      if !t2 then "FAIL:imports" else "ok"

end EsbuildModel.ExportMatch
