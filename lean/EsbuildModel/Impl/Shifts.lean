import EsbuildModel.Util.Wire
/-
Model of the generated-position bookkeeping that accompanies final-path substitution
(internal/sourcemap/sourcemap.go: `LineColumnOffset.Add`, `AdvanceBytes`, `AdvanceString`;
internal/linker/linker.go: the `shifts` computed by `substituteFinalPaths`).

Text is a list of code points (the harness only sends valid UTF-8, for which `utf8.DecodeRune` / `range`
yield exactly the code points).  Columns are UTF-16 code units.
-/
namespace EsbuildModel.Shifts

structure LC where
  lines : Nat
  cols : Nat
deriving Repr, DecidableEq

def isTerm (c : Nat) : Bool := c == 13 || c == 10 || c == 0x2028 || c == 0x2029

/-- `AdvanceBytes` / `AdvanceString` -/
def advance : LC → List Nat → LC
  | o, [] => o
  | o, c :: rest =>
    if isTerm c then
      if c == 13 && rest.head? == some 10 then advance ⟨o.lines, o.cols + 1⟩ rest
      else advance ⟨o.lines + 1, 0⟩ rest
    else advance ⟨o.lines, o.cols + (if c ≤ 0xFFFF then 1 else 2)⟩ rest

/-- `LineColumnOffset.Add` -/
def add (a b : LC) : LC :=
  if b.lines = 0 then ⟨a.lines, a.cols + b.cols⟩ else ⟨a.lines + b.lines, b.cols⟩

structure Piece where
  data : List Nat
  /-- (unique key, final import path) when the piece ends in a placeholder -/
  subst : Option (List Nat × List Nat)
deriving Repr

structure Shift where
  before : LC
  after : LC
deriving Repr, DecidableEq

/-- the loop of `substituteFinalPaths`: the running shift and the shifts appended so far -/
def loop : Shift → List Piece → List Shift
  | _, [] => []
  | sh, p :: ps =>
    let d := advance ⟨0, 0⟩ p.data
    let sh1 : Shift := ⟨add sh.before d, add sh.after d⟩
    match p.subst with
    | none => loop sh1 ps
    | some (key, path) =>
      let sh2 : Shift := ⟨advance sh1.before key, advance sh1.after path⟩
      sh2 :: loop sh2 ps

/-- `shifts` as returned (the zero shift first) -/
def shifts (ps : List Piece) : List Shift := ⟨⟨0, 0⟩, ⟨0, 0⟩⟩ :: loop ⟨⟨0, 0⟩, ⟨0, 0⟩⟩ ps

-- ---------------------------------------------------------------- driver
open Wire

def showShift (s : Shift) : String := s!"{s.before.lines}:{s.before.cols}>{s.after.lines}:{s.after.cols}"

/-- piece syntax: `data/key/path` (comma-separated code points, "-" empty; key "x" = no placeholder) -/
def parsePiece (s : String) : Option Piece :=
  match s.splitOn "/" with
  | [d, k, p] => do
    let d ← parseNatList d
    if k = "x" then pure ⟨d, none⟩ else
    let k ← parseNatList k
    let p ← parseNatList p
    pure ⟨d, some (k, p)⟩
  | _ => none

def driver (args : List String) : String :=
  match args with
  | ["shifts", pieces] =>
    match (if pieces = "." then some [] else (pieces.splitOn " ").mapM parsePiece) with
    | some ps => " ".intercalate ((shifts ps).map showShift)
    | none => "bad-op"
  | _ => "bad-op"

end EsbuildModel.Shifts
