import EsbuildModel.Impl.FsCache
/-
Histories: a world of numbered paths (each holds a regular file or nothing), a clock, edits, and the calls esbuild
makes (`FSCache.ReadFile(fs, path)` = `fs.ModKey(path)`, then on a miss `fs.ReadFile(path)`; a direct
`fs.ReadFile(path)` as resolver.go does for the package.json of an `extends` package; a new `realFS` per build;
`WatchData()` at the end of a build). Between the `ModKey` call and the `ReadFile` call of one `FSCache.ReadFile`
other processes may act (`mids`).
-/
namespace EsbuildModel.FsCache
open EsbuildModel.StatCache

structure Cfg where
  plat : Platform
  gapSec : Int        -- modKeySafetyGap
  res : Int           -- time-stamp resolution of the file system in ns
  deriving Repr

abbrev World := Nat → Option File

/-- what other processes do to one path -/
inductive Edit where
  | write (p : Nat) (c : Contents)                             -- write in place (no-op when the path is empty)
  | create (p : Nat) (ino mode uid : Nat) (c : Contents)       -- O_CREAT|O_TRUNC: new file, or in place when it exists
  | replace (p : Nat) (ino mode uid : Nat) (c : Contents)      -- a file written now is renamed over the path
  | touch (p : Nat)                                            -- utimes(now)
  | chmod (p : Nat) (mode : Nat)
  | chown (p : Nat) (uid : Nat)
  | delete (p : Nat)
  | chtimes (p : Nat) (m : Int)                                -- utimes(arbitrary time)
  | moveIn (p : Nat) (f : File)                                -- an arbitrary existing file is renamed over the path
  deriving DecidableEq, Repr

def Edit.path : Edit → Nat
  | .write p _ | .create p _ _ _ _ | .replace p _ _ _ _ | .touch p | .chmod p _ | .chown p _ | .delete p
  | .chtimes p _ | .moveIn p _ => p

/-- the file at the edit's path afterwards, given the file there before -/
def Edit.result (res clock : Int) (old : Option File) : Edit → Option File
  | .write _ c => old.map fun f => { f with contents := c, mtime := stamp res clock }
  | .create _ ino mode uid c =>
    match old with
    | some f => some { f with contents := c, mtime := stamp res clock }
    | none => some ⟨ino, stamp res clock, mode, uid, c⟩
  | .replace _ ino mode uid c => some ⟨ino, stamp res clock, mode, uid, c⟩
  | .touch _ => old.map fun f => { f with mtime := stamp res clock }
  | .chmod _ mode => old.map fun f => { f with mode := mode }
  | .chown _ uid => old.map fun f => { f with uid := uid }
  | .delete _ => none
  | .chtimes _ m => old.map fun f => { f with mtime := m }
  | .moveIn _ f => some f

/-- steps that do not involve esbuild -/
inductive Act where
  | edit (e : Edit)
  | tick (d : Nat)             -- time passes
  | setClock (t : Int)         -- the administrator (or NTP) sets the clock
  deriving DecidableEq, Repr

inductive Op where
  | act (a : Act)
  | read (p : Nat) (mids : List Act)      -- FSCache.ReadFile(fs, p); `mids` happen between fs.ModKey and fs.ReadFile
  | rawRead (p : Nat)                     -- fs.ReadFile(p) without the cache (resolver.go, tsconfig `extends` of a package)
  | newBuild                              -- a rebuild starts: a fresh realFS (watch data empty), same CacheSet
  deriving Repr

/-- one line of the evidence about a read -/
structure LogEntry where
  path : Nat
  hit : Bool
  answer : ReadRes
  atStat : Option File       -- the file when fs.ModKey looked
  atRead : Option File       -- the file when fs.ReadFile looked (= atStat for a hit: nothing is read)
  deriving DecidableEq, Repr

structure State where
  clock : Int
  world : World
  cache : Cache
  wd : Nat → Option WD
  log : List LogEntry
  -- ghost state (nothing above depends on it)
  seen : Nat → List Nat                -- inode numbers the path has held so far
  lastRead : Nat → Option ReadRes      -- the answer of the last read of the path in the current build
  sawMissing : Nat → Bool              -- a stat or a read of the path failed in the current build
  flip : Nat → Bool                    -- … and a later read of it in the same build succeeded

def inoOf : Option File → List Nat
  | none => []
  | some f => [f.inode]

def State.init (clock : Int) (w : World) : State :=
  { clock := clock, world := w, cache := fun _ => none, wd := fun _ => none, log := [],
    seen := fun p => inoOf (w p), lastRead := fun _ => none, sawMissing := fun _ => false, flip := fun _ => false }

def stepAct (cfg : Cfg) (s : State) : Act → State
  | .edit e =>
    let p := e.path
    let f' := e.result cfg.res s.clock (s.world p)
    { s with world := upd s.world p f', seen := upd s.seen p (inoOf f' ++ s.seen p) }
  | .tick d => { s with clock := s.clock + d }
  | .setClock t => { s with clock := t }

def runActs (cfg : Cfg) (s : State) : List Act → State
  | [] => s
  | a :: as => runActs cfg (stepAct cfg s a) as

/-- what `realFS.ModKey(p)` records (and the ghost bit) -/
def statPhase (cfg : Cfg) (s : State) (p : Nat) : State :=
  let kr := modKey cfg.plat cfg.gapSec s.clock (s.world p)
  { s with wd := upd s.wd p (some (wdModKey (s.wd p) kr)),
           sawMissing := upd s.sawMissing p (s.sawMissing p || decide (kr = .err)) }

/-- `FSCache.ReadFile(fs, p)` on the real file system in watch mode -/
def stepRead (cfg : Cfg) (s : State) (p : Nat) (mids : List Act) : State :=
  -- modKey, modKeyErr := fs.ModKey(path)
  let kr := modKey cfg.plat cfg.gapSec s.clock (s.world p)
  let f0 := s.world p
  let s := statPhase cfg s p
  match hitOf (s.cache p) kr with
  | some c =>
    { s with log := s.log ++ [LogEntry.mk p true (.ok c) f0 f0], lastRead := upd s.lastRead p (some (.ok c)),
             flip := upd s.flip p (s.flip p || s.sawMissing p) }
  | none =>
    let s := runActs cfg s mids
    -- contents, err, originalError := fs.ReadFile(path)
    let rd := resOf (s.world p)
    let s := { s with wd := upd s.wd p (some (wdReadFile (s.wd p) rd)), log := s.log ++ [LogEntry.mk p false rd f0 (s.world p)],
                      lastRead := upd s.lastRead p (some rd) }
    match rd with
    | .err => { s with sawMissing := upd s.sawMissing p true }
    | .ok c => { s with cache := upd s.cache p (some (entryOf c kr)), flip := upd s.flip p (s.flip p || s.sawMissing p) }

/-- `fs.ReadFile(p)` directly -/
def stepRawRead (s : State) (p : Nat) : State :=
  let rd := resOf (s.world p)
  let s := { s with wd := upd s.wd p (some (wdReadFile (s.wd p) rd)), log := s.log ++ [LogEntry.mk p false rd (s.world p) (s.world p)],
                    lastRead := upd s.lastRead p (some rd) }
  match rd with
  | .err => { s with sawMissing := upd s.sawMissing p true }
  | .ok _ => { s with flip := upd s.flip p (s.flip p || s.sawMissing p) }

def step (cfg : Cfg) (s : State) : Op → State
  | .act a => stepAct cfg s a
  | .read p mids => stepRead cfg s p mids
  | .rawRead p => stepRawRead s p
  | .newBuild => { s with wd := fun _ => none, lastRead := fun _ => none, sawMissing := fun _ => false, flip := fun _ => false }

def run (cfg : Cfg) (s : State) : List Op → State
  | [] => s
  | op :: ops => run cfg (step cfg s op) ops

/-- `WatchData()` at the end of a build: every slot still in `stateFileNeedModKey` gets a key taken now -/
def resolveWatchData (cfg : Cfg) (s : State) : State :=
  { s with wd := fun p => (s.wd p).map fun d => wdResolve d (modKey cfg.plat cfg.gapSec s.clock (s.world p)) }

/-- the watcher polls path `p` in state `s` with the predicate made from slot `d` -/
def pollFires (cfg : Cfg) (s : State) (p : Nat) (d : WD) : Bool :=
  predFires d (modKey cfg.plat cfg.gapSec s.clock (s.world p)) (s.world p)

end EsbuildModel.FsCache
