import EsbuildModel.Impl.CssLexTok
/-
Model of the token → text half of `internal/css_printer/css_printer.go`: `printIdent`, `printWithEscape`,
`printQuoted`, `printQuotedWithQuote`, `bestQuoteCharForString`, `printIndent`, `functionMultiLineCommaPeriod`,
`printTokens`, and of `css_lexer.WouldStartIdentifierWithoutEscapes`.

Options that are modelled: `MinifyWhitespace`, `ASCIIOnly`, `UnsupportedFeatures.Has(compat.InlineStyle)`.
`LineLimit` is 0 (no wrapping), `AddSourceMappings` is off, `TSymbol` tokens (local CSS names, they need the symbol
table) are not modelled: `printTokens` answers `none` for them, as it does where Go would panic (a `TFunction`
without `Children`, `UnitOffset` beyond the text).  A `TURL` token carries the text of its import record
(`p.importRecords[t.PayloadIndex].Path.Text`) in the field `url`; the record never has `ContainsUniqueKey` here.
Texts are byte strings; `for i, c := range text` and `utf8.DecodeRuneInString` are `decodeAll`.
-/
namespace EsbuildModel.CssLex

structure POpts where
  minify : Bool
  asciiOnly : Bool
  /-- `p.options.UnsupportedFeatures.Has(compat.InlineStyle)` -/
  inlineStyleUnsupported : Bool
deriving Repr

/-- `escapeKind` -/
inductive Esc where
  | none | backslash | hex
deriving DecidableEq, Repr

/-- `identMode` -/
inductive IdentMode where
  | normal | hash | dimensionUnit | dimensionUnitAfterExponent
deriving DecidableEq, Repr

def isHexDigitCp (c : Nat) : Bool := (isHex c).isSome

/-- one lower-case hexadecimal digit -/
def hexChar (d : Nat) : Nat := if d < 10 then 48 + d else 87 + d

/-- `fmt.Sprintf("%x", c)`: lower-case hexadecimal, most significant digit first, no leading zeros -/
def hexDigitsOf (c : Nat) : List Nat :=
  if c < 16 then [hexChar c] else hexDigitsOf (c / 16) ++ [hexChar (c % 16)]
termination_by c
decreasing_by omega

/-- `css_lexer.WouldStartIdentifierWithoutEscapes(text)` on the decoded text -/
def wouldStartIdentifierWithoutEscapes : List Ch → Bool
  | [] => false -- `c == utf8.RuneError && width <= 1`
  | c :: t =>
    if c.cp == runeError && c.raw.length ≤ 1 then false
    else if isNameStart c.cp then true
    else if c.cp == 45 then
      match t with
      | [] => false
      | d :: _ =>
        if d.cp == runeError && d.raw.length ≤ 1 then false
        else isNameStart d.cp || d.cp == 45
    else false

/-- `p.printWithEscape(c, escape, remainingText, mayNeedWhitespaceAfter)` where `remainingText = rawOf rem`
(it starts with the rune `c` itself) -/
def printWithEscape (c : Nat) (escape : Esc) (rem : List Nat) (mayNeedWhitespaceAfter : Bool) : List Nat :=
  let escape := if escape = .backslash ∧ isHexDigitCp c then Esc.hex else escape
  match escape with
  | .none => encRune c
  | .backslash => 92 :: encRune c
  | .hex =>
    let text := 92 :: hexDigitsOf c
    -- "Make sure the next character is not interpreted as part of the escape sequence. An escape with six digits
    -- cannot take another digit, but it still consumes one whitespace character after it."
    let isShort := decide (text.length < 1 + 6)
    let space : List Nat :=
      if runeLen c < (rem.length : Int) then
        match rem[(runeLen c).toNat]? with
        | some b => if b == 32 || b == 9 || (isShort && isHexDigitCp b) then [32] else []
        | none => [] -- not reached: the index was just tested
      else if mayNeedWhitespaceAfter then [32] else []
    text ++ space

/-- the special escape of the first rune, computed at the start of `printIdent` from the bytes of `text` -/
def initialEscape (mode : IdentMode) (text : List Nat) : Esc :=
  let would := wouldStartIdentifierWithoutEscapes (decodeAll text)
  match mode with
  | .normal => if !would then .backslash else .none
  | .hash => .none
  | .dimensionUnit | .dimensionUnitAfterExponent =>
    if !would then .backslash
    else
      match text with
      | [] => .none
      | c :: rest =>
        if 48 ≤ c ∧ c ≤ 57 then .hex -- "Unit: "2x"" (dead: such a text would not start an identifier)
        else if (c == 101 || c == 69) && mode != .dimensionUnitAfterExponent then
          match rest with
          | c1 :: rest2 =>
            if 48 ≤ c1 ∧ c1 ≤ 57 then .hex -- "Unit: "e2x""
            else
              match rest2 with
              | c2 :: _ => if c1 == 45 ∧ 48 ≤ c2 ∧ c2 ≤ 57 then .hex else .none -- "Unit: "e-2x""
              | [] => .none
          | [] => .none
        else .none

/-- the slow loop of `printIdent` (`for i, c := range text`); `first` = `i == 0` -/
def identLoop (asciiOnly : Bool) (init : Esc) (mayNeedWs : Bool) : Bool → List Ch → List Nat
  | _, [] => []
  | first, c :: t =>
    let escape : Esc :=
      if asciiOnly && decide (c.cp ≥ 0x80) then .hex
      else if c.cp == 13 || c.cp == 10 || c.cp == 12 || c.cp == 0xFEFF then .hex
      else if first && init != .none then init
      else if !isNameContinue c.cp then .backslash else .none
    -- `whitespace == mayNeedWhitespaceAfter && escape != escapeNone && i+utf8.RuneLen(c) == n`
    let last := mayNeedWs && escape != .none && decide (runeLen c.cp = (rawLen (c :: t) : Int))
    printWithEscape c.cp escape (rawOf (c :: t)) last ++ identLoop asciiOnly init mayNeedWs false t

/-- `p.printIdent(text, mode, whitespace)`; `mayNeedWs` = `whitespace == mayNeedWhitespaceAfter` -/
def printIdent (asciiOnly : Bool) (text : List Nat) (mode : IdentMode) (mayNeedWs : Bool) : List Nat :=
  let init := initialEscape mode text
  -- "Fast path: the identifier does not need to be escaped"
  if init = .none ∧ text.all (fun b => decide (b < 0x80) && isNameContinue b) then text
  else identLoop asciiOnly init mayNeedWs true (decodeAll text)

/-! ### quoted strings and URLs -/

/-- `quoteForURL` is represented by 0 -/
def quoteForURL : Nat := 0

structure QuoteCost where
  forURL : Nat := 0
  single : Nat := 2
  double : Nat := 2

def quoteCost : List Ch → QuoteCost → QuoteCost
  | [], k => k
  | c :: t, k =>
    let k :=
      if c.cp == 39 then { k with forURL := k.forURL + 1, single := k.single + 1 }
      else if c.cp == 34 then { k with forURL := k.forURL + 1, double := k.double + 1 }
      else if c.cp == 40 || c.cp == 41 || c.cp == 32 || c.cp == 9 then { k with forURL := k.forURL + 1 }
      else if c.cp == 92 || c.cp == 10 || c.cp == 13 || c.cp == 12 then
        { forURL := k.forURL + 1, single := k.single + 1, double := k.double + 1 }
      else k
    quoteCost t k

/-- `bestQuoteCharForString(text, forURL)` -/
def bestQuoteCharForString (text : List Nat) (forURL : Bool) : Nat :=
  let k := quoteCost (decodeAll text) {}
  if forURL && decide (k.forURL < k.single) && decide (k.forURL < k.double) then quoteForURL
  else if k.single < k.double then 39 else 34

def lowerAscii (b : Nat) : Nat := if 65 ≤ b ∧ b ≤ 90 then b + 32 else b

/-- `i >= 1 && text[i-1] == '<' && i+6 <= len(text) && strings.EqualFold(text[i+1:i+6], "style")`
with `prev = text[i-1]` (if any) and `after = text[i+1:]` -/
def closesStyle (prev : Option Nat) (after : List Nat) : Bool :=
  prev == some 60 && decide (5 ≤ after.length) && (after.take 5).map lowerAscii == "style".toList.map Char.toNat

/-- the loop of `printQuotedWithQuote` (no line limit): the output is the runs of unescaped bytes and the escapes,
in order, which is the same as emitting every rune's own bytes or its escape -/
def quotedLoop (o : POpts) (quote : Nat) : Option Nat → List Ch → List Nat
  | _, [] => []
  | prev, c :: t =>
    let escape : Esc :=
      if c.cp == 0 || c.cp == 13 || c.cp == 10 || c.cp == 12 then .hex
      else if c.cp == 92 || (quote != quoteForURL && c.cp == quote) then .backslash
      else if c.cp == 40 || c.cp == 41 || c.cp == 32 || c.cp == 9 || c.cp == 34 || c.cp == 39 then
        (if quote == quoteForURL then .backslash else .none)
      else if c.cp == 47 then
        (if !o.inlineStyleUnsupported && closesStyle prev (rawOf t) then .backslash else .none)
      else if (o.asciiOnly && decide (c.cp ≥ 0x80)) || c.cp == 0xFEFF then .hex
      else .none
    (if escape = .none then c.raw else printWithEscape c.cp escape (rawOf (c :: t)) false)
      ++ quotedLoop o quote c.raw.getLast? t

/-- `p.printQuotedWithQuote(text, quote, flags)` -/
def printQuotedWithQuote (o : POpts) (text : List Nat) (quote : Nat) : List Nat :=
  let q := if quote != quoteForURL then [quote] else []
  q ++ quotedLoop o quote none (decodeAll text) ++ q

/-- `p.printQuoted(text, 0)` -/
def printQuoted (o : POpts) (text : List Nat) : List Nat :=
  printQuotedWithQuote o text (bestQuoteCharForString text false)

/-! ### `printTokens` -/

/-- `css_ast.Token` as the printer sees it -/
inductive PTok where
  | mk (kind : T) (text : List Nat) (wsBefore wsAfter : Bool) (unitOffset : Nat) (url : List Nat)
       (children : Option (List PTok))

namespace PTok
def kind : PTok → T | mk k _ _ _ _ _ _ => k
def text : PTok → List Nat | mk _ t _ _ _ _ _ => t
def wsBefore : PTok → Bool | mk _ _ b _ _ _ _ => b
def wsAfter : PTok → Bool | mk _ _ _ a _ _ _ => a
def unitOffset : PTok → Nat | mk _ _ _ _ u _ _ => u
def url : PTok → List Nat | mk _ _ _ _ _ u _ => u
def children : PTok → Option (List PTok) | mk _ _ _ _ _ _ c => c
end PTok

/-- `p.printIndent(indent)` without a line limit -/
def printIndent (indent : Nat) : List Nat := List.replicate (2 * indent) 32

/-- `strings.ToLower` as far as a comparison with a lower-case ASCII literal can tell: the only non-ASCII runes
whose lower case is ASCII are U+0130 (→ `i`) and U+212A (→ `k`) -/
def lowerForCompare (text : List Nat) : List Nat :=
  (decodeAll text).map fun c =>
    if 65 ≤ c.cp ∧ c.cp ≤ 90 then c.cp + 32 else if c.cp == 0x130 then 105 else if c.cp == 0x212A then 107 else c.cp

def gradientNames : List (List Nat) :=
  ["linear-gradient", "radial-gradient", "conic-gradient", "repeating-linear-gradient", "repeating-radial-gradient",
   "repeating-conic-gradient"].map fun s => s.toList.map Char.toNat

/-- `functionMultiLineCommaPeriod(token)`; `none` = nil `Children` of a function token -/
def functionMultiLineCommaPeriod (t : PTok) : Option Nat :=
  if t.kind = .TFunction then
    match t.children with
    | none => none
    | some ch =>
      let commaCount := (ch.filter (·.kind = .TComma)).length
      let name := lowerForCompare t.text
      if gradientNames.contains name then some (if commaCount ≥ 2 then 1 else 0)
      else if name = "matrix".toList.map Char.toNat then some (if commaCount = 5 then 2 else 0)
      else if name = "matrix3d".toList.map Char.toNat then some (if commaCount = 15 then 4 else 0)
      else some 0
  else some 0

/-- the scan "Pretty-print long comma-separated declarations of 3 or more items" -/
def scanCommaPeriod : List PTok → Nat → Option Bool
  | [], _ => some false
  | t :: ts, commaCount =>
    let commaCount := if t.kind = .TComma then commaCount + 1 else commaCount
    if t.kind = .TComma ∧ commaCount ≥ 2 then some true
    else if t.kind = .TFunction then
      match functionMultiLineCommaPeriod t with
      | none => none
      | some k => if k > 0 then some true else scanCommaPeriod ts commaCount
    else scanCommaPeriod ts commaCount

def closerOf (k : T) : List Nat :=
  match k with
  | .TFunction | .TOpenParen => [41]
  | .TOpenBrace => [125]
  | .TOpenBracket => [93]
  | _ => []

mutual
/-- `p.printTokens(tokens, opts)`: the bytes appended to `p.css` and the returned `hasWhitespaceAfter`
(`none` = Go panics, or a `TSymbol` token) -/
def printTokens (o : POpts) (tokens : List PTok) (indent : Nat) (multiLineCommaPeriod : Nat) (isDecl : Bool) :
    Option (List Nat × Bool) :=
  let hasWs0 := match tokens with | t :: _ => t.wsBefore | [] => false
  let commaPeriod : Option Nat :=
    if !o.minify && isDecl then
      match scanCommaPeriod tokens 0 with
      | none => none
      | some true => some 1
      | some false => some multiLineCommaPeriod
    else some multiLineCommaPeriod
  match commaPeriod with
  | none => none
  | some cp =>
    match printLoop o tokens indent cp isDecl true none 0 hasWs0 with
    | none => none
    | some (out, ws) => some (out ++ (if ws then [32] else []), ws)
termination_by (sizeOf tokens, 1)
decreasing_by
  simp_wf
  apply Prod.Lex.right; omega

/-- the `for i, t := range tokens` loop; `first` = `i == 0`, `prevKind` = `tokens[i-1].Kind` -/
def printLoop (o : POpts) (tokens : List PTok) (indent commaPeriod : Nat) (isDecl : Bool)
    (first : Bool) (prevKind : Option T) (commaCount : Nat) (hasWs : Bool) : Option (List Nat × Bool) :=
  match tokens with
  | [] => some ([], hasWs)
  | PTok.mk tk tt twb twa tu turl tch :: rest =>
    let t := PTok.mk tk tt twb twa tu turl tch
    let commaCount := if t.kind = .TComma then commaCount + 1 else commaCount
    if t.kind = .TWhitespace then printLoop o rest indent commaPeriod isDecl false (some t.kind) commaCount true
    else
      let sep : List Nat :=
        if hasWs then
          if commaPeriod > 0 ∧ (first ∨ (prevKind = some .TComma ∧ commaCount % commaPeriod = 0)) then
            10 :: printIndent (indent + 1)
          else [32]
        else []
      let hasWs' := t.wsAfter || (match rest with | n :: _ => n.wsBefore | [] => false)
      -- `whitespace := mayNeedWhitespaceAfter; if !hasWhitespaceAfter { whitespace = canDiscardWhitespaceAfter }`
      let body : Option (List Nat × Bool) :=
        match t.kind with
        | .TIdent => some (printIdent o.asciiOnly t.text .normal hasWs', hasWs')
        | .TSymbol => none
        | .TFunction => some (printIdent o.asciiOnly t.text .normal hasWs' ++ [40], hasWs')
        | .TDimension =>
          if t.unitOffset ≤ t.text.length then
            let value := t.text.take t.unitOffset
            let mode := if value.any (fun b => b == 101 || b == 69) then IdentMode.dimensionUnitAfterExponent else .dimensionUnit
            some (value ++ printIdent o.asciiOnly (t.text.drop t.unitOffset) mode hasWs', hasWs')
          else none
        | .TAtKeyword => some (64 :: printIdent o.asciiOnly t.text .normal hasWs', hasWs')
        | .THash => some (35 :: printIdent o.asciiOnly t.text .hash hasWs', hasWs')
        | .TString => some (printQuoted o t.text, hasWs')
        | .TURL =>
          some ("url(".toList.map Char.toNat ++ printQuotedWithQuote o t.url (bestQuoteCharForString t.url true) ++ [41], hasWs')
        | .TUnterminatedString =>
          some (t.text ++ [10] ++ (if !o.minify then printIndent indent else []), false)
        | _ => some (t.text, hasWs')
      match body with
      | none => none
      | some (b, hasWs'') =>
        let kids : Option (List Nat) :=
          match tch with
          | none => some []
          | some ch =>
            let childPeriod : Option Nat :=
              if commaPeriod > 0 ∧ isDecl then functionMultiLineCommaPeriod t else some 0
            match childPeriod with
            | none => none
            | some cp =>
              let indent' := if cp > 0 then indent + 1 else indent
              let pre := if cp > 0 ∧ !o.minify then 10 :: printIndent (indent' + 1) else []
              match printTokens o ch indent' cp false with
              | none => none
              | some (inner, _) => some (pre ++ inner ++ closerOf t.kind)
        match kids with
        | none => none
        | some k =>
          match printLoop o rest indent commaPeriod isDecl false (some t.kind) commaCount hasWs'' with
          | none => none
          | some (more, ws) => some (sep ++ b ++ k ++ more, ws)
termination_by (sizeOf tokens, 0)
decreasing_by
  all_goals simp_wf
  all_goals (apply Prod.Lex.left; omega)
end

/-- `printRule` of a top-level `RDeclaration{KeyText: key, Value: tokens}` (not `Important`) without the leading
`printIdent(key)`, `:` and the trailing `;` / newline: what `printTokens` appended -/
def printDeclValue (o : POpts) (tokens : List PTok) : Option (List Nat) :=
  (printTokens o tokens 0 0 true).map (·.1)

/-! ### line protocol: `csslex print <minify> <ascii> <inlineStyleUnsupported> <token tree>`

token tree: items separated by `,` in prefix order; item = `kind;text;ws;unitOffset;url;n` with `text`, `url` hex,
`ws` = 1·before + 2·after, `n` = number of direct children that follow, or `-1` for `Children == nil`. -/

structure Item where
  kind : T
  text : List Nat
  ws : Nat
  unit : Nat
  url : List Nat
  n : Int

def parseItem (s : String) : Option Item :=
  match s.splitOn ";" with
  | [k, t, w, u, url, n] =>
    match k.toNat? >>= T.ofNat?, Wire.parseHexUnits 2 t, w.toNat?, u.toNat?, Wire.parseHexUnits 2 url, n.toInt? with
    | some k, some t, some w, some u, some url, some n => some ⟨k, t, w, u, url, n⟩
    | _, _, _, _, _, _ => none
  | _ => none

/-- read `count` tokens (with their subtrees) from the items; `fuel` ≥ number of items left + 1 -/
def buildToks : Nat → Nat → List Item → Option (List PTok × List Item)
  | 0, _, _ => none
  | _ + 1, 0, items => some ([], items)
  | fuel + 1, count + 1, items =>
    match items with
    | [] => none
    | it :: rest =>
      let kidsAndRest : Option (Option (List PTok) × List Item) :=
        if it.n < 0 then some (none, rest)
        else (buildToks fuel it.n.toNat rest).map fun p => (some p.1, p.2)
      match kidsAndRest with
      | none => none
      | some (kids, rest') =>
        match buildToks fuel count rest' with
        | none => none
        | some (more, rest'') =>
          some (PTok.mk it.kind it.text (it.ws % 2 == 1) (it.ws / 2 % 2 == 1) it.unit it.url kids :: more, rest'')

def parseTree (s : String) (top : Nat) : Option (List PTok) :=
  if s = "-" then (if top = 0 then some [] else none)
  else
    match (s.splitOn ",").mapM parseItem with
    | none => none
    | some items =>
      match buildToks (2 * items.length + 2) top items with
      | some (toks, []) => some toks
      | _ => none

def printDriver (args : List String) : String :=
  match args with
  | [m, a, i, top, tree] =>
    match top.toNat?, (if m = "1" then some true else if m = "0" then some false else none),
          (if a = "1" then some true else if a = "0" then some false else none),
          (if i = "1" then some true else if i = "0" then some false else none) with
    | some top, some m, some a, some i =>
      match parseTree tree top with
      | none => "bad-op"
      | some toks => showOptBytes (printDeclValue ⟨m, a, i⟩ toks)
    | _, _, _, _ => "bad-op"
  | _ => "bad-op"

end EsbuildModel.CssLex
