import EsbuildModel.Impl.VlqBytes
/-
Model of the delta encoding and joining of source-map chunks in `internal/sourcemap/sourcemap.go`
(`appendMappingToBuffer`, `ChunkBuilder.{appendMappingWithoutRemapping, updateGeneratedLineAndColumn,
AddSourceMapping, GenerateChunk}`, `AppendSourceMapChunk`, `SourceMapPieces.Finalize`,
`LineColumnOffset.ComesBefore`) and of the loop in `internal/linker/linker.go` (`generateSourceMapForChunk`,
"Write the mappings") that threads the states between the calls of `AppendSourceMapChunk`.

Bytes are naturals; `;` = 59, `,` = 44, `"` = 34. Go's `int` is 64 bit, the model uses unbounded `Int`
(assumption: no coordinate or difference of coordinates leaves ±2^62). A Go panic (index or slice out of range,
`bytes.Repeat` with a negative count, the linker's explicit `panic`) is `none`.
-/
namespace EsbuildModel.SmJoin
open Vlq

abbrev Bytes := List Nat

/-- `sourcemap.SourceMapState` -/
structure State where
  genLine : Int := 0
  genCol : Int := 0
  srcIdx : Int := 0
  origLine : Int := 0
  origCol : Int := 0
  origName : Int := 0
  hasName : Bool := false
deriving DecidableEq, Repr

/-- `encodeVLQ(nil, v)` -/
def enc (v : Int) : Bytes := encodeBytes Gen.base64 v

/-- `DecodeVLQ(data, start)`; `none` = index-out-of-range panic -/
def decodeVLQ (data : Bytes) (start : Nat) : Option (Int × Nat) := decodeBytes Gen.base64 data start

/-- `appendMappingToBuffer`: returns the new buffer and the name offset (`none` = invalid `ast.Index32`) -/
def appendMappingToBuffer (buffer : Bytes) (lastByte : Nat) (prev cur : State) (omitSource : Bool) :
    Bytes × Option Nat :=
  -- Put commas in between mappings
  let buffer := if lastByte ≠ 0 ∧ lastByte ≠ 59 ∧ lastByte ≠ 34 then buffer ++ [44] else buffer
  let buffer := buffer ++ enc (cur.genCol - prev.genCol)
  let buffer :=
    if omitSource then buffer
    else buffer ++ enc (cur.srcIdx - prev.srcIdx) ++ enc (cur.origLine - prev.origLine)
           ++ enc (cur.origCol - prev.origCol)
  if cur.hasName then (buffer ++ enc (cur.origName - prev.origName), some buffer.length)
  else (buffer, none)

/-! ### ChunkBuilder -/

/-- the fields of `ChunkBuilder` that decide the bytes (the de-duplication of calls, the line-offset lookup,
the lookup in an input source map and the names table happen before and are the harness's business) -/
structure Builder where
  sourceMap : Bytes := []
  prevState : State := {}
  generatedColumn : Int := 0
  firstNameOffset : Option Nat := none
  hasPrevState : Bool := false
  lineStartsWithMapping : Bool := false
  coverLinesWithoutMappings : Bool
deriving DecidableEq, Repr

/-- what `AddSourceMapping` has resolved before it calls `appendMappingWithoutRemapping`:
source index (0 without input source map), original line/column, index into the chunk's names -/
structure Resolved where
  src : Int
  line : Int
  col : Int
  name : Option Int
deriving DecidableEq, Repr

/-- what happens to a builder, in order: a line terminator of the printed output, `k` columns of other
output, a call of `AddSourceMapping` (`map none`: the input source map has no mapping for the location) -/
inductive BEv where
  | newline
  | cols (k : Nat)
  | map (r : Option Resolved)
deriving DecidableEq, Repr

/-- `b.sourceMap[len(b.sourceMap)-1]`, 0 when empty (Go: `var lastByte byte`) -/
def lastByteOf (buf : Bytes) : Nat :=
  match buf.getLast? with
  | some b => b
  | none => 0

def Builder.appendMappingWithoutRemapping (b : Builder) (cur : State) : Builder :=
  let lastByte := lastByteOf b.sourceMap
  let r := appendMappingToBuffer b.sourceMap lastByte b.prevState cur false
  let prevOriginalName := b.prevState.origName
  let prevState := if cur.hasName then cur else { cur with origName := prevOriginalName }
  let fno :=
    if cur.hasName then (match b.firstNameOffset with | some o => some o | none => r.2)
    else b.firstNameOffset
  { b with sourceMap := r.1, prevState := prevState, firstNameOffset := fno, hasPrevState := true }

/-- the mapping replicated at column 0 of a line that would otherwise not start with one -/
def Builder.coverState (b : Builder) : State :=
  { genLine := b.prevState.genLine, genCol := 0, srcIdx := b.prevState.srcIdx,
    origLine := b.prevState.origLine, origCol := b.prevState.origCol }

def Builder.step (b : Builder) : BEv → Builder
  | .newline =>
    -- updateGeneratedLineAndColumn, case line terminator
    let b :=
      if b.coverLinesWithoutMappings && !b.lineStartsWithMapping && b.hasPrevState
      then b.appendMappingWithoutRemapping b.coverState else b
    { b with
      prevState := { b.prevState with genLine := b.prevState.genLine + 1, genCol := 0 }
      generatedColumn := 0
      sourceMap := b.sourceMap ++ [59]
      lineStartsWithMapping := false }
  | .cols k => { b with generatedColumn := b.generatedColumn + k }
  | .map r =>
    -- AddSourceMapping after updateGeneratedLineAndColumn
    let b :=
      if b.coverLinesWithoutMappings && !b.lineStartsWithMapping && decide (b.generatedColumn > 0) && b.hasPrevState
      then b.appendMappingWithoutRemapping b.coverState else b
    let b :=
      match r with
      | none => b -- appendMapping: "Some locations won't have a mapping"
      | some r =>
        b.appendMappingWithoutRemapping
          { genLine := b.prevState.genLine, genCol := b.generatedColumn, srcIdx := r.src,
            origLine := r.line, origCol := r.col,
            origName := (match r.name with | some n => n | none => 0),
            hasName := r.name.isSome }
    { b with lineStartsWithMapping := true }

def Builder.run (b : Builder) (evs : List BEv) : Builder := evs.foldl Builder.step b

/-- `sourcemap.MappingsBuffer` -/
structure MappingsBuffer where
  data : Bytes
  firstNameOffset : Option Nat
deriving DecidableEq, Repr

/-- `sourcemap.Chunk` without the quoted names -/
structure Chunk where
  buffer : MappingsBuffer
  endState : State
  finalGeneratedColumn : Int
  shouldIgnore : Bool
deriving DecidableEq, Repr

def Builder.generateChunk (b : Builder) : Chunk :=
  { buffer := ⟨b.sourceMap, b.firstNameOffset⟩
    endState := b.prevState
    finalGeneratedColumn := b.generatedColumn
    shouldIgnore := b.sourceMap.all (· == 59) }

/-- `MakeChunkBuilder` (`coverLinesWithoutMappings = (inputSourceMap == nil)`) followed by the events and `GenerateChunk` -/
def buildChunk (cover : Bool) (evs : List BEv) : Chunk :=
  (Builder.run { coverLinesWithoutMappings := cover } evs).generateChunk

/-! ### helpers.Joiner (only what `AppendSourceMapChunk` uses) -/

structure Joiner where
  data : Bytes := []
  lastByte : Nat := 0
deriving DecidableEq, Repr

def Joiner.addBytes (j : Joiner) (d : Bytes) : Joiner :=
  match d.getLast? with
  | some b => ⟨j.data ++ d, b⟩
  | none => ⟨j.data ++ d, j.lastByte⟩

/-- `for buffer.Data[semicolons] == ';' { semicolons++ }`; `none` = ran off the end (index panic) -/
def countSemis : Bytes → Option Nat
  | [] => none
  | b :: bs => if b = 59 then (countSemis bs).map (· + 1) else some 0

/-- "Strip off the first mapping from the buffer": `(generatedColumn, sourceIndex, originalLine, originalColumn, i,
omitSource)`; `none` = one of the `DecodeVLQ` calls ran off the end -/
def stripFirst (data : Bytes) (semicolons : Nat) : Option (Int × Int × Int × Int × Nat × Bool) :=
  match decodeVLQ data semicolons with
  | none => none
  | some (generatedColumn, i) =>
    let omitSrc : Bool :=
      match data[i]? with
      | none => true -- i == len(buffer.Data)
      | some c => c = 44 ∨ c = 59 -- strings.IndexByte(",;", buffer.Data[i]) != -1
    if omitSrc then some (generatedColumn, 0, 0, 0, i, true)
    else
      match decodeVLQ data i with
      | none => none
      | some (sourceIndex, i) =>
      match decodeVLQ data i with
      | none => none
      | some (originalLine, i) =>
      match decodeVLQ data i with
      | none => none
      | some (originalColumn, i) => some (generatedColumn, sourceIndex, originalLine, originalColumn, i, false)

/-- the end of `AppendSourceMapChunk`: copy the rest of the buffer, re-encoding the first name relative to the
previous chunk (`nameDelta = startState.OriginalName - prevEndState.OriginalName`) -/
def appendRest (j : Joiner) (buffer : MappingsBuffer) (i : Nat) (nameDelta : Int) : Option Joiner :=
  match buffer.firstNameOffset with
  | some before =>
    match decodeVLQ buffer.data before with
    | none => none
    | some (originalName, after) =>
      let originalName := originalName + nameDelta
      if i > before then none -- buffer.Data[i:before]: slice bounds out of range
      else
        let j := j.addBytes ((buffer.data.take before).drop i)
        let j := j.addBytes (enc originalName)
        some (j.addBytes (buffer.data.drop after))
  | none => some (j.addBytes (buffer.data.drop i))

/-- `AppendSourceMapChunk` -/
def appendSourceMapChunk (j : Joiner) (prevEnd start : State) (buffer : MappingsBuffer) : Option Joiner :=
  -- Handle line breaks in between this mapping and the previous one
  if start.genLine < 0 then none -- bytes.Repeat: negative Repeat count
  else
  let jp : Joiner × State :=
    if start.genLine ≠ 0 then (j.addBytes (List.replicate start.genLine.toNat 59), { prevEnd with genCol := 0 })
    else (j, prevEnd)
  -- Skip past any leading semicolons
  match countSemis buffer.data with
  | none => none
  | some semicolons =>
  let jps : Joiner × State × State :=
    if semicolons > 0 then
      (jp.1.addBytes (buffer.data.take semicolons), { jp.2 with genCol := 0 }, { start with genCol := 0 })
    else (jp.1, jp.2, start)
  -- Strip off the first mapping from the buffer
  match stripFirst buffer.data semicolons with
  | none => none
  | some (generatedColumn, sourceIndex, originalLine, originalColumn, i, omitSrc) =>
  -- Rewrite the first mapping to be relative to the end state of the previous chunk
  let start := { jps.2.2 with
    genCol := jps.2.2.genCol + generatedColumn
    srcIdx := jps.2.2.srcIdx + sourceIndex
    origLine := jps.2.2.origLine + originalLine
    origCol := jps.2.2.origCol + originalColumn }
  let prevEnd := { jps.2.1 with hasName := false }
  let rewritten := (appendMappingToBuffer [] jps.1.lastByte prevEnd start omitSrc).1
  -- Next, if there's an original name, we need to rewrite that as well
  appendRest (jps.1.addBytes rewritten) buffer i (start.origName - prevEnd.origName)

/-! ### the linker's loop around `AppendSourceMapChunk` -/

/-- `sourcemap.LineColumnOffset` -/
structure Offset where
  lines : Int := 0
  columns : Int := 0
deriving DecidableEq, Repr

/-- one `compileResultForSourceMap` as the loop sees it -/
structure LinkIn where
  isNullEntry : Bool
  offset : Offset
  sourcesIndex : Int
  chunk : Chunk
  quotedNames : Nat -- len(chunk.QuotedNames)
deriving DecidableEq, Repr

structure LinkState where
  j : Joiner
  prevEndState : State := {}
  prevColumnOffset : Int := 0
  totalQuotedNameLen : Int := 0
deriving DecidableEq, Repr

/-- body of `for _, result := range results` in `generateSourceMapForChunk` -/
def linkStep (s : LinkState) (r : LinkIn) : Option LinkState :=
  let chunk := r.chunk
  let offset := r.offset
  if chunk.shouldIgnore then none -- panic("Internal error")
  else
  let startState : State :=
    { srcIdx := r.sourcesIndex, genLine := offset.lines, genCol := offset.columns,
      origName := s.totalQuotedNameLen }
  let startState :=
    if offset.lines = 0 then { startState with genCol := startState.genCol + s.prevColumnOffset } else startState
  let res : Option (Joiner × State × Int × Int) :=
    if r.isNullEntry then
      -- Emit a "null" mapping
      match appendSourceMapChunk s.j s.prevEndState startState ⟨[65], chunk.buffer.firstNameOffset⟩ with
      | none => none
      | some j =>
        -- Only the generated position was advanced
        some (j, { s.prevEndState with genLine := startState.genLine, genCol := startState.genCol },
          s.prevColumnOffset, s.totalQuotedNameLen)
    else
      match appendSourceMapChunk s.j s.prevEndState startState chunk.buffer with
      | none => none
      | some j =>
        let prevOriginalName := s.prevEndState.origName
        let p := chunk.endState
        let p := { p with srcIdx := p.srcIdx + r.sourcesIndex }
        let p :=
          if chunk.buffer.firstNameOffset.isSome then { p with origName := p.origName + s.totalQuotedNameLen }
          else { p with origName := prevOriginalName }
        some (j, p, chunk.finalGeneratedColumn, s.totalQuotedNameLen + r.quotedNames)
  match res with
  | none => none
  | some (j, p, prevColumnOffset, total) =>
    -- If this was all one line, include the column offset from the start
    if p.genLine = 0 then
      some { j := j, prevEndState := { p with genCol := p.genCol + startState.genCol },
             prevColumnOffset := prevColumnOffset + startState.genCol, totalQuotedNameLen := total }
    else
      some { j := j, prevEndState := p, prevColumnOffset := prevColumnOffset, totalQuotedNameLen := total }

def linkLoop (s : LinkState) : List LinkIn → Option LinkState
  | [] => some s
  | r :: rs =>
    match linkStep s r with
    | none => none
    | some s' => linkLoop s' rs

/-- the bytes between `"mappings": "` and the closing quote (`j.LastByte()` is `"` when the loop starts) -/
def linkJoin (rs : List LinkIn) : Option Bytes :=
  match linkLoop { j := ⟨[], 34⟩ } rs with
  | none => none
  | some s => some s.j.data

/-! ### SourceMapPieces.Finalize (column shifts after the final paths have been substituted) -/

/-- `sourcemap.SourceMapShift` -/
structure SMShift where
  before : Offset := {}
  after : Offset := {}
deriving DecidableEq, Repr

/-- `LineColumnOffset.ComesBefore` -/
def Offset.comesBefore (a b : Offset) : Bool :=
  decide (a.lines < b.lines) || (decide (a.lines = b.lines) && decide (a.columns < b.columns))

/-- the loop variables of `Finalize` (`out` = what the joiner holds after the prefix) -/
structure FinState where
  startOfRun : Nat := 0
  current : Nat := 0
  generated : Offset := {}
  prevShiftColumnDelta : Int := 0
  shifts : List SMShift
  out : Bytes := []
deriving DecidableEq, Repr

/-- `for len(shifts) > 1 && shifts[1].Before.ComesBefore(generated) { shifts = shifts[1:]; didCrossBoundary = true }` -/
def popShifts (generated : Offset) : List SMShift → Bool → List SMShift × Bool
  | s0 :: s1 :: rest, crossed =>
    if s1.before.comesBefore generated then popShifts generated (s1 :: rest) true else (s0 :: s1 :: rest, crossed)
  | shifts, crossed => (shifts, crossed)

/-- "Skip over the original position information if present", "Skip over the original name if present",
"Skip a trailing comma": the index after them; `none` = a `DecodeVLQ` ran off the end -/
def skipRest (m : Bytes) (current : Nat) : Option Nat :=
  let afterOrig : Option Nat :=
    if current < m.length then
      match decodeVLQ m current with
      | none => none
      | some (_, c1) =>
      match decodeVLQ m c1 with
      | none => none
      | some (_, c2) =>
      match decodeVLQ m c2 with
      | none => none
      | some (_, c3) =>
        if c3 < m.length then
          match decodeVLQ m c3 with
          | none => none
          | some (_, c4) => some c4
        else some c3
    else some current
  match afterOrig with
  | none => none
  | some c => if m[c]? = some 44 then some (c + 1) else some c

/-- one round of `for current < len(pieces.Mappings)`; `none` = panic -/
def finStep (m : Bytes) (st : FinState) : Option FinState :=
  -- Handle a line break
  if m[st.current]? = some 59 then
    some { st with generated := ⟨st.generated.lines + 1, 0⟩, prevShiftColumnDelta := 0, current := st.current + 1 }
  else
    let potentialEndOfRun := st.current
    -- Read the generated column
    match decodeVLQ m st.current with
    | none => none
    | some (generatedColumnDelta, next) =>
    let generated : Offset := ⟨st.generated.lines, st.generated.columns + generatedColumnDelta⟩
    let potentialStartOfRun := next
    match skipRest m next with
    | none => none
    | some current =>
    -- Detect crossing shift boundaries
    let ps := popShifts generated st.shifts false
    if !ps.2 then some { st with generated := generated, current := current, shifts := ps.1 }
    else
      match ps.1 with
      | [] => none -- shifts[0] on an empty slice (cannot happen: crossing needs two elements)
      | shift :: _ =>
        -- This shift isn't relevant if the next mapping after this shift is on a following line
        if shift.after.lines ≠ generated.lines then
          some { st with generated := generated, current := current, shifts := ps.1 }
        else if shift.before.lines ≠ shift.after.lines then
          none -- panic("Unexpected line change when shifting source maps")
        else
          let shiftColumnDelta := shift.after.columns - shift.before.columns
          some { startOfRun := potentialStartOfRun
                 current := current
                 generated := generated
                 prevShiftColumnDelta := shiftColumnDelta
                 shifts := ps.1
                 out := st.out ++ (m.take potentialEndOfRun).drop st.startOfRun
                   ++ enc (generatedColumnDelta + shiftColumnDelta - st.prevShiftColumnDelta) }

/-- the loop; `fuel` bounds the number of rounds (a round that does not advance — a byte outside the alphabet
and `,;` — would make the Go loop spin forever: `none`) -/
def finLoop (m : Bytes) : Nat → FinState → Option FinState
  | 0, _ => none
  | fuel + 1, st =>
    if st.current < m.length then
      match finStep m st with
      | none => none
      | some st' => finLoop m fuel st'
    else some st

/-- `SourceMapPieces{Mappings: m}.Finalize(shifts)` (empty prefix and suffix) -/
def finalize (m : Bytes) (shifts : List SMShift) : Option Bytes :=
  match shifts with
  | [_] => some m -- An optimized path for when there are no shifts
  | _ =>
    match finLoop m (m.length + 1) { shifts := shifts } with
    | none => none
    | some st => some (st.out ++ m.drop st.startOfRun)

/-! ### line protocol -/
open Wire

def parseState (s : String) : Option State :=
  match (s.splitOn ":").mapM (·.toInt?) with
  | some [gl, gc, si, ol, oc, on, hn] =>
    some { genLine := gl, genCol := gc, srcIdx := si, origLine := ol, origCol := oc, origName := on, hasName := hn ≠ 0 }
  | _ => none

def showState (s : State) : String :=
  s!"{s.genLine}:{s.genCol}:{s.srcIdx}:{s.origLine}:{s.origCol}:{s.origName}:{if s.hasName then 1 else 0}"

def parseOptNat (s : String) : Option (Option Nat) :=
  if s = "-" then some none else (s.toNat?).map some

def parseOptInt (s : String) : Option (Option Int) :=
  if s = "-" then some none else (s.toInt?).map some

def showOptNat : Option Nat → String
  | none => "-"
  | some n => toString n

def parseBool (s : String) : Option Bool :=
  if s = "0" then some false else if s = "1" then some true else none

def parseBEv (s : String) : Option BEv :=
  if s = "N" then some .newline
  else if s = "X" then some (.map none)
  else
    match s.toList with
    | 'C' :: rest => ((String.ofList rest).toNat?).map BEv.cols
    | 'M' :: rest =>
      match (String.ofList rest).splitOn ":" with
      | [a, l, c, n] =>
        match a.toInt?, l.toInt?, c.toInt?, parseOptInt n with
        | some a, some l, some c, some n => some (.map (some ⟨a, l, c, n⟩))
        | _, _, _, _ => none
      | _ => none
    | _ => none

def parseBEvs (s : String) : Option (List BEv) :=
  if s = "-" then some [] else (s.splitOn ",").mapM parseBEv

def showChunk (c : Chunk) : String :=
  s!"{hexUnits 2 c.buffer.data} {showOptNat c.buffer.firstNameOffset} {showState c.endState} {c.finalGeneratedColumn} {if c.shouldIgnore then 1 else 0}"

/-- `<prevEnd>/<start>/<hex>/<fno>` -/
def parseJoinItem (s : String) : Option (State × State × MappingsBuffer) :=
  match s.splitOn "/" with
  | [p, st, h, f] =>
    match parseState p, parseState st, parseHexUnits 2 h, parseOptNat f with
    | some p, some st, some h, some f => some (p, st, ⟨h, f⟩)
    | _, _, _, _ => none
  | _ => none

def joinAll (j : Joiner) : List (State × State × MappingsBuffer) → Option Joiner
  | [] => some j
  | (p, st, b) :: rest =>
    match appendSourceMapChunk j p st b with
    | none => none
    | some j => joinAll j rest

/-- `<isNull>/<offLines>/<offCols>/<sourcesIndex>/<hex>/<fno>/<endState>/<finalCol>/<shouldIgnore>/<nNames>` -/
def parseLinkIn (s : String) : Option LinkIn :=
  match s.splitOn "/" with
  | [nu, ol, oc, si, h, f, es, fc, ig, nn] =>
    match parseBool nu, ol.toInt?, oc.toInt?, si.toInt?, parseHexUnits 2 h, parseOptNat f, parseState es, fc.toInt?,
      parseBool ig, nn.toNat? with
    | some nu, some ol, some oc, some si, some h, some f, some es, some fc, some ig, some nn =>
      some { isNullEntry := nu, offset := ⟨ol, oc⟩, sourcesIndex := si,
             chunk := { buffer := ⟨h, f⟩, endState := es, finalGeneratedColumn := fc, shouldIgnore := ig },
             quotedNames := nn }
    | _, _, _, _, _, _, _, _, _, _ => none
  | _ => none

/-- `<beforeLines>:<beforeCols>:<afterLines>:<afterCols>` -/
def parseShift (s : String) : Option SMShift :=
  match (s.splitOn ":").mapM (·.toInt?) with
  | some [bl, bc, al, ac] => some ⟨⟨bl, bc⟩, ⟨al, ac⟩⟩
  | _ => none

def driver (args : List String) : String :=
  match args with
  | ["amb", buf, last, prev, cur, omitSrc] =>
    match parseHexUnits 2 buf, parseNat last, parseState prev, parseState cur, parseBool omitSrc with
    | some buf, some last, some prev, some cur, some omitSrc =>
      let r := appendMappingToBuffer buf last prev cur omitSrc
      s!"{hexUnits 2 r.1} {showOptNat r.2}"
    | _, _, _, _, _ => "bad-op"
  | ["chunk", cover, evs] =>
    match parseBool cover, parseBEvs evs with
    | some cover, some evs => showChunk (buildChunk cover evs)
    | _, _ => "bad-op"
  | ["join", prefix_, items] =>
    match parseHexUnits 2 prefix_, (if items = "-" then some [] else (items.splitOn "|").mapM parseJoinItem) with
    | some pre, some items =>
      match joinAll (Joiner.addBytes {} pre) items with
      | some j => hexUnits 2 j.data
      | none => "PANIC"
    | _, _ => "bad-op"
  | ["fin", m, shifts] =>
    match parseHexUnits 2 m, (if shifts = "-" then some [] else (shifts.splitOn ",").mapM parseShift) with
    | some m, some shifts =>
      match finalize m shifts with
      | some d => hexUnits 2 d
      | none => "PANIC"
    | _, _ => "bad-op"
  | ["link", items] =>
    match (if items = "-" then some [] else (items.splitOn "|").mapM parseLinkIn) with
    | some items =>
      match linkJoin items with
      | some d => hexUnits 2 d
      | none => "PANIC"
    | none => "bad-op"
  | _ => "bad-op"

end EsbuildModel.SmJoin
