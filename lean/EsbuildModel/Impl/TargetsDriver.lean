import EsbuildModel.Impl.Targets
import EsbuildModel.Util.Wire
/-! Line protocol of kernel `targets`. Texts are lists of code points, 6 hex digits each ("-" = empty); lists of texts
are comma separated ("." = empty list). -/
namespace EsbuildModel.Targets
open EsbuildModel.Wire

def parseText (s : String) : Option Text := (parseHexUnits 6 s).map fun l => l.map Char.ofNat
def showText (t : Text) : String := hexUnits 6 (t.map Char.toNat)
def parseTexts (s : String) : Option (List Text) := if s = "." then some [] else (s.splitOn ",").mapM parseText
def showTexts (l : List Text) : String := if l.isEmpty then "." else ",".intercalate (l.map showText)

def showFeatures (f : Features) : String :=
  let pfx := f.pfx.map fun (p, bits) => s!"{p}:{Compat.maskOf Gen.cssPrefixBits bits}"
  let pfx := if pfx.isEmpty then "." else ",".intercalate pfx
  -- the log the hook reads sorts its messages: the error texts are compared as a sorted list
  let errs := (sortTexts (f.errs.map fun t => (showText t).toList)).map String.ofList
  let errs := if errs.isEmpty then "." else ",".intercalate errs
  s!"js={Compat.maskOf Gen.compatFeatures f.js} css={Compat.maskOf Gen.cssFeatures f.css} pfx={pfx} env={showText f.env} errs={errs}"

def showVF : VFRes → String
  | .panic m => s!"PANIC {m}"
  | .ok f => showFeatures f

def parseEngines (s : String) : Option (List (Nat × Text)) :=
  if s = "." then some [] else
  (s.splitOn ",").mapM fun it =>
    match it.splitOn ":" with
    | [e, v] => match e.toNat?, parseText v with
      | some e, some v => some (e, v)
      | _, _ => none
    | _ => none

def parseSv (s : String) : Option Sv :=
  match s.splitOn "/" with
  | [ps, pre] =>
    match (if ps = "." then some [] else parseNatList ps), parseText pre with
    | some parts, some pre => some { parts := parts, pre := pre }
    | _, _ => none
  | _ => none

def showCli : CliRes → String
  | .ok t es =>
    let es := es.map fun (n, v) => s!"{n}:{showText v}"
    s!"ok {t} {if es.isEmpty then "." else ",".intercalate es}"
  | .missingVersion i => s!"missing {i}"
  | .invalid i => s!"invalid {i}"

/-- is the printed target environment a fixed point? (strip the quoting, parse it as a `--target=` value, validate again) -/
def reparseStable (f : Features) : Bool :=
  if f.env.isEmpty then true else
  match parseTargetArg (f.env.filter fun c => c != '"' && c != ' ') with
  | .ok t es =>
    match targetIndex t, es.mapM (fun (n, v) => (engineIndex n).map fun i => (i, v)) with
    | some ti, some es =>
      match validateFeatures ti es with
      | .ok g => g.js == f.js && g.css == f.css && g.pfx == f.pfx && g.env == f.env && g.errs.isEmpty
      | .panic _ => false
    | _, _ => false
  | _ => false

/-- the composition the CLI performs: `--target=<s>` then `validateFeatures` -/
def cliThenValidate (s : Text) : String :=
  match parseTargetArg s with
  | .ok t es =>
    match targetIndex t, es.mapM (fun (n, v) => (engineIndex n).map fun i => (i, v)) with
    | some ti, some es =>
      match validateFeatures ti es with
      | .ok f => s!"{showFeatures f} stable={if reparseStable f then 1 else 0}"
      | r => showVF r
    | _, _ => "bad-table"
  | r => showCli r

def driver (args : List String) : String :=
  match args with
  | ["cli", t] => match parseText t with
    | some t => showCli (parseTargetArg t)
    | none => "bad-op"
  | ["cliv", t] => match parseText t with
    | some t => cliThenValidate t
    | none => "bad-op"
  | ["vf", t, es] => match t.toNat?, parseEngines es with
    | some t, some es => showVF (validateFeatures t es)
    | _, _ => "bad-op"
  | ["sup", items] =>
    let parsed : Option (List (Text × Bool)) :=
      if items = "." then some [] else
      (items.splitOn ",").mapM fun it =>
        match it.splitOn ":" with
        | [k, v] => match parseText k with
          | some k => if v = "1" then some (k, true) else if v = "0" then some (k, false) else none
          | none => none
        | _ => none
    match parsed with
    | some l =>
      let r := validateSupported l
      let bad := (sortTexts (r.bad.map fun t => (showText t).toList)).map String.ofList
      let bad := if bad.isEmpty then "." else ",".intercalate bad
      s!"js={Compat.maskOf Gen.compatFeatures r.jsFeature} jsmask={Compat.maskOf Gen.compatFeatures r.jsMask} css={Compat.maskOf Gen.cssFeatures r.cssFeature} cssmask={Compat.maskOf Gen.cssFeatures r.cssMask} bad={bad}"
    | none => "bad-op"
  | ["suparg", t] => match parseText t with
    | some t => match parseSupportedArg t with
      | .ok n v => s!"ok {showText n} {if v then 1 else 0}"
      | .missingEq => "missing-eq"
      | .invalidValue => "invalid-value"
    | none => "bad-op"
  | ["cmpsv", a, b] => match parseSv a, parseSv b with
    | some a, some b => toString (compareSemver a b)
    | _, _ => "bad-op"
  | ["pretty", env, mask] => match parseText env, mask.toNat? with
    | some env, some m => showText (prettyPrintTargetEnvironment env m)
    | _, _ => "bad-op"
  | _ => "bad-op"

end EsbuildModel.Targets
