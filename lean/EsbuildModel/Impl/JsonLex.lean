import EsbuildModel.Impl.LexNum
import EsbuildModel.Impl.Wtf8
/-
Model of the lexer as `js_parser.ParseJSON` drives it: `js_lexer.NewLexerJSON`, `(*Lexer).Next`, `step`,
`parseNumericLiteralOrDot` (through `Impl/LexNum.lean`) with the JSON check at its end, the string scanner inside
`Next`, `StringLiteral` / `tryToDecodeEscapeSequences`, `scanIdentifierWithEscapes`, `SyntaxError`, `Unexpected`,
`Expected`, `addRangeError` (internal/js_lexer/js_lexer.go), for the two flavours `JSON` and `TSConfigJSON`.

Representation
* The source is a Go string = bytes.  `lexer.step()` decodes with `utf8.DecodeRuneInString` from `lexer.current`;
  every position the lexer ever stands on is reached by decoding sequentially from offset 0 (the identifier fast path
  skips ASCII bytes only, string contents are re-decoded from the byte after the quote), so the source is decoded ONCE
  into code points with their byte widths (`decodeRunes`, an ill-formed byte is U+FFFD of width 1) and the lexer state
  holds the list from `lexer.end` on: its head is `lexer.codePoint` (`[]` = -1 = end of file), `lexer.current` is
  `end_ + width of the head`.
* `panic(LexerPanic{})` is `R.panic log` (the log as it is when the panic is raised; nothing after it runs;
  `ParseJSON` recovers it and returns ok = false).  Messages are kept as (is-error, byte offset of `Range.Loc.Start`)
  in the order they are added; `prevErrorLoc` ("Don't report multiple errors in the same spot") is `Log.prev`.
* The decoded / not-yet-decoded string state (`decodedStringLiteralOrNil`, `encodedStringLiteralStart/Text`) is part
  of the state because `parseExpr` calls `StringLiteral()` on whatever the current token is.
* Go slice expressions (`Contents[start+1 : end-suffixLen]`, `identifier[1:]`, `text[octalStart:i]`) are lists of
  consumed code points here; each is in range by construction of the scanning loop before it (both quotes / the `#`
  have been stepped over).  `R.crash` stands for a Go run-time panic and for running out of the fuel of
  `scanIdentifierWithEscapes`' first pass; `Props/C16Json.lean` proves it never happens.
* Tokens that `parseExpr` answers with `Unexpected()` / `Expect` failures whatever they are (punctuation other than
  `[]{},:-`, identifiers, keywords other than true/false/null, private names, hashbang, templates, bigint, `.`,
  `TSyntaxError`) are one token `Tok.other`: only their start offset is ever looked at.
* Parameters: the ones of `LexNum` (`strconv.ParseFloat`, integer→double rounding, ID_Start above U+007E) and
  `idContNA` = `unicode.Is(idContinueES5OrESNext, c)` for c ≥ U+007F.
* Not modelled: `scanCommentText` (pragmas and legal comments: no influence on tokens or messages), message texts,
  notes, `ApproximateNewlineCount`, locations inside the AST.
-/
namespace EsbuildModel.Json

/-- a decoded code point with its width in bytes -/
structure Cp where
  c : Char
  w : Nat
  deriving DecidableEq, Repr

/-- `utf8.DecodeRuneInString` applied sequentially from offset 0 -/
def decodeRunes : List Nat → List Cp
  | [] => []
  | s0 :: rest =>
    let cw := Wtf8.goDecodeRune s0 rest
    ⟨Char.ofNat cw.1, cw.2⟩ :: decodeRunes (rest.drop (cw.2 - 1))
termination_by s => s.length
decreasing_by simp; omega

inductive Flavor | json | tsconfig
  deriving DecidableEq, Repr

structure Params where
  num : LexNum.Params
  idContNA : Char → Bool

structure Msg where
  err : Bool
  off : Nat
  deriving DecidableEq, Repr

/-- the log (newest message first) and `lexer.prevErrorLoc` (`none` = `Loc{Start: -1}`) -/
structure Log where
  msgs : List Msg
  prev : Option Nat
  deriving DecidableEq, Repr

/-- `lexer.addRangeError` / `addRangeErrorWithSuggestion` / `AddRangeErrorWithNotes` -/
def Log.rangeError (l : Log) (off : Nat) : Log :=
  if l.prev = some off then l else ⟨⟨true, off⟩ :: l.msgs, some off⟩
/-- `log.AddError` called directly (the parser's trailing-comma message) -/
def Log.error (l : Log) (off : Nat) : Log := { l with msgs := ⟨true, off⟩ :: l.msgs }
/-- `log.AddID(…, logger.Warning, …)` -/
def Log.warn (l : Log) (off : Nat) : Log := { l with msgs := ⟨false, off⟩ :: l.msgs }
def Log.hasErrors (l : Log) : Bool := l.msgs.any (·.err)

inductive R (α : Type) where
  | ok (a : α)
  /-- `panic(LexerPanic{})` -/
  | panic (log : Log)
  /-- any other Go panic / out of fuel -/
  | crash
  deriving Repr

inductive Tok
  | eof | openBracket | closeBracket | openBrace | closeBrace | comma | colon | minus
  | tTrue | tFalse | tNull | str | num | other
  deriving DecidableEq, Repr

structure Lx where
  rest : List Cp
  end_ : Nat
  start : Nat
  tok : Tok
  nl : Bool
  number : F64
  log : Log
  strDec : Option (List Nat)
  strStart : Nat
  strText : List Cp
  deriving Repr

/-- `lexer.SyntaxError()` with `lexer.end = e` -/
def syntaxError {α : Type} (log : Log) (e : Nat) : R α := .panic (log.rangeError e)
/-- `lexer.Unexpected()` / `lexer.Expected(t)` with `lexer.start = s` -/
def unexpected {α : Type} (log : Log) (s : Nat) : R α := .panic (log.rangeError s)

def isNewline (c : Char) : Bool := c == '\r' || c == '\n' || c.toNat == 0x2028 || c.toNat == 0x2029

/-- `js_ast.IsWhitespace` -/
def isWhitespace (c : Char) : Bool :=
  let n := c.toNat
  n == 0x09 || n == 0x0B || n == 0x0C || n == 0x20 || n == 0xA0 || n == 0x1680 ||
  (0x2000 ≤ n && n ≤ 0x200A) || n == 0x202F || n == 0x205F || n == 0x3000 || n == 0xFEFF

def isAsciiIdCont (c : Char) : Bool :=
  c == '_' || c == '$' || (48 ≤ c.toNat && c.toNat ≤ 57) || (97 ≤ c.toNat && c.toNat ≤ 122) ||
  (65 ≤ c.toNat && c.toNat ≤ 90)

/-- `js_ast.IsIdentifierStart` -/
def isIdStart (P : Params) (c : Char) : Bool := LexNum.isIdStart P.num c

/-- `js_ast.IsIdentifierContinue` -/
def isIdCont (P : Params) (c : Char) : Bool :=
  isAsciiIdCont c ||
  (decide (c.toNat ≥ 0x7F) && (c.toNat == 0x200C || c.toNat == 0x200D || P.idContNA c))

def hexVal (c : Char) : Option Nat := LexNum.hexValOf c

/-- `p(lexer.codePoint)`, false at the end of the file -/
def headIs (l : List Cp) (p : Char → Bool) : Bool :=
  match l with
  | c :: _ => p c.c
  | [] => false

def isOct (c : Char) : Bool := 48 ≤ c.toNat && c.toNat ≤ 55
def isDigit (c : Char) : Bool := 48 ≤ c.toNat && c.toNat ≤ 57

def widths (l : List Cp) : Nat := (l.map (·.w)).sum
def chars (l : List Cp) : List Char := l.map (·.c)

/-! ## `tryToDecodeEscapeSequences(start, text, reportErrors = true)` -/

inductive Dec where
  /-- `return decoded, true, 0` -/
  | ok (units : List Nat)
  /-- `return nil, false, end` -/
  | fail (end_ : Nat)
  /-- "Unicode escape sequence is out of range": `addRangeError` at `start + hexStart`, then `panic(LexerPanic{})` -/
  | oor (at_ : Nat)
  deriving DecidableEq, Repr

/-- `decoded = append(decoded, …)` for what is decoded in front of the rest -/
def Dec.cons (us : List Nat) : Dec → Dec
  | .ok t => .ok (us ++ t)
  | d => d

/-- the tail of the function body: `if c <= 0xFFFF { append(uint16(c)) } else { two surrogates }` -/
def unitsOf (c : Nat) : List Nat := Wtf8.pushUTF16 c

inductive DMode where
  | normal
  /-- inside `\u{…}`: `value`, `isOutOfRange`, `isFirst`, `start + hexStart` -/
  | brace (value : Nat) (oor : Bool) (isFirst : Bool) (hexStart : Nat)
  deriving DecidableEq, Repr

/-- the loop `for i < len(text)`; `pos` = `start + i` at the head of an iteration (or inside the `\u{` loop).
One code point of `text` is consumed per equation, so the recursion is structural. -/
def decodeEsc (fl : Flavor) : DMode → List Cp → Nat → Dec
  | .normal, [], _ => .ok []
  -- `c3, width3 = utf8.DecodeRuneInString("")` = (RuneError, 0): the `default:` of the inner switch
  | .brace _ _ _ _, [], pos => .fail pos
  | .brace v o isFirst hs, c :: r, pos =>
    match hexVal c.c with
    | some d =>
      -- `value = value*16 | digit; if value > utf8.MaxRune { isOutOfRange = true }` (once out of range the int32
      -- value is never looked at again: the function panics at the closing brace)
      let v' := v * 16 + d
      decodeEsc fl (.brace v' (o || decide (v' > 0x10FFFF)) false hs) r (pos + c.w)
    | none =>
      if c.c = '}' then
        if isFirst then .fail pos
        else if o then .oor hs
        else (decodeEsc fl .normal r (pos + c.w)).cons (unitsOf v)
      else .fail pos
  | .normal, c :: r, pos =>
    if c.c = '\r' then
      -- "Convert '\r\n' into '\n'"
      if headIs r (· == '\n') then
        match r with
        | d :: r' => (decodeEsc fl .normal r' (pos + c.w + d.w)).cons [10]
        | [] => .ok [10]
      else (decodeEsc fl .normal r (pos + c.w)).cons [10]
    else if c.c ≠ '\\' then (decodeEsc fl .normal r (pos + c.w)).cons (unitsOf c.c.toNat)
    else
      let p2 := pos + c.w
      match r with
      | [] =>
        -- c2 = RuneError, width2 = 0
        if fl = .json then .fail p2 else .ok (unitsOf 0xFFFD)
      | c2 :: r2 =>
        let p3 := p2 + c2.w
        let simple (u : Nat) : Dec := (decodeEsc fl .normal r2 p3).cons [u]
        if c2.c = 'b' then simple 8
        else if c2.c = 'f' then simple 12
        else if c2.c = 'n' then simple 10
        else if c2.c = 'r' then simple 13
        else if c2.c = 't' then simple 9
        else if c2.c = 'v' then (if fl = .json then .fail p2 else simple 11)
        else if c2.c = '8' ∨ c2.c = '9' then simple c2.c.toNat
        else if 48 ≤ c2.c.toNat ∧ c2.c.toNat ≤ 55 then
          if fl = .json then .fail p2
          else
            -- "1-3 digit octal"
            let v1 := c2.c.toNat - 48
            if !headIs r2 isOct then (decodeEsc fl .normal r2 p3).cons (unitsOf v1)
            else
              match r2 with
              | [] => .ok (unitsOf v1)
              | c3 :: r3 =>
                let v2 := v1 * 8 + (c3.c.toNat - 48)
                -- `temp := value*8 + c4 - '0'; if temp < 256 { value = temp; i += width4 }`
                if !headIs r3 (fun c4 => isOct c4 && decide (v2 * 8 + (c4.toNat - 48) < 256)) then
                  (decodeEsc fl .normal r3 (p3 + c3.w)).cons (unitsOf v2)
                else
                  match r3 with
                  | [] => .ok (unitsOf v2)
                  | c4 :: r4 =>
                    (decodeEsc fl .normal r4 (p3 + c3.w + c4.w)).cons (unitsOf (v2 * 8 + (c4.c.toNat - 48)))
        else if c2.c = 'x' then
          if fl = .json then .fail p2
          else
            match r2 with
            | [] => .fail p3
            | h1 :: r3 =>
              match hexVal h1.c with
              | none => .fail p3
              | some d1 =>
                match r3 with
                | [] => .fail (p3 + h1.w)
                | h2 :: r4 =>
                  match hexVal h2.c with
                  | none => .fail (p3 + h1.w)
                  | some d2 => (decodeEsc fl .normal r4 (p3 + h1.w + h2.w)).cons (unitsOf (d1 * 16 + d2))
        else if c2.c = 'u' then
          match r2 with
          | [] => .fail p3
          | h1 :: r3 =>
            if h1.c = '{' then
              -- `return nil, false, start + i - width2` with i after the brace
              if fl = .json then .fail (p3 + h1.w - c2.w)
              else decodeEsc fl (.brace 0 false true pos) r3 (p3 + h1.w)
            else
              match hexVal h1.c with
              | none => .fail p3
              | some d1 =>
                match r3 with
                | [] => .fail (p3 + h1.w)
                | h2 :: r4 =>
                  match hexVal h2.c with
                  | none => .fail (p3 + h1.w)
                  | some d2 =>
                    match r4 with
                    | [] => .fail (p3 + h1.w + h2.w)
                    | h3 :: r5 =>
                      match hexVal h3.c with
                      | none => .fail (p3 + h1.w + h2.w)
                      | some d3 =>
                        match r5 with
                        | [] => .fail (p3 + h1.w + h2.w + h3.w)
                        | h4 :: r6 =>
                          match hexVal h4.c with
                          | none => .fail (p3 + h1.w + h2.w + h3.w)
                          | some d4 =>
                            (decodeEsc fl .normal r6 (p3 + h1.w + h2.w + h3.w + h4.w)).cons
                              (unitsOf (((d1 * 16 + d2) * 16 + d3) * 16 + d4))
        else if c2.c = '\r' then
          if fl = .json then .fail p2
          else
            -- line continuation; "Make sure Windows CRLF counts as a single newline"
            if headIs r2 (· == '\n') then
              match r2 with
              | d :: r3 => decodeEsc fl .normal r3 (p3 + d.w)
              | [] => .ok []
            else decodeEsc fl .normal r2 p3
        else if c2.c = '\n' ∨ c2.c.toNat = 0x2028 ∨ c2.c.toNat = 0x2029 then
          if fl = .json then .fail p2 else decodeEsc fl .normal r2 p3
        else
          if fl = .json ∧ ¬ (c2.c = '"' ∨ c2.c = '\\' ∨ c2.c = '/') then .fail p2
          else (decodeEsc fl .normal r2 p3).cons (unitsOf c2.c.toNat)

/-! ## the string / template scanner inside `Next` (`stringLiteral:` loop) -/

inductive StrScan where
  /-- the loop was left: contents (without the quotes / `${`), input after the token, `lexer.end`, `needsSlowPath` -/
  | done (text : List Cp) (rest : List Cp) (end_ : Nat) (slow : Bool)
  /-- "Unterminated string literal" at `lexer.end`, then `panic(LexerPanic{})` -/
  | unterminated (at_ : Nat)
  /-- `lexer.SyntaxError()` on a raw control character in JSON -/
  | ctrl (at_ : Nat)
  deriving Repr

/-- what the scanned code points in front of the rest of the loop add to the result -/
def StrScan.cons (pre : List Cp) (slow : Bool) : StrScan → StrScan
  | .done t r e s => .done (pre ++ t) r e (slow || s)
  | x => x

/-- `pos` = `lexer.end` = offset of the head of the list (`lexer.codePoint`) -/
def scanStr (fl : Flavor) (q : Char) : List Cp → Nat → StrScan
  | [], pos => .unterminated pos
  | c :: r, pos =>
    if c.c = '\\' then
      -- `needsSlowPath = true; lexer.step()`
      match r with
      | [] => .unterminated (pos + c.w)   -- the `lexer.step()` after the switch stays at the end of the file
      | d :: r' =>
        if d.c = '\r' ∧ fl ≠ .json then
          -- "Handle Windows CRLF": `lexer.step(); if lexer.codePoint == '\n' { lexer.step() }; continue`
          if headIs r' (· == '\n') then
            match r' with
            | e :: r'' => (scanStr fl q r'' (pos + c.w + d.w + e.w)).cons [c, d, e] true
            | [] => .unterminated (pos + c.w + d.w)
          else (scanStr fl q r' (pos + c.w + d.w)).cons [c, d] true
        else
          -- the `lexer.step()` after the switch steps over whatever follows the backslash
          (scanStr fl q r' (pos + c.w + d.w)).cons [c, d] true
    else if c.c = '\r' then
      if q ≠ '`' then .unterminated pos else (scanStr fl q r (pos + c.w)).cons [c] true
    else if c.c = '\n' then
      if q ≠ '`' then .unterminated pos else (scanStr fl q r (pos + c.w)).cons [c] false
    else if c.c = '$' ∧ q = '`' then
      -- `lexer.step(); if lexer.codePoint == '{' { suffixLen = 2; lexer.step(); … break }; continue stringLiteral`
      if headIs r (· == '{') then
        match r with
        | d :: r' => .done [] r' (pos + c.w + d.w) false
        | [] => .unterminated (pos + c.w)
      else (scanStr fl q r (pos + c.w)).cons [c] false
    else if c.c = q then .done [] r (pos + c.w) false
    else if c.c.toNat ≥ 0x80 then (scanStr fl q r (pos + c.w)).cons [c] true
    else if fl = .json ∧ c.c.toNat < 0x20 then .ctrl pos
    else (scanStr fl q r (pos + c.w)).cons [c] false

/-! ## `scanIdentifierWithEscapes`, first pass -/

inductive IdMode where
  | normal
  /-- after the backslash -/
  | bs
  /-- after `\u` -/
  | u
  /-- inside `\u{` -/
  | brace
  /-- `k` more hexadecimal digits of `\uXXXX` are required (k ≥ 1) -/
  | fixed (k : Nat)
  deriving DecidableEq, Repr

inductive IdScan where
  | ok (consumed : List Cp) (rest : List Cp) (end_ : Nat)
  /-- `lexer.SyntaxError()` at this `lexer.end` -/
  | err (at_ : Nat)
  deriving Repr

def IdScan.cons (c : Cp) : IdScan → IdScan
  | .ok t r e => .ok (c :: t) r e
  | x => x

def isHex (c : Char) : Bool := (hexVal c).isSome

def idScan (P : Params) : IdMode → List Cp → Nat → IdScan
  | .normal, [], pos => .ok [] [] pos
  | _, [], pos => .err pos
  | .normal, c :: r, pos =>
    if c.c = '\\' then (idScan P .bs r (pos + c.w)).cons c
    else if !isIdCont P c.c then .ok [] (c :: r) pos
    else (idScan P .normal r (pos + c.w)).cons c
  | .bs, c :: r, pos =>
    if c.c ≠ 'u' then .err pos else (idScan P .u r (pos + c.w)).cons c
  | .u, c :: r, pos =>
    if c.c = '{' then (idScan P .brace r (pos + c.w)).cons c
    else if !isHex c.c then .err pos
    else (idScan P (.fixed 3) r (pos + c.w)).cons c
  | .brace, c :: r, pos =>
    if c.c = '}' then (idScan P .normal r (pos + c.w)).cons c
    else if !isHex c.c then .err pos
    else (idScan P .brace r (pos + c.w)).cons c
  | .fixed k, c :: r, pos =>
    if !isHex c.c then .err pos
    else if k ≤ 1 then (idScan P .normal r (pos + c.w)).cons c
    else (idScan P (.fixed (k - 1)) r (pos + c.w)).cons c

/-- `js_ast.IsIdentifier(text)` on the bytes of a Go string (`for i, codePoint := range text`) -/
def isIdentifierBytes (P : Params) (bytes : List Nat) : Bool :=
  match decodeRunes bytes with
  | [] => false
  | c :: r => isIdStart P c.c && r.all (fun d => isIdCont P d.c)

/-- the bytes of a list of decoded code points (`lexer.Raw()`): only their code points matter below -/
def keywordTok (raw : List Char) : Tok :=
  if raw = ['t', 'r', 'u', 'e'] then .tTrue
  else if raw = ['f', 'a', 'l', 's', 'e'] then .tFalse
  else if raw = ['n', 'u', 'l', 'l'] then .tNull
  else .other

/-! ## `Next`: whitespace and comments (every `continue` of the big loop) -/

/-- what the skipping part of `Next` changes: `lexer.end`, `HasNewlineBefore`, the log -/
structure Sk where
  pos : Nat
  nl : Bool
  log : Log
  deriving Repr

inductive SMode where
  | top
  /-- inside a single-line comment; `some s` = a `//` comment that started at `s`, `none` = `<!--` / `-->` -/
  | line (cstart : Option Nat)
  /-- inside `/* … */` that started at `cstart` -/
  | block (cstart : Nat)
  /-- inside `/* … */` just after a `*` -/
  | star (cstart : Nat)
  deriving DecidableEq, Repr

/-- "JSON does not support comments" (`lexer.Range()` starts at the comment) -/
def commentError (fl : Flavor) (log : Log) (cstart : Nat) : Log :=
  if fl = .json then log.rangeError cstart else log

def lineEnd (fl : Flavor) (log : Log) : Option Nat → Log
  | some s => commentError fl log s
  | none => log

/-- one code point per equation; returns the state at the first code point of a token (or at the end of file) -/
def skipSep (fl : Flavor) : SMode → List Cp → Sk → R (Sk × List Cp)
  | .top, [], sk => .ok (sk, [])
  | .line cs, [], sk => .ok ({ sk with log := lineEnd fl sk.log cs }, [])
  -- "Expected \"*/\" to terminate multi-line comment" at the end of the file
  | .block _, [], sk => .panic (sk.log.rangeError sk.pos)
  | .star _, [], sk => .panic (sk.log.rangeError sk.pos)
  | .line cs, c :: r, sk =>
    if isNewline c.c then
      -- the comment ends in front of the newline, which the next round of the loop consumes
      skipSep fl .top r ⟨sk.pos + c.w, true, lineEnd fl sk.log cs⟩
    else skipSep fl (.line cs) r { sk with pos := sk.pos + c.w }
  | .block cs, c :: r, sk =>
    if c.c = '*' then skipSep fl (.star cs) r { sk with pos := sk.pos + c.w }
    else if isNewline c.c then skipSep fl (.block cs) r { sk with pos := sk.pos + c.w, nl := true }
    else skipSep fl (.block cs) r { sk with pos := sk.pos + c.w }
  | .star cs, c :: r, sk =>
    if c.c = '/' then skipSep fl .top r { sk with pos := sk.pos + c.w, log := commentError fl sk.log cs }
    else if c.c = '*' then skipSep fl (.star cs) r { sk with pos := sk.pos + c.w }
    else if isNewline c.c then skipSep fl (.block cs) r { sk with pos := sk.pos + c.w, nl := true }
    else skipSep fl (.block cs) r { sk with pos := sk.pos + c.w }
  | .top, c :: r, sk =>
    if isNewline c.c then skipSep fl .top r { sk with pos := sk.pos + c.w, nl := true }
    else if c.c = '\t' ∨ c.c = ' ' then skipSep fl .top r { sk with pos := sk.pos + c.w }
    else if c.c = '/' then
      match r with
      | d :: r' =>
        if d.c = '/' then skipSep fl (.line (some sk.pos)) r' { sk with pos := sk.pos + c.w + d.w }
        else if d.c = '*' then skipSep fl (.block sk.pos) r' { sk with pos := sk.pos + c.w + d.w }
        else .ok (sk, c :: r)
      | [] => .ok (sk, c :: r)
    else if c.c = '<' then
      -- `strings.HasPrefix(lexer.source.Contents[lexer.start:], "<!--")`: warning, then skip to the end of the line
      match r with
      | d :: e :: f :: r' =>
        if d.c = '!' ∧ e.c = '-' ∧ f.c = '-' then
          skipSep fl (.line none) r' ⟨sk.pos + c.w + d.w + e.w + f.w, sk.nl, sk.log.warn sk.pos⟩
        else .ok (sk, c :: r)
      | _ => .ok (sk, c :: r)
    else if c.c = '-' then
      -- `-->` at the start of a line
      match r with
      | d :: e :: r' =>
        if d.c = '-' ∧ e.c = '>' ∧ sk.nl then
          skipSep fl (.line none) r' ⟨sk.pos + c.w + d.w + e.w, sk.nl, sk.log.warn sk.pos⟩
        else .ok (sk, c :: r)
      | _ => .ok (sk, c :: r)
    else if isWhitespace c.c then skipSep fl .top r { sk with pos := sk.pos + c.w }
    else .ok (sk, c :: r)

/-! ## `Next`: one token -/

/-- the JSON check at the end of `parseNumericLiteralOrDot`, as a function of the token text:
`first == '.' || base != 0 || underscoreCount > 0 || isMissingDigitAfterDot`.  `base != 0` is decided by the first
two characters; every underscore of the token was counted; `isMissingDigitAfterDot` (set after the dot of a literal
that does not start with a dot, cleared by the first fraction digit) is "the character after the first dot is not a
digit" once there is no underscore. -/
def jsonNumBad (t : List Char) : Bool :=
  match t with
  | [] => true
  | first :: r =>
    first == '.' ||
    (first == '0' && (match r with
      | c :: _ => c == 'b' || c == 'B' || c == 'o' || c == 'O' || c == 'x' || c == 'X' || isOct c || c == '_'
      | [] => false)) ||
    t.any (· == '_') ||
    (match t.dropWhile (· != '.') with
      | _ :: d :: _ => !isDigit d
      | [_] => true
      | [] => false)

/-- the fields a token sets -/
def Lx.at (L : Lx) (sk : Sk) (tok : Tok) (rest : List Cp) (e : Nat) : Lx :=
  { L with rest := rest, end_ := e, start := sk.pos, tok := tok, nl := sk.nl, log := sk.log }

/-- the second pass of `scanIdentifierWithEscapes` and its end; `raw` = `lexer.Raw()` -/
def idEscFinish (fl : Flavor) (P : Params) (L : Lx) (sk : Sk) (isPrivate : Bool) (raw rest : List Cp) (e : Nat) : R Lx :=
  match decodeEsc fl .normal raw sk.pos with
  | .fail e' => syntaxError sk.log e'
  | .oor a => .panic (sk.log.rangeError a)
  | .ok us =>
    match Wtf8.utf16ToString us with
    | none => .crash
    | some bytes =>
      -- `identifier = identifier[1:]`
      let ident : Option (List Nat) := if isPrivate then (match bytes with | [] => none | _ :: t => some t) else some bytes
      match ident with
      | none => .crash
      | some ident =>
        let log := if isIdentifierBytes P ident then sk.log else sk.log.rangeError sk.pos
        .ok (L.at { sk with log := log } .other rest e)

/-- `scanIdentifierWithEscapes(kind)` entered with `pre` already stepped over since `lexer.start` -/
def idEsc (fl : Flavor) (P : Params) (L : Lx) (sk : Sk) (isPrivate : Bool) (pre : List Cp) (r : List Cp) : R Lx :=
  match idScan P .normal r (sk.pos + widths pre) with
  | .err a => syntaxError sk.log a
  | .ok consumed rest e => idEscFinish fl P L sk isPrivate (pre ++ consumed) rest e

/-- `lexer.step(); for IsIdentifierContinue(codePoint) { step() }; if codePoint == '\\' { escapes } else { raw }`
(the ASCII fast path of `Next` consumes the same code points) -/
def lexIdent (fl : Flavor) (P : Params) (L : Lx) (sk : Sk) (isPrivate : Bool) (pre : List Cp) (r : List Cp) : R Lx :=
  let body := r.takeWhile (fun c => isIdCont P c.c)
  let rest := r.dropWhile (fun c => isIdCont P c.c)
  if headIs rest (· == '\\') then idEsc fl P L sk isPrivate (pre ++ body) rest
  else
    let tok := if isPrivate then Tok.other else keywordTok (chars (pre ++ body))
    .ok (L.at sk tok rest (sk.pos + widths pre + widths body))

def lexString (fl : Flavor) (L : Lx) (sk : Sk) (q : Cp) (r : List Cp) : R Lx :=
  match scanStr fl q.c r (sk.pos + q.w) with
  | .unterminated a => .panic (sk.log.rangeError a)
  | .ctrl a => syntaxError sk.log a
  | .done text rest e slow =>
    -- `quote == '\'' && (lexer.json == JSON || lexer.json == TSConfigJSON)`: "JSON strings must use double quotes"
    let log := if q.c = '\'' then sk.log.rangeError sk.pos else sk.log
    let tok := if q.c = '`' then Tok.other else Tok.str
    let L' := L.at { sk with log := log } tok rest e
    if slow then .ok { L' with strDec := none, strStart := sk.pos + q.w, strText := text }
    else .ok { L' with strDec := some (text.map (·.c.toNat)) }

def lexNumber (fl : Flavor) (P : Params) (L : Lx) (sk : Sk) (src : List Cp) : R Lx :=
  match LexNum.lexNum P.num (chars src) with
  | .num len v _ =>
    if fl = .json ∧ jsonNumBad ((chars src).take len) then unexpected sk.log sk.pos
    else .ok { L.at sk .num (src.drop len) (sk.pos + len) with number := v }
  -- TBigIntegerLiteral / TDot / TDotDotDot: whether the JSON check or `parseExpr` objects, the message is at the start
  | .big len _ _ => .ok (L.at sk .other (src.drop len) (sk.pos + len))
  | .dot => .ok (L.at sk .other (src.drop 1) (sk.pos + 1))
  | .dotDotDot => .ok (L.at sk .other (src.drop 3) (sk.pos + 3))
  | .err p => syntaxError sk.log (sk.pos + p)
  | .notNumeric => .crash

def isAsciiIdStart (c : Char) : Bool :=
  c == '_' || c == '$' || (97 ≤ c.toNat && c.toNat ≤ 122) || (65 ≤ c.toNat && c.toNat ≤ 90)

/-- the `switch lexer.codePoint` of `Next` at the first code point of a token -/
def lexAt (fl : Flavor) (P : Params) (L : Lx) (sk : Sk) : List Cp → R Lx
  | [] => .ok (L.at sk .eof [] sk.pos)
  | c :: r =>
    let one (t : Tok) : R Lx := .ok (L.at sk t r (sk.pos + c.w))
    if c.c = '[' then one .openBracket
    else if c.c = ']' then one .closeBracket
    else if c.c = '{' then one .openBrace
    else if c.c = '}' then one .closeBrace
    else if c.c = ',' then one .comma
    else if c.c = ':' then one .colon
    else if c.c = '-' then
      if headIs r (fun d => d == '=' || d == '-') then one .other   -- `-=`, `--` (extent not needed)
      else if fl = .json ∧ !headIs r (fun d => d == '.' || isDigit d) then unexpected sk.log sk.pos
      else one .minus
    else if c.c = '"' ∨ c.c = '\'' ∨ c.c = '`' then lexString fl L sk c r
    else if c.c = '.' ∨ isDigit c.c then lexNumber fl P L sk (c :: r)
    else if c.c = '#' then
      if sk.pos = 0 ∧ headIs r (· == '!') then one .other   -- THashbang (extent not needed)
      else if headIs r (· == '\\') then idEsc fl P L sk true [c] r
      else
        match r with
        | d :: r' =>
          if !isIdStart P d.c then syntaxError sk.log (sk.pos + c.w)
          else lexIdent fl P L sk true [c, d] r'
        | [] => syntaxError sk.log (sk.pos + c.w)
    else if c.c = '\\' then idEsc fl P L sk false [] (c :: r)
    else if isAsciiIdStart c.c then lexIdent fl P L sk false [c] r
    else if c.c.toNat < 0x7F then one .other    -- the remaining ASCII punctuation, control characters: never valid
    else if isIdStart P c.c then lexIdent fl P L sk false [c] r
    else one .other                             -- TSyntaxError

/-- `lexer.Next()` -/
def next (fl : Flavor) (P : Params) (L : Lx) : R Lx :=
  match skipSep fl .top L.rest ⟨L.end_, L.end_ == 0, L.log⟩ with
  | .ok (sk, rest) => lexAt fl P L sk rest
  | .panic l => .panic l
  | .crash => .crash

/-- `lexer.StringLiteral()`: the decoded string and the state with the cache filled -/
def stringLiteral (fl : Flavor) (L : Lx) : R (List Nat × Lx) :=
  match L.strDec with
  | some us => .ok (us, L)
  | none =>
    match decodeEsc fl .normal L.strText L.strStart with
    | .fail e => syntaxError L.log e
    | .oor a => .panic (L.log.rangeError a)
    | .ok us => .ok (us, { L with strDec := some us })

/-- `lexer.Expect(t)` -/
def expect (fl : Flavor) (P : Params) (L : Lx) (t : Tok) : R Lx :=
  if L.tok ≠ t then unexpected L.log L.start else next fl P L

/-- `NewLexerJSON`: `lexer.step(); lexer.Next()` -/
def newLexer (fl : Flavor) (P : Params) (bytes : List Nat) : R Lx :=
  next fl P ⟨decodeRunes bytes, 0, 0, .eof, false, .fin false 0 0, ⟨[], none⟩, none, 0, []⟩

end EsbuildModel.Json
