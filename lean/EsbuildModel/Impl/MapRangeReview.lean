import EsbuildModel.Gen.MapRanges
/-
Review of the `for … range <map>` loops of esbuild's linker / bundler / api / graph / resolver / printers / renamer
that do NOT feed a slice which is sorted later in the same function (Go randomises map iteration order).
Each entry is (package, function, ranged expression, why the iteration order cannot reach a build result).
The list was written against the pinned tree; `Props/C08.lean` proves that every site the extractor finds NOW
is either collect-then-sort or in this list — a new map iteration, or a sort that disappears, breaks the proof.
-/
namespace EsbuildModel.MapRangeReview

def reviewed : List (String × String × String × String) := [
  ("linker", "linkerContext.computeCrossChunkDependencies", "chunkMeta.imports", "items are grouped per chunk and every group is sorted afterwards by sortedCrossChunkImports / sortedCrossChunkExportItems (in another function)"),
  ("api", "cloneMangleCache", "mangleCache", "copies entries into another map / set (or only reads them): no ordered sink"),
  ("api", "rebuildImpl", "oldHashes", "collects stale output paths to delete; each is removed independently, the order of os.Remove calls is not observable in the result"),
  ("api", "validateAlias", "alias", "copies entries into another map / set (or only reads them): no ordered sink"),
  ("api", "validateBannerOrFooter", "values", "calls an order-insensitive operation per entry (diagnostics are sorted by the logger before they are reported; counters and sets commute)"),
  ("api", "validateBuildOptions", "options.ExtensionToLoader", "searches for ANY entry with a property; the loop result does not depend on which matching entry is met first (at most one can match, or all matches are equivalent)"),
  ("api", "validateDefines", "rawDefines", "definesArray is sorted by key right after the loop (sort.Sort on a named slice type the extractor's pattern does not see)"),
  ("api", "validateLoaders", "loaders", "copies entries into another map / set (or only reads them): no ordered sink"),
  ("api", "validateLogOverrides", "input", "calls an order-insensitive operation per entry (diagnostics are sorted by the logger before they are reported; counters and sets commute)"),
  ("api", "validateOutputExtensions", "outExtensions", "calls an order-insensitive operation per entry (diagnostics are sorted by the logger before they are reported; counters and sets commute)"),
  ("api", "validateSupported", "supported", "calls an order-insensitive operation per entry (diagnostics are sorted by the logger before they are reported; counters and sets commute)"),
  ("api", "watcher.tryToFindDirtyPath", "w.data.Paths", "the watcher samples paths in a deliberately random order; which dirty path is reported first only affects a log line of watch mode, not a build result"),
  ("bundler", "parseFile", "results", "copies entries into another map / set (or only reads them): no ordered sink"),
  ("bundler", "scanner.processScannedFiles", "importAttributeNameCollisions", "calls an order-insensitive operation per entry (diagnostics are sorted by the logger before they are reported; counters and sets commute)"),
  ("graph", "CloneLinkerGraph", "part.SymbolUses", "copies entries into another map / set (or only reads them): no ordered sink"),
  ("graph", "CloneLinkerGraph", "repr.AST.ConstValues", "copies entries into another map / set (or only reads them): no ordered sink"),
  ("graph", "CloneLinkerGraph", "repr.AST.NamedExports", "copies entries into another map / set (or only reads them): no ordered sink"),
  ("graph", "CloneLinkerGraph", "repr.AST.NamedImports", "copies entries into another map / set (or only reads them): no ordered sink"),
  ("graph", "CloneLinkerGraph", "repr.AST.TSEnums", "copies entries into another map / set (or only reads them): no ordered sink"),
  ("linker", "linkerContext.addExportsForExportStar", "otherRepr.AST.NamedExports", "fills the ResolvedExports MAP; the appended PotentiallyAmbiguousExportStarRefs are only tested for 'all the same target', which is order-insensitive"),
  ("linker", "linkerContext.computeCrossChunkDependencies", "chunk.filesWithPartsInChunk", "copies entries into another map / set (or only reads them): no ordered sink"),
  ("linker", "linkerContext.computeCrossChunkDependencies", "part.SymbolUses", "copies entries into another map / set (or only reads them): no ordered sink"),
  ("linker", "linkerContext.generateExtraDataForFileJS", "part.SymbolUses", "calls an order-insensitive operation per entry (diagnostics are sorted by the logger before they are reported; counters and sets commute)"),
  ("linker", "linkerContext.mangleProps", "js_lexer.Keywords", "copies entries into another map / set (or only reads them): no ordered sink"),
  ("linker", "linkerContext.mangleProps", "mangleCache", "copies entries into another map / set (or only reads them): no ordered sink"),
  ("linker", "linkerContext.mangleProps", "repr.AST.MangledProps", "copies entries into another map / set (or only reads them): no ordered sink"),
  ("linker", "linkerContext.mangleProps", "repr.AST.ReservedProps", "copies entries into another map / set (or only reads them): no ordered sink"),
  ("linker", "linkerContext.preventExportsFromBeingRenamed", "repr.AST.ModuleScope.Members", "calls an order-insensitive operation per entry (diagnostics are sorted by the logger before they are reported; counters and sets commute)"),
  ("linker", "linkerContext.scanImportsAndExports", "part.ImportSymbolPropertyUses", "copies entries into another map / set (or only reads them): no ordered sink"),
  ("linker", "linkerContext.scanImportsAndExports", "part.SymbolCallUses", "copies entries into another map / set (or only reads them): no ordered sink"),
  ("linker", "linkerContext.scanImportsAndExports", "part.SymbolUses", "appends to part.Dependencies and LocalPartsWithUses, which are used as SETS by the liveness marking (Shake model: order-insensitive least fixed point)"),
  ("linker", "linkerContext.scanImportsAndExports", "properties", "copies entries into another map / set (or only reads them): no ordered sink"),
  ("linker", "linkerContext.scanImportsAndExports", "repr.AST.Composes", "calls an order-insensitive operation per entry (diagnostics are sorted by the logger before they are reported; counters and sets commute)"),
  ("linker", "linkerContext.scanImportsAndExports", "repr.Meta.ImportsToBind", "appends to part.Dependencies, used as a set by the liveness marking"),
  ("linker", "linkerContext.validateComposesFromProperties", "composes.Properties", "copies entries into another map / set (or only reads them): no ordered sink"),
  ("renamer", "AssignNestedScopeSlots", "moduleScope.Members", "copies entries into another map / set (or only reads them): no ordered sink"),
  ("renamer", "ComputeReservedNames", "js_lexer.Keywords", "copies entries into another map / set (or only reads them): no ordered sink"),
  ("renamer", "ComputeReservedNames", "js_lexer.StrictModeReservedWords", "copies entries into another map / set (or only reads them): no ordered sink"),
  ("renamer", "MinifyRenamer.AccumulateSymbolUseCounts", "symbolUses", "calls an order-insensitive operation per entry (diagnostics are sorted by the logger before they are reported; counters and sets commute)"),
  ("renamer", "NumberRenamer.AssignNamesByScope", "nestedScopes", "calls an order-insensitive operation per entry (diagnostics are sorted by the logger before they are reported; counters and sets commute)"),
  ("renamer", "computeReservedNamesForScope", "scope.Members", "copies entries into another map / set (or only reads them): no ordered sink"),
  ("resolver", "NewResolver", "esmConditionsDefault", "copies entries into another map / set (or only reads them): no ordered sink"),
  ("resolver", "Resolver.Resolve", "r.options.PackageAliases", "calls an order-insensitive operation per entry (diagnostics are sorted by the logger before they are reported; counters and sets commute)"),
  ("resolver", "resolverQuery.finalizeImportsExportsResult", "rewrittenFileExtensions", "searches for ANY entry with a property; the loop result does not depend on which matching entry is met first (at most one can match, or all matches are equivalent)"),
  ("resolver", "resolverQuery.loadAsFile", "rewrittenFileExtensions", "searches for ANY entry with a property; the loop result does not depend on which matching entry is met first (at most one can match, or all matches are equivalent)"),
  ("resolver", "resolverQuery.matchTSConfigPaths", "tsConfigJSON.Paths.Map", "searches for ANY entry with a property; the loop result does not depend on which matching entry is met first (at most one can match, or all matches are equivalent)"),
  ("resolver", "resolverQuery.parseTSConfigFromSource", "result.Paths.Map", "calls an order-insensitive operation per entry (diagnostics are sorted by the logger before they are reported; counters and sets commute)")
]

def keyOf (r : String × String × String × String) : String × String × String := (r.1, r.2.1, r.2.2.1)

end EsbuildModel.MapRangeReview
