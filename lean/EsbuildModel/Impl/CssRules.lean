/-
Model of the rule-level part of esbuild's CSS `--minify-syntax`, read line by line from
/repo/internal/css_parser/css_parser.go and /repo/internal/css_ast/css_ast.go:

* `mangleRules` (css_parser.go): removal of empty rules (with the exceptions for `@keyframes`, named `@layer`,
  and at-rules that are not in `atKnownRuleCanBeRemovedIfEmpty`), collapsing of `@layer a { @layer b {…} }`,
  unwrapping of an `@media` whose queries equal those of an ENCLOSING `@media` (`p.enclosingAtMedia`), merging of a
  selector rule into the previous non-comment rule when the bodies are `RulesEqual`, both selector lists are
  `isSafeSelectors` and the body has no nested rules (`containsNestedRules`; selectors already present are not added twice), and – for every list that is not the top
  level of a file – the back-to-front duplicate removal;
* `parseSelectorList`: "Omit duplicate selectors" inside one selector list;
* `MakeDeadRuleMangler` / `RemoveDeadRulesInPlace`: back-to-front pass that drops a selector rule all of whose
  selectors are dead (`:is()` / `:where()` with an empty list) unless it contains nested rules, and every rule for which an `Equal` rule was already
  seen (= stands later); the linker (generateChunkCSS) runs it with ONE remover over the top-level rules of all
  files of a chunk, last file first;
* `Equal` of the rule types (`RAtLayer.Equal` and `RAtImport.Equal` always answer false, and so does `RKnownAt.Equal`
  for the token "layer" – the wrapper the linker puts around the rules of `@import … layer(…)`; at-tokens are compared
  with `EqualFold`; `SSPseudoClass.Equal` compares the argument tokens with `TokensEqual` and, since `TokensEqual` cannot tell
  "no arguments" from "empty argument list", also `Args == nil`), `isSafeSelectors`, `allSelectorsAreDead`,
  `containsNestedRules`.

What is NOT modelled: the hash buckets of the remover (the model compares with every rule seen; the code only with
rules of the same hash – the same thing as long as `Equal` rules have equal hashes, which the correspondence tests),
`url()` tokens and local (CSS-module) names in cross-file comparisons, the lowering of nesting, the inlining of
`& { … }`, everything inside a declaration (css_decls*.go).  Token lists (values, preludes, media queries, keyframes)
are opaque canonical texts produced by the harness.
-/
import EsbuildModel.Util.Wire

namespace EsbuildModel.CssRules

/-! ## selectors -/

/-- a subclass selector, as far as `Equal`, `isSafeSelectors` and `containsDeadSelectors` look into it -/
inductive Sub
  | hash (name : String)
  | cls (name : String)
  | attr (text : String) (modifier : Nat)                         -- text: name, operator, value; modifier byte
  | pseudo (name : String) (hasArgs : Bool) (args : String) (isElement : Bool)
  | pseudoList (kind : String) (inner : String) (emptyList : Bool)  -- :is(…) :not(…) :nth-child(… of …) …
  deriving DecidableEq, Repr, Inhabited

/-- `NameToken`: kind ("i" = TIdent, "*" = TDelimAsterisk, …) and text -/
structure NameTok where
  kind : String
  text : String
  deriving DecidableEq, Repr, Inhabited

/-- `NamespacedName` -/
structure TypeSel where
  pfx : Option NameTok
  name : NameTok
  deriving DecidableEq, Repr, Inhabited

/-- `CompoundSelector` -/
structure Compound where
  comb : Nat                 -- Combinator.Byte (0 = none)
  nesting : Nat              -- len(NestingSelectorLocs)
  typ : Option TypeSel
  subs : List Sub
  deriving DecidableEq, Repr, Inhabited

/-- `ComplexSelector` -/
abbrev Complex := List Compound

/-- `SS.Equal` -/
def subEq : Sub → Sub → Bool
  | .hash a, .hash b => a == b
  | .cls a, .cls b => a == b
  | .attr t m, .attr t' m' => t == t' && m == m'
  -- `(a.Args == nil) == (b.Args == nil)`: ":x" is not ":x()"
  | .pseudo n h args el, .pseudo n' h' args' el' => n == n' && args == args' && el == el' && h == h'
  | .pseudoList k inner _, .pseudoList k' inner' _ => k == k' && inner == inner'
  | _, _ => false

/-- `NamespacedName.Equal` -/
def typeEq (a b : TypeSel) : Bool :=
  a.name == b.name && (a.pfx.isNone == b.pfx.isNone) &&
    (match a.pfx, b.pfx with
     | some p, some q => p == q
     | _, _ => true)

def subsEq : List Sub → List Sub → Bool
  | [], [] => true
  | a :: as, b :: bs => subEq a b && subsEq as bs
  | _, _ => false

/-- one iteration of the loop of `ComplexSelector.Equal` -/
def compoundEq (a b : Compound) : Bool :=
  a.nesting == b.nesting && a.comb == b.comb &&
    (match a.typ, b.typ with
     | none, none => true
     | some s, some t => typeEq s t
     | _, _ => false) &&
    subsEq a.subs b.subs

/-- `ComplexSelector.Equal` -/
def complexEq : Complex → Complex → Bool
  | [], [] => true
  | a :: as, b :: bs => compoundEq a b && complexEq as bs
  | _, _ => false

/-- `ComplexSelectorsEqual` -/
def complexesEq : List Complex → List Complex → Bool
  | [], [] => true
  | a :: as, b :: bs => complexEq a b && complexesEq as bs
  | _, _ => false

def nonDeprecatedElementsSupportedByIE7 : List String :=
  ["a", "abbr", "address", "area", "b", "base", "blockquote", "body", "br", "button", "caption", "cite", "code", "col",
   "colgroup", "dd", "del", "dfn", "div", "dl", "dt", "em", "embed", "fieldset", "form", "h1", "h2", "h3", "h4", "h5",
   "h6", "head", "hr", "html", "i", "iframe", "img", "input", "ins", "kbd", "label", "legend", "li", "link", "map",
   "menu", "meta", "noscript", "object", "ol", "optgroup", "option", "p", "param", "pre", "q", "ruby", "s", "samp",
   "script", "select", "small", "span", "strong", "style", "sub", "sup", "table", "tbody", "td", "textarea", "tfoot",
   "th", "thead", "title", "tr", "u", "ul", "var"]

def subIsSafe : Sub → Bool
  | .attr _ m => m == 0
  | .pseudo n hasArgs _ el =>
    !hasArgs && !el && (n == "active" || n == "first-child" || n == "hover" || n == "link" || n == "visited")
  | .pseudoList .. => false
  | _ => true

def compoundIsSafe (c : Compound) : Bool :=
  c.nesting == 0 && c.comb == 0 &&
    (match c.typ with
     | none => true
     | some t => t.pfx.isNone && !(t.name.kind == "i" && !nonDeprecatedElementsSupportedByIE7.contains t.name.text)) &&
    c.subs.all subIsSafe

/-- `isSafeSelectors` -/
def isSafeSelectors (sels : List Complex) : Bool :=
  sels.all (fun cx => cx.all compoundIsSafe)

def subIsDead : Sub → Bool
  | .pseudoList k _ e => e && (k == "is" || k == "where")
  | _ => false

/-- `containsDeadSelectors` -/
def containsDeadSelectors (cx : Complex) : Bool :=
  cx.any (fun c => c.subs.any subIsDead)

/-- `allSelectorsAreDead` (true for the empty list, as in the code) -/
def allSelectorsAreDead (sels : List Complex) : Bool :=
  sels.all containsDeadSelectors

/-! ## rules -/

inductive Rule
  | sel (sels : List Complex) (body : List Rule)                       -- RSelector
  | decl (key : String) (value : String) (important : Bool)             -- RDeclaration
  | media (queries : String) (body : List Rule)                        -- RAtMedia
  /-- RAtLayer with `Rules == nil` (printed `@layer a, b;`) -/
  | layerStmt (names : List (List String))
  /-- RAtLayer with a block.  `anon` is a ghost identity that no model function reads: it lets the specification
      tell two anonymous layer blocks apart. -/
  | layerBlock (names : List (List String)) (anon : Nat) (body : List Rule)
  | known (tok : String) (prelude : String) (body : List Rule)          -- RKnownAt (@supports, @container, @font-face …)
  | other (kind : String) (prelude : String) (body : List Rule)        -- RQualified, RAtScope: a body, no case in mangleRules
  | keyframes (text : String)                                          -- RAtKeyframes (opaque)
  | badDecl (text : String)                                            -- RBadDeclaration
  | atom (text : String)                                               -- other rule with a hash (unknown at-rule, @charset …)
  | comment (text : String)                                            -- RComment
  | atImport (text : String)                                           -- RAtImport: no hash, never equal
  deriving Repr, Inhabited

def Rule.isComment : Rule → Bool
  | .comment _ => true
  | _ => false

/-- the cases of `containsNestedRules` that do not count: RDeclaration, RBadDeclaration, RComment -/
def Rule.isPlain : Rule → Bool
  | .decl .. => true
  | .badDecl _ => true
  | .comment _ => true
  | _ => false

/-- `containsNestedRules` -/
def containsNestedRules (rules : List Rule) : Bool := rules.any (fun r => !r.isPlain)

/-- ASCII lower-casing: how `strings.EqualFold` behaves on the ASCII at-tokens the harness generates -/
def foldEq (a b : String) : Bool := a.toLower == b.toLower

mutual
/-- `R.Equal` -/
def ruleEq : Rule → Rule → Bool
  | .sel s b, .sel s' b' => complexesEq s s' && rulesEq b b'
  | .decl k v i, .decl k' v' i' => k == k' && v == v' && i == i'
  | .media q b, .media q' b' => q == q' && rulesEq b b'
  | .layerStmt .., _ => false            -- RAtLayer.Equal: every path ends in `return false`
  | .layerBlock .., _ => false
  -- the linker wraps the rules of `@import … layer(…)` in an RKnownAt with the token "layer": never `Equal`
  | .known a p b, .known a' p' b' => !foldEq a "layer" && foldEq a a' && p == p' && rulesEq b b'
  | .other k p b, .other k' p' b' => k == k' && p == p' && rulesEq b b'
  | .keyframes t, .keyframes t' => t == t'
  | .badDecl t, .badDecl t' => t == t'
  | .atom t, .atom t' => t == t'
  | .comment t, .comment t' => t == t'
  | .atImport _, _ => false
  | _, _ => false
/-- `RulesEqual` -/
def rulesEq : List Rule → List Rule → Bool
  | [], [] => true
  | a :: as, b :: bs => ruleEq a b && rulesEq as bs
  | _, _ => false
end

/-- does `Hash()` answer ok? (only `RAtImport` does not) -/
def Rule.hashable : Rule → Bool
  | .atImport _ => false
  | _ => true

/-! ## `parseSelectorList`: "Omit duplicate selectors" -/

/-- keeps a selector unless it is `Equal` to one that was kept before (`sel.Equal(existing, nil)`) -/
def dedupSelectorsAux (kept : List Complex) : List Complex → List Complex
  | [] => kept
  | s :: rest => if kept.any (fun existing => complexEq s existing) then dedupSelectorsAux kept rest
                 else dedupSelectorsAux (kept ++ [s]) rest

def dedupSelectors (sels : List Complex) : List Complex := dedupSelectorsAux [] sels

/-! ## `RemoveDeadRulesInPlace` -/

/-- `allSelectorsAreDead(r.Selectors) && !containsNestedRules(r.Rules)` -/
def Rule.isDeadSelectorRule : Rule → Bool
  | .sel sels body => allSelectorsAreDead sels && !containsNestedRules body
  | _ => false

/-- The loop `for i := n - 1; i >= 0; i--`: the rules after `r` are handled first.  `seen` stands for
`remover.entries` (all buckets together); the result is (rules kept, entries afterwards). -/
def removeDeadAux : List Rule → List Rule → List Rule × List Rule
  | [], seen => ([], seen)
  | r :: rest, seen =>
    let (kept, seen') := removeDeadAux rest seen
    if r.isDeadSelectorRule then (kept, seen')
    else if r.hashable then
      if seen'.any (fun current => ruleEq r current) then (kept, seen')
      else (r :: kept, seen' ++ [r])
    else (r :: kept, seen')

/-- one call on a fresh remover (what `mangleRules` does for nested lists) -/
def removeDead (rules : List Rule) : List Rule := (removeDeadAux rules []).1

/-- generateChunkCSS: `for i := len(importsInChunkInOrder) - 1; i >= 0; i--` with one remover -/
def linkFilesAux : List (List Rule) → List Rule → List (List Rule) × List Rule
  | [], seen => ([], seen)
  | f :: fs, seen =>
    let (outs, seen') := linkFilesAux fs seen
    let (kept, seen'') := removeDeadAux f seen'
    (kept :: outs, seen'')

def linkFiles (files : List (List Rule)) : List (List Rule) := (linkFilesAux files []).1

/-! ## `mangleRules` -/

def atKnownRuleCanBeRemovedIfEmpty : List String :=
  ["media", "supports", "font-face", "page",
   "bottom-center", "bottom-left-corner", "bottom-left", "bottom-right-corner", "bottom-right", "left-bottom",
   "left-middle", "left-top", "right-bottom", "right-middle", "right-top", "top-center", "top-left-corner", "top-left",
   "top-right-corner", "top-right", "scope", "font-palette-values", "container"]

/-- `mangledRules` together with `prevNonComment`.  In the code `prevNonComment` is a pointer to the data of the
last non-comment rule that was appended to `mangledRules` (the merge writes through it), so the list is kept as
`done ++ prev ++ trail` where `trail` are the comments that follow `prev`. -/
structure MState where
  done : List Rule := []
  prev : Option Rule := none
  trail : List Rule := []
  deriving Repr, Inhabited

def MState.out (s : MState) : List Rule := s.done ++ s.prev.toList ++ s.trail

/-- `mangledRules = append(mangledRules, rule)` plus the update of `prevNonComment` -/
def MState.push (s : MState) (r : Rule) : MState :=
  if r.isComment then { s with trail := s.trail ++ [r] }
  else { done := s.done ++ s.prev.toList ++ s.trail, prev := some r, trail := [] }

/-- the `nextSelector` loop: `prev.Selectors` grows while the selectors of `r` are visited -/
def mergeSelectors (prevSels : List Complex) : List Complex → List Complex
  | [] => prevSels
  | s :: rest => if prevSels.any (fun prevSel => complexEq s prevSel) then mergeSelectors prevSels rest
                 else mergeSelectors (prevSels ++ [s]) rest

/-- one iteration of the first loop of `mangleRules`; `enc` = `p.enclosingAtMedia` -/
def mangleStep (enc : List String) (s : MState) (r : Rule) : MState :=
  match r with
  | .layerBlock names anon body =>
    if body.isEmpty && !names.isEmpty then s.push (.layerStmt names)          -- `r.Rules = nil`
    else
      match body, names with
      | [.layerBlock [n2] _ body2], [n1] => s.push (.layerBlock [n1 ++ n2] anon body2)
      | [.layerStmt [n2]], [n1] => s.push (.layerStmt [n1 ++ n2])            -- `r.Rules = r2.Rules` = nil
      | _, _ => s.push (.layerBlock names anon body)
  | .known tok _ body =>
    if body.isEmpty && atKnownRuleCanBeRemovedIfEmpty.contains tok then s else s.push r
  | .media q body =>
    if body.isEmpty then s
    else if enc.any (fun queries => q == queries) then body.foldl MState.push s
    else s.push r
  | .sel sels body =>
    if body.isEmpty then s
    else
      match s.prev with
      | some (.sel prevSels prevBody) =>
        if rulesEq body prevBody && isSafeSelectors sels && isSafeSelectors prevSels && !containsNestedRules body then
          { s with prev := some (.sel (mergeSelectors prevSels sels) prevBody) }
        else s.push r
      | _ => s.push r
  | _ => s.push r

/-- `mangleRules(rules, isTopLevel)` -/
def mangleRules (enc : List String) (isTopLevel : Bool) (rules : List Rule) : List Rule :=
  let mangled := (rules.foldl (mangleStep enc) {}).out
  if isTopLevel then mangled else removeDead mangled

/-! ## the parser applies all this bottom-up -/

mutual
/-- what the parser does with one rule before its list is mangled: the rule's own body was parsed (and mangled) first -/
def mangleChild (enc : List String) : Rule → Rule
  | .sel sels body => .sel (dedupSelectors sels) (mangleRules enc false (mangleChildren enc body))
  | .media q body => .media q (mangleRules (enc ++ [q]) false (mangleChildren (enc ++ [q]) body))
  | .layerBlock names anon body => .layerBlock names anon (mangleRules enc false (mangleChildren enc body))
  | .known tok prelude body => .known tok prelude (mangleRules enc false (mangleChildren enc body))
  | .other kind prelude body => .other kind prelude (mangleRules enc false (mangleChildren enc body))
  | r => r
def mangleChildren (enc : List String) : List Rule → List Rule
  | [] => []
  | r :: rest => mangleChild enc r :: mangleChildren enc rest
end

/-- the rules of one file as `css_parser.Parse` returns them under `MinifySyntax` -/
def mangleFile (rules : List Rule) : List Rule := mangleRules [] true (mangleChildren [] rules)

/-- a chunk: every file parsed with `MinifySyntax`, then the linker's cross-file duplicate removal -/
def minifyChunk (files : List (List Rule)) : List (List Rule) := linkFiles (files.map mangleFile)

/-- `wrapRulesWithConditions` for one condition (`@import "f" layer(x)` / `supports(c)`): the harness decides
whether a wrapper is created and sends its at-token and prelude -/
def wrapFile (wrap : Option (String × String)) (rules : List Rule) : List Rule :=
  match wrap with
  | none => rules
  | some (tok, prelude) => [.known tok prelude rules]

/-- `minifyChunk` for files that were imported with a condition -/
def minifyChunkWrapped (files : List (Option (String × String) × List Rule)) : List (List Rule) :=
  linkFiles (files.map (fun f => wrapFile f.1 (mangleFile f.2)))

/-! ## line protocol

One argument per file; a file is a space separated token stream:
  file     := [ "W" str str ] rules        ("W" at-token prelude: the file's rules get this wrapper after parsing)
  rules    := rule* ")"
  rule     := "S" complexes rules | "D" str str bool | "M" str rules | "L" bool names rules | "K" str str rules
            | "Q" str str rules | "F" str | "B" str | "A" str | "C" str | "I" str
  complexes:= complex* ")"        complex := "(" compound* ")"
  compound := "c" nat nat type sub* ")"      type := "-" | "t" pfx str str     pfx := "-" | "n" str str
  sub      := "h" str | "." str | "a" str nat | "p" str bool str bool | "l" str str bool
  names    := name* ")"           name := "(" str* ")"
  str      := "'" followed by the text, percent-encoded by the harness (never decoded here: only compared)
The answer has the same shape (files separated by TAB). -/

abbrev Toks := List String

def pStr : Toks → Option (String × Toks)
  | t :: r => match t.toList with
    | '\'' :: cs => some (String.ofList cs, r)
    | _ => none
  | [] => none

def pBool : Toks → Option (Bool × Toks)
  | "0" :: r => some (false, r)
  | "1" :: r => some (true, r)
  | _ => none

def pNat : Toks → Option (Nat × Toks)
  | t :: r => t.toNat?.map (fun n => (n, r))
  | [] => none

def pStrs : Nat → Toks → Option (List String × Toks)
  | 0, _ => none
  | _ + 1, ")" :: r => some ([], r)
  | fuel + 1, ts => do
    let (s, r) ← pStr ts
    let (ss, r) ← pStrs fuel r
    pure (s :: ss, r)

def pNames : Nat → Toks → Option (List (List String) × Toks)
  | 0, _ => none
  | _ + 1, ")" :: r => some ([], r)
  | fuel + 1, "(" :: r => do
    let (n, r) ← pStrs fuel r
    let (ns, r) ← pNames fuel r
    pure (n :: ns, r)
  | _, _ => none

def pSub : Toks → Option (Sub × Toks)
  | "h" :: r => do let (n, r) ← pStr r; pure (.hash n, r)
  | "." :: r => do let (n, r) ← pStr r; pure (.cls n, r)
  | "a" :: r => do let (t, r) ← pStr r; let (m, r) ← pNat r; pure (.attr t m, r)
  | "p" :: r => do
    let (n, r) ← pStr r; let (h, r) ← pBool r; let (a, r) ← pStr r; let (e, r) ← pBool r
    pure (.pseudo n h a e, r)
  | "l" :: r => do let (k, r) ← pStr r; let (i, r) ← pStr r; let (e, r) ← pBool r; pure (.pseudoList k i e, r)
  | _ => none

def pSubs : Nat → Toks → Option (List Sub × Toks)
  | 0, _ => none
  | _ + 1, ")" :: r => some ([], r)
  | fuel + 1, ts => do
    let (s, r) ← pSub ts
    let (ss, r) ← pSubs fuel r
    pure (s :: ss, r)

def pType : Toks → Option (Option TypeSel × Toks)
  | "-" :: r => some (none, r)
  | "t" :: "-" :: r => do
    let (k, r) ← pStr r; let (t, r) ← pStr r
    pure (some { pfx := none, name := ⟨k, t⟩ }, r)
  | "t" :: "n" :: r => do
    let (pk, r) ← pStr r; let (pt, r) ← pStr r; let (k, r) ← pStr r; let (t, r) ← pStr r
    pure (some { pfx := some ⟨pk, pt⟩, name := ⟨k, t⟩ }, r)
  | _ => none

def pCompounds : Nat → Toks → Option (List Compound × Toks)
  | 0, _ => none
  | _ + 1, ")" :: r => some ([], r)
  | fuel + 1, "c" :: r => do
    let (comb, r) ← pNat r; let (nesting, r) ← pNat r; let (typ, r) ← pType r
    let (subs, r) ← pSubs fuel r
    let (cs, r) ← pCompounds fuel r
    pure ({ comb, nesting, typ, subs } :: cs, r)
  | _, _ => none

def pComplexes : Nat → Toks → Option (List Complex × Toks)
  | 0, _ => none
  | _ + 1, ")" :: r => some ([], r)
  | fuel + 1, "(" :: r => do
    let (c, r) ← pCompounds fuel r
    let (cs, r) ← pComplexes fuel r
    pure (c :: cs, r)
  | _, _ => none

/-- `anon` of a layer is the number of tokens that follow its tag: different for different rules of one file -/
def pRules : Nat → Toks → Option (List Rule × Toks)
  | 0, _ => none
  | _ + 1, ")" :: r => some ([], r)
  | fuel + 1, tag :: r => do
    let (rule, r) ← (match tag with
      | "S" => do let (s, r) ← pComplexes fuel r; let (b, r) ← pRules fuel r; pure (Rule.sel s b, r)
      | "D" => do let (k, r) ← pStr r; let (v, r) ← pStr r; let (i, r) ← pBool r; pure (Rule.decl k v i, r)
      | "M" => do let (q, r) ← pStr r; let (b, r) ← pRules fuel r; pure (Rule.media q b, r)
      | "L" => do
        let anon := r.length
        let (blk, r) ← pBool r; let (ns, r) ← pNames fuel r; let (b, r) ← pRules fuel r
        if blk then pure (Rule.layerBlock ns anon b, r)
        else if b.isEmpty then pure (Rule.layerStmt ns, r) else none
      | "K" => do let (a, r) ← pStr r; let (p, r) ← pStr r; let (b, r) ← pRules fuel r; pure (Rule.known a p b, r)
      | "Q" => do let (k, r) ← pStr r; let (p, r) ← pStr r; let (b, r) ← pRules fuel r; pure (Rule.other k p b, r)
      | "F" => do let (t, r) ← pStr r; pure (Rule.keyframes t, r)
      | "B" => do let (t, r) ← pStr r; pure (Rule.badDecl t, r)
      | "A" => do let (t, r) ← pStr r; pure (Rule.atom t, r)
      | "C" => do let (t, r) ← pStr r; pure (Rule.comment t, r)
      | "I" => do let (t, r) ← pStr r; pure (Rule.atImport t, r)
      | _ => none : Option (Rule × Toks))
    let (rs, r) ← pRules fuel r
    pure (rule :: rs, r)
  | _, _ => none

def parseFile (arg : String) : Option (Option (String × String) × List Rule) :=
  let toks := (arg.splitOn " ").filter (· ≠ "")
  let (wrap, toks) : Option (Option (String × String)) × Toks :=
    match toks with
    | "W" :: r =>
      match pStr r with
      | some (a, r) =>
        match pStr r with
        | some (p, r) => (some (some (a, p)), r)
        | none => (none, r)
      | none => (none, r)
    | _ => (some none, toks)
  match wrap, pRules (toks.length + 1) toks with
  | some w, some (rs, []) => some (w, rs)
  | _, _ => none

def showStr (s : String) : String := "'" ++ s
def showBool (b : Bool) : String := if b then "1" else "0"

def showSub : Sub → List String
  | .hash n => ["h", showStr n]
  | .cls n => [".", showStr n]
  | .attr t m => ["a", showStr t, toString m]
  | .pseudo n h a e => ["p", showStr n, showBool h, showStr a, showBool e]
  | .pseudoList k i e => ["l", showStr k, showStr i, showBool e]

def showType : Option TypeSel → List String
  | none => ["-"]
  | some t => "t" :: (match t.pfx with
      | none => ["-"]
      | some p => ["n", showStr p.kind, showStr p.text]) ++ [showStr t.name.kind, showStr t.name.text]

def showCompound (c : Compound) : List String :=
  ["c", toString c.comb, toString c.nesting] ++ showType c.typ ++ c.subs.flatMap showSub ++ [")"]

def showComplex (cx : Complex) : List String := "(" :: cx.flatMap showCompound ++ [")"]

def showNames (ns : List (List String)) : List String :=
  ns.flatMap (fun n => "(" :: n.map showStr ++ [")"]) ++ [")"]

mutual
def showRule : Rule → List String
  | .sel s b => "S" :: s.flatMap showComplex ++ [")"] ++ showRules b
  | .decl k v i => ["D", showStr k, showStr v, showBool i]
  | .media q b => "M" :: showStr q :: showRules b
  | .layerStmt ns => "L" :: "0" :: showNames ns ++ [")"]
  | .layerBlock ns _ b => "L" :: "1" :: showNames ns ++ showRules b
  | .known a p b => "K" :: showStr a :: showStr p :: showRules b
  | .other k p b => "Q" :: showStr k :: showStr p :: showRules b
  | .keyframes t => ["F", showStr t]
  | .badDecl t => ["B", showStr t]
  | .atom t => ["A", showStr t]
  | .comment t => ["C", showStr t]
  | .atImport t => ["I", showStr t]
def showRules : List Rule → List String
  | [] => [")"]
  | r :: rs => showRule r ++ showRules rs
end

def showFile (rules : List Rule) : String := " ".intercalate (showRules rules)

def driver (args : List String) : String :=
  match args.mapM parseFile with
  | none => "bad-op"
  | some files => "\t".intercalate ((minifyChunkWrapped files).map showFile)

end EsbuildModel.CssRules
