import EsbuildModel.Impl.AssetHash
/-
Property C18, assets: a whole build from the API options to the emitted asset files and the strings the
importers receive (`pkg/api/api_impl.go` `validateBuildOptions`: outdir / outfile / outbase made absolute,
`validatePathTemplate`; `internal/bundler/bundler.go` `applyOptionDefaults`: the default templates,
`addEntryPoints`: `OutputPath` of every entry point and the automatic outbase — all of `Impl/OutPathsDriver.lean`;
then `Impl/AssetHash.lean`), and the line protocol of kernels `assethash` / `assethashfn`.
-/
namespace EsbuildModel.AssetHash
open EsbuildModel.OutPaths

/-- `applyOptionDefaults`: the default asset path template `./[name]-[hash]` -/
def defaultAssetTemplate : List Part := [⟨lit "./", .name⟩, ⟨lit "-", .hash⟩]

/-- an entry point as the API receives it, and the file it resolves to -/
structure Entry where
  input : Str
  out : Str
  resolved : Str

structure BuildIn where
  cwd : Str
  outdir : Str          -- the `Outdir` option ("" = not given)
  outfile : Str         -- the `Outfile` option ("" = not given)
  outbaseOpt : Str      -- the `Outbase` option ("" = not given)
  entryNames : Str
  assetNames : Str
  publicPath : Str
  entries : List Entry
  /-- the reachable inputs loaded with "file" / "copy" -/
  assets : List Asset
  /-- references: (`finalRelPath` of the referring chunk as seen from the output directory, index of the asset) -/
  refs : List (Str × Nat)

/-- the options as the bundler sees them after `validateBuildOptions` and `addEntryPoints` -/
def optsOf (b : BuildIn) : Opts × List Str :=
  let outfile := if b.outfile = [] then [] else absPath b.cwd b.outfile
  -- "If the output file is specified, use it to derive the output directory"
  let outdir := if outfile ≠ [] then dir outfile else absPath b.cwd b.outdir
  let outbaseOpt := if b.outbaseOpt = [] then [] else absPath b.cwd b.outbaseOpt
  let paths := b.entries.map fun e => entryOutputPath b.cwd ⟨e.input, e.out, e.resolved, false, []⟩
  let outbase := effectiveOutbase b.cwd outbaseOpt paths
  let entryT := let t := validatePathTemplate b.entryNames; if t = [] then defaultEntryTemplate else t
  let assetT := let t := validatePathTemplate b.assetNames; if t = [] then defaultAssetTemplate else t
  (⟨outdir, outbase, outfile, entryT, assetT, b.publicPath⟩, paths.map (entryRelativize outdir outbase))

/-- `entryPointSourceIndexToMetaIndex[sourceIndex]`: the map is filled in entry order, so the LAST entry
point with this source wins.  An import with an ignored suffix is a different source than the entry point. -/
def entryOutOf (entries : List Entry) (outs : List Str) (a : Asset) : Option Str :=
  if a.suffix ≠ [] then none
  else ((entries.zip outs).reverse.find? fun p => p.1.resolved = a.keyText).map (·.2)

inductive Result where
  | panic
  | dup (paths : List Str)                       -- "Two output files share the same path but have different contents"
  | ok (files : List OutFile) (refs : List (Option Str))

def build (b : BuildIn) : Result :=
  let (o, outs) := optsOf b
  match b.assets.mapM fun a => outFile o a (entryOutOf b.entries outs a) with
  | none => .panic
  | some files =>
    let (kept, errs) := dedupe canonicalKey files
    if errs ≠ [] then .dup errs
    else
      .ok kept (b.refs.map fun (chunkRel, i) =>
        match b.assets[i]?, files[i]? with
        | some a, some f => importerString o.publicPath o.outdir chunkRel f.absPath a.suffix
        | _, _ => none)

open Wire

def parseList {α : Type} (f : String → Option α) (s : String) : Option (List α) :=
  if s = "." then some [] else (s.splitOn ";").mapM f

def parseEntry3 (s : String) : Option Entry :=
  match s.splitOn "," with
  | [a, b, c] =>
    match parseStr a, parseStr b, parseStr c with
    | some a, some b, some c => some ⟨a, b, c⟩
    | _, _, _ => none
  | _ => none

def parseAsset (s : String) : Option Asset :=
  match s.splitOn "," with
  | [k, sfx, l, d] =>
    match parseStr k, parseStr sfx, parseHexUnits 2 d with
    | some k, some sfx, some d =>
      if l = "f" then some ⟨k, sfx, .file, d⟩ else if l = "c" then some ⟨k, sfx, .copy, d⟩ else none
    | _, _, _ => none
  | _ => none

def parseRef (s : String) : Option (Str × Nat) :=
  match s.splitOn "," with
  | [c, i] =>
    match parseStr c, i.toNat? with
    | some c, some i => some (c, i)
    | _, _ => none
  | _ => none

def sortedJoin (l : List String) : String := " ".intercalate (l.mergeSort (fun a b => !(b < a)))

def showResult : Result → String
  | .panic => "PANIC"
  | .dup paths => s!"ERR dup={sortedJoin (paths.eraseDups.map showStr)}"
  | .ok files refs =>
    let fs := sortedJoin (files.map fun f => s!"{showStr f.absPath}:{hexUnits 2 f.contents}")
    let rs := " ".intercalate (refs.map fun r => match r with | some s => showStr s | none => "!")
    s!"OK files={fs} refs={rs}"

def driver (args : List String) : String :=
  match args with
  | ["build", cwd, outdir, outfile, outbase, entryNames, assetNames, pub, entries, assets, refs] =>
    match opt2 (opt2 (parseStr cwd) (parseStr outdir)) (opt2 (parseStr outfile) (parseStr outbase)),
          opt2 (opt2 (parseStr entryNames) (parseStr assetNames)) (parseStr pub),
          parseList parseEntry3 entries, parseList parseAsset assets, parseList parseRef refs with
    | some ((cwd, outdir), (outfile, outbase)), some ((entryNames, assetNames), pub), some entries, some assets,
      some refs =>
      -- `sanitizeFilePathForVirtualModulePath` and `lowestCommonAncestorDirectory` are modelled on ASCII only
      if !(entries.all fun e => isAscii e.input ∧ isAscii e.out ∧ isAscii e.resolved) ∨ !isAscii cwd
          ∨ !isAscii outdir ∨ !isAscii outfile ∨ !isAscii outbase then "bad-op"
      else if refs.any (fun r => r.2 ≥ assets.length) then "bad-op"
      else showResult (build ⟨cwd, outdir, outfile, outbase, entryNames, assetNames, pub, entries, assets, refs⟩)
    | _, _, _, _, _ => "bad-op"
  | ["name", outdir, outbase, outfile, entryT, assetT, key, sfx, loader, bytes, entryOut] =>
    -- the block of processScannedFiles on given options: relPath and AbsPath of the additional file
    match opt2 (opt2 (parseStr outdir) (parseStr outbase)) (parseStr outfile),
          opt2 (parseParts entryT) (parseParts assetT),
          parseAsset s!"{key},{sfx},{loader},{bytes}", parseOptStr entryOut with
    | some ((outdir, outbase), outfile), some (entryT, assetT), some a, some entryOut =>
      let o : Opts := ⟨outdir, outbase, outfile, entryT, assetT, []⟩
      match relPath o a entryOut with
      | some r => s!"{showStr r} {showStr (join [outdir, r])}"
      | none => "PANIC"
    | _, _, _, _ => "bad-op"
  | ["hash", bytes] =>
    match parseHexUnits 2 bytes with
    | some b => (match contentHash b with | some h => String.ofList h | none => "PANIC")
    | none => "bad-op"
  | ["pbc", pub, fromDir, to] =>
    match parseStr pub, parseStr fromDir, parseStr to with
    | some pub, some fromDir, some to =>
      (match pathBetweenChunks pub fromDir to with | some s => s!"ok {showStr s}" | none => "err")
    | _, _, _ => "bad-op"
  | ["jpp", pub, rel] =>
    match parseStr pub, parseStr rel with
    | some pub, some rel => showStr (joinWithPublicPath pub rel)
    | _, _ => "bad-op"
  | ["imp", pub, outdir, chunkRel, assetAbs, sfx] =>
    match opt2 (parseStr pub) (parseStr outdir), opt2 (parseStr chunkRel) (opt2 (parseStr assetAbs) (parseStr sfx)) with
    | some (pub, outdir), some (chunkRel, (assetAbs, sfx)) =>
      (match importerString pub outdir chunkRel assetAbs sfx with | some s => s!"ok {showStr s}" | none => "err")
    | _, _ => "bad-op"
  | _ => "bad-op"

end EsbuildModel.AssetHash
