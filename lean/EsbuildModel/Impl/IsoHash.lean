import EsbuildModel.Impl.Pieces
/-
Model of the ISOLATED hash of one chunk and of the hashed file name
(internal/linker/linker.go: `generateIsolatedHash`, `generateIsolatedHashInParallel`;
internal/xxhash/xxhash.go + xxhash_other.go: `New`/`Reset`, `Digest.Write`, `writeBlocks`, `Sum64`, `Sum`;
internal/bundler/bundler.go: `HashForFileName` = `base32.StdEncoding.EncodeToString(b)[:8]`).

`generateIsolatedHash` creates its own `xxhash.New()`, so the bytes it writes cannot be observed from
outside; the model therefore contains the streaming XXH64 digest as well and the correspondence kernel
compares the 8 digest bytes the real routine sends through its channel.

`writes` is the sequence of `hash.Write` calls (each `hashWriteUint32` is one call, each
`hashWriteLengthPrefixed` two); `preimage` is their concatenation; `isoHash` feeds them one by one to
the digest.  Bytes are `Nat`s < 256.  A part range whose `sourceIndex` is outside `c.graph.Files` makes
the Go code panic (index out of range): `none`.
-/
namespace EsbuildModel.IsoHash
open EsbuildModel.Pieces

-- ---------------------------------------------------------------- XXH64 (streaming digest)
def prime1 : UInt64 := 11400714785074694791
def prime2 : UInt64 := 14029467366897019727
def prime3 : UInt64 := 1609587929392839161
def prime4 : UInt64 := 9650029242287828579
def prime5 : UInt64 := 2870177450012600261

/-- `bits.RotateLeft64(x, k)` for 0 < k < 64 -/
def rol (x : UInt64) (k : UInt64) : UInt64 := (x <<< k) ||| (x >>> (64 - k))

/-- `binary.LittleEndian.Uint64` / `Uint32` of a byte slice (any length: the little-endian number) -/
def leNum (b : List Nat) : UInt64 := b.foldr (fun x acc => UInt64.ofNat x + acc * 256) 0

def round (acc input : UInt64) : UInt64 := rol (acc + input * prime2) 31 * prime1

def mergeRound (acc val : UInt64) : UInt64 := (acc ^^^ round 0 val) * prime1 + prime4

structure V4 where
  v1 : UInt64
  v2 : UInt64
  v3 : UInt64
  v4 : UInt64
deriving Repr, DecidableEq

/-- the four `round` calls on one 32-byte block -/
def round4 (v : V4) (blk : List Nat) : V4 :=
  { v1 := round v.v1 (leNum (blk.take 8)),
    v2 := round v.v2 (leNum ((blk.drop 8).take 8)),
    v3 := round v.v3 (leNum ((blk.drop 16).take 8)),
    v4 := round v.v4 (leNum ((blk.drop 24).take 8)) }

/-- `writeBlocks`: `for len(b) >= 32 { … b = b[32:] }`; returns the accumulators and the rest.
`fuel` bounds the iterations (`b.length` is always enough). -/
def writeBlocks : Nat → V4 → List Nat → V4 × List Nat
  | 0, v, b => (v, b)
  | fuel + 1, v, b =>
    if b.length ≥ 32 then writeBlocks fuel (round4 v (b.take 32)) (b.drop 32) else (v, b)

structure Digest where
  v : V4
  total : UInt64
  /-- `d.mem[:d.n]` (only that part of the buffer is ever read) -/
  mem : List Nat
deriving Repr, DecidableEq

/-- `New` / `Reset` -/
def Digest.new : Digest :=
  { v := { v1 := prime1 + prime2, v2 := prime2, v3 := 0, v4 := 0 - prime1 }, total := 0, mem := [] }

/-- `Digest.Write` -/
def Digest.write (d : Digest) (b : List Nat) : Digest :=
  let total := d.total + UInt64.ofNat b.length
  if d.mem.length + b.length < 32 then
    -- This new data doesn't even fill the current block.
    { d with total := total, mem := d.mem ++ b }
  else
    -- Finish off the partial block.
    let vb : V4 × List Nat :=
      if d.mem.length > 0 then
        (round4 d.v (d.mem ++ b.take (32 - d.mem.length)), b.drop (32 - d.mem.length))
      else (d.v, b)
    -- One or more full blocks left.
    let vb : V4 × List Nat :=
      if vb.2.length ≥ 32 then writeBlocks vb.2.length vb.1 vb.2 else vb
    -- Store any remaining partial block.
    { v := vb.1, total := total, mem := vb.2 }

/-- first tail loop of `Sum64`: `for ; i+8 <= end; i += 8` -/
def tail8 (h : UInt64) : List Nat → UInt64 × List Nat
  | b0 :: b1 :: b2 :: b3 :: b4 :: b5 :: b6 :: b7 :: rest =>
    let k1 := round 0 (leNum [b0, b1, b2, b3, b4, b5, b6, b7])
    tail8 (rol (h ^^^ k1) 27 * prime1 + prime4) rest
  | l => (h, l)

/-- last tail loop of `Sum64`: one byte at a time -/
def tail1 (h : UInt64) : List Nat → UInt64
  | [] => h
  | x :: rest => tail1 (rol (h ^^^ (UInt64.ofNat x * prime5)) 11 * prime1) rest

/-- `Digest.Sum64` -/
def Digest.sum64 (d : Digest) : UInt64 :=
  let h : UInt64 :=
    if d.total ≥ 32 then
      let h := rol d.v.v1 1 + rol d.v.v2 7 + rol d.v.v3 12 + rol d.v.v4 18
      mergeRound (mergeRound (mergeRound (mergeRound h d.v.v1) d.v.v2) d.v.v3) d.v.v4
    else d.v.v3 + prime5
  let h := h + d.total
  let hr := tail8 h d.mem
  let hr : UInt64 × List Nat :=
    if hr.2.length ≥ 4 then
      (rol (hr.1 ^^^ (leNum (hr.2.take 4) * prime1)) 23 * prime2 + prime3, hr.2.drop 4)
    else hr
  let h := tail1 hr.1 hr.2
  let h := h ^^^ (h >>> 33)
  let h := h * prime2
  let h := h ^^^ (h >>> 29)
  let h := h * prime3
  h ^^^ (h >>> 32)

/-- `Digest.Sum(nil)`: the 8 bytes, most significant first -/
def beBytes (s : UInt64) : List Nat :=
  [(s >>> 56).toNat % 256, (s >>> 48).toNat % 256, (s >>> 40).toNat % 256, (s >>> 32).toNat % 256,
   (s >>> 24).toNat % 256, (s >>> 16).toNat % 256, (s >>> 8).toNat % 256, s.toNat % 256]

def Digest.sum (d : Digest) : List Nat := beBytes d.sum64

/-- a digest fed by a sequence of `Write` calls -/
def digestOfWrites (ws : List (List Nat)) : Digest := ws.foldl Digest.write Digest.new

-- ---------------------------------------------------------------- the chunk as generateIsolatedHash reads it
/-- one entry of `c.graph.Files` -/
structure FileInfo where
  ns : List Nat         -- InputFile.Source.KeyPath.Namespace
  keyText : List Nat    -- InputFile.Source.KeyPath.Text
  prettyRel : List Nat  -- InputFile.Source.PrettyPaths.Rel
deriving Repr, DecidableEq

structure PartRange where
  sourceIndex : Nat
  partIndexBegin : Nat
  partIndexEnd : Nat
deriving Repr, DecidableEq

/-- `chunk.chunkRepr` -/
inductive ChunkRepr
  | js (partsInChunkInOrder : List PartRange)
  | css
deriving Repr, DecidableEq

/-- `sourcemap.SourceMapPieces` -/
structure SMPieces where
  pfx : List Nat
  mappings : List Nat
  sfx : List Nat
deriving Repr, DecidableEq

/-- `intermediateOutput`: `pieces != nil` or the joiner's bytes -/
inductive Out
  | pieces (ps : List Piece)
  | joiner (bytes : List Nat)
deriving Repr, DecidableEq

structure Chunk where
  repr : ChunkRepr
  /-- `finalTemplate[i].Data` (the placeholders are not written to the hash) -/
  finalTemplate : List (List Nat)
  out : Out
  outputSourceMap : SMPieces
  externalLegalComments : List Nat
deriving Repr, DecidableEq

structure Ctx where
  files : List FileInfo
  publicPath : List Nat    -- c.options.PublicPath
  /-- `uint32(c.options.SourceMap)`: 0 None, 1 Inline, 2 LinkedWithComment, 3 ExternalWithoutComment,
  4 InlineAndExternal -/
  sourceMapMode : Nat := 0
  /-- `uint32(c.options.LegalComments)`: 0 Inline, 1 None, 2 EndOfFile, 3 LinkedWithComment,
  4 ExternalWithoutComment -/
  legalMode : Nat := 0
deriving Repr, DecidableEq

/-- `SourceMapPieces.HasContent`: `len(Prefix)+len(Mappings)+len(Suffix) > 0` -/
def SMPieces.hasContent (sm : SMPieces) : Bool :=
  sm.pfx.length + sm.mappings.length + sm.sfx.length > 0

/-- the string "file" -/
def nsFile : List Nat := [102, 105, 108, 101]

/-- `hashWriteUint32`: one `Write` of four bytes -/
def wU32 (v : Nat) : List (List Nat) := [le32 v]

/-- `hashWriteLengthPrefixed`: `hashWriteUint32(uint32(len(bytes)))` then `hash.Write(bytes)` -/
def wLP (b : List Nat) : List (List Nat) := wU32 (b.length % 4294967296) ++ [b]

/-- the body of the loop over `partsInChunkInOrder` -/
def partWrites (files : List FileInfo) (pr : PartRange) : Option (List (List Nat)) :=
  match files[pr.sourceIndex]? with
  | none => none     -- index out of range
  | some file =>
    let filePath := if file.ns = nsFile then file.prettyRel else file.keyText
    some (wLP file.ns ++ wLP filePath ++ wU32 pr.partIndexBegin ++ wU32 pr.partIndexEnd)

def partsWrites (files : List FileInfo) : List PartRange → Option (List (List Nat))
  | [] => some []
  | pr :: rest =>
    match partWrites files pr with
    | none => none
    | some w =>
      match partsWrites files rest with
      | none => none
      | some ws => some (w ++ ws)

/-- the writes of the loop over `partsInChunkInOrder` ("This only needs to be done for JavaScript files,
not CSS files") -/
def fileWrites (ctx : Ctx) (c : Chunk) : Option (List (List Nat)) :=
  match c.repr with
  | .js parts => partsWrites ctx.files parts
  | .css => some []

/-- "Include the generated output content in the hash": the pieces' data spans, or the joiner's bytes -/
def outWrites : Out → List (List Nat)
  | .pieces ps => ps.flatMap fun (p : Piece) => wLP p.data
  | .joiner bytes => wLP bytes

/-- every `hash.Write` call of `generateIsolatedHash`, in order -/
def writes (ctx : Ctx) (c : Chunk) : Option (List (List Nat)) :=
  match fileWrites ctx c with
  | none => none
  | some fw =>
    some (fw
      ++ c.finalTemplate.flatMap wLP
      ++ (if ctx.publicPath ≠ [] then wLP ctx.publicPath else [])
      ++ outWrites c.out
      ++ wLP c.outputSourceMap.pfx
      ++ wLP c.outputSourceMap.mappings
      ++ wLP c.outputSourceMap.sfx
      -- "How the source map is attached … is appended to the chunk after this hash has been computed"
      ++ (if c.outputSourceMap.hasContent then wU32 ctx.sourceMapMode else [])
      ++ (if c.externalLegalComments.length > 0 then
            wLP c.externalLegalComments ++ wU32 ctx.legalMode
          else []))

/-- all bytes fed to the hash -/
def preimage (ctx : Ctx) (c : Chunk) : Option (List Nat) := (writes ctx c).map List.flatten

/-- what `generateIsolatedHash` sends through the channel (and `waitForIsolatedHash` returns) -/
def isoHash (ctx : Ctx) (c : Chunk) : Option (List Nat) :=
  (writes ctx c).map fun ws => (digestOfWrites ws).sum

-- ---------------------------------------------------------------- HashForFileName
/-- `encodeStd` of encoding/base32: "ABCDEFGHIJKLMNOPQRSTUVWXYZ234567" -/
def b32char (d : Nat) : Nat := if d < 26 then 65 + d else 24 + d

/-- the 40-bit number of a group of up to five bytes (base32 pads a short group with zero bits) -/
def groupVal : List Nat → Nat
  | [] => 0
  | [b0] => b0 * 4294967296
  | [b0, b1] => b0 * 4294967296 + b1 * 16777216
  | [b0, b1, b2] => b0 * 4294967296 + b1 * 16777216 + b2 * 65536
  | [b0, b1, b2, b3] => b0 * 4294967296 + b1 * 16777216 + b2 * 65536 + b3 * 256
  | b0 :: b1 :: b2 :: b3 :: b4 :: _ => b0 * 4294967296 + b1 * 16777216 + b2 * 65536 + b3 * 256 + b4

/-- number of data characters base32 emits for a group of k bytes; the rest of the 8 is '=' padding -/
def groupChars (k : Nat) : Nat :=
  match k with
  | 1 => 2 | 2 => 4 | 3 => 5 | 4 => 7 | _ => 8

/-- one group of 1..5 bytes → 8 characters -/
def b32group (g : List Nat) : List Nat :=
  let v := groupVal g
  let digits := [v / 34359738368 % 32, v / 1073741824 % 32, v / 33554432 % 32, v / 1048576 % 32,
                 v / 32768 % 32, v / 1024 % 32, v / 32 % 32, v % 32]
  (digits.take (groupChars g.length)).map b32char ++ List.replicate (8 - groupChars g.length) 61

/-- `base32.StdEncoding.EncodeToString` -/
def b32encode : List Nat → List Nat
  | [] => []
  | b0 :: b1 :: b2 :: b3 :: b4 :: rest => b32group [b0, b1, b2, b3, b4] ++ b32encode rest
  | g => b32group g

/-- `HashForFileName`: `EncodeToString(hashBytes)[:8]`; slicing a shorter string panics (`none`) -/
def hashForFileName (hashBytes : List Nat) : Option (List Nat) :=
  let s := b32encode hashBytes
  if s.length < 8 then none else some (s.take 8)

-- ---------------------------------------------------------------- the final chunk file (generateChunksInParallel)
/-
After the final hash and `chunk.finalRelPath` are known, `generateChunksInParallel` substitutes the final
paths (`substituteFinalPaths`) and then APPENDS to the chunk, in this order, the link to the legal-comments
file (`LegalCommentsLinkedWithComment`) and the source-map comment (`SourceMapLinkedWithComment`: URL of the
.map file; `SourceMapInline` / `SourceMapInlineAndExternal`: the whole map as a data URL).  The strings that
depend on the chunk's own final path are inputs (`OwnPaths`).
-/
def ascii (s : String) : List Nat := s.toList.map Char.toNat

/-- `substituteFinalPaths`: "if intermediateOutput.pieces == nil { return intermediateOutput.joiner }",
otherwise the loop modelled by `Pieces.substitute` -/
def finalContents (pathOf : Kind → Nat → List Nat) : Out → List Nat
  | .pieces ps => substitute pathOf ps
  | .joiner b => b

structure OwnPaths where
  /-- `TrimPrefix(pathBetweenChunks(finalRelDir, finalRelPath + ".LEGAL.txt"), "./")` -/
  legalImportPath : List Nat
  /-- `url.URL{Path: TrimPrefix(pathBetweenChunks(finalRelDir, finalRelPath + ".map"), "./")}.EscapedPath()` -/
  mapEscapedPath : List Nat
  /-- `base64.StdEncoding.EncodeToString(chunk.outputSourceMap.Finalize(shifts))` -/
  mapBase64 : List Nat
deriving Repr, DecidableEq

/-- `Joiner.EnsureNewlineAtEnd`: `if j.length > 0 && j.lastByte != '\n' { j.AddString("\n") }` -/
def ensureNewlineAtEnd (j : List Nat) : List Nat :=
  if j.length > 0 ∧ j.getLast? ≠ some 10 then j ++ [10] else j

def commentPrefix : ChunkRepr → List Nat
  | .js _ => ascii "//"
  | .css => ascii "/*"

def commentSuffix : ChunkRepr → List Nat
  | .js _ => []
  | .css => ascii " */"

/-- "Generate the optional legal comments file for this chunk" — the part that changes the chunk itself -/
def addLegalLink (ctx : Ctx) (c : Chunk) (own : OwnPaths) (j : List Nat) : List Nat :=
  if c.externalLegalComments.length > 0 then
    if ctx.legalMode = 3 then
      ensureNewlineAtEnd j ++ ascii "/*! For license information please see " ++ own.legalImportPath
        ++ ascii " */\n"
    else j
  else j

/-- "Generate the optional source map for this chunk" — the part that changes the chunk itself -/
def addSourceMapComment (ctx : Ctx) (c : Chunk) (own : OwnPaths) (j : List Nat) : List Nat :=
  if ctx.sourceMapMode ≠ 0 ∧ c.outputSourceMap.hasContent = true then
    if ctx.sourceMapMode = 2 then
      ensureNewlineAtEnd j ++ commentPrefix c.repr ++ ascii "# sourceMappingURL=" ++ own.mapEscapedPath
        ++ commentSuffix c.repr ++ [10]
    else if ctx.sourceMapMode = 1 ∨ ctx.sourceMapMode = 4 then
      ensureNewlineAtEnd j ++ commentPrefix c.repr
        ++ ascii "# sourceMappingURL=data:application/json;base64," ++ own.mapBase64
        ++ commentSuffix c.repr ++ [10]
    else j
  else j

/-- `outputContents` of the chunk file -/
def finalFile (ctx : Ctx) (c : Chunk) (pathOf : Kind → Nat → List Nat) (own : OwnPaths) : List Nat :=
  addSourceMapComment ctx c own (addLegalLink ctx c own (finalContents pathOf c.out))

-- ---------------------------------------------------------------- driver
open Wire

/-- space separated items, "." = none -/
def parseItems {α : Type} (f : String → Option α) (s : String) : Option (List α) :=
  if s = "." then some [] else (s.splitOn " ").mapM f

/-- file syntax: `ns/keyText/prettyRel` (hex each) -/
def parseFile (s : String) : Option FileInfo :=
  match s.splitOn "/" with
  | [ns, key, pretty] => do
    let ns ← parseHexUnits 2 ns
    let key ← parseHexUnits 2 key
    let pretty ← parseHexUnits 2 pretty
    pure { ns := ns, keyText := key, prettyRel := pretty }
  | _ => none

def parsePart (s : String) : Option PartRange :=
  match parseNatList s with
  | some [i, b, e] => some { sourceIndex := i, partIndexBegin := b, partIndexEnd := e }
  | _ => none

/-- repr syntax: "C" (CSS) or "J" followed by space separated `sourceIndex,begin,end` triples -/
def parseRepr (s : String) : Option ChunkRepr :=
  if s = "C" then some .css
  else if s = "J" then some (.js [])
  else if s.startsWith "J " then ((s.drop 2).toString.splitOn " ").mapM parsePart |>.map .js
  else none

/-- output syntax: "p" followed by space separated `datahex:kind:index` pieces ("p" alone: an empty
non-nil slice), or "j" followed by space separated hex strings added to the joiner one by one -/
def parseOut (s : String) : Option Out :=
  if s = "p" then some (.pieces [])
  else if s.startsWith "p " then (parsePieces (s.drop 2).toString).map .pieces
  else if s = "j" then some (.joiner [])
  else if s.startsWith "j " then
    (((s.drop 2).toString.splitOn " ").mapM (parseHexUnits 2)).map fun l => .joiner l.flatten
  else none

def parseSM (s : String) : Option SMPieces :=
  match s.splitOn "/" with
  | [a, b, c] => do
    let a ← parseHexUnits 2 a
    let b ← parseHexUnits 2 b
    let c ← parseHexUnits 2 c
    pure { pfx := a, mappings := b, sfx := c }
  | _ => none

def parseChunk (files repr tmpl pub out sm legal : String) (modes : String := "0,0") : Option (Ctx × Chunk) := do
  let (smMode, legalMode) ← (match parseNatList modes with
    | some [a, b] => some (a, b)
    | _ => none)
  let files ← parseItems parseFile files
  let repr ← parseRepr repr
  let tmpl ← parseItems (parseHexUnits 2) tmpl
  let pub ← parseHexUnits 2 pub
  let out ← parseOut out
  let sm ← parseSM sm
  let legal ← parseHexUnits 2 legal
  pure ({ files := files, publicPath := pub, sourceMapMode := smMode, legalMode := legalMode },
        { repr := repr, finalTemplate := tmpl, out := out, outputSourceMap := sm, externalLegalComments := legal })

def showName (n : Option (List Nat)) : String :=
  match n with
  | some n => String.ofList (n.map Char.ofNat)
  | none => "PANIC"

def driver (args : List String) : String :=
  match args with
  | ["iso", files, repr, tmpl, pub, out, sm, legal, modes] =>
    -- digest sent by generateIsolatedHash, then HashForFileName of it; modes = "<SourceMap>,<LegalComments>"
    match parseChunk files repr tmpl pub out sm legal modes with
    | some (ctx, c) =>
      match isoHash ctx c with
      | some d => s!"{hexUnits 2 d} {showName (hashForFileName d)}"
      | none => "PANIC"
    | none => "bad-op"
  | ["pre", files, repr, tmpl, pub, out, sm, legal, modes] =>
    -- the bytes fed to the hash (no real counterpart can be observed; for debugging a disagreement)
    match parseChunk files repr tmpl pub out sm legal modes with
    | some (ctx, c) =>
      match preimage ctx c with
      | some b => hexUnits 2 b
      | none => "PANIC"
    | none => "bad-op"
  | ["file", repr, modes, hasMap, hasLegal, body, legalPath, mapPath, mapB64] =>
    -- the final chunk file: body (after path substitution) plus what generateChunksInParallel appends
    match parseRepr repr, parseNatList modes, parseHexUnits 2 body, parseHexUnits 2 legalPath,
          parseHexUnits 2 mapPath, parseHexUnits 2 mapB64 with
    | some repr, some [smMode, legalMode], some body, some lp, some mp, some b64 =>
      let ctx : Ctx := { files := [], publicPath := [], sourceMapMode := smMode, legalMode := legalMode }
      let c : Chunk := { repr := repr, finalTemplate := [], out := .joiner body,
                         outputSourceMap := if hasMap = "1" then ⟨[123], [], [125]⟩ else ⟨[], [], []⟩,
                         externalLegalComments := if hasLegal = "1" then [47] else [] }
      hexUnits 2 (finalFile ctx c (fun _ _ => []) ⟨lp, mp, b64⟩)
    | _, _, _, _, _, _ => "bad-op"
  | ["xxh", ws] =>
    -- a digest fed by the given sequence of Write calls
    match parseItems (parseHexUnits 2) ws with
    | some ws => hexUnits 2 (digestOfWrites ws).sum
    | none => "bad-op"
  | ["name", bytes] =>
    match parseHexUnits 2 bytes with
    | some b => showName (hashForFileName b)
    | none => "bad-op"
  | _ => "bad-op"

end EsbuildModel.IsoHash
