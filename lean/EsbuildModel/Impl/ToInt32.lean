import EsbuildModel.Util.F64
import EsbuildModel.Util.Wire
/-
Model of `js_ast.ToInt32` / `ToUint32` (internal/js_ast/js_ast_helpers.go) and the ES specification's
ToInt32 / ToUint32 (ECMA-262 §7.1.6, §7.1.7), both on exact dyadic values.
-/
namespace EsbuildModel.ToInt32
open F64

/-- two's complement wrap of an integer into int32 (Go conversion `int32(uint32(x))`, `-i` on int32) -/
def wrap32 (x : Int) : Int := (x + 2147483648) % 4294967296 - 2147483648

/-- ES ToInt32: truncate, reduce modulo 2^32, map [2^31, 2^32) to negatives. NaN, ±∞ ↦ 0. -/
def spec : F64 → Int
  | .nan => 0
  | .inf _ => 0
  | .fin neg m e =>
    let t : Int := if neg then -(truncAbs m e : Int) else (truncAbs m e : Int)
    let r := t % 4294967296          -- Int.emod: result in [0, 2^32)
    if r ≥ 2147483648 then r - 4294967296 else r

/-- Go's `ToInt32`. `garbage` is the implementation-specific result of the conversion `int32(f)` when
`f` is NaN, infinite or out of range (unspecified by the Go spec): the theorem quantifies over it. -/
def impl (garbage : Int) : F64 → Int
  | .nan => 0        -- float64(garbage) == NaN is false; then the IsNaN test returns 0
  | .inf _ => 0      -- float64(garbage) == ±Inf is false for every int32; IsInf returns 0
  | .fin neg m e =>
    let t := truncAbs m e
    let inRange := if neg then t ≤ 2147483648 else t < 2147483648
    -- "The easy way": i := int32(f); if float64(i) == f { return i }
    let i : Int := if inRange then (if neg then -(t : Int) else t) else garbage
    let roundTrips := inRange && isIntegral m e
    if roundTrips then i
    else
      -- "The hard way": math.Mod(|f|, 2^32) is exact; uint32() truncates the (possibly fractional) result
      let modFloor : Nat :=
        if e ≥ 0 then (m * 2 ^ e.toNat) % 4294967296
        else (m % (2 ^ (-e).toNat * 4294967296)) / 2 ^ (-e).toNat
      let i := wrap32 modFloor                      -- int32(uint32(...))
      if neg then wrap32 (-i) else i                -- math.Signbit(f) ⇒ -i (wraps at −2^31)

def implU (garbage : Int) (f : F64) : Int := (impl garbage f) % 4294967296   -- uint32(ToInt32(f))

def specU : F64 → Int
  | .nan => 0
  | .inf _ => 0
  | .fin neg m e =>
    let t : Int := if neg then -(truncAbs m e : Int) else (truncAbs m e : Int)
    t % 4294967296

open Wire in
def driver (args : List String) : String :=
  match args with
  | ["toint32", bits] =>
    match parseHexUnits 16 bits with
    | some [b] => toString (impl 0 (ofBits b))
    | _ => "bad-op"
  | ["touint32", bits] =>
    match parseHexUnits 16 bits with
    | some [b] => toString (implU 0 (ofBits b))
    | _ => "bad-op"
  | _ => "bad-op"

end EsbuildModel.ToInt32
