/-
Model of esbuild's lowering of private class members (`#x`) for targets without them (target es2021: class
fields, private fields / methods / accessors, `#x in o` and static fields are all unsupported, everything else is
kept), and of the run-time helpers the lowered code calls.

Go code modelled (internal/js_parser):
* js_parser_lower_class.go: lowerPrivateBrandCheck, lowerPrivateGet, lowerPrivateSet, lowerPrivateSetUnOp,
  lowerPrivateSetBinOp, and of lowerClass what decides where things go: one WeakMap per private field, one WeakSet per class and
  placement for all private methods and accessors (`_C_instances`, `_C_static`), `name_fn` / `name_get` /
  `name_set` functions, `__privateAdd(this, _C_instances)` first in the constructor, then the instance fields
  (public and private) in source order, then the constructor body (after `super(…)` in a derived class); after
  the class `__privateAdd(_C, _C_static)`, then the static fields in source order with `this` replaced by the
  class; a nested class expression becomes `(_a = class …, …, _a)`.
* js_parser.go: captureValueWithPossibleSideEffects (both modes), the private-name branches of the visitors of
  EIndex (get), EBinary (`=`, `op=`, `||= &&= ??=`, `#x in o`), EUnary (`++ --`), ECall (`o.#m(a)`), ETemplate
  (`o.#m\`…\``).
* js_parser_lower.go: lowerLogicalAssignmentOperator and lowerNullishCoalescingAssignmentOperator (the
  private-name branch, `??` supported).  NOT modelled: lowerOptionalChain with private names (`o?.#x`, `o.#m?.()`),
  destructuring targets (`[o.#x] = v` through `__privateWrapper`), for-in / for-of targets.
* internal/runtime/runtime.go: __privateIn, __privateGet, __privateAdd, __privateSet, __privateMethod,
  __privateWrapper, __accessCheck (transcribed as `hPrivateIn` … below; `helperText` is the text they were
  transcribed from, the kernel compares it with what esbuild emits), __publicField.

The source language and its semantics are in Spec/JsPrivate.lean.  `T` is the language of what esbuild emits;
`evalT` its semantics.  WeakMaps and WeakSets are part of the state (`TSt.wm`, `TSt.ws`); the generated
variables `_x`, `_C_instances`, `m_fn` … are constants of the emitted program (`MemRef`, `FnRef`): esbuild assigns
them right after the class body has been evaluated and before anything of the class can run, PROVIDED the class
has no computed member keys (outside the model; see the recorded finding about `[#x in o]` keys).
Temporaries `_a`, `_b` … are numbered by one counter per function body, in evaluation order; esbuild numbers them
in visiting order; the kernel renumbers both by first appearance.
-/
import EsbuildModel.Spec.JsPrivate
namespace EsbuildModel.PrivLower
open EsbuildModel.JsPrivate

/-- a generated WeakMap (`_x` of class `c`) or WeakSet (`_C_instances`: st = false, `_C_static`: st = true) -/
inductive MemRef where
  | wm (c n : Nat)
  | ws (c : Nat) (st : Bool)
deriving DecidableEq, Repr

/-- the `setter` argument of `__privateWrapper` as esbuild writes it -/
inductive SetArg where
  | absent
  | null
  | fn (f : FnRef)
deriving DecidableEq, Repr

inductive T where
  | lit (v : Val)
  | var (x : Nat)
  | arg
  | this
  | cls (c : Nat)
  | clsTmp (c : Nat)                   -- the inner name `_K` of class c (or the temporary of a class expression)
  | tmp (k : Nat)
  | setTmp (k : Nat) (e : T)           -- `_k = e`
  | asgVar (x : Nat) (e : T)
  | call (f : Nat) (a : T)
  | seq (a b : T)
  | new (ce a : T)
  | scall (ce : T) (i : Nat) (a : T)
  | pubGet (o : T) (p : Nat)
  | classExpr (c : Nat)
  | bad                                -- esbuild reports a syntax error instead
  | pIn (m : MemRef) (o : T)           -- __privateIn(m, o)
  | pGet (o : T) (m : MemRef) (g : Option FnRef)            -- __privateGet(o, m[, g])
  | pSet (o : T) (m : MemRef) (v : T) (s : Option FnRef)    -- __privateSet(o, m, v[, s])
  | pMethod (o : T) (m : MemRef) (f : FnRef)                -- __privateMethod(o, m, f)
  | pAdd (o : T) (m : MemRef) (has : Bool) (v : T)          -- __privateAdd(o, m[, v])   (has = false: no third argument)
  | pubField (o : T) (key : Nat) (has : Bool) (v : T)       -- __publicField(o, "p<key>"[, v])
  | binop (op : BinOp) (a b : T)
  | logic (op : LogOp) (a b : T)       -- a || b, a && b, a ?? b
  | wrapUpd (o : T) (m : MemRef) (s : SetArg) (g : Option FnRef) (inc pre : Bool)   -- __privateWrapper(o, m, s, g)._++ …
  | callCall (f t a : T)               -- f.call(t, a)
  | bindTag (f t : T) (site : Nat)     -- f.bind(t)`…`

-- ---------------------------------------------------------------- state of the emitted program

structure TSt where
  c : Pub
  /-- contents of the WeakMap `_n` of class `c`: class, name, key object -/
  wm : Nat → Nat → Nat → Option Val
  /-- contents of the WeakSets: class, placement, object -/
  ws : Nat → Bool → Nat → Bool

def TSt.setC (t : TSt) (c : Pub) : TSt := { t with c := c }

/-- state inside a function body: the temporaries `_a`, `_b`, … of that activation -/
structure TLoc where
  st : TSt
  tm : Nat → Val

structure TFrame where
  thisV : Val
  argV : Val

def noTemps : Nat → Val := fun _ => .undef

def liftS (f : TSt → Res × TSt) (l : TLoc) : Res × TLoc := ((f l.st).1, { l with st := (f l.st).2 })
def liftP (f : Pub → Res × Pub) (t : TSt) : Res × TSt := ((f t.c).1, t.setC (f t.c).2)

-- ---------------------------------------------------------------- the run-time helpers (runtime.go)

/-- the text the functions below were transcribed from (esbuild's output for target es2021, helper definitions in
the order of runtime.go, one per line, whitespace as printed by esbuild) -/
def helperText : List String := [
  "var __typeError = (msg) => {\n  throw TypeError(msg);\n};",
  "var __accessCheck = (obj, member, msg) => member.has(obj) || __typeError(\"Cannot \" + msg);",
  "var __privateIn = (member, obj) => Object(obj) !== obj ? __typeError('Cannot use the \"in\" operator on this value') : member.has(obj);",
  "var __privateGet = (obj, member, getter) => (__accessCheck(obj, member, \"read from private field\"), getter ? getter.call(obj) : member.get(obj));",
  "var __privateAdd = (obj, member, value) => member.has(obj) ? __typeError(\"Cannot add the same private member more than once\") : member instanceof WeakSet ? member.add(obj) : member.set(obj, value);",
  "var __privateSet = (obj, member, value, setter) => (__accessCheck(obj, member, \"write to private field\"), setter ? setter.call(obj, value) : member.set(obj, value), value);",
  "var __privateMethod = (obj, member, method) => (__accessCheck(obj, member, \"access private method\"), method);",
  "var __privateWrapper = (obj, member, setter, getter) => ({\n  set _(value) {\n    __privateSet(obj, member, value, setter);\n  },\n  get _() {\n    return __privateGet(obj, member, getter);\n  }\n});"]

/-- `member.has(obj)`: WeakMap.prototype.has / WeakSet.prototype.has; false for a key that is not an object -/
def memHas (t : TSt) (m : MemRef) (o : Val) : Bool :=
  match o with
  | .obj id =>
    match m with
    | .wm c n => (t.wm c n id).isSome
    | .ws c st => t.ws c st id
  | _ => false

/-- `__accessCheck(obj, member, msg)`: `member.has(obj) || __typeError(…)` -/
def hAccessCheck (o : Val) (m : MemRef) (t : TSt) : Res × TSt :=
  if memHas t m o then (.val (.bool true), t) else (.err .typeError, t)

/-- `__privateIn(member, obj)`: `Object(obj) !== obj ? __typeError(…) : member.has(obj)` -/
def hPrivateIn (m : MemRef) (o : Val) (t : TSt) : Res × TSt :=
  match o with
  | .obj _ => (.val (.bool (memHas t m o)), t)
  | _ => (.err .typeError, t)

/-- `member.get(obj)`: WeakMap.prototype.get; a WeakSet has no `get`: calling undefined is a TypeError -/
def memGet (t : TSt) (m : MemRef) (o : Val) : Res × TSt :=
  match m, o with
  | .wm c n, .obj id => (.val ((t.wm c n id).getD .undef), t)
  | .wm _ _, _ => (.val .undef, t)
  | .ws _ _, _ => (.err .typeError, t)

/-- `__privateGet(obj, member, getter)`: `(__accessCheck(…), getter ? getter.call(obj) : member.get(obj))` -/
def hPrivateGet (orc : Orc TSt) (o : Val) (m : MemRef) (g : Option FnRef) (t : TSt) : Res × TSt :=
  bindR (hAccessCheck o m t) fun _ t1 =>
    match g with
    | some f => orc (.call f o .undef) t1
    | none => memGet t1 m o

/-- `member.set(obj, value)` (WeakMap; a WeakSet has no `set`) and `member.add(obj)`: a TypeError for a key that is
not an object -/
def memSet (t : TSt) (m : MemRef) (o v : Val) : Res × TSt :=
  match m, o with
  | .wm c n, .obj id => (.val .undef, { t with wm := upd t.wm c (upd (t.wm c) n (upd (t.wm c n) id (some v))) })
  | _, _ => (.err .typeError, t)

def memAdd (t : TSt) (m : MemRef) (o : Val) : Res × TSt :=
  match m, o with
  | .ws c st, .obj id => (.val .undef, { t with ws := upd t.ws c fun s => if s = st then upd (t.ws c st) id true else t.ws c s })
  | _, _ => (.err .typeError, t)

/-- `__privateAdd(obj, member, value)`:
`member.has(obj) ? __typeError(…) : member instanceof WeakSet ? member.add(obj) : member.set(obj, value)` -/
def hPrivateAdd (o : Val) (m : MemRef) (v : Val) (t : TSt) : Res × TSt :=
  if memHas t m o then (.err .typeError, t)
  else
    match m with
    | .ws _ _ => memAdd t m o
    | .wm _ _ => memSet t m o v

/-- `__privateSet(obj, member, value, setter)`:
`(__accessCheck(…), setter ? setter.call(obj, value) : member.set(obj, value), value)` -/
def hPrivateSet (orc : Orc TSt) (o : Val) (m : MemRef) (v : Val) (s : Option FnRef) (t : TSt) : Res × TSt :=
  bindR (hAccessCheck o m t) fun _ t1 =>
    bindR (match s with
      | some f => orc (.call f o v) t1
      | none => memSet t1 m o v) fun _ t2 => (.val v, t2)

/-- `__privateMethod(obj, member, method)`: `(__accessCheck(…), method)` -/
def hPrivateMethod (o : Val) (m : MemRef) (f : FnRef) (t : TSt) : Res × TSt :=
  bindR (hAccessCheck o m t) fun _ t1 => (.val (.obj (fnId f)), t1)

/-- `__publicField(obj, key, value)` on the objects of the model (extensible, no accessor of that name anywhere):
the own data property is created or overwritten -/
def hPublicField (o : Val) (key : Nat) (v : Val) (t : TSt) : Res × TSt :=
  match o with
  | .obj id => (.val .undef, t.setC (t.c.setPub id key v))
  | _ => (.err .typeError, t)

def SetArg.fn? : SetArg → Option FnRef
  | .fn f => some f
  | _ => none

-- ---------------------------------------------------------------- semantics of the emitted language

def evalT (P : Prog) (w : World) (orc : Orc TSt) (fr : TFrame) : T → TLoc → Res × TLoc
  | .lit v, l => (.val v, l)
  | .var x, l => (.val (l.st.c.env x), l)
  | .arg, l => (.val fr.argV, l)
  | .this, l => (.val fr.thisV, l)
  | .cls c, l => if l.st.c.defined c then (.val (.obj (clsId c)), l) else (.err .refError, l)
  | .clsTmp c, l => (.val (.obj (clsId c)), l)
  | .tmp k, l => (.val (l.tm k), l)
  | .setTmp k e, l => bindR (evalT P w orc fr e l) fun v l1 => (.val v, { l1 with tm := upd l1.tm k v })
  | .asgVar x e, l =>
    bindR (evalT P w orc fr e l) fun v l1 =>
      (.val v, { l1 with st := l1.st.setC { l1.st.c with env := upd l1.st.c.env x v } })
  | .call f a, l => bindR (evalT P w orc fr a l) fun v l1 => liftS (liftP (Pub.probe w f v)) l1
  | .seq a b, l => bindR (evalT P w orc fr a l) fun _ l1 => evalT P w orc fr b l1
  | .new ce a, l =>
    bindR (evalT P w orc fr ce l) fun cv l1 =>
      bindR (evalT P w orc fr a l1) fun av l2 =>
        match isClassObj P l2.st.c cv with
        | some c => liftS (orc (.construct c av)) l2
        | none => (.err .typeError, l2)
  | .scall ce i a, l =>
    bindR (evalT P w orc fr ce l) fun cv l1 =>
      if cv.nullish then (.err .typeError, l1)
      else
        let fo := (isClassObj P l1.st.c cv).bind fun c => P.smethod c i
        bindR (evalT P w orc fr a l1) fun av l2 =>
          match fo with
          | some f => liftS (orc (.call f cv av)) l2
          | none => (.err .typeError, l2)
  | .pubGet o p, l => bindR (evalT P w orc fr o l) fun ov l1 => (l1.st.c.getPub ov p, l1)
  | .classExpr c, l => liftS (orc (.define c)) l
  | .bad, l => (.err .stuck, l)
  | .pIn m o, l => bindR (evalT P w orc fr o l) fun ov l1 => liftS (hPrivateIn m ov) l1
  | .pGet o m g, l => bindR (evalT P w orc fr o l) fun ov l1 => liftS (hPrivateGet orc ov m g) l1
  | .pSet o m v s, l =>
    bindR (evalT P w orc fr o l) fun ov l1 =>
      bindR (evalT P w orc fr v l1) fun vv l2 => liftS (hPrivateSet orc ov m vv s) l2
  | .pMethod o m f, l => bindR (evalT P w orc fr o l) fun ov l1 => liftS (hPrivateMethod ov m f) l1
  | .pAdd o m _ v, l =>
    bindR (evalT P w orc fr o l) fun ov l1 =>
      bindR (evalT P w orc fr v l1) fun vv l2 => liftS (hPrivateAdd ov m vv) l2
  | .pubField o key _ v, l =>
    bindR (evalT P w orc fr o l) fun ov l1 =>
      bindR (evalT P w orc fr v l1) fun vv l2 => liftS (hPublicField ov key vv) l2
  | .binop op a b, l =>
    bindR (evalT P w orc fr a l) fun av l1 =>
      bindR (evalT P w orc fr b l1) fun bv l2 =>
        match w.arith op av bv with
        | some r => (.val r, l2)
        | none => (.err .typeError, l2)
  | .logic op a b, l =>
    bindR (evalT P w orc fr a l) fun av l1 => if op.done av then (.val av, l1) else evalT P w orc fr b l1
  | .wrapUpd o m s g inc pre, l =>
    -- `__privateWrapper(o, m, s, g)._++`: the wrapper object, GetValue of `._` (its getter), ToNumeric, ± 1,
    -- PutValue (its setter)
    bindR (evalT P w orc fr o l) fun ov l1 =>
      bindR (liftS (hPrivateGet orc ov m g) l1) fun old l2 =>
        match w.toNumeric old with
        | none => (.err .typeError, l2)
        | some oldN =>
          match w.arith (if inc then .add else .sub) oldN (.num 1) with
          | none => (.err .typeError, l2)
          | some nv => bindR (liftS (hPrivateSet orc ov m nv s.fn?) l2) fun _ l3 => (.val (if pre then nv else oldN), l3)
  | .callCall f t a, l =>
    -- `f.call`: a TypeError on undefined / null; Function.prototype.call for a function; undefined (so a TypeError
    -- once the arguments have been evaluated) for everything else
    bindR (evalT P w orc fr f l) fun fv l1 =>
      if fv.nullish then (.err .typeError, l1)
      else
        bindR (evalT P w orc fr t l1) fun tv l2 =>
          bindR (evalT P w orc fr a l2) fun av l3 => liftS (callVal P orc fv tv av) l3
  | .bindTag f t site, l =>
    bindR (evalT P w orc fr f l) fun fv l1 =>
      if fv.nullish then (.err .typeError, l1)
      else bindR (evalT P w orc fr t l1) fun tv l2 => liftS (callVal P orc fv tv (.obj (tplId site))) l2

-- ---------------------------------------------------------------- the lowering of expressions

structure LCtx where
  P : Prog
  scope : Option Nat
  /-- inside a static field initializer `this` has been replaced by the class (`_K`) -/
  thisRepl : Option Nat

/-- the symbol of a private name: its Private Name, its placement and its kind -/
def LCtx.sym (cx : LCtx) (n : Nat) : Option ((Nat × Nat) × Bool × PKind) :=
  match cx.P.resolve cx.scope n with
  | some k =>
    match cx.P.decl k.1 k.2 with
    | some (st, kind) => some (k, st, kind)
    | none => none
  | none => none

/-- the generated variable a private name stands for: the field's WeakMap, or the WeakSet of all methods and
accessors of the class and placement -/
def memOf (k : Nat × Nat) (st : Bool) : PKind → MemRef
  | .field _ => .wm k.1 k.2
  | _ => .ws k.1 st

/-- lowerPrivateGet -/
def lowerGet (o : T) (k : Nat × Nat) (st : Bool) : PKind → T
  | .method f => .pMethod o (.ws k.1 st) f
  | .accessor (some g) _ => .pGet o (.ws k.1 st) (some g)
  | kind => .pGet o (memOf k st kind) none

/-- lowerPrivateSet -/
def lowerSet (o : T) (k : Nat × Nat) (st : Bool) (kind : PKind) (v : T) : T :=
  match kind with
  | .accessor _ (some s) => .pSet o (.ws k.1 st) v (some s)
  | kind => .pSet o (memOf k st kind) v none

/-- lowerPrivateSetUnOp: "only include necessary arguments" -/
def setArgOf : PKind → SetArg
  | .accessor _ (some s) => .fn s
  | .accessor (some _) none => .null
  | _ => .absent

def getArgOf : PKind → Option FnRef
  | .accessor (some g) _ => some g
  | _ => none

/-- captureValueWithPossibleSideEffects, count = 2: `mu` = valueCouldBeMutated.  Returns (first use, later uses,
next free temporary). -/
def capture (mu : Bool) (e : T) (n : Nat) : T × T × Nat :=
  match e with
  | .lit v => (.lit v, .lit v, n)
  | .this => (.this, .this, n)
  | .var x => if mu then (.setTmp n (.var x), .tmp n, n + 1) else (.var x, .var x, n)
  | .arg => if mu then (.setTmp n .arg, .tmp n, n + 1) else (.arg, .arg, n)
  | .cls c => if mu then (.setTmp n (.cls c), .tmp n, n + 1) else (.cls c, .cls c, n)
  | .clsTmp c => if mu then (.setTmp n (.clsTmp c), .tmp n, n + 1) else (.clsTmp c, .clsTmp c, n)
  | e => (.setTmp n e, .tmp n, n + 1)

def lowerE (cx : LCtx) : Expr → Nat → T × Nat
  | .lit v, n => (.lit v, n)
  | .var x, n => (.var x, n)
  | .arg, n => (.arg, n)
  | .this, n => (match cx.thisRepl with | some c => .clsTmp c | none => .this, n)
  | .cls c, n => (.cls c, n)
  | .asgVar x e, n => let r := lowerE cx e n; (.asgVar x r.1, r.2)
  | .call f a, n => let r := lowerE cx a n; (.call f r.1, r.2)
  | .seq a b, n => let ra := lowerE cx a n; let rb := lowerE cx b ra.2; (.seq ra.1 rb.1, rb.2)
  | .new ce a, n => let rc := lowerE cx ce n; let ra := lowerE cx a rc.2; (.new rc.1 ra.1, ra.2)
  | .scall ce i a, n => let rc := lowerE cx ce n; let ra := lowerE cx a rc.2; (.scall rc.1 i ra.1, ra.2)
  | .pubGet o p, n => let r := lowerE cx o n; (.pubGet r.1 p, r.2)
  | .classExpr c, n => (.classExpr c, n)
  | .pget o nm, n =>
    match cx.sym nm with
    | none => (.bad, n)
    | some (k, st, kind) => let r := lowerE cx o n; (lowerGet r.1 k st kind, r.2)
  | .pset o nm v, n =>
    match cx.sym nm with
    | none => (.bad, n)
    | some (k, st, kind) =>
      let ro := lowerE cx o n
      let rv := lowerE cx v ro.2
      (lowerSet ro.1 k st kind rv.1, rv.2)
  | .pbin o nm op v, n =>
    -- lowerPrivateSetBinOp: "__privateSet(target, #private, __privateGet(target, #private) + 123)"
    match cx.sym nm with
    | none => (.bad, n)
    | some (k, st, kind) =>
      let ro := lowerE cx o n
      let rv := lowerE cx v ro.2
      let c := capture false ro.1 rv.2
      (lowerSet c.1 k st kind (.binop op (lowerGet c.2.1 k st kind) rv.1), c.2.2)
  | .plog o nm op v, n =>
    -- "a.#b ||= c" => "__privateGet(a, #b) || __privateSet(a, #b, c)"
    match cx.sym nm with
    | none => (.bad, n)
    | some (k, st, kind) =>
      let ro := lowerE cx o n
      let rv := lowerE cx v ro.2
      let c := capture false ro.1 rv.2
      (.logic op (lowerGet c.1 k st kind) (lowerSet c.2.1 k st kind rv.1), c.2.2)
  | .pupd o nm inc pre, n =>
    match cx.sym nm with
    | none => (.bad, n)
    | some (k, st, kind) =>
      let ro := lowerE cx o n
      (.wrapUpd ro.1 (memOf k st kind) (setArgOf kind) (getArgOf kind) inc pre, ro.2)
  | .pin nm o, n =>
    match cx.sym nm with
    | none => (.bad, n)
    | some (k, st, kind) => let ro := lowerE cx o n; (.pIn (memOf k st kind) ro.1, ro.2)
  | .pcall o nm a, n =>
    -- "foo.#bar(123)" => "__privateGet(_a = foo, #bar).call(_a, 123)"
    match cx.sym nm with
    | none => (.bad, n)
    | some (k, st, kind) =>
      let ro := lowerE cx o n
      let ra := lowerE cx a ro.2
      let c := capture true ro.1 ra.2
      (.callCall (lowerGet c.1 k st kind) c.2.1 ra.1, c.2.2)
  | .ptag o nm site, n =>
    -- "foo.#bar`123`" => "__privateGet(_a = foo, #bar).bind(_a)`123`"
    match cx.sym nm with
    | none => (.bad, n)
    | some (k, st, kind) =>
      let ro := lowerE cx o n
      let c := capture true ro.1 ro.2
      (.bindTag (lowerGet c.1 k st kind) c.2.1 site, c.2.2)

-- ---------------------------------------------------------------- the lowering of classes

structure TClass where
  stamp : Bool
  /-- the statements esbuild puts at the start of the constructor (after `super(…)`) -/
  prologue : List T
  ctorBody : Option T
  /-- the statements after the class -/
  statics : List T
  /-- the function bodies: member index ↦ (is a setter, body) -/
  bodies : List (Option (Bool × T))

structure TProg where
  classes : List TClass

def lowerBody (P : Prog) (c : Nat) (thisRepl : Option Nat) (e : Expr) : T := (lowerE ⟨P, some c, thisRepl⟩ e 0).1

/-- an initializer; `= undefined` is dropped like a missing one -/
def lowerInit (P : Prog) (c : Nat) (thisRepl : Option Nat) : Option Expr → Bool × T
  | none => (false, .lit .undef)
  | some e =>
    match lowerBody P c thisRepl e with
    | .lit .undef => (false, .lit .undef)
    | b => (true, b)

/-- lowerField: a field becomes a statement on `target` (`this` in the constructor, the class after the class) -/
def lowerFieldStmt (P : Prog) (c : Nat) (thisRepl : Option Nat) (target : T) : Member → Option T
  | .pubField _ key init => some (.pubField target key (lowerInit P c thisRepl init).1 (lowerInit P c thisRepl init).2)
  | .privField _ n init => some (.pAdd target (.wm c n) (lowerInit P c thisRepl init).1 (lowerInit P c thisRepl init).2)
  | _ => none

def brandStmt (P : Prog) (c : Nat) (st : Bool) (target : T) : List T :=
  if (P.methodElems c st).isEmpty then [] else [.pAdd target (.ws c st) false (.lit .undef)]

def lowerMember (P : Prog) (c : Nat) : Member → Option (Bool × T)
  | .method _ _ b => some (false, lowerBody P c none b)
  | .getter _ _ b => some (false, lowerBody P c none b)
  | .setter _ _ b => some (true, lowerBody P c none b)
  | .smethod _ b => some (false, lowerBody P c none b)
  | _ => none

def lowerClass (P : Prog) (c : Nat) (cl : Class) : TClass :=
  { stamp := cl.stamp
    prologue := brandStmt P c false .this ++ (P.fields c false).filterMap (lowerFieldStmt P c none .this)
    ctorBody := cl.ctor.map (lowerBody P c none)
    statics := brandStmt P c true (.clsTmp c) ++ (P.fields c true).filterMap (lowerFieldStmt P c (some c) (.clsTmp c))
    bodies := cl.members.map (lowerMember P c) }

def lowerProg (P : Prog) : TProg := ⟨(List.range P.classes.length).filterMap fun c => (P.cls c).map (lowerClass P c)⟩

def TProg.body (TP : TProg) (f : FnRef) : Option (Bool × T) :=
  match TP.classes[f.1]? with
  | some tc => match tc.bodies[f.2]? with
    | some b => b
    | none => none
  | none => none

-- ---------------------------------------------------------------- running the emitted program

/-- statements of a constructor prologue / after a class: each one has its own temporaries -/
def evalStmts (P : Prog) (w : World) (orc : Orc TSt) (fr : TFrame) : List T → TSt → Res × TSt
  | [], t => (.val .undef, t)
  | e :: rest, t =>
    match evalT P w orc fr e ⟨t, noTemps⟩ with
    | (.err x, l) => (.err x, l.st)
    | (.val _, l) => evalStmts P w orc fr rest l.st

def evalBodyT (P : Prog) (w : World) (orc : Orc TSt) (fr : TFrame) (b : Option T) (t : TSt) : Res × TSt :=
  match b with
  | none => (.val .undef, t)
  | some e => ((evalT P w orc fr e ⟨t, noTemps⟩).1, (evalT P w orc fr e ⟨t, noTemps⟩).2.st)

/-- `new K(a)` on the emitted class: the object (fresh, or what the stamping base returned), the prologue, the body -/
def constructT (P : Prog) (TP : TProg) (w : World) (orc : Orc TSt) (c : Nat) (av : Val) (t : TSt) : Res × TSt :=
  match TP.classes[c]? with
  | none => (.err .stuck, t)
  | some tc =>
    let o := (newTarget tc.stamp av t.c).1
    let t0 := t.setC (newTarget tc.stamp av t.c).2
    bindR (evalStmts P w orc ⟨.obj o, av⟩ tc.prologue t0) fun _ t1 =>
      bindR (evalBodyT P w orc ⟨.obj o, av⟩ tc.ctorBody t1) fun _ t2 => (.val (.obj o), t2)

/-- the statements esbuild emits after the class (the WeakMap / WeakSet / function assignments have no effect on
the state of the model, see the header) -/
def defineT (P : Prog) (TP : TProg) (w : World) (orc : Orc TSt) (c : Nat) (t : TSt) : Res × TSt :=
  if t.c.created c then (.err .stuck, t)
  else
    match TP.classes[c]? with
    | none => (.err .stuck, t)
    | some tc =>
      let t0 := t.setC { t.c with created := upd t.c.created c true }
      bindR (evalStmts P w orc ⟨.obj (clsId c), .undef⟩ tc.statics t0) fun _ t1 => (.val (.obj (clsId c)), t1)

def runT (P : Prog) (TP : TProg) (w : World) : Nat → Req → TSt → Res × TSt
  | 0, _, t => (.err .fuel, t)
  | k + 1, .call f tv av, t =>
    match TP.body f with
    | some (isSetter, b) =>
      bindR (evalBodyT P w (runT P TP w k) ⟨tv, av⟩ (some b) t) fun v t1 => (.val (if isSetter then .undef else v), t1)
    | none => (.err .stuck, t)
  | k + 1, .construct c av, t => constructT P TP w (runT P TP w k) c av t
  | k + 1, .define c, t => defineT P TP w (runT P TP w k) c t

def defineTopsT (P : Prog) (TP : TProg) (w : World) (fuel : Nat) : List Nat → TSt → Res × TSt
  | [], t => (.val .undef, t)
  | c :: rest, t =>
    bindR (runT P TP w fuel (.define c) t) fun _ t1 =>
      defineTopsT P TP w fuel rest (t1.setC { t1.c with defined := upd t1.c.defined c true })

def runProgT (P : Prog) (w : World) (fuel : Nat) (tops : List Nat) (main : Expr) (t : TSt) : Res × TSt :=
  bindR (defineTopsT P (lowerProg P) w fuel tops t) fun _ t1 =>
    evalBodyT P w (runT P (lowerProg P) w fuel) ⟨.undef, .undef⟩ (some (lowerE ⟨P, none, none⟩ main 0).1) t1

-- ---------------------------------------------------------------- wire: printing the lowering

def showVal : Val → String
  | .undef => "u"
  | .null => "null"
  | .bool b => if b then "true" else "false"
  | .num n => s!"(num {n})"
  | .nan => "nan"
  | .str s => s!"(str {s})"
  | .obj i => s!"(obj {i})"

def showMem : MemRef → String
  | .wm c n => s!"(wm {c} {n})"
  | .ws c st => s!"(ws {c} {if st then "s" else "i"})"

def showFn (f : FnRef) : String := s!"(fn {f.1} {f.2})"
def showOptFn : Option FnRef → String
  | some f => " " ++ showFn f
  | none => ""

def tmpIndex (k : Nat) (m : List Nat) : Nat × List Nat :=
  match m.idxOf? k with
  | some i => (i, m)
  | none => (m.length, m ++ [k])

def showBin : BinOp → String
  | .add => "+" | .sub => "-" | .mul => "*"
def showLog : LogOp → String
  | .or => "||" | .and => "&&" | .nul => "??"

/-- temporaries are renumbered in order of first appearance (per function body) -/
def showT : T → List Nat → String × List Nat
  | .lit v, m => (showVal v, m)
  | .var x, m => (s!"v{x}", m)
  | .arg, m => ("a", m)
  | .this, m => ("this", m)
  | .cls c, m => (s!"(K {c})", m)
  | .clsTmp c, m => (s!"(K {c})", m)
  | .tmp k, m => let (i, m1) := tmpIndex k m; (s!"(tmp {i})", m1)
  | .setTmp k e, m => let (i, m0) := tmpIndex k m; let (se, m1) := showT e m0; (s!"(set {i} {se})", m1)
  | .asgVar x e, m => let (se, m1) := showT e m; (s!"(= v{x} {se})", m1)
  | .call f a, m => let (sa, m1) := showT a m; (s!"(call f{f} {sa})", m1)
  | .seq a b, m => let (sa, m1) := showT a m; let (sb, m2) := showT b m1; (s!"(, {sa} {sb})", m2)
  | .new ce a, m => let (sc, m1) := showT ce m; let (sa, m2) := showT a m1; (s!"(new {sc} {sa})", m2)
  | .scall ce i a, m => let (sc, m1) := showT ce m; let (sa, m2) := showT a m1; (s!"(call (dot {sc} t{i}) {sa})", m2)
  | .pubGet o p, m => let (so, m1) := showT o m; (s!"(dot {so} p{p})", m1)
  | .classExpr c, m => (s!"(classexpr {c})", m)
  | .bad, m => ("BAD", m)
  | .pIn mr o, m => let (so, m1) := showT o m; (s!"(__privateIn {showMem mr} {so})", m1)
  | .pGet o mr g, m => let (so, m1) := showT o m; (s!"(__privateGet {so} {showMem mr}{showOptFn g})", m1)
  | .pSet o mr v s, m =>
    let (so, m1) := showT o m; let (sv, m2) := showT v m1
    (s!"(__privateSet {so} {showMem mr} {sv}{showOptFn s})", m2)
  | .pMethod o mr f, m => let (so, m1) := showT o m; (s!"(__privateMethod {so} {showMem mr} {showFn f})", m1)
  | .pAdd o mr has v, m =>
    let (so, m1) := showT o m
    if has then let (sv, m2) := showT v m1; (s!"(__privateAdd {so} {showMem mr} {sv})", m2)
    else (s!"(__privateAdd {so} {showMem mr})", m1)
  | .pubField o key has v, m =>
    let (so, m1) := showT o m
    if has then let (sv, m2) := showT v m1; (s!"(__publicField {so} p{key} {sv})", m2)
    else (s!"(__publicField {so} p{key})", m1)
  | .binop op a b, m => let (sa, m1) := showT a m; let (sb, m2) := showT b m1; (s!"({showBin op} {sa} {sb})", m2)
  | .logic op a b, m => let (sa, m1) := showT a m; let (sb, m2) := showT b m1; (s!"({showLog op} {sa} {sb})", m2)
  | .wrapUpd o mr s g inc pre, m =>
    let (so, m1) := showT o m
    let ss := match s with | .absent => "" | .null => " null" | .fn f => " " ++ showFn f
    (s!"(upd {if inc then "++" else "--"}{if pre then "pre" else "post"} (__privateWrapper {so} {showMem mr}{ss}{showOptFn g}))", m1)
  | .callCall f t a, m =>
    let (sf, m1) := showT f m; let (st, m2) := showT t m1; let (sa, m3) := showT a m2
    (s!"(call (dot {sf} call) {st} {sa})", m3)
  | .bindTag f t site, m =>
    let (sf, m1) := showT f m; let (st, m2) := showT t m1
    (s!"(tag (call (dot {sf} bind) {st}) {site})", m2)

def showBody (e : T) : String := (showT e []).1

def showClass (c : Nat) (tc : TClass) : String :=
  let pro := " ".intercalate (tc.prologue.map showBody)
  let body := match tc.ctorBody with | some b => showBody b | none => "-"
  let post := " ".intercalate (tc.statics.map showBody)
  let fns := " ".intercalate ((List.range tc.bodies.length).filterMap fun i =>
    match tc.bodies[i]? with
    | some (some (_, b)) => some s!"({i} {showBody b})"
    | _ => none)
  s!"(class {c} {if tc.stamp then 1 else 0} (pro {pro}) (body {body}) (post {post}) (fns {fns}))"

def showProg (P : Prog) (main : Expr) : String :=
  let tp := lowerProg P
  let cs := " ".intercalate ((List.range tp.classes.length).filterMap fun c => (tp.classes[c]?).map (showClass c))
  s!"{cs} (main {showBody (lowerE ⟨P, none, none⟩ main 0).1})"

-- ---------------------------------------------------------------- wire: parsing programs

def parseNatTok (cs : List Char) : Option Nat := (String.ofList cs).toNat?

def parseE : Nat → List String → Option (Expr × List String)
  | 0, _ => none
  | _, [] => none
  | fuel + 1, tok :: rest =>
    let one (f : Expr → Expr) := (parseE fuel rest).map fun (a, r) => (f a, r)
    let two (f : Expr → Expr → Expr) :=
      match parseE fuel rest with
      | some (a, r) => (parseE fuel r).map fun (b, r2) => (f a b, r2)
      | none => none
    match tok with
    | "u" => some (.lit .undef, rest)
    | "nl" => some (.lit .null, rest)
    | "b0" => some (.lit (.bool false), rest)
    | "b1" => some (.lit (.bool true), rest)
    | "a" => some (.arg, rest)
    | "t" => some (.this, rest)
    | "," => two .seq
    | "new" => two .new
    | t =>
      match t.toList with
      | 'n' :: cs => (String.ofList cs).toInt?.map fun x => (.lit (.num x), rest)
      | 's' :: ':' :: cs => some (.lit (.str (String.ofList cs)), rest)
      | 'v' :: cs => (parseNatTok cs).map fun x => (.var x, rest)
      | 'K' :: cs => (parseNatTok cs).map fun x => (.cls x, rest)
      | '=' :: cs => (parseNatTok cs).bind fun x => one (.asgVar x)
      | 'f' :: cs => (parseNatTok cs).bind fun x => one (.call x)
      | 's' :: 'c' :: cs => (parseNatTok cs).bind fun i => two (fun ce a => .scall ce i a)
      | '.' :: cs => (parseNatTok cs).bind fun p => one (fun o => .pubGet o p)
      | 'C' :: 'E' :: cs => (parseNatTok cs).map fun c => (.classExpr c, rest)
      | 'G' :: cs => (parseNatTok cs).bind fun n => one (fun o => .pget o n)
      | 'S' :: cs => (parseNatTok cs).bind fun n => two (fun o v => .pset o n v)
      | 'B' :: oc :: cs =>
        match (match oc with | 'a' => some BinOp.add | 's' => some BinOp.sub | 'm' => some BinOp.mul | _ => none), parseNatTok cs with
        | some op, some n => two (fun o v => .pbin o n op v)
        | _, _ => none
      | 'L' :: oc :: cs =>
        match (match oc with | 'o' => some LogOp.or | 'a' => some LogOp.and | 'n' => some LogOp.nul | _ => none), parseNatTok cs with
        | some op, some n => two (fun o v => .plog o n op v)
        | _, _ => none
      | 'U' :: ic :: pc :: cs =>
        match (match ic with | '1' => some true | '0' => some false | _ => none),
            (match pc with | '1' => some true | '0' => some false | _ => none), parseNatTok cs with
        | some inc, some pre, some n => one (fun o => .pupd o n inc pre)
        | _, _, _ => none
      | 'I' :: cs => (parseNatTok cs).bind fun n => one (fun o => .pin n o)
      | 'C' :: cs => (parseNatTok cs).bind fun n => two (fun o a => .pcall o n a)
      | 'T' :: cs =>
        match (String.ofList cs).splitOn ":" with
        | [ns, ss] =>
          match ns.toNat?, ss.toNat? with
          | some n, some site => one (fun o => .ptag o n site)
          | _, _ => none
        | _ => none
      | _ => none

def parseOptE (toks : List String) : Option (Option Expr × List String) :=
  match toks with
  | "-" :: rest => some (none, rest)
  | "+" :: rest => (parseE 200 rest).map fun (e, r) => (some e, r)
  | _ => none

def parseBool : String → Option Bool
  | "0" => some false
  | "1" => some true
  | _ => none

def parseMember (toks : List String) : Option (Member × List String) :=
  match toks with
  | "pf" :: st :: key :: rest =>
    match parseBool st, key.toNat?, parseOptE rest with
    | some s, some k, some (i, r) => some (.pubField s k i, r)
    | _, _, _ => none
  | "vf" :: st :: nm :: rest =>
    match parseBool st, nm.toNat?, parseOptE rest with
    | some s, some n, some (i, r) => some (.privField s n i, r)
    | _, _, _ => none
  | "vm" :: st :: nm :: rest =>
    match parseBool st, nm.toNat?, parseE 200 rest with
    | some s, some n, some (b, r) => some (.method s n b, r)
    | _, _, _ => none
  | "vg" :: st :: nm :: rest =>
    match parseBool st, nm.toNat?, parseE 200 rest with
    | some s, some n, some (b, r) => some (.getter s n b, r)
    | _, _, _ => none
  | "vs" :: st :: nm :: rest =>
    match parseBool st, nm.toNat?, parseE 200 rest with
    | some s, some n, some (b, r) => some (.setter s n b, r)
    | _, _, _ => none
  | "sm" :: idx :: rest =>
    match idx.toNat?, parseE 200 rest with
    | some i, some (b, r) => some (.smethod i b, r)
    | _, _ => none
  | _ => none

def parseMembers : Nat → List String → Option (List Member × List String)
  | 0, toks => some ([], toks)
  | n + 1, toks =>
    match parseMember toks with
    | some (m, r) => (parseMembers n r).map fun (ms, r2) => (m :: ms, r2)
    | none => none

def parseClass (toks : List String) : Option (Class × List String) :=
  match toks with
  | "C" :: par :: st :: rest =>
    match (if par = "-" then some none else par.toNat?.map some), parseBool st, parseOptE rest with
    | some parent, some stamp, some (ctor, nm :: r1) =>
      match nm.toNat? with
      | some n => (parseMembers n r1).map fun (ms, r2) => (⟨parent, stamp, ctor, ms⟩, r2)
      | none => none
    | _, _, _ => none
  | _ => none

def parseClasses : Nat → List String → Option (List Class × List String)
  | 0, toks => some ([], toks)
  | n + 1, toks =>
    match parseClass toks with
    | some (c, r) => (parseClasses n r).map fun (cs, r2) => (c :: cs, r2)
    | none => none

/-- `<nclasses> class… tops <k> c1 … ck <main>` -/
def parseProg (toks : List String) : Option (Prog × List Nat × Expr) :=
  match toks with
  | nc :: rest =>
    match nc.toNat? with
    | some n =>
      match parseClasses n rest with
      | some (cs, "tops" :: k :: r1) =>
        match k.toNat? with
        | some kn =>
          match (r1.take kn).mapM (·.toNat?), parseE 200 (r1.drop kn) with
          | some tops, some (main, []) => if tops.length = kn then some (⟨cs⟩, tops, main) else none
          | _, _ => none
        | none => none
      | _ => none
    | none => none
  | [] => none

def driver (args : List String) : String :=
  match args with
  | ["H"] => "\n".intercalate helperText |>.replace "\n" "\\n"
  | ["L", src] =>
    match parseProg (src.splitOn " ") with
    | some (P, _, main) => showProg P main
    | none => "bad-op"
  | _ => "bad-op"

-- ---------------------------------------------------------------- a concrete world for testing the evaluators against Node
/-
Kernel `privlowersem`: the program is run with `runProgS` (guard off) and its lowering with `runProgT` in a
deterministic pseudo-random world that the harness re-implements in JavaScript; results, event traces and final
variables are compared with what Node 20 reports for the source text and for the text esbuild emits.
Objects are printed as `R<k>`, numbered by first appearance in the output.
-/

def mix (a b : Nat) : Nat := (a * 1000003 + b * 7919 + 12345) % 1000000007

def pickVal (c : Nat) (env : Nat → Val) : Val :=
  match c % 12 with
  | 0 => .undef
  | 1 => .null
  | 2 => .num 0
  | 3 => .num 7
  | 4 => .str ""
  | 5 => .str "a"
  | 6 => .obj (16 + (c / 12) % 2)
  | 10 => .bool true
  | 11 => .num 1
  | _ => env ((c / 12) % 4)

def pickInit (c : Nat) : Val :=
  match c % 6 with
  | 0 => .undef
  | 1 => .null
  | 2 => .num 3
  | 3 => .str "a"
  | 4 => .obj 16
  | _ => .obj 17

def strToNum (s : String) : Option Int :=
  if s = "" then some 0
  else
    let cs := s.toList
    let (neg, ds) := match cs with
      | '-' :: r => (true, r)
      | '+' :: r => (false, r)
      | r => (false, r)
    if ds.isEmpty || !ds.all Char.isDigit then none
    else (String.ofList ds).toNat?.map fun n => if neg then -(n : Int) else (n : Int)

/-- ToNumber of a primitive: none = NaN -/
def toNum : Val → Option (Option Int)
  | .undef => some none
  | .null => some (some 0)
  | .bool b => some (some (if b then 1 else 0))
  | .num n => some (some n)
  | .nan => some none
  | .str s => some (strToNum s)
  | .obj _ => none          -- ToPrimitive of every object throws a TypeError in the test world

def ofNum : Option Int → Val
  | some n => .num n
  | none => .nan

def toStr : Val → Option String
  | .undef => some "undefined"
  | .null => some "null"
  | .bool b => some (if b then "true" else "false")
  | .num n => some (toString n)
  | .nan => some "NaN"
  | .str s => some s
  | .obj _ => none

def arithTest (op : BinOp) (a b : Val) : Option Val :=
  let numeric (f : Int → Int → Int) : Option Val :=
    match toNum a, toNum b with
    | some x, some y =>
      match x, y with
      | some m, some n => some (.num (f m n))
      | _, _ => some .nan
    | _, _ => none
  match op with
  | .add =>
    match a, b with
    | .obj _, _ => none
    | _, .obj _ => none
    | .str s, _ => (toStr b).map fun t => .str (s ++ t)
    | _, .str t => (toStr a).map fun s => .str (s ++ t)
    | _, _ => numeric (· + ·)
  | .sub => numeric (· - ·)
  | .mul => numeric (· * ·)

def testWorld (seed : Nat) : World where
  host := fun f _ tr env =>
    let c := mix seed (mix tr.length (100 + f))
    let env1 := if (c / 3) % 6 = 0 then upd env ((c / 18) % 4) (pickVal (c / 72) env) else env
    if c % 13 = 0 then (.throw (.num 99), env1) else (.ret (pickVal (c / 13) env1), env1)
  arith := arithTest
  toNumeric := fun v => (toNum v).map ofNum

def initPub (seed : Nat) : Pub where
  tr := []
  env := fun i => if i < 4 then pickInit (mix seed (900 + i)) else .undef
  pub := fun _ _ => none
  next := firstFresh
  defined := fun _ => false
  created := fun _ => false

def nameObj (id : Nat) (m : List Nat) : String × List Nat :=
  let (i, m1) := tmpIndex id m
  (s!"R{i}", m1)

def showV (v : Val) (m : List Nat) : String × List Nat :=
  match v with
  | .undef => ("u", m)
  | .null => ("n", m)
  | .bool b => (if b then "b1" else "b0", m)
  | .num n => (s!"N{n}", m)
  | .nan => ("NaN", m)
  | .str s => (s!"S<{s}>", m)
  | .obj id => nameObj id m

def showEvents : List Ev → List Nat → List String × List Nat
  | [], m => ([], m)
  | .call f a :: rest, m =>
    let (sa, m1) := showV a m
    let (ss, m2) := showEvents rest m1
    (s!"f{f}({sa})" :: ss, m2)

def showRes (r : Res) (m : List Nat) : String × List Nat :=
  match r with
  | .val v => let (s, m1) := showV v m; ("V:" ++ s, m1)
  | .err .typeError => ("E:TypeError", m)
  | .err .refError => ("E:ReferenceError", m)
  | .err (.host v) => let (s, m1) := showV v m; ("E:throw:" ++ s, m1)
  | .err .hazard => ("E:hazard", m)
  | .err .fuel => ("E:fuel", m)
  | .err .stuck => ("E:stuck", m)

def showRun (r : Res) (c : Pub) : String :=
  let (evs, m1) := showEvents c.tr []
  let (sr, m2) := showRes r m1
  let (v0, m3) := showV (c.env 0) m2
  let (v1, m4) := showV (c.env 1) m3
  let (v2, m5) := showV (c.env 2) m4
  let (v3, _) := showV (c.env 3) m5
  ";".intercalate evs ++ "|" ++ sr ++ "|" ++ ",".intercalate [v0, v1, v2, v3]

def semDriver (args : List String) : String :=
  match args with
  | [seedS, src] =>
    match seedS.toNat?, parseProg (src.splitOn " ") with
    | some seed, some (P, tops, main) =>
      let w := testWorld seed
      let rs := runProgS P w false 40 tops main ⟨initPub seed, fun _ _ _ => none⟩
      let rt := runProgT P w 40 tops main ⟨initPub seed, fun _ _ _ => none, fun _ _ _ => false⟩
      showRun rs.1 rs.2.c ++ " ## " ++ showRun rt.1 rt.2.c
    | _, _ => "bad-op"
  | _ => "bad-op"

end EsbuildModel.PrivLower
