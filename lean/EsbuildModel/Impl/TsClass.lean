/-
Model of what esbuild does to a TypeScript class (loader ts, no minification, no decorators, no private names, no
computed keys), transcribed from

  internal/js_parser/js_parser.go            visitClass (p.superCtorRef saved / overridden / restored around the whole
                                             class INCLUDING its `extends` expression; lowerClass called afterwards),
                                             the ESuper case of the ECall visit (super(...) → __super(...), recordUsage)
  internal/js_parser/js_parser_lower_class.go computeClassLoweringInfo, lowerClass → processProperties (analyzeProperty,
                                             lowerField, lowerStaticBlock, lowerMethod: parameter properties),
                                             insertInitializersIntoConstructor, insertStmtsAfterSuperCall,
                                             findFirstTopLevelSuperCall (which reverts the call it finds even when its
                                             caller then refuses the statement), finishAndGenerateCode (class
                                             expressions: the static members that were moved out follow the class)

on the class language of Spec/TsClass.lean.  `Mode.useDefine` = tsconfig useDefineForClassFields, `Mode.native` = the
target has class fields, static fields and static blocks (esnext; false for es2021 / es2015: the three features are
unsupported together below ES2022).

The symbols esbuild generates for `__super` are numbers drawn from a counter (`next`); UseCountEstimate of the shim of
the class being visited is the `uses` component of a visit result (every rewritten `super(...)` is one use; the model
has no dead code: conditions are never literals and nothing follows a return / throw in the fragment the kernel generates).
-/
import EsbuildModel.Spec.TsClass
namespace EsbuildModel.TsClass

/-- classLoweringInfo -/
structure Info where
  lowerInst : Bool      -- lowerAllInstanceFields
  lowerStatic : Bool    -- lowerAllStaticFields
  shim : Bool           -- shimSuperCtorCalls
deriving DecidableEq, Repr

/-- the instance-field part of the loop in computeClassLoweringInfo; a `declare` field never gets there: parseProperty
(js_parser.go, case "declare") discards it -/
def Members.lowerInst (o : Mode) : Members → Bool
  | .nil => false
  | .field _ hasInit _ declare r => (!declare && (if !o.useDefine then hasInit else !o.native)) || r.lowerInst o
  | .sfield _ _ _ r => r.lowerInst o
  | .sblock _ r => r.lowerInst o
  | .sassign _ _ r => r.lowerInst o

def Members.hasStatic : Members → Bool
  | .nil => false
  | .field _ _ _ _ r => r.hasStatic
  | .sfield _ _ _ _ => true
  | .sblock _ _ => true
  | .sassign _ _ _ => true

def Params.anyProp : Params → Bool
  | .nil => false
  | .cons isProp _ _ r => isProp || r.anyProp

def Base.isSome : Base → Bool
  | .none => false
  | .some _ _ => true

def Ctor.isSome : Ctor → Bool
  | .none => false
  | .some _ _ => true

def computeInfo (o : Mode) (base : Base) (ctor : Ctor) (ms : Members) : Info :=
  let lowerInst := ms.lowerInst o
  { lowerInst := lowerInst
    lowerStatic := !o.native && ms.hasStatic
    shim := base.isSome && (ctor.params.anyProp || lowerInst) }

-- ---------------------------------------------------------------- findFirstTopLevelSuperCall

def joinC : Option Expr → Option Expr → Option Expr
  | none, b => b
  | a, none => a
  | some a, some b => some (.seq a b)

/-- what findFirstTopLevelSuperCall returns plus what it leaves behind: (before, argument of the call, after, the
expression with the found call reverted to `super(...)`) -/
def findFirst (i : Nat) : Expr → Option (Option Expr × Expr × Option Expr × Expr)
  | .shimCall j a => if j == i then some (none, a, none, .superCall a) else none
  | .seq l r =>
    match findFirst i l with
    | some (b, a, af, l') => some (b, a, joinC af (some r), .seq l' r)
    | none =>
      match findFirst i r with
      | some (b, a, af, r') => some (joinC (some l) b, a, af, .seq l r')
      | none => none
  | _ => none

inductive Try where
  | accept (before : Option Expr) (arg : Expr) (after : Option Stmt)
  | reject (mutated : Stmt)
  | skip

/-- one iteration of the statement loop of insertStmtsAfterSuperCall (SSwitch and SFor are not in the language) -/
def tryStmt (i : Nat) : Stmt → Try
  | .expr e =>
    match findFirst i e with
    | some (b, a, af, _) => .accept b a (af.map .expr)
    | none => .skip
  | .retVal e =>
    match findFirst i e with
    | some (b, a, some af, _) => .accept b a (some (.retVal af))
    | some (_, _, none, e') => .reject (.retVal e')
    | none => .skip
  | .throw_ e =>
    match findFirst i e with
    | some (b, a, some af, _) => .accept b a (some (.throw_ af))
    | some (_, _, none, e') => .reject (.throw_ e')
    | none => .skip
  | .ifS c t f =>
    match findFirst i c with
    | some (b, a, some af, _) => .accept b a (some (.ifS af t f))
    | some (_, _, none, c') => .reject (.ifS c' t f)
    | none => .skip
  | _ => .skip

def optStmt : Option Stmt → Stmts → Stmts
  | none, r => r
  | some s, r => .cons s r

/-- the loop over the top-level statements: (the new body if a statement was accepted, the body as the loop leaves it) -/
def scan (i : Nat) (ins : Stmts) : Stmts → Option Stmts × Stmts
  | .nil => (none, .nil)
  | .cons st r =>
    match tryStmt i st with
    | .accept before arg after =>
      (some (optStmt (before.map .expr) (.cons (.expr (.superCall arg)) (ins.append (optStmt after r)))), .cons st r)
    | .reject st' => ((scan i ins r).1.map (.cons st'), .cons st' (scan i ins r).2)
    | .skip => ((scan i ins r).1.map (.cons st), .cons st (scan i ins r).2)

/-- insertStmtsAfterSuperCall -/
def insertAfterSuper (body ins : Stmts) (myId : Option Nat) (uses : Nat) : Stmts :=
  match myId with
  | none => ins.append body
  | some i =>
    if uses == 0 then ins.append body
    else if uses == 1 then
      match scan i ins body with
      | (some out, _) => out
      | (none, body') => .cons (.shimDecl i ins) body'
    else .cons (.shimDecl i ins) body

-- ---------------------------------------------------------------- processProperties

def Expr.isUndef : Expr → Bool
  | .undef => true
  | _ => false

/-- lowerMethod on the constructor: ctx.parameterFields -/
def ppStmts (o : Mode) : Params → Nat → Stmts
  | .nil, _ => .nil
  | .cons isProp _ _ r, i =>
    if isProp then
      let rest := ppStmts o r (i + 1)
      let rest := if o.useDefine && !o.native then Stmts.cons (.expr (.defineThis (propKey i) true (.param i))) rest else rest
      if !o.useDefine || o.native then Stmts.cons (.expr (.assignThis (propKey i) (.param i))) rest else rest
    else ppStmts o r (i + 1)

/-- ctx.parameterFieldProps, put in front of what is left of the class body -/
def ppFields (o : Mode) : Params → Nat → Members → Members
  | .nil, _, tl => tl
  | .cons isProp _ _ r, i, tl =>
    if isProp && o.useDefine && o.native then .field (propKey i) false .undef false (ppFields o r (i + 1) tl)
    else ppFields o r (i + 1) tl

def Afters.append : Afters → Afters → Afters
  | .nil, q => q
  | .define x h e r, q => .define x h e (r.append q)
  | .assign x e r, q => .assign x e (r.append q)
  | .expr e r, q => .expr e (r.append q)

structure Processed where
  kept : Members        -- the class body that is left
  inst : Stmts          -- ctx.instanceMembers
  afters : Afters       -- ctx.staticMembers

/-- the loop of processProperties (analyzeProperty + lowerField + lowerStaticBlock) -/
def processMembers (o : Mode) (info : Info) : Members → Processed
  | .nil => ⟨.nil, .nil, .nil⟩
  | .field x hasInit init declare r =>
    let p := processMembers o info r
    let skipInit := (!hasInit && !o.useDefine) || declare
    let mustLower := declare || !o.useDefine || info.lowerInst
    if mustLower then
      if skipInit then p
      else if o.useDefine then { p with inst := .cons (.expr (.defineThis x (hasInit && !init.isUndef) init)) p.inst }
      else { p with inst := .cons (.expr (.assignThis x init)) p.inst }
    else { p with kept := .field x hasInit init declare p.kept }
  | .sfield x hasInit init r =>
    let p := processMembers o info r
    let skipInit := !hasInit && !o.useDefine
    if info.lowerStatic then
      if skipInit then p
      else if o.useDefine then { p with afters := .define x (hasInit && !init.isUndef) init p.afters }
      else { p with afters := .assign x init p.afters }
    else if !o.useDefine then
      if skipInit then p else { p with kept := .sassign x init p.kept }
    else { p with kept := .sfield x hasInit init p.kept }
  | .sblock e r =>
    let p := processMembers o info r
    if info.lowerStatic then { p with afters := .expr e p.afters } else { p with kept := .sblock e p.kept }
  | .sassign x e r =>
    let p := processMembers o info r
    if info.lowerStatic then { p with afters := .assign x e p.afters } else { p with kept := .sassign x e p.kept }

/-- the printer does not print the accessibility modifiers: what is left is an ordinary parameter -/
def Params.strip : Params → Params
  | .nil => .nil
  | .cons _ hasD d r => .cons false hasD d r.strip

def Stmts.isNil : Stmts → Bool
  | .nil => true
  | _ => false

/-- lowerClass after the members were visited: processProperties, insertInitializersIntoConstructor,
finishAndGenerateCode -/
def lowerClass (o : Mode) (info : Info) (myId : Option Nat) (uses : Nat)
    (base : Base) (ss : List Nat) (ctor : Ctor) (ms : Members) (after : Afters) : Class :=
  let pf := ppStmts o ctor.params 0
  let p := processMembers o info ms
  let ms' := ppFields o ctor.params 0 p.kept
  let ctor' :=
    if pf.isNil && p.inst.isNil && (!ctor.isSome || myId.isNone) then
      match ctor with
      | .some ps body => Ctor.some ps.strip body
      | .none => Ctor.none
    else
      match ctor with
      | .some ps body => Ctor.some ps.strip (insertAfterSuper body (pf.append p.inst) myId uses)
      | .none =>
        match base with
        | .none => Ctor.some .nil (insertAfterSuper .nil (pf.append p.inst) myId uses)
        | .some _ _ =>
          match myId with
          | some i => Ctor.some .nil (insertAfterSuper (.cons (.expr (.shimCall i .allArgs)) .nil) (pf.append p.inst) myId (uses + 1))
          | none => Ctor.some .nil (insertAfterSuper (.cons (.expr (.superCall .allArgs)) .nil) (pf.append p.inst) myId uses)
  .mk base ss ctor' ms' (after.append p.afters)

-- ---------------------------------------------------------------- the visit pass

/-- a visit result: the rewritten term, the next free shim symbol, and how often `super(...)` was rewritten to the shim
of the class being visited (recordUsage of p.superCtorRef) -/
structure VR (α : Type) where
  val : α
  next : Nat
  uses : Nat

mutual
/-- visitExprInOut; `cur` = p.superCtorRef -/
def visitE (o : Mode) (cur : Option Nat) : Expr → Nat → VR Expr
  | .num k, n => ⟨.num k, n, 0⟩
  | .undef, n => ⟨.undef, n, 0⟩
  | .probe k, n => ⟨.probe k, n, 0⟩
  | .param i, n => ⟨.param i, n, 0⟩
  | .allArgs, n => ⟨.allArgs, n, 0⟩
  | .thisGet x, n => ⟨.thisGet x, n, 0⟩
  | .assignThis x e, n => let r := visitE o cur e n; ⟨.assignThis x r.val, r.next, r.uses⟩
  | .defineThis x h e, n => let r := visitE o cur e n; ⟨.defineThis x h r.val, r.next, r.uses⟩
  | .superCall a, n =>
    let r := visitE o cur a n
    match cur with
    | some i => ⟨.shimCall i r.val, r.next, r.uses + 1⟩
    | none => ⟨.superCall r.val, r.next, r.uses⟩
  | .shimCall i a, n => let r := visitE o cur a n; ⟨.shimCall i r.val, r.next, r.uses⟩
  | .seq a b, n =>
    let ra := visitE o cur a n
    let rb := visitE o cur b ra.next
    ⟨.seq ra.val rb.val, rb.next, ra.uses + rb.uses⟩
  | .cond c a b, n =>
    let rc := visitE o cur c n
    let ra := visitE o cur a rc.next
    let rb := visitE o cur b ra.next
    ⟨.cond rc.val ra.val rb.val, rb.next, rc.uses + ra.uses + rb.uses⟩
  | .arrow b, n => let r := visitE o cur b n; ⟨.arrow r.val, r.next, r.uses⟩
  | .newC c a, n =>
    -- ENew: the target (the class expression: visitClass + lowerClass) first, then the arguments
    let rc := visitClass o c n
    let ra := visitE o cur a rc.2
    ⟨.newC rc.1 ra.val, ra.next, ra.uses⟩

def visitStmt (o : Mode) (cur : Option Nat) : Stmt → Nat → VR Stmt
  | .expr e, n => let r := visitE o cur e n; ⟨.expr r.val, r.next, r.uses⟩
  | .retVoid, n => ⟨.retVoid, n, 0⟩
  | .retVal e, n => let r := visitE o cur e n; ⟨.retVal r.val, r.next, r.uses⟩
  | .throw_ e, n => let r := visitE o cur e n; ⟨.throw_ r.val, r.next, r.uses⟩
  | .ifS c t f, n =>
    let rc := visitE o cur c n
    let rt := visitStmts o cur t rc.next
    let rf := visitStmts o cur f rt.next
    ⟨.ifS rc.val rt.val rf.val, rf.next, rc.uses + rt.uses + rf.uses⟩
  | .shimDecl i ins, n => let r := visitStmts o cur ins n; ⟨.shimDecl i r.val, r.next, r.uses⟩

def visitStmts (o : Mode) (cur : Option Nat) : Stmts → Nat → VR Stmts
  | .nil, n => ⟨.nil, n, 0⟩
  | .cons s r, n =>
    let rs := visitStmt o cur s n
    let rr := visitStmts o cur r rs.next
    ⟨.cons rs.val rr.val, rr.next, rs.uses + rr.uses⟩

def visitParams (o : Mode) (cur : Option Nat) : Params → Nat → VR Params
  | .nil, n => ⟨.nil, n, 0⟩
  | .cons isProp hasD d r, n =>
    let rd := visitE o cur d n
    let rr := visitParams o cur r rd.next
    ⟨.cons isProp hasD rd.val rr.val, rr.next, rd.uses + rr.uses⟩

def visitCtor (o : Mode) (cur : Option Nat) : Ctor → Nat → VR Ctor
  | .none, n => ⟨.none, n, 0⟩
  | .some ps body, n =>
    let rp := visitParams o cur ps n
    let rb := visitStmts o cur body rp.next
    ⟨.some rp.val rb.val, rb.next, rp.uses + rb.uses⟩

def visitMembers (o : Mode) (cur : Option Nat) : Members → Nat → VR Members
  | .nil, n => ⟨.nil, n, 0⟩
  | .field x h init d r, n =>
    let ri := visitE o cur init n
    let rr := visitMembers o cur r ri.next
    ⟨.field x h ri.val d rr.val, rr.next, ri.uses + rr.uses⟩
  | .sfield x h init r, n =>
    let ri := visitE o cur init n
    let rr := visitMembers o cur r ri.next
    ⟨.sfield x h ri.val rr.val, rr.next, ri.uses + rr.uses⟩
  | .sblock e r, n =>
    let ri := visitE o cur e n
    let rr := visitMembers o cur r ri.next
    ⟨.sblock ri.val rr.val, rr.next, ri.uses + rr.uses⟩
  | .sassign x e r, n =>
    let ri := visitE o cur e n
    let rr := visitMembers o cur r ri.next
    ⟨.sassign x ri.val rr.val, rr.next, ri.uses + rr.uses⟩

def visitAfters (o : Mode) (cur : Option Nat) : Afters → Nat → VR Afters
  | .nil, n => ⟨.nil, n, 0⟩
  | .define x h e r, n =>
    let ri := visitE o cur e n
    let rr := visitAfters o cur r ri.next
    ⟨.define x h ri.val rr.val, rr.next, ri.uses + rr.uses⟩
  | .assign x e r, n =>
    let ri := visitE o cur e n
    let rr := visitAfters o cur r ri.next
    ⟨.assign x ri.val rr.val, rr.next, ri.uses + rr.uses⟩
  | .expr e r, n =>
    let ri := visitE o cur e n
    let rr := visitAfters o cur r ri.next
    ⟨.expr ri.val rr.val, rr.next, ri.uses + rr.uses⟩

/-- the `extends` expression is visited AFTER p.superCtorRef was set for the class it belongs to -/
def visitBase (o : Mode) (cur : Option Nat) : Base → Nat → VR Base
  | .none, n => ⟨.none, n, 0⟩
  | .some pre c, n =>
    let rp := visitE o cur pre n
    let rc := visitClass o c rp.next
    ⟨.some rp.val rc.1, rc.2, rp.uses⟩

/-- visitClass followed by lowerClass -/
def visitClass (o : Mode) : Class → Nat → Class × Nat
  | .mk base ss ctor ms after, n =>
    let info := computeInfo o base ctor ms
    let myId : Option Nat := if info.shim then some n else none
    let n1 := if info.shim then n + 1 else n
    let rb := visitBase o myId base n1
    let rc := visitCtor o myId ctor rb.next
    let rm := visitMembers o myId ms rc.next
    let ra := visitAfters o myId after rm.next
    (lowerClass o info myId (rb.uses + rc.uses + rm.uses + ra.uses) rb.val ss rc.val rm.val ra.val, ra.next)
end

/-- what esbuild emits for a program -/
def lowerProgram (o : Mode) (e : Expr) : Expr := (visitE o none e 0).val

end EsbuildModel.TsClass
