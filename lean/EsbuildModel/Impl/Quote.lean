import EsbuildModel.Util.Wire
/-
Model of `printer.printUnquotedUTF16` (internal/js_printer/js_printer.go). Input: UTF-16 code units.
Output: *source characters* (code points); the final UTF-8 encoding of non-ASCII characters is done by
`utf8Encode` (Go: utf8.EncodeRune) and is not part of the escaping logic.
-/
namespace EsbuildModel.Quote

structure Opts where
  asciiOnly : Bool
  noUnicodeEscapes : Bool    -- UnsupportedFeatures.Has(compat.UnicodeEscapes)
  noInlineScript : Bool      -- UnsupportedFeatures.Has(compat.InlineScript)
  lineLimit : Nat            -- 0 = no wrapping
  noWrap : Bool              -- printQuotedNoWrap
  deriving Repr

def hexChar (d : Nat) : Nat := if d < 10 then 48 + d else 55 + d   -- hexChars = "0123456789ABCDEF"

def hex4 (c : Nat) : List Nat :=
  [92, 117, hexChar (c / 4096 % 16), hexChar (c / 256 % 16), hexChar (c / 16 % 16), hexChar (c % 16)]

def hex2 (c : Nat) : List Nat := [92, 120, hexChar (c / 16 % 16), hexChar (c % 16)]

/-- fmt.Sprintf("\\u{%X}", r) for an astral code point r (0x10000 ≤ r ≤ 0x10FFFF): five or six
upper-case hex digits without leading zeros -/
def hexBrace (r : Nat) : List Nat :=
  [92, 117, 123] ++
  (if r < 1048576 then [hexChar (r / 65536 % 16), hexChar (r / 4096 % 16), hexChar (r / 256 % 16), hexChar (r / 16 % 16), hexChar (r % 16)]
   else [hexChar (r / 1048576 % 16), hexChar (r / 65536 % 16), hexChar (r / 4096 % 16), hexChar (r / 256 % 16), hexChar (r / 16 % 16), hexChar (r % 16)])
  ++ [125]

def lower (a : Nat) : Nat := if 65 ≤ a ∧ a ≤ 90 then a + 32 else a

/-- the six units after the `/` spell "script" ignoring case -/
def scriptAhead : List Nat → Bool
  | a :: b :: c :: d :: e :: f :: _ =>
    lower a = 115 && lower b = 99 && lower c = 114 && lower d = 105 && lower e = 112 && lower f = 116
  | _ => false

def isHigh (c : Nat) : Bool := 55296 ≤ c && c ≤ 56319
def isLow (c : Nat) : Bool := 56320 ≤ c && c ≤ 57343

/-- the `default:` arm for a unit that is not the first half of a valid pair -/
def plainUnit (o : Opts) (c : Nat) : List Nat :=
  if c ≤ 126 then [c]
  else if isHigh c then hex4 c                          -- unpaired high surrogate
  else if isLow c || (o.asciiOnly && c > 255) then hex4 c
  else if o.asciiOnly then hex2 c
  else [c]

/-- what the `switch c` emits for one code unit `c` that is not the first half of a valid surrogate
pair; `prev` = the previous unit, `rest` = the following units (look-ahead only) -/
def unitChunk (o : Opts) (quote : Nat) (prev : Option Nat) (c : Nat) (rest : List Nat) : List Nat :=
  if c = 0 then
    (match rest with
     | d :: _ => if 48 ≤ d ∧ d ≤ 57 then [92, 120, 48, 48] else [92, 48]
     | [] => [92, 48])
  else if c = 7 then [92, 120, 48, 55]
  else if c = 8 then [92, 98]
  else if c = 12 then [92, 102]
  else if c = 10 then (if quote = 96 then [10] else [92, 110])
  else if c = 13 then [92, 114]
  else if c = 11 then [92, 118]
  else if c = 27 then [92, 120, 49, 66]
  else if c = 92 then [92, 92]
  else if c = 47 then
    (if !o.noInlineScript && prev == some 60 && scriptAhead rest then [92, 47] else [47])
  else if c = 39 then (if quote = 39 then [92, 39] else [39])
  else if c = 34 then (if quote = 34 then [92, 34] else [34])
  else if c = 96 then (if quote = 96 then [92, 96] else [96])
  else if c = 36 then
    (match rest with
     | 123 :: _ => if quote = 96 then [92, 36] else [36]
     | _ => [36])
  else if c = 8232 then [92, 117, 50, 48, 50, 56]
  else if c = 8233 then [92, 117, 50, 48, 50, 57]
  else if c = 65279 then [92, 117, 70, 69, 70, 70]
  else plainUnit o c

/-- what is emitted for a valid surrogate pair (c, c2) -/
def pairChunk (o : Opts) (c c2 : Nat) : List Nat :=
  -- Go: (rune(c) << 10) + rune(c2) + (0x10000 - (0xD800 << 10) - 0xDC00), regrouped so that every
  -- intermediate value is a natural number (c and c2 are a valid surrogate pair here)
  let r := (c - 55296) * 1024 + (c2 - 56320) + 65536
  if o.asciiOnly then (if !o.noUnicodeEscapes then hexBrace r else hex4 c ++ hex4 c2) else [r]

/-- "Printing a real newline resets the line length" -/
def sllAfter (quote c : Nat) (i' : Nat) (sll : Int) : Int :=
  if c = 10 ∧ quote = 96 then -(i' : Int) else sll

/-- the loop. `i` = number of units consumed so far, `sll` = startLineLength, `prev` = text[i-1]. -/
def go (o : Opts) (quote : Nat) (wrap : Bool) : Int → Nat → Option Nat → List Nat → List Nat
  | _, _, _, [] => []
  | sll, i, prev, c :: rest =>
    let doWrap := wrap && decide (sll + (i : Int) ≥ (o.lineLimit : Int))
    let pre := if doWrap then [92, 10] else []
    let sll := if doWrap then sll - o.lineLimit else sll
    let single := pre ++ unitChunk o quote prev c rest ++ go o quote wrap (sllAfter quote c (i + 1) sll) (i + 1) (some c) rest
    if isHigh c then
      match rest with
      | c2 :: rest2 =>
        if isLow c2 then pre ++ pairChunk o c c2 ++ go o quote wrap sll (i + 2) (some c2) rest2
        else single
      | [] => single
    else single

/-- `printUnquotedUTF16(text, quote, flags)` given the current line length -/
def printUnquoted (o : Opts) (quote : Nat) (currentLineLength : Nat) (text : List Nat) : List Nat :=
  let wrap := o.lineLimit > 0 && !o.noWrap
  let sll : Int := if wrap then (if currentLineLength > o.lineLimit then o.lineLimit else currentLineLength) else 0
  go o quote wrap sll 0 none text

/-- utf8.EncodeRune on each output character -/
def utf8Encode : List Nat → List Nat
  | [] => []
  | c :: rest =>
    (if c < 128 then [c]
     else if c < 2048 then [192 + c / 64, 128 + c % 64]
     else if c < 65536 then [224 + c / 4096, 128 + c / 64 % 64, 128 + c % 64]
     else [240 + c / 262144, 128 + c / 4096 % 64, 128 + c / 64 % 64, 128 + c % 64]) ++ utf8Encode rest

open Wire in
def driver (args : List String) : String :=
  match args with
  | ["unquoted", flags, quote, lineLimit, curLen, text] =>
    match parseNat flags, parseNat quote, parseNat lineLimit, parseNat curLen, parseHexUnits 4 text with
    | some f, some q, some ll, some cl, some t =>
      let o : Opts := { asciiOnly := f % 2 = 1, noUnicodeEscapes := f / 2 % 2 = 1, noInlineScript := f / 4 % 2 = 1, lineLimit := ll, noWrap := f / 8 % 2 = 1 }
      hexUnits 2 (utf8Encode (printUnquoted o q cl t))
    | _, _, _, _, _ => "bad-op"
  | _ => "bad-op"

end EsbuildModel.Quote
