import EsbuildModel.Impl.TsPaths
import EsbuildModel.Impl.BrowserMap
/-
Where the two remapping tables are consulted: a model of the resolver walk
(/repo/internal/resolver/resolver.go)

  resolveWithoutSymlinks, resolveWithoutRemapping, loadNodeModules (+ its closure tryToResolvePackage),
  loadAsFileOrDirectory, loadAsFile, loadAsDirectory, loadAsMainField (+ loadMainField), loadAsIndex,
  loadAsIndexWithBrowserRemapping, tsConfigForDir, the parts of dirInfoUncached that feed them
  (isNodeModules / isInsideNodeModules / hasNodeModules / enclosingBrowserScope / enclosingTSConfigJSON),
  esmParsePackageName (package_json.go), helpers.IsInsideNodeModules, path.Dir / path.Base

on a WORLD = a finite set of absolute file paths + parsed package.json / tsconfig.json contents, with the
directory semantics of esbuild's in-memory file system fs.MockFS (a directory exists iff a file lies below it;
ReadDirectory trims trailing slashes and then needs the exact name).

Restrictions of this walk (the correspondence kernel `tspaths` generates only such worlds): no "exports" /
"imports" maps, no Yarn PnP, no NODE_PATH, no externals, no symlinks, no package aliases, import kind
`import` (not CSS), explicit main fields ["main"], every package.json / tsconfig.json parses.
The mutual recursion resolveWithoutRemapping → loadNodeModules → tryToResolvePackage → resolveWithoutRemapping
of the Go code is NOT bounded (it overflows the Go stack on a browser map that sends a file of a package back
to itself through a package path); the model takes `fuel` and answers `R.overflow` when it runs out.
-/
namespace EsbuildModel.ResolveWalk
open EsbuildModel.NodeExports (Str)
open EsbuildModel.PkgExports (hasPrefix hasSuffix indexByte goClean goJoin splitAt joinSlash)
open EsbuildModel.TsPaths (fsJoin Config Outcome matchTable)
open EsbuildModel.BrowserMap (BMap Kind checkBrowserMapV isPackagePath)

/-! ## path.Dir, path.Base, trailing slashes -/

/-- `strings.LastIndexByte(p, c)` -/
def lastIndex (p : Str) (c : Char) : Option Nat :=
  match indexByte p.reverse c with
  | none => none
  | some i => some (p.length - 1 - i)

/-- index of the last '/' -/
def lastSlash (p : Str) : Option Nat := lastIndex p '/'

/-- `path.Dir(p)` = Clean(p[:lastSlash+1]) -/
def goDir (p : Str) : Str :=
  match lastSlash p with
  | none => goClean []
  | some i => goClean (p.take (i + 1))

/-- strip trailing slashes (loop of `path.Base`) -/
def stripTrailing (p : Str) : Str := (p.reverse.dropWhile (· = '/')).reverse

/-- `path.Base(p)` -/
def goBase (p : Str) : Str :=
  if p = [] then ['.']
  else
    let q := stripTrailing p
    let b := match lastSlash q with
      | none => q
      | some i => q.drop (i + 1)
    if b = [] then ['/'] else b

/-- the trailing-slash trimming of `mockFS.ReadDirectory` (never trims the first slash) -/
def trimDir : Nat → Str → Str
  | 0, p => p
  | fuel + 1, p =>
    match lastSlash p, indexByte p '/' with
    | some i, some first => if i ≠ p.length - 1 || i ≤ first then p else trimDir fuel (p.take i)
    | _, _ => p

/-- `helpers.IsInsideNodeModules(path)`: some element after a slash is "node_modules" -/
def textInsideNodeModules (p : Str) : Bool :=
  match splitAt (fun c => c = '/' || c = '\\') p with
  | [] => false
  | _ :: rest => rest.any (· = BrowserMap.nodeModulesStr)

/-! ## the world -/

structure PkgJson where
  main : Option Str            -- mainFields["main"]
  browser : Option BMap        -- browserMap
deriving Repr

structure World where
  browser : Bool                       -- options.Platform == PlatformBrowser
  exts : List Str                      -- options.ExtensionOrder
  files : List Str                     -- every regular file (absolute, clean), package.json / tsconfig.json included
  pkgs : List (Str × PkgJson)          -- directory ↦ its parsed package.json
  tsconfigs : List (Str × Config)      -- directory ↦ the finished config of its tsconfig.json
deriving Repr

def lookupBy {β} (l : List (Str × β)) (k : Str) : Option β :=
  match l with
  | [] => none
  | (a, b) :: rest => if a = k then some b else lookupBy rest k

def isFile (w : World) (p : Str) : Bool := w.files.contains p

/-- a key of `mockFS.dirs` -/
def isDirExact (w : World) (p : Str) : Bool :=
  let pre := if p = ['/'] then p else p ++ ['/']
  p.head? = some '/' && w.files.any fun f => hasPrefix f pre

/-- `ReadDirectory(p)`: the canonical name of the directory, if it exists -/
def readDir (w : World) (p : Str) : Option Str :=
  let q := trimDir p.length p
  if isDirExact w q then some q else none

inductive EKind where | file | dir
deriving DecidableEq, Repr

/-- `entries.Get(name)` and its kind, for the directory with canonical name `d` -/
def entryKind (w : World) (d name : Str) : Option EKind :=
  if name = [] || name.contains '/' then none
  else
    let p := if d = ['/'] then '/' :: name else d ++ '/' :: name
    if isFile w p then some .file else if isDirExact w p then some .dir else none

/-- `dirInfoCached(p) != nil`: the directory can be read and so can its parent (Dir(p), a clean path whose
own ancestors exist as soon as it does) -/
def dirExists (w : World) (p : Str) : Bool :=
  (readDir w p).isSome && (goDir p = p || (readDir w (goDir p)).isSome)

/-- `p`, its parent, …, up to the root (the `parent` chain of a dirInfo) -/
def ancestors : Nat → Str → List Str
  | 0, p => [p]
  | fuel + 1, p => if goDir p = p then [p] else p :: ancestors fuel (goDir p)

def chain (p : Str) : List Str := ancestors p.length p

def isNodeModulesDir (p : Str) : Bool := goBase p = BrowserMap.nodeModulesStr

/-- `dirInfo.isInsideNodeModules` -/
def insideNodeModules (p : Str) : Bool := (chain p).any isNodeModulesDir

/-- `dirInfo.hasNodeModules` -/
def hasNodeModules (w : World) (p : Str) : Bool :=
  !isNodeModulesDir p &&
    match readDir w p with
    | some d => entryKind w d BrowserMap.nodeModulesStr = some .dir
    | none => false

def packageJsonStr : Str := "package.json".toList
def tsconfigJsonStr : Str := "tsconfig.json".toList

/-- `dirInfo.packageJSON` -/
def packageJSON (w : World) (p : Str) : Option PkgJson :=
  match readDir w p with
  | some d => if entryKind w d packageJsonStr = some .file then lookupBy w.pkgs (fsJoin p []) else none
  | none => none

/-- `dirInfo.enclosingBrowserScope`: absPath and map of the nearest directory (self first) whose package.json
has a browser map -/
def browserScope (w : World) (p : Str) : Option (Str × BMap) :=
  (chain p).findSome? fun d =>
    match packageJSON w d with
    | some pj => pj.browser.map fun m => (d, m)
    | none => none

/-- has this directory its own tsconfig.json that is taken into account? -/
def ownTsconfig (w : World) (p : Str) : Option Config :=
  match readDir w p with
  | some d =>
    if entryKind w d tsconfigJsonStr = some .file && !insideNodeModules p then lookupBy w.tsconfigs (fsJoin p []) else none
  | none => none

/-- `tsConfigForDir(dirInfo)` -/
def tsConfigForDir (w : World) (p : Str) : Option Config :=
  if insideNodeModules p then none else (chain p).findSome? (ownTsconfig w)

/-! ## loadAsFile / loadAsIndex / loadAsDirectory … -/

/-- a resolved path and its PathDisabled flag -/
abbrev Res := Str × Bool

/-- `rewrittenFileExtensions` (its four keys are mutually exclusive as suffixes, so the map order is irrelevant) -/
def rewritten : List (Str × List Str) :=
  [(".js".toList, [".ts".toList, ".tsx".toList]), (".jsx".toList, [".ts".toList, ".tsx".toList]),
   (".mjs".toList, [".mts".toList]), (".cjs".toList, [".cts".toList])]

/-- `nodeModulesExtensionOrder` when the loaders are .js→JS, .jsx→JSX, everything else non-TypeScript:
the same order if there is a JavaScript extension at all, otherwise empty -/
def nmExts (exts : List Str) : List Str :=
  if exts.any (fun e => e = ".js".toList || e = ".jsx".toList) then exts else []

def extsFor (w : World) (path : Str) : List Str :=
  if textInsideNodeModules path then nmExts w.exts else w.exts

/-- the closure `tryFile(base)` of loadAsFile, for the directory `dirPath` read as `d` -/
def tryFile (w : World) (dirPath d base : Str) : Option Str :=
  if entryKind w d base = some .file then some (fsJoin dirPath base) else none

def tryFiles (w : World) (dirPath d : Str) : List Str → Option Str
  | [] => none
  | b :: bs =>
    match tryFile w dirPath d b with
    | some r => some r
    | none => tryFiles w dirPath d bs

/-- `loadAsFile(path, extensionOrder)` -/
def loadAsFile (w : World) (path : Str) (exts : List Str) : Option Str :=
  let dirPath := goDir path
  match readDir w dirPath with
  | none => none
  | some d =>
    let base := goBase path
    match tryFiles w dirPath d (base :: exts.map (base ++ ·)) with
    | some r => some r
    | none =>
      match rewritten.find? (fun kv => hasSuffix base kv.1) with
      | none => none
      | some (_, newExts) =>
        match lastIndex base '.' with
        | none => none
        | some dot => tryFiles w dirPath d (newExts.map (base.take dot ++ ·))

/-- `loadAsIndex(dirInfo, extensionOrder)` -/
def loadAsIndex (w : World) (dirAbs : Str) (exts : List Str) : Option Res :=
  match readDir w dirAbs with
  | none => none
  | some d => (tryFiles w dirAbs d (exts.map (BrowserMap.indexStr ++ ·))).map fun p => (p, false)

def cbm (w : World) (dirAbs input : Str) (kind : Kind) : Option (Option Str) :=
  checkBrowserMapV w.browser (browserScope w dirAbs) w.exts dirAbs input kind

/-- `loadAsIndexWithBrowserRemapping(dirInfo, path, extensionOrder)` (`dirInfo.absPath = dirAbs`) -/
def loadAsIndexBR (w : World) (dirAbs path : Str) (exts : List Str) : Option Res :=
  let absPath := fsJoin path BrowserMap.indexStr
  match cbm w dirAbs absPath .absolute with
  | some none => some (absPath, true)
  | some (some remapped) =>
    let remappedAbs := fsJoin path remapped           -- joined to `path`, not to the scope's directory
    match loadAsFile w remappedAbs exts with
    | some a => some (a, false)
    | none => if dirExists w remappedAbs then loadAsIndex w remappedAbs exts else none
  | none => loadAsIndex w dirAbs exts

/-- the closure `loadMainField(fieldRelPath, field)` -/
def loadMainField (w : World) (path : Str) (exts : List Str) (fieldRel : Str) : Option Res :=
  let fieldAbs0 := fsJoin path fieldRel
  match cbm w path fieldAbs0 .absolute with
  | some none => some (fieldAbs0, true)
  | r =>
    let fieldAbs := match r with
      | some (some remapped) => fsJoin path remapped    -- joined to `path`, not to the scope's directory
      | _ => fieldAbs0
    match loadAsFile w fieldAbs exts with
    | some a => some (a, false)
    | none => if dirExists w fieldAbs then loadAsIndexBR w fieldAbs fieldAbs exts else none

/-- `loadAsMainField(dirInfo, path, extensionOrder)` with `MainFields = ["main"]` given explicitly -/
def loadAsMainField (w : World) (path : Str) (exts : List Str) : Option Res :=
  match packageJSON w path with
  | none => none
  | some pj =>
    match pj.main with
    | none => none
    | some rel => loadMainField w path exts rel

/-- `loadAsDirectory(path)` -/
def loadAsDirectory (w : World) (path : Str) : Option Res :=
  let exts := extsFor w path
  if !dirExists w path then none
  else
    match loadAsMainField w path exts with
    | some r => some r
    | none => loadAsIndexBR w path path exts

/-- `loadAsFileOrDirectory(path)` -/
def loadAsFileOrDirectory (w : World) (path : Str) : Option Res :=
  match loadAsFile w path (extsFor w path) with
  | some a => some (a, false)
  | none => loadAsDirectory w path

/-- `esmParsePackageName` -/
def esmParsePackageName (s : Str) : Option (Str × Str) :=
  if s = [] then none
  else
    let name? : Option Str :=
      if !hasPrefix s ['@'] then
        match indexByte s '/' with
        | none => some s
        | some i => some (s.take i)
      else
        match indexByte s '/' with
        | none => none
        | some i =>
          match indexByte (s.drop (i + 1)) '/' with
          | none => some s
          | some j => some (s.take (i + 1 + j))
    match name? with
    | none => none
    | some name =>
      if hasPrefix name ['.'] || name.any (fun c => c = '\\' || c = '%') then none
      else some (name, '.' :: s.drop name.length)

/-! ## loadNodeModules / resolveWithoutRemapping / resolveWithoutSymlinks -/

inductive R where
  | panic                -- Go run-time panic
  | overflow             -- unbounded recursion (fatal "stack overflow" in Go)
  | none                 -- resolution failed
  | some (r : Res)
deriving Repr, DecidableEq

def R.ofOutcome : Outcome Res → R
  | .panic => .panic
  | .notFound => .none
  | .found r => .some r

def R.ofOption : Option Res → R
  | Option.none => .none
  | Option.some r => .some r

mutual
/-- `resolveWithoutRemapping(sourceDirInfo, importPath)` -/
def resolveWithoutRemapping (w : World) : Nat → Str → Str → R
  | 0, _, _ => .overflow
  | fuel + 1, sourceDir, importPath =>
    if isPackagePath importPath then loadNodeModules w fuel importPath sourceDir
    else R.ofOption (loadAsFileOrDirectory w (fsJoin sourceDir importPath))

/-- `loadNodeModules(importPath, dirInfo, false)` -/
def loadNodeModules (w : World) : Nat → Str → Str → R
  | 0, _, _ => .overflow
  | fuel + 1, importPath, dir =>
    -- `rest` of the tsconfig stage is everything below; `.notFound` here means "fell through to it"
    match TsPaths.tsconfigStage (loadAsFileOrDirectory w) (tsConfigForDir w dir) importPath (fun _ => .notFound) with
    | .panic => .panic
    | .found r => .some r
    | .notFound => walkUp w fuel importPath (esmParsePackageName importPath) (chain dir)

/-- the loop `for { if dirInfo.hasNodeModules {…}; dirInfo = dirInfo.parent }` -/
def walkUp (w : World) : Nat → Str → Option (Str × Str) → List Str → R
  | 0, _, _, _ => .overflow
  | _ + 1, _, _, [] => .none
  | fuel + 1, importPath, esm, dir :: up =>
    if hasNodeModules w dir then
      match tryToResolvePackage w fuel importPath esm (fsJoin dir BrowserMap.nodeModulesStr) with
      | (r, true) => r
      | (_, false) => walkUp w fuel importPath esm up
    else walkUp w fuel importPath esm up

/-- the closure `tryToResolvePackage(absDir)`; the second component is `shouldStop` -/
def tryToResolvePackage (w : World) : Nat → Str → Option (Str × Str) → Str → R × Bool
  | 0, _, _, _ => (.overflow, true)
  | fuel + 1, importPath, esm, absDir =>
    let absPath := fsJoin absDir importPath
    let viaBrowser : Option (R × Bool) :=
      match esm with
      | Option.none => Option.none
      | Option.some (name, _) =>
        let absPkgPath := fsJoin absDir name
        if !dirExists w absPkgPath then Option.none
        else
          match cbm w absPkgPath absPath .absolute with
          | Option.none => Option.none
          | Option.some Option.none => Option.some (.some (absPath, true), true)
          | Option.some (Option.some remapped) =>
            match browserScope w absPkgPath with
            | Option.none => Option.none             -- unreachable: a remapping came from a scope
            | Option.some (scopeAbs, _) =>
              match resolveWithoutRemapping w fuel scopeAbs remapped with
              | .some r => Option.some (.some r, true)
              | .panic => Option.some (.panic, true)
              | .overflow => Option.some (.overflow, true)
              | .none => Option.none
    match viaBrowser with
    | Option.some r => r
    | Option.none =>
      match loadAsFileOrDirectory w absPath with
      | Option.some r => (.some r, true)
      | Option.none => (.none, false)
end

/-- the stack depth granted to the Go recursion (far more than any terminating walk on a small world needs) -/
def defaultFuel : Nat := 600

def endsWith (s : Str) (t : String) : Bool := hasSuffix s t.toList

/-- `resolveWithoutSymlinks(sourceDir, sourceDirInfo, importPath)` for import kind `import` -/
def resolveWithoutSymlinks (w : World) (fuel : Nat) (sourceDir importPath : Str) : R :=
  if hasPrefix importPath ['/'] then
    -- absolute import path: tsconfig paths first, then the path itself
    let viaPaths : Outcome Res :=
      match tsConfigForDir w sourceDir with
      | Option.some c =>
        (match c.paths with
         | Option.some t => matchTable (loadAsFileOrDirectory w) c.absBaseURL t importPath
         | Option.none => .notFound)
      | Option.none => .notFound
    match viaPaths with
    | .panic => .panic
    | .found r => .some r
    | .notFound => R.ofOption (loadAsFileOrDirectory w importPath)
  else if !isPackagePath importPath then
    -- checkRelative = true, checkPackage = false
    let absPath := fsJoin sourceDir importPath
    let hasTrailingSlash := importPath = ['.'] || importPath = ['.', '.'] || endsWith importPath "/" ||
      endsWith importPath "/." || endsWith importPath "/.."
    let importDir := goDir absPath
    let viaBrowser : Option R :=
      if !dirExists w importDir then Option.none
      else
        match cbm w importDir absPath .absolute with
        | Option.none => Option.none
        | Option.some Option.none => Option.some (.some (absPath, true))
        | Option.some (Option.some remapped) =>
          match browserScope w importDir with
          | Option.none => Option.none
          | Option.some (scopeAbs, _) =>
            match resolveWithoutRemapping w fuel scopeAbs remapped with
            | .some r => Option.some (.some r)
            | .panic => Option.some .panic
            | .overflow => Option.some .overflow
            | .none => Option.none
    match viaBrowser with
    | Option.some r => r
    | Option.none =>
      if hasTrailingSlash then R.ofOption (loadAsDirectory w absPath)
      else R.ofOption (loadAsFileOrDirectory w absPath)
  else
    -- checkRelative = false, checkPackage = true
    match cbm w sourceDir importPath .package with
    | Option.some Option.none =>
      -- "browser": {"module": false}
      (match loadNodeModules w fuel importPath sourceDir with
       | .some (p, _) => .some (p, true)
       | .none => .some (importPath, true)
       | .panic => .panic
       | .overflow => .overflow)
    | Option.some (Option.some remapped) =>
      (match browserScope w sourceDir with
       | Option.none => .none
       | Option.some (scopeAbs, _) => resolveWithoutRemapping w fuel scopeAbs remapped)
    | Option.none => resolveWithoutRemapping w fuel sourceDir importPath

/-- `Resolver.Resolve(sourceDir, importPath, kind)` as far as it is exercised: the source directory must exist -/
def resolve (w : World) (sourceDir importPath : Str) : R :=
  if !dirExists w sourceDir then .none else resolveWithoutSymlinks w defaultFuel sourceDir importPath

/-! ## building a world from its raw description (tsconfig "extends", JSON properties) -/

structure RawPkg where
  dir : Str
  main : Option Str
  browser : Option (List (Str × BrowserMap.BVal))
deriving Repr

structure RawTs where
  file : Str
  extends_ : List Str
  raw : TsPaths.Raw
deriving Repr

structure RawWorld where
  browser : Bool := false
  exts : List Str := []
  files : List Str := []
  pkgs : List RawPkg := []
  tss : List RawTs := []
deriving Repr

def findTs (tss : List RawTs) (file : Str) : Option RawTs := tss.find? (·.file = file)

/-- `parseTSConfig(file, visited, configDir)` with the "extends" callback of parseTSConfigFromSource, for
"extends" values that are relative or absolute FILE paths (package-style values are treated as missing).
`none` = the file is missing or closes a cycle (the base is then ignored with a warning). -/
def loadConfig (tss : List RawTs) : Nat → List Str → Str → Str → Option Config
  | 0, _, _, _ => none
  | fuel + 1, visited, file, configDir =>
    if visited.contains file then none
    else
      match findTs tss file with
      | none => none
      | some ts =>
        let fileDir := goDir file
        let bases := ts.extends_.filterMap fun e =>
          if isPackagePath e && !TsPaths.isAbs e then none
          else
            let e1 := if e = ['.'] || e = ['.', '.'] then e ++ "/tsconfig.json".toList else e
            let extendsFile := if TsPaths.isAbs e1 then e1 else fsJoin fileDir e1
            match loadConfig tss fuel (file :: visited) extendsFile configDir with
            | some c => some c
            | none =>
              if !endsWith extendsFile ".json" && (findTs tss extendsFile).isNone &&
                  (findTs tss (extendsFile ++ ".json".toList)).isSome then
                loadConfig tss fuel (file :: visited) (extendsFile ++ ".json".toList) configDir
              else none
        some (TsPaths.finishConfig (!visited.isEmpty) (TsPaths.parseConfig fileDir configDir bases ts.raw))

def buildWorld (rw : RawWorld) : World :=
  let pkgFiles := rw.pkgs.map fun p => fsJoin p.dir packageJsonStr
  let tsFiles := rw.tss.map (·.file)
  { browser := rw.browser
    exts := rw.exts
    files := rw.files ++ pkgFiles ++ tsFiles
    pkgs := rw.pkgs.map fun p =>
      (p.dir, { main := match p.main with
                        | some [] => none          -- `main != ""`
                        | m => m
                browser := if rw.browser then p.browser.map (BrowserMap.parseBrowser []) else none })
    tsconfigs := rw.tss.filterMap fun t =>
      if goBase t.file = tsconfigJsonStr then
        (loadConfig rw.tss (rw.tss.length + 1) [] t.file (goDir t.file)).map fun c => (goDir t.file, c)
      else none }

/-! ## wire format (one token per blank-separated word; strings in hex, "-" = empty)
`B`/`N` platform browser / other · `E<hex>` extension · `F<hex>` file ·
`P<hex>` package.json in that directory, then `M<hex>` main, `R` "browser" is an object, then per property
`K<hex>` and one of `S<hex>` (string) `f` `t` `x` ·
`T<hex>` tsconfig file, then `X<hex>` an "extends" entry, `U<hex>` baseUrl, `Q` "paths" is an object, then per
property `K<hex>` and `V` (value is not an array) or `A` followed by the items `I<hex>` (string) / `J` (other) -/

def modLast {α} (f : α → α) : List α → List α
  | [] => []
  | [a] => [f a]
  | a :: rest => a :: modLast f rest

inductive Mode where | top | pkg | ts
deriving DecidableEq

open Wire in
def hexOf (s : String) : Option Str := (parseHexUnits 2 s).map fun l => l.map Char.ofNat

def step (st : Mode × RawWorld) (tok : String) : Option (Mode × RawWorld) :=
  let (mode, w) := st
  let arg := (tok.drop 1).toString
  match tok.front, mode with
  | 'B', _ => if arg = "" then some (.top, { w with browser := true }) else none
  | 'N', _ => if arg = "" then some (.top, { w with browser := false }) else none
  | 'E', _ => (hexOf arg).map fun s => (.top, { w with exts := w.exts ++ [s] })
  | 'F', _ => (hexOf arg).map fun s => (.top, { w with files := w.files ++ [s] })
  | 'P', _ => (hexOf arg).map fun s => (.pkg, { w with pkgs := w.pkgs ++ [⟨s, none, none⟩] })
  | 'T', _ => (hexOf arg).map fun s => (.ts, { w with tss := w.tss ++ [⟨s, [], ⟨none, none⟩⟩] })
  | 'M', .pkg => (hexOf arg).map fun s => (.pkg, { w with pkgs := modLast (fun p => { p with main := some s }) w.pkgs })
  | 'R', .pkg => if arg = "" then some (.pkg, { w with pkgs := modLast (fun p => { p with browser := some [] }) w.pkgs }) else none
  | 'K', .pkg => (hexOf arg).map fun s =>
      (.pkg, { w with pkgs := modLast (fun p => { p with browser := p.browser.map (· ++ [(s, .other)]) }) w.pkgs })
  | 'S', .pkg => (hexOf arg).map fun s =>
      (.pkg, { w with pkgs := modLast (fun p => { p with browser := p.browser.map (modLast fun kv => (kv.1, .str s)) }) w.pkgs })
  | 'f', .pkg => some (.pkg, { w with pkgs := modLast (fun p => { p with browser := p.browser.map (modLast fun kv => (kv.1, .fls)) }) w.pkgs })
  | 't', .pkg => some (.pkg, { w with pkgs := modLast (fun p => { p with browser := p.browser.map (modLast fun kv => (kv.1, .tru)) }) w.pkgs })
  | 'x', .pkg => some (.pkg, w)
  | 'X', .ts => (hexOf arg).map fun s => (.ts, { w with tss := modLast (fun t => { t with extends_ := t.extends_ ++ [s] }) w.tss })
  | 'U', .ts => (hexOf arg).map fun s => (.ts, { w with tss := modLast (fun t => { t with raw := { t.raw with baseUrl := some s } }) w.tss })
  | 'Q', .ts => some (.ts, { w with tss := modLast (fun t => { t with raw := { t.raw with paths := some [] } }) w.tss })
  | 'K', .ts => (hexOf arg).map fun s =>
      (.ts, { w with tss := modLast (fun t => { t with raw := { t.raw with paths := t.raw.paths.map (· ++ [(s, none)]) } }) w.tss })
  | 'V', .ts => some (.ts, w)
  | 'A', .ts => some (.ts, { w with tss := modLast (fun t => { t with raw := { t.raw with paths := t.raw.paths.map (modLast fun kv => (kv.1, some [])) } }) w.tss })
  | 'I', .ts => (hexOf arg).map fun s =>
      (.ts, { w with tss := modLast (fun t => { t with raw := { t.raw with paths := t.raw.paths.map (modLast fun kv => (kv.1, kv.2.map (· ++ [some s]))) } }) w.tss })
  | 'J', .ts => some (.ts, { w with tss := modLast (fun t => { t with raw := { t.raw with paths := t.raw.paths.map (modLast fun kv => (kv.1, kv.2.map (· ++ [none]))) } }) w.tss })
  | _, _ => none

def parseWorld (s : String) : Option RawWorld :=
  ((s.splitOn " ").filter (· ≠ "")).foldlM step (Mode.top, {}) |>.map (·.2)

def hexStr (s : Str) : String := Wire.hexUnits 2 (s.map Char.toNat)

def R.render : R → String
  | .panic => "PANIC"
  | .overflow => "OVERFLOW"
  | .none => "none"
  | .some (p, false) => s!"ok {hexStr p}"
  | .some (p, true) => s!"disabled {hexStr p}"

def driver (args : List String) : String :=
  match args with
  | ["resolve", world, src, imp] =>
    match parseWorld world, hexOf src, hexOf imp with
    | some rw, some s, some i => (resolve (buildWorld rw) s i).render
    | _, _, _ => "bad-op"
  | _ => "bad-op"

end EsbuildModel.ResolveWalk
