/-
Impl/MiniJS — model of esbuild's pure AST→AST expression helpers that `--minify-syntax` applies
(/repo/internal/js_ast/js_ast_helpers.go), transcribed on the expression language of Spec/MiniJS:

  IsPrimitiveLiteral, KnownPrimitiveType, MergedKnownPrimitiveTypes, CanChangeStrictToLoose,
  TypeofWithoutSideEffects, ToNullOrUndefinedWithSideEffects, ToBooleanWithSideEffects,
  CheckEqualityIfNoSideEffects, ValuesLookTheSame, JoinWithComma, JoinWithLeftAssociativeOp,
  Not, MaybeSimplifyNot, isInt32OrUint32, extractNumericValue, SimplifyBooleanExpr,
  ExprCanBeRemovedIfUnused, isSideEffectFreeUnboundIdentifierRef, MangleIfExpr, SimplifyUnusedExpr,
  MaybeSimplifyEqualityComparison.

Conventions: the Go functions compare `Expr` structs by pointer only to avoid re-allocating an unchanged node
(`if left != e.Left || …`); a rebuilt node has the same structure, so the model always rebuilds.  AST flags that the
kernel always leaves at their zero value (EIdentifier.CanBeRemovedIfUnused / MustKeepDueToWithStmt,
EDot.CanBeRemovedIfUnused, ECall.CanBeUnwrappedIfUnused, optional-chain markers, EAnnotation, EInlinedEnum, EBigInt …)
are not part of the language.  `EUnary.WasOriginallyTypeofIdentifier` IS modelled (`UnOp.typeof flag`).
The optional-chain rewrites (TryToInsertOptionalChain in MangleIfExpr and SimplifyUnusedExpr) are switched off in the
kernel (OptionalChain reported as unsupported), the `??` rewrite is controlled by the `nullishOK` parameter, the
`typeof x > "u"` rewrite by `typeofOK` (TypeofExoticObjectIsObject).
-/
import EsbuildModel.Spec.MiniJS
import EsbuildModel.Util.Wire
namespace EsbuildModel.MiniJS

inductive PType where
  | unknown | mixed | null | undefined | boolean | number | string | bigint
deriving DecidableEq, Repr

def isPrimitiveLiteral : Expr → Bool
  | .null => true
  | .undef => true
  | .str _ => true
  | .bool _ => true
  | .num _ => true
  | _ => false

/-- MergedKnownPrimitiveTypes on the two already computed types -/
def mergedTypes (x y : PType) : PType :=
  if x = .unknown then .unknown
  else if y = .unknown then .unknown
  else if x = y then x
  else .mixed

def kptUnary (op : UnOp) (value : PType) : PType :=
  match op with
  | .void => .undefined
  | .typeof _ => .string
  | .not => .boolean
  | .pos => .number
  | .neg | .cpl =>
    if value = .bigint then .bigint
    else if value ≠ .unknown ∧ value ≠ .mixed then .number
    else .mixed

def kptBinary (op : BinOp) (left right : PType) : PType :=
  match op with
  | .strictEq | .strictNe | .looseEq | .looseNe | .lt | .gt | .le | .ge => .boolean
  | .or | .and => mergedTypes left right
  | .nullish =>
    if left = .null ∨ left = .undefined then right
    else if left ≠ .unknown then
      if left ≠ .mixed then left
      else if right ≠ .unknown then .mixed
      else .unknown
    else .unknown
  | .add =>
    if left = .string ∨ right = .string then .string
    else if left = .bigint ∧ right = .bigint then .bigint
    else if left ≠ .unknown ∧ left ≠ .mixed ∧ left ≠ .bigint ∧ right ≠ .unknown ∧ right ≠ .mixed ∧ right ≠ .bigint then .number
    else .mixed
  | .sub | .ushr => .mixed
  | .comma => right

def knownPrimitiveType : Expr → PType
  | .null => .null
  | .undef => .undefined
  | .bool _ => .boolean
  | .num _ => .number
  | .str _ => .string
  | .cond _ y n => mergedTypes (knownPrimitiveType y) (knownPrimitiveType n)
  | .unary op v => kptUnary op (knownPrimitiveType v)
  | .binary op l r => kptBinary op (knownPrimitiveType l) (knownPrimitiveType r)
  | _ => .unknown

def canChangeStrictToLoose (a b : Expr) : Bool :=
  let x := knownPrimitiveType a
  let y := knownPrimitiveType b
  x = y && x ≠ .unknown && x ≠ .mixed

def typeofWithoutSideEffects : Expr → Option JStr
  | .null => some sObject
  | .undef => some sUndefined
  | .bool _ => some sBoolean
  | .num _ => some sNumber
  | .str _ => some sString
  | _ => none

/-- result triple of ToBooleanWithSideEffects / ToNullOrUndefinedWithSideEffects:
`noSE = true` is Go's `NoSideEffects`, `false` is `CouldHaveSideEffects` -/
structure Tri where
  value : Bool
  noSE : Bool
  ok : Bool
deriving DecidableEq, Repr

def toNullOrUndefinedWithSideEffects : Expr → Tri
  | .bool _ => ⟨false, true, true⟩
  | .num _ => ⟨false, true, true⟩
  | .str _ => ⟨false, true, true⟩
  | .null => ⟨true, true, true⟩
  | .undef => ⟨true, true, true⟩
  | .unary op _ =>
    match op with
    | .pos | .neg | .cpl | .not => ⟨false, false, true⟩
    | .typeof flag => ⟨false, flag, true⟩
    | .void => ⟨true, false, true⟩
  | .binary op _ r =>
    match op with
    | .add | .sub | .ushr | .lt | .le | .gt | .ge | .looseEq | .looseNe | .strictEq | .strictNe => ⟨false, false, true⟩
    | .comma =>
      let t := toNullOrUndefinedWithSideEffects r
      if t.ok then ⟨t.value, false, true⟩ else ⟨false, true, false⟩
    | _ => ⟨false, true, false⟩
  | _ => ⟨false, true, false⟩

def toBooleanWithSideEffects : Expr → Tri
  | .null => ⟨false, true, true⟩
  | .undef => ⟨false, true, true⟩
  | .bool b => ⟨b, true, true⟩
  | .num n => ⟨!n.isZero && !n.isNaN, true, true⟩
  | .str s => ⟨!s.isEmpty, true, true⟩
  | .unary op v =>
    match op with
    | .void => ⟨false, false, true⟩
    | .typeof flag => ⟨true, flag, true⟩
    | .not =>
      let t := toBooleanWithSideEffects v
      if t.ok then ⟨!t.value, t.noSE, true⟩ else ⟨false, false, false⟩
    | _ => ⟨false, false, false⟩
  | .binary op _ r =>
    match op with
    | .or =>
      let t := toBooleanWithSideEffects r
      if t.ok && t.value then ⟨true, false, true⟩ else ⟨false, false, false⟩
    | .and =>
      let t := toBooleanWithSideEffects r
      if t.ok && !t.value then ⟨false, false, true⟩ else ⟨false, false, false⟩
    | .comma =>
      let t := toBooleanWithSideEffects r
      if t.ok then ⟨t.value, false, true⟩ else ⟨false, false, false⟩
    | _ => ⟨false, false, false⟩
  | _ => ⟨false, false, false⟩

/-- CheckEqualityIfNoSideEffects; result (equal, ok); `strict = false` is LooseEquality -/
def checkEqualityIfNoSideEffects (left right : Expr) (strict : Bool) : Bool × Bool :=
  match left with
  | .null =>
    match right with
    | .null => (true, true)
    | .undef => (!strict, true)
    | r => if isPrimitiveLiteral r then (false, true) else (false, false)
  | .undef =>
    match right with
    | .undef => (true, true)
    | .null => (!strict, true)
    | r => if isPrimitiveLiteral r then (false, true) else (false, false)
  | .bool l =>
    match right with
    | .bool r => (l == r, true)
    | .num r => if !strict then (if l then (r.eq (.int 1), true) else (r.isZero, true)) else (false, true)
    | .null => (false, true)
    | .undef => (false, true)
    | r => if strict && isPrimitiveLiteral r then (false, true) else (false, false)
  | .num l =>
    match right with
    | .num r => (l.eq r, true)
    | .bool r => if !strict then (if r then (l.eq (.int 1), true) else (l.isZero, true)) else (false, true)
    | .null => (false, true)
    | .undef => (false, true)
    | r => if strict && isPrimitiveLiteral r then (false, true) else (false, false)
  | .str l =>
    match right with
    | .str r => (l == r, true)
    | .null => (false, true)
    | .undef => (false, true)
    | r => if strict && isPrimitiveLiteral r then (false, true) else (false, false)
  | _ => (false, false)

/-- same `EUnary.Op` (the typeof flag is not part of the op code); ValuesLookTheSame compares the flag as well
(since the fix "typeof x and typeof (0, x) do not look the same"), so it uses `==` on `UnOp` instead -/
def sameUnOp : UnOp → UnOp → Bool
  | .typeof _, .typeof _ => true
  | a, b => a == b

def Args.len : Args → Nat
  | .nil => 0
  | .cons _ r => r.len + 1

/-- math.Signbit of a zero -/
def Num.signbitZero : Num → Bool
  | .negZero => true
  | _ => false

mutual
def valuesLookTheSame : Expr → Expr → Bool
  | .ident a, r =>
    match r with
    | .ident b => a == b
    | _ => false
  | .dot ta na, r =>
    match r with
    | .dot tb nb => na == nb && valuesLookTheSame ta tb
    | _ => false
  | .index ta ia, r =>
    match r with
    | .index tb ib => valuesLookTheSame ta tb && valuesLookTheSame ia ib
    | _ => false
  | .cond ca ya na, r =>
    match r with
    | .cond cb yb nb => valuesLookTheSame ca cb && valuesLookTheSame ya yb && valuesLookTheSame na nb
    | _ => false
  | .unary opa va, r =>
    match r with
    | .unary opb vb => opa == opb && valuesLookTheSame va vb   -- Op and WasOriginallyTypeofIdentifier
    | _ => false
  | .binary opa la ra, r =>
    match r with
    | .binary opb lb rb => opa == opb && valuesLookTheSame la lb && valuesLookTheSame ra rb
    | _ => false
  | .call fa aa, r =>
    match r with
    | .call fb ab => aa.len == ab.len && valuesLookTheSame fa fb && argsLookTheSame aa ab
    | _ => false
  | .num a, r =>
    match r with
    | .num b =>
      if a.isZero && b.isZero && a.signbitZero != b.signbitZero then false
      else a.eq b
    | r => (checkEqualityIfNoSideEffects (.num a) r true).2 && (checkEqualityIfNoSideEffects (.num a) r true).1
  | .undef, r => (checkEqualityIfNoSideEffects .undef r true).2 && (checkEqualityIfNoSideEffects .undef r true).1
  | .null, r => (checkEqualityIfNoSideEffects .null r true).2 && (checkEqualityIfNoSideEffects .null r true).1
  | .bool a, r => (checkEqualityIfNoSideEffects (.bool a) r true).2 && (checkEqualityIfNoSideEffects (.bool a) r true).1
  | .str a, r => (checkEqualityIfNoSideEffects (.str a) r true).2 && (checkEqualityIfNoSideEffects (.str a) r true).1
/-- the loop over the argument lists (lengths have been compared before) -/
def argsLookTheSame : Args → Args → Bool
  | .cons a ra, .cons b rb => valuesLookTheSame a b && argsLookTheSame ra rb
  | _, _ => true
end

-- ---------------------------------------------------------------- joining

/-- JoinWithComma; `none` is Go's `Expr{}` (nil Data) -/
def joinWithComma : Option Expr → Option Expr → Option Expr
  | none, b => b
  | a, none => a
  | some a, some b => some (.binary .comma a b)

/-- first branch of JoinWithLeftAssociativeOp: `(x, y) op c` => `x, (y op c)`, applied while the left operand is a
comma; `k` is what happens with the innermost non-comma left operand -/
def peelComma (k : Expr → Expr) : Expr → Expr
  | .binary op l r => if op = .comma then .binary .comma l (peelComma k r) else k (.binary op l r)
  | a => k a

/-- the `for` loop of JoinWithLeftAssociativeOp: `a op (b op c)` => `(a op b) op c`; recursion on `b`, the left
operand is the last argument -/
def joinLoop (op : BinOp) : Expr → Expr → Expr
  | .binary op2 bl br, a =>
    if op2 = op then joinLoop op br (peelComma (joinLoop op bl) a) else .binary op a (.binary op2 bl br)
  | b, a => .binary op a b

/-- JoinWithLeftAssociativeOp -/
def joinWithLeftAssociativeOp (op : BinOp) (a b : Expr) : Expr :=
  peelComma (joinLoop op b) a

-- ---------------------------------------------------------------- "!"

/-- MaybeSimplifyNot; `none` is `ok = false` -/
def maybeSimplifyNot : Expr → Option Expr
  | .null => some (.bool true)
  | .undef => some (.bool true)
  | .bool b => some (.bool (!b))
  | .num n => some (.bool (n.isZero || n.isNaN))
  | .str s => some (.bool s.isEmpty)
  | .unary op v => if op = .not ∧ knownPrimitiveType v = .boolean then some v else none
  | .binary op l r =>
    match op with
    | .looseEq => some (.binary .looseNe l r)
    | .looseNe => some (.binary .looseEq l r)
    | .strictEq => some (.binary .strictNe l r)
    | .strictNe => some (.binary .strictEq l r)
    | .comma =>
      some (.binary .comma l (match maybeSimplifyNot r with
        | some x => x
        | none => .unary .not r))
    | _ => none
  | _ => none

/-- Not -/
def notExpr (e : Expr) : Expr :=
  match maybeSimplifyNot e with
  | some x => x
  | none => .unary .not e

-- ---------------------------------------------------------------- boolean contexts

def isInt32OrUint32 : Expr → Bool
  | .binary op l r =>
    match op with
    | .ushr => true
    | .or | .and => isInt32OrUint32 l && isInt32OrUint32 r
    | _ => false
  | .cond _ y n => isInt32OrUint32 y && isInt32OrUint32 n
  | _ => false

def extractNumericValue : Expr → Option Num
  | .num n => some n
  | _ => none

def isIdent : Expr → Bool
  | .ident _ => true
  | _ => false

def isStr : Expr → Bool
  | .str _ => true
  | _ => false

def identOf? : Expr → Option Nat
  | .ident x => some x
  | _ => none

def strOf? : Expr → Option JStr
  | .str s => some s
  | _ => none

/-- operand of a `typeof` whose WasOriginallyTypeofIdentifier flag is set -/
def typeofFlagged? : Expr → Option Expr
  | .unary op v => if op = .typeof true then some v else none
  | _ => none

/-- the comparison against the string literal in isSideEffectFreeUnboundIdentifierRef: does the outcome
`isYesBranch` of `typeof x <op> text` imply that `x` is defined? (as the Go code decides it) -/
def guardCond (op : BinOp) (text : JStr) (isYesBranch : Bool) : Bool :=
  match op with
  | .strictEq | .looseEq => ((text == sUndefined) == isYesBranch) == false
  | .strictNe | .looseNe => ((text == sUndefined) == isYesBranch) == true
  | .lt | .le => text == [117] && isYesBranch == true
  | .gt | .ge => text == [117] && isYesBranch == false
  | _ => false

def BinOp.isRelational : BinOp → Bool
  | .lt | .gt | .le | .ge => true
  | _ => false

/-- isSideEffectFreeUnboundIdentifierRef: all the nested `if … ok` tests of the Go function are one conjunction -/
def isSideEffectFreeUnboundIdentifierRef (ub : Nat → Bool) (value guard : Expr) (isYesBranch : Bool) : Bool :=
  match identOf? value with
  | some id =>
    ub id &&
    match guard with
    | .binary op bl br =>
      -- "Pattern match for typeof x !== <string>": the operands are swapped when the LEFT one is a string
      let flip := isStr bl
      let ty := if flip then br else bl
      let st := if flip then bl else br
      match typeofFlagged? ty, strOf? st with
      | some tv, some text =>
        -- for the relational operators swapping the operands also flips the branch
        guardCond op text (if op.isRelational && flip then !isYesBranch else isYesBranch) &&
          identOf? tv == some id
      | _, _ => false
    | _ => false
  | none => false

/-- ExprCanBeRemovedIfUnused; `ub` is the context's `isUnbound` -/
def exprCanBeRemovedIfUnused (ub : Nat → Bool) : Expr → Bool
  | .null => true
  | .undef => true
  | .bool _ => true
  | .num _ => true
  | .str _ => true
  | .ident x => !ub x
  | .cond c y n =>
    exprCanBeRemovedIfUnused ub c &&
      ((isSideEffectFreeUnboundIdentifierRef ub y c true || exprCanBeRemovedIfUnused ub y) &&
       (isSideEffectFreeUnboundIdentifierRef ub n c false || exprCanBeRemovedIfUnused ub n))
  | .unary op v =>
    match op with
    | .void | .not => exprCanBeRemovedIfUnused ub v
    | .typeof flag => if isIdent v && flag then true else exprCanBeRemovedIfUnused ub v
    | _ => false
  | .binary op l r =>
    match op with
    | .strictEq | .strictNe | .comma | .nullish => exprCanBeRemovedIfUnused ub l && exprCanBeRemovedIfUnused ub r
    | .or =>
      exprCanBeRemovedIfUnused ub l &&
        (isSideEffectFreeUnboundIdentifierRef ub r l false || exprCanBeRemovedIfUnused ub r)
    | .and =>
      exprCanBeRemovedIfUnused ub l &&
        (isSideEffectFreeUnboundIdentifierRef ub r l true || exprCanBeRemovedIfUnused ub r)
    | .looseEq | .looseNe =>
      canChangeStrictToLoose l r && exprCanBeRemovedIfUnused ub l && exprCanBeRemovedIfUnused ub r
    | .lt | .gt | .le | .ge =>
      let left := knownPrimitiveType l
      if left = .string ∨ left = .number ∨ left = .bigint then
        knownPrimitiveType r = left && exprCanBeRemovedIfUnused ub l && exprCanBeRemovedIfUnused ub r
      else false
    | _ => false
  | _ => false

/-- the equality case of SimplifyBooleanExpr: `(a >>> b) !== 0` => `a >>> b`, `(a >>> b) === 0` => `!(a >>> b)`;
`op` is one of the four equality operators -/
def sbeCompareZero (op : BinOp) (l r : Expr) : Expr :=
  match extractNumericValue r with
  | some n =>
    if n.isZero && isInt32OrUint32 l then
      if op = .strictNe ∨ op = .looseNe then l else notExpr l
    else .binary op l r
  | none => .binary op l r

def BinOp.isEquality : BinOp → Bool
  | .strictEq | .strictNe | .looseEq | .looseNe => true
  | _ => false

/-- the `default:` case of SimplifyBooleanExpr (everything but EUnary, EBinary, EIf) -/
def sbeDefault (ub : Nat → Bool) (e : Expr) : Expr :=
  let t := toBooleanWithSideEffects e
  if t.ok && (t.noSE || exprCanBeRemovedIfUnused ub e) then .bool t.value else e

/-- SimplifyBooleanExpr -/
def simplifyBooleanExpr (ub : Nat → Bool) : Expr → Expr
  | .unary op v =>
    if op = .not then
      match v with
      | .unary op2 v2 =>
        if op2 = .not then simplifyBooleanExpr ub v2
        else .unary .not (simplifyBooleanExpr ub (.unary op2 v2))
      | v => .unary .not (simplifyBooleanExpr ub v)
    else .unary op v
  | .binary op l r =>
    match op with
    | .and =>
      let left := simplifyBooleanExpr ub l
      let right := simplifyBooleanExpr ub r
      let t := toBooleanWithSideEffects right
      if t.ok && t.value && t.noSE then left else .binary .and left right
    | .or =>
      let left := simplifyBooleanExpr ub l
      let right := simplifyBooleanExpr ub r
      let t := toBooleanWithSideEffects right
      if t.ok && !t.value && t.noSE then left else .binary .or left right
    | op => if op.isEquality then sbeCompareZero op l r else .binary op l r
  | .cond c y n =>
    let yes := simplifyBooleanExpr ub y
    let no := simplifyBooleanExpr ub n
    let ty := toBooleanWithSideEffects yes
    if ty.ok && ty.noSE then
      if ty.value then joinWithLeftAssociativeOp .or c no
      else joinWithLeftAssociativeOp .and (notExpr c) no
    else
      let tn := toBooleanWithSideEffects no
      if tn.ok && tn.noSE then
        if tn.value then joinWithLeftAssociativeOp .or (notExpr c) yes
        else joinWithLeftAssociativeOp .and c yes
      else .cond c yes no
  | .undef => sbeDefault ub .undef
  | .null => sbeDefault ub .null
  | .bool b => sbeDefault ub (.bool b)
  | .num n => sbeDefault ub (.num n)
  | .str s => sbeDefault ub (.str s)
  | .ident x => sbeDefault ub (.ident x)
  | .call f a => sbeDefault ub (.call f a)
  | .dot o n => sbeDefault ub (.dot o n)
  | .index o k => sbeDefault ub (.index o k)

-- ---------------------------------------------------------------- MangleIfExpr

mutual
def Expr.size : Expr → Nat
  | .unary _ e => e.size + 1
  | .binary _ a b => a.size + b.size + 1
  | .cond c y n => c.size + y.size + n.size + 1
  | .call f args => f.size + args.size + 1
  | .dot o _ => o.size + 1
  | .index o k => o.size + k.size + 1
  | _ => 1
def Args.size : Args → Nat
  | .nil => 0
  | .cons a r => a.size + r.size + 1
end

def boolOf? : Expr → Option Bool
  | .bool b => some b
  | _ => none

def isNull : Expr → Bool
  | .null => true
  | _ => false

def firstSome : List (Option Expr) → Option Expr
  | [] => none
  | some r :: _ => some r
  | none :: rest => firstSome rest

/-- "a ? b : b" => "b" (test removable) / "a, b" -/
def ruleSame (ub : Nat → Bool) (test yes no : Expr) : Option Expr :=
  if valuesLookTheSame yes no then
    if exprCanBeRemovedIfUnused ub test then some yes else some (.binary .comma test yes)
  else none

/-- "a ? true : false" => "!!a", "a ? false : true" => "!a" -/
def ruleBools (test yes no : Expr) : Option Expr :=
  match boolOf? yes, boolOf? no with
  | some y, some n =>
    if y && !n then some (notExpr (notExpr test))
    else if !y && n then some (notExpr test)
    else none
  | _, _ => none

/-- "a ? a : b" => "a || b", "a ? b : a" => "a && b" (a an identifier) -/
def ruleIdent (test yes no : Expr) : Option Expr :=
  match identOf? test with
  | some id =>
    if identOf? yes = some id then some (joinWithLeftAssociativeOp .or test no)
    else if identOf? no = some id then some (joinWithLeftAssociativeOp .and test yes)
    else none
  | none => none

/-- "a ? b ? c : d : d" => "a && b ? c : d" -/
def ruleR4 (test yes no : Expr) : Option Expr :=
  match yes with
  | .cond yc yy yn =>
    if valuesLookTheSame yn no then some (.cond (joinWithLeftAssociativeOp .and test yc) yy no) else none
  | _ => none

/-- "a ? b : c ? b : d" => "a || c ? b : d" -/
def ruleR5 (test yes no : Expr) : Option Expr :=
  match no with
  | .cond nc ny nn =>
    if valuesLookTheSame yes ny then some (.cond (joinWithLeftAssociativeOp .or test nc) yes nn) else none
  | _ => none

/-- "a ? c : (b, c)" => "(a || b), c" -/
def ruleR6 (test yes no : Expr) : Option Expr :=
  match no with
  | .binary op l r =>
    if op = .comma ∧ valuesLookTheSame yes r then some (.binary .comma (joinWithLeftAssociativeOp .or test l) r)
    else none
  | _ => none

/-- "a ? (b, c) : c" => "(a && b), c" -/
def ruleR7 (test yes no : Expr) : Option Expr :=
  match yes with
  | .binary op l r =>
    if op = .comma ∧ valuesLookTheSame r no then some (.binary .comma (joinWithLeftAssociativeOp .and test l) r)
    else none
  | _ => none

/-- "a ? b || c : c" => "(a && b) || c" -/
def ruleR8 (test yes no : Expr) : Option Expr :=
  match yes with
  | .binary op l r =>
    if op = .or ∧ valuesLookTheSame r no then some (.binary .or (joinWithLeftAssociativeOp .and test l) r)
    else none
  | _ => none

/-- "a ? c : b && c" => "(a || b) && c" -/
def ruleR9 (test yes no : Expr) : Option Expr :=
  match no with
  | .binary op l r =>
    if op = .and ∧ valuesLookTheSame yes r then some (.binary .and (joinWithLeftAssociativeOp .or test l) r)
    else none
  | _ => none

/-- the rules of MangleIfExpr between the `!` flip and the call rule, in the order of the Go code (each Go rule
returns when it applies); `none` = no rule applied -/
def mangleIfRulesA (ub : Nat → Bool) (test yes no : Expr) : Option Expr :=
  firstSome [ruleSame ub test yes no, ruleBools test yes no, ruleIdent test yes no, ruleR4 test yes no,
    ruleR5 test yes no, ruleR6 test yes no, ruleR7 test yes no, ruleR8 test yes no, ruleR9 test yes no]

/-- the `??` rule at the end of MangleIfExpr (the `?.` rule is not modelled: the kernel reports OptionalChain as
unsupported); result is never `none`, the last line of the Go function is the fallback -/
def mangleIfRulesB (ub : Nat → Bool) (nullishOK : Bool) (test yes no : Expr) : Expr :=
  match test with
  | .binary op bl br =>
    -- (check, whenNull, whenNonNull)
    let sel : Option (Expr × Expr × Expr) :=
      match op with
      | .looseEq =>
        if isNull br then some (bl, yes, no) else if isNull bl then some (br, yes, no) else none
      | .looseNe =>
        if isNull br then some (bl, no, yes) else if isNull bl then some (br, no, yes) else none
      | _ => none
    match sel with
    | some (check, whenNull, whenNonNull) =>
      if exprCanBeRemovedIfUnused ub check && nullishOK && valuesLookTheSame check whenNonNull then
        joinWithLeftAssociativeOp .nullish check whenNull
      else .cond test yes no
    | none => .cond test yes no
  | _ => .cond test yes no

mutual
/-- MangleIfExpr(loc, &EIf{Test: c, Yes: y, No: n}, features) -/
def mangleIfExpr (ub : Nat → Bool) (nullishOK : Bool) (c y n : Expr) : Expr :=
  match c with
  | .binary op cl cr =>
    -- "(a, b) ? c : d" => "a, b ? c : d"
    if op = .comma then .binary .comma cl (mangleIfExpr ub nullishOK cr y n)
    else mangleIfCore ub nullishOK (.binary op cl cr) y n
  | .unary op v =>
    -- "!a ? b : c" => "a ? c : b"
    if op = .not then mangleIfCore ub nullishOK v n y
    else mangleIfCore ub nullishOK (.unary op v) y n
  | c => mangleIfCore ub nullishOK c y n
termination_by 2 * (c.size + y.size + n.size) + 1
decreasing_by all_goals (try simp only [Expr.size]); all_goals omega
/-- MangleIfExpr after the comma and `!` rules -/
def mangleIfCore (ub : Nat → Bool) (nullishOK : Bool) (test yes no : Expr) : Expr :=
  match mangleIfRulesA ub test yes no with
  | some r => r
  | none =>
    match yes, no with
    | .call fy (.cons ay ry), .call fn (.cons an rn) =>
      -- "a ? b(c, d) : b(e, d)" => "b(a ? c : e, d)"
      if ry.len == rn.len && valuesLookTheSame fy fn && exprCanBeRemovedIfUnused ub test &&
          exprCanBeRemovedIfUnused ub fy && argsLookTheSame ry rn then
        .call fy (.cons (mangleIfExpr ub nullishOK test ay an) ry)
      else mangleIfRulesB ub nullishOK test yes (.call fn (.cons an rn))
    | yes, no => mangleIfRulesB ub nullishOK test yes no
termination_by 2 * (test.size + yes.size + no.size)
decreasing_by all_goals (try simp only [Expr.size, Args.size]); all_goals omega
end

-- ---------------------------------------------------------------- SimplifyUnusedExpr

/-- simplifyUnusedStringAdditionChain; the Bool is `isStringAddition` -/
def simplifyUnusedStringAdditionChain : Expr → Expr × Bool
  | .str _ => (.str [], true)
  | .binary op l r =>
    if op = .add then
      let c := simplifyUnusedStringAdditionChain l
      match strOf? r with
      | some rv =>
        -- "('' + x) + 'y'" => "'' + x"
        if c.2 then (c.1, true)
        -- "x + 'y'" => "x + ''"
        else if !rv.isEmpty then (.binary .add c.1 (.str []), true)
        else (.binary .add c.1 r, c.2)
      | none => (.binary .add c.1 r, c.2)
    else (.binary op l r, false)
  | e => (e, false)

-- sizes of the results of the rewrites (needed for the termination of simplifyUnusedExpr, which recurses
-- into the result of SimplifyBooleanExpr)

theorem Expr.size_pos : ∀ e : Expr, 1 ≤ e.size
  | .undef | .null | .bool _ | .num _ | .str _ | .ident _ => by simp [Expr.size]
  | .unary _ _ | .binary _ _ _ | .cond _ _ _ | .call _ _ | .dot _ _ | .index _ _ => by simp [Expr.size]

theorem size_peelComma (k : Expr → Expr) (c : Nat) (hk : ∀ x, (k x).size ≤ x.size + c) :
    ∀ a, (peelComma k a).size ≤ a.size + c
  | .binary op l r => by
    simp only [peelComma]
    split
    · have := size_peelComma k c hk r
      simp only [Expr.size]; omega
    · exact hk _
  | .undef => hk _
  | .null => hk _
  | .bool _ => hk _
  | .num _ => hk _
  | .str _ => hk _
  | .ident _ => hk _
  | .unary _ _ => hk _
  | .cond _ _ _ => hk _
  | .call _ _ => hk _
  | .dot _ _ => hk _
  | .index _ _ => hk _

theorem size_joinLoop (op : BinOp) : ∀ b a, (joinLoop op b a).size ≤ a.size + (b.size + 1)
  | .binary op2 bl br, a => by
    simp only [joinLoop]
    split
    · have h1 := size_joinLoop op br (peelComma (joinLoop op bl) a)
      have h2 := size_peelComma (joinLoop op bl) (bl.size + 1) (size_joinLoop op bl) a
      simp only [Expr.size]; omega
    · simp only [Expr.size]; omega
  | .undef, a => by simp only [joinLoop, Expr.size]; omega
  | .null, a => by simp only [joinLoop, Expr.size]; omega
  | .bool _, a => by simp only [joinLoop, Expr.size]; omega
  | .num _, a => by simp only [joinLoop, Expr.size]; omega
  | .str _, a => by simp only [joinLoop, Expr.size]; omega
  | .ident _, a => by simp only [joinLoop, Expr.size]; omega
  | .unary _ _, a => by simp only [joinLoop, Expr.size]; omega
  | .cond _ _ _, a => by simp only [joinLoop, Expr.size]; omega
  | .call _ _, a => by simp only [joinLoop, Expr.size]; omega
  | .dot _ _, a => by simp only [joinLoop, Expr.size]; omega
  | .index _ _, a => by simp only [joinLoop, Expr.size]; omega

theorem size_join (op : BinOp) (a b : Expr) : (joinWithLeftAssociativeOp op a b).size ≤ a.size + b.size + 1 := by
  have := size_peelComma (joinLoop op b) (b.size + 1) (size_joinLoop op b) a
  simp only [joinWithLeftAssociativeOp]; omega

theorem size_maybeSimplifyNot : ∀ (e r : Expr), maybeSimplifyNot e = some r → r.size ≤ e.size + 1
  | .null, r, h => by simp [maybeSimplifyNot] at h; subst h; simp [Expr.size]
  | .undef, r, h => by simp [maybeSimplifyNot] at h; subst h; simp [Expr.size]
  | .bool _, r, h => by simp [maybeSimplifyNot] at h; subst h; simp [Expr.size]
  | .num _, r, h => by simp [maybeSimplifyNot] at h; subst h; simp [Expr.size]
  | .str _, r, h => by simp [maybeSimplifyNot] at h; subst h; simp [Expr.size]
  | .unary op v, r, h => by
    simp only [maybeSimplifyNot] at h
    split at h
    · simp at h; subst h; simp only [Expr.size]; omega
    · simp at h
  | .binary op l r, res, h => by
    cases op <;> simp only [maybeSimplifyNot] at h <;> (try simp at h) <;> subst_vars <;>
      (try (simp only [Expr.size]; omega))
    cases hr : maybeSimplifyNot r with
    | some x =>
      have := size_maybeSimplifyNot r x hr
      simp only [Expr.size]; omega
    | none => simp only [Expr.size]; omega
  | .ident _, r, h => by simp [maybeSimplifyNot] at h
  | .cond _ _ _, r, h => by simp [maybeSimplifyNot] at h
  | .call _ _, r, h => by simp [maybeSimplifyNot] at h
  | .dot _ _, r, h => by simp [maybeSimplifyNot] at h
  | .index _ _, r, h => by simp [maybeSimplifyNot] at h

theorem size_notExpr (e : Expr) : (notExpr e).size ≤ e.size + 1 := by
  simp only [notExpr]
  cases h : maybeSimplifyNot e with
  | some x => exact size_maybeSimplifyNot e x h
  | none => simp [Expr.size]

theorem size_sbeDefault (ub : Nat → Bool) (e : Expr) : (sbeDefault ub e).size ≤ e.size := by
  simp only [sbeDefault]
  split
  · exact e.size_pos
  · exact Nat.le_refl _

theorem size_sbeCompareZero (op : BinOp) (l r : Expr) : (sbeCompareZero op l r).size ≤ (Expr.binary op l r).size := by
  have := size_notExpr l
  have := r.size_pos
  simp only [sbeCompareZero]
  split
  · split
    · split <;> simp only [Expr.size] <;> omega
    · exact Nat.le_refl _
  · exact Nat.le_refl _

theorem size_simplifyBooleanExpr (ub : Nat → Bool) (e : Expr) : (simplifyBooleanExpr ub e).size ≤ e.size := by
  fun_induction simplifyBooleanExpr ub e
  case case1 v ih => simp only [Expr.size]; omega
  case case2 op v hop ih => simp only [Expr.size] at ih ⊢; omega
  case case3 v hv ih => simp only [Expr.size]; omega
  case case4 => exact Nat.le_refl _
  case case5 l r left right t hc ihl ihr =>
    have h1 : left.size ≤ l.size := ihl
    simp only [Expr.size]; omega
  case case6 l r left right t hc ihl ihr =>
    have h1 : left.size ≤ l.size := ihl
    have h2 : right.size ≤ r.size := ihr
    simp only [Expr.size]; omega
  case case7 l r left right t hc ihl ihr =>
    have h1 : left.size ≤ l.size := ihl
    simp only [Expr.size]; omega
  case case8 l r left right t hc ihl ihr =>
    have h1 : left.size ≤ l.size := ihl
    have h2 : right.size ≤ r.size := ihr
    simp only [Expr.size]; omega
  case case9 l r op _ _ _ => exact size_sbeCompareZero op l r
  case case10 => exact Nat.le_refl _
  case case11 c y n yes no ty _ _ ihy ihn =>
    have h1 : no.size ≤ n.size := ihn
    have := size_join .or c no; have := y.size_pos
    simp only [Expr.size]; omega
  case case12 c y n yes no ty _ _ ihy ihn =>
    have h1 : no.size ≤ n.size := ihn
    have := size_join .and (notExpr c) no; have := size_notExpr c; have := y.size_pos
    simp only [Expr.size]; omega
  case case13 c y n yes no ty _ tn _ _ ihy ihn =>
    have h1 : yes.size ≤ y.size := ihy
    have := size_join .or (notExpr c) yes; have := size_notExpr c; have := n.size_pos
    simp only [Expr.size]; omega
  case case14 c y n yes no ty _ tn _ _ ihy ihn =>
    have h1 : yes.size ≤ y.size := ihy
    have := size_join .and c yes; have := n.size_pos
    simp only [Expr.size]; omega
  case case15 c y n yes no ty _ tn _ ihy ihn =>
    have h1 : yes.size ≤ y.size := ihy
    have h2 : no.size ≤ n.size := ihn
    simp only [Expr.size]; omega
  all_goals exact size_sbeDefault ub _

/-- SimplifyUnusedExpr (with OptionalChain reported as unsupported); `none` is Go's `Expr{}`: the expression can
be removed completely -/
def simplifyUnusedExpr (ub : Nat → Bool) (e : Expr) : Option Expr :=
  match e with
  | .null => none
  | .undef => none
  | .bool _ => none
  | .num _ => none
  | .str _ => none
  | .ident x => if !ub x then none else some (.ident x)
  | .cond c y n =>
    match simplifyUnusedExpr ub y, simplifyUnusedExpr ub n with
    -- "foo() ? 1 : 2" => "foo()"
    | none, none => simplifyUnusedExpr ub c
    -- "foo() ? 1 : bar()" => "foo() || bar()"
    | none, some no => some (joinWithLeftAssociativeOp .or c no)
    -- "foo() ? bar() : 2" => "foo() && bar()"
    | some yes, none => some (joinWithLeftAssociativeOp .and c yes)
    | some yes, some no => some (.cond c yes no)
  | .unary op v =>
    match op with
    | .void | .not => simplifyUnusedExpr ub v
    | .typeof flag => if isIdent v && flag then none else simplifyUnusedExpr ub v
    | op => some (.unary op v)
  | .binary op l r =>
    match op with
    | .strictEq | .strictNe | .comma => joinWithComma (simplifyUnusedExpr ub l) (simplifyUnusedExpr ub r)
    | .looseEq | .looseNe =>
      if mergedTypes (knownPrimitiveType l) (knownPrimitiveType r) ≠ .unknown then
        joinWithComma (simplifyUnusedExpr ub l) (simplifyUnusedExpr ub r)
      else some (.binary op l r)
    | .and | .or =>
      match simplifyUnusedExpr ub r with
      | none => simplifyUnusedExpr ub (simplifyBooleanExpr ub l)
      | some right => some (.binary op (simplifyBooleanExpr ub l) right)
    | .nullish =>
      match simplifyUnusedExpr ub r with
      | none => simplifyUnusedExpr ub l
      | some right => some (.binary .nullish l right)
    | .add =>
      let c := simplifyUnusedStringAdditionChain (.binary .add l r)
      if c.2 then some c.1 else some (.binary .add l r)
    | op => some (.binary op l r)
  | .call f a => some (.call f a)
  | .dot o k => some (.dot o k)
  | .index o k => some (.index o k)
termination_by e.size
decreasing_by
  all_goals (try simp only [Expr.size])
  all_goals (try omega)
  all_goals (have := size_simplifyBooleanExpr ub l; omega)

-- ---------------------------------------------------------------- MaybeSimplifyEqualityComparison

/-- the `typeof x == 'undefined'` => `typeof x > 'u'` part; `swapped` = the primitive was the LEFT operand -/
def eqTypeofPart (op : BinOp) (swapped : Bool) (value primitive : Expr) : Option Expr :=
  match value with
  | .unary uop tv =>
    if sameUnOp uop (.typeof false) then
      match strOf? primitive with
      | some s =>
        if s == sUndefined then
          let op2 : BinOp := if (op == .looseEq || op == .strictEq) != swapped then .gt else .lt
          if swapped then some (.binary op2 (.str [117]) (.unary uop tv))
          else some (.binary op2 (.unary uop tv) (.str [117]))
        else none
      | none => none
    else none
  | _ => none

/-- MaybeSimplifyEqualityComparison(loc, &EBinary{op, l, r}, features); `typeofOK` = the target is not known to
return exotic `typeof` strings (no Internet Explorer) -/
def maybeSimplifyEqualityComparison (typeofOK : Bool) (op : BinOp) (l r : Expr) : Option Expr :=
  let swapped := isPrimitiveLiteral l
  let value := if swapped then r else l
  let primitive := if swapped then l else r
  match (match boolOf? primitive with
    | some b =>
      if knownPrimitiveType value = .boolean then
        -- "!x === true" => "!x", "!x === false" => "!!x", "!x !== true" => "!!x", "!x !== false" => "!x"
        if b == (op == .looseNe || op == .strictNe) then some (notExpr value) else some value
      else none
    | none => none) with
  | some x => some x
  | none => if typeofOK then eqTypeofPart op swapped value primitive else none

-- ---------------------------------------------------------------- wire: prefix S-expressions, tokens separated by " "

def showNum : Num → String
  | .nan => "nan"
  | .negZero => "-0"
  | .int i => toString i
  | .inf false => "inf"
  | .inf true => "-inf"

def parseNum (s : String) : Option Num :=
  if s = "nan" then some .nan
  else if s = "-0" then some .negZero
  else if s = "inf" then some (.inf false)
  else if s = "-inf" then some (.inf true)
  else s.toInt?.map .int

def showUnOp : UnOp → String
  | .not => "not" | .neg => "neg" | .pos => "pos" | .cpl => "cpl" | .void => "void"
  | .typeof false => "typeof0" | .typeof true => "typeof1"

def parseUnOp : String → Option UnOp
  | "not" => some .not | "neg" => some .neg | "pos" => some .pos | "cpl" => some .cpl | "void" => some .void
  | "typeof0" => some (.typeof false) | "typeof1" => some (.typeof true)
  | _ => none

def showBinOp : BinOp → String
  | .and => "and" | .or => "or" | .nullish => "nullish" | .comma => "comma"
  | .strictEq => "seq" | .strictNe => "sne" | .looseEq => "leq" | .looseNe => "lne"
  | .add => "add" | .sub => "sub" | .ushr => "ushr"
  | .lt => "lt" | .gt => "gt" | .le => "le" | .ge => "ge"

def parseBinOp : String → Option BinOp
  | "and" => some .and | "or" => some .or | "nullish" => some .nullish | "comma" => some .comma
  | "seq" => some .strictEq | "sne" => some .strictNe | "leq" => some .looseEq | "lne" => some .looseNe
  | "add" => some .add | "sub" => some .sub | "ushr" => some .ushr
  | "lt" => some .lt | "gt" => some .gt | "le" => some .le | "ge" => some .ge
  | _ => none

def showStr (s : JStr) : String := if s.isEmpty then "" else Wire.hexUnits 4 s
def parseStr (s : String) : Option JStr := if s = "" then some [] else Wire.parseHexUnits 4 s

mutual
def showE : Expr → String
  | .undef => "U"
  | .null => "Z"
  | .bool true => "T"
  | .bool false => "F"
  | .num n => "n:" ++ showNum n
  | .str s => "s:" ++ showStr s
  | .ident x => "i:" ++ toString x
  | .unary op e => "u:" ++ showUnOp op ++ " " ++ showE e
  | .binary op a b => "b:" ++ showBinOp op ++ " " ++ showE a ++ " " ++ showE b
  | .cond c y n => "if " ++ showE c ++ " " ++ showE y ++ " " ++ showE n
  | .call f args => "c:" ++ toString args.len ++ " " ++ showE f ++ showArgs args
  | .dot o name => "d:" ++ showStr name ++ " " ++ showE o
  | .index o k => "x " ++ showE o ++ " " ++ showE k
def showArgs : Args → String
  | .nil => ""
  | .cons a r => " " ++ showE a ++ showArgs r
end

mutual
def parseE : Nat → List String → Option (Expr × List String)
  | 0, _ => none
  | _ + 1, [] => none
  | fuel + 1, tok :: rest =>
    match tok.splitOn ":" with
    | ["U"] => some (.undef, rest)
    | ["Z"] => some (.null, rest)
    | ["T"] => some (.bool true, rest)
    | ["F"] => some (.bool false, rest)
    | ["n", a] => (parseNum a).map fun n => (.num n, rest)
    | ["s", a] => (parseStr a).map fun s => (.str s, rest)
    | ["i", a] => a.toNat?.map fun x => (.ident x, rest)
    | ["u", a] =>
      match parseUnOp a, parseE fuel rest with
      | some op, some (e, r) => some (.unary op e, r)
      | _, _ => none
    | ["b", a] =>
      match parseBinOp a, parseE fuel rest with
      | some op, some (x, r) =>
        match parseE fuel r with
        | some (y, r2) => some (.binary op x y, r2)
        | none => none
      | _, _ => none
    | ["if"] =>
      match parseE fuel rest with
      | some (c, r) =>
        match parseE fuel r with
        | some (y, r2) =>
          match parseE fuel r2 with
          | some (n, r3) => some (.cond c y n, r3)
          | none => none
        | none => none
      | none => none
    | ["c", a] =>
      match a.toNat?, parseE fuel rest with
      | some k, some (f, r) =>
        match parseArgs fuel k r with
        | some (args, r2) => some (.call f args, r2)
        | none => none
      | _, _ => none
    | ["d", a] =>
      match parseStr a, parseE fuel rest with
      | some name, some (o, r) => some (.dot o name, r)
      | _, _ => none
    | ["x"] =>
      match parseE fuel rest with
      | some (o, r) =>
        match parseE fuel r with
        | some (k, r2) => some (.index o k, r2)
        | none => none
      | none => none
    | _ => none
def parseArgs : Nat → Nat → List String → Option (Args × List String)
  | 0, _, _ => none
  | _ + 1, 0, toks => some (.nil, toks)
  | fuel + 1, k + 1, toks =>
    match parseE fuel toks with
    | some (a, r) =>
      match parseArgs fuel k r with
      | some (as, r2) => some (.cons a as, r2)
      | none => none
    | none => none
end

def parseExpr (s : String) : Option Expr :=
  let toks := s.splitOn " "
  match parseE (toks.length + 1) toks with
  | some (e, []) => some e
  | _ => none

def showTri (t : Tri) : String :=
  (if t.value then "1" else "0") ++ " " ++ (if t.noSE then "1" else "0") ++ " " ++ (if t.ok then "1" else "0")

def showPType : PType → String
  | .unknown => "unknown" | .mixed => "mixed" | .null => "null" | .undefined => "undefined"
  | .boolean => "boolean" | .number => "number" | .string => "string" | .bigint => "bigint"

def showB (b : Bool) : String := if b then "1" else "0"

def ubOfMask (mask : Nat) : Nat → Bool := fun x => mask.testBit x

def driver (args : List String) : String :=
  match args with
  | ["not", e] =>
    match parseExpr e with
    | some e => match maybeSimplifyNot e with
      | some r => showE r
      | none => "none"
    | none => "bad-op"
  | ["notx", e] =>
    match parseExpr e with
    | some e => showE (notExpr e)
    | none => "bad-op"
  | ["sbe", m, e] =>
    match m.toNat?, parseExpr e with
    | some m, some e => showE (simplifyBooleanExpr (ubOfMask m) e)
    | _, _ => "bad-op"
  | ["tobool", e] =>
    match parseExpr e with
    | some e => showTri (toBooleanWithSideEffects e)
    | none => "bad-op"
  | ["tonull", e] =>
    match parseExpr e with
    | some e => showTri (toNullOrUndefinedWithSideEffects e)
    | none => "bad-op"
  | ["kpt", e] =>
    match parseExpr e with
    | some e => showPType (knownPrimitiveType e)
    | none => "bad-op"
  | ["typeof", e] =>
    match parseExpr e with
    | some e => match typeofWithoutSideEffects e with
      | some s => "s:" ++ showStr s
      | none => "none"
    | none => "bad-op"
  | ["isprim", e] =>
    match parseExpr e with
    | some e => showB (isPrimitiveLiteral e)
    | none => "bad-op"
  | ["vlts", a, b] =>
    match parseExpr a, parseExpr b with
    | some a, some b => showB (valuesLookTheSame a b)
    | _, _ => "bad-op"
  | ["cheq", k, a, b] =>
    match k.toNat?, parseExpr a, parseExpr b with
    | some k, some a, some b =>
      let r := checkEqualityIfNoSideEffects a b (k == 1)
      showB r.1 ++ " " ++ showB r.2
    | _, _, _ => "bad-op"
  | ["join", op, a, b] =>
    match parseBinOp op, parseExpr a, parseExpr b with
    | some op, some a, some b => showE (joinWithLeftAssociativeOp op a b)
    | _, _, _ => "bad-op"
  | ["rm", m, e] =>
    match m.toNat?, parseExpr e with
    | some m, some e => showB (exprCanBeRemovedIfUnused (ubOfMask m) e)
    | _, _ => "bad-op"
  | ["eqcmp", ok, op, a, b] =>
    match ok.toNat?, parseBinOp op, parseExpr a, parseExpr b with
    | some ok, some op, some a, some b =>
      match maybeSimplifyEqualityComparison (ok == 1) op a b with
      | some r => showE r
      | none => "none"
    | _, _, _, _ => "bad-op"
  | ["unused", m, e] =>
    match m.toNat?, parseExpr e with
    | some m, some e => match simplifyUnusedExpr (ubOfMask m) e with
      | some r => showE r
      | none => "NIL"
    | _, _ => "bad-op"
  | ["ifx", nl, m, c, y, n] =>
    match nl.toNat?, m.toNat?, parseExpr c, parseExpr y, parseExpr n with
    | some nl, some m, some c, some y, some n => showE (mangleIfExpr (ubOfMask m) (nl == 1) c y n)
    | _, _, _, _, _ => "bad-op"
  | _ => "bad-op"
