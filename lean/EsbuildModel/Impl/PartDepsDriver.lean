/-
Line protocol of kernel `partdeps` (model: Impl/PartDeps.lean).

  partdeps <opts:5 bits> <consts> <rt> <file> <file> …
    opts   keepESM fmtCJS rtReq noDyn constOn
    consts refs "s.i" joined by ","            ("-" = none)
    rt     rtSrc;toESM;toCJS;require;reExport;export;commonJS;esm
    file   src;flags(isEntry forceInclude needsExportsVar);wrap;kind;wrapperPart;entryPart;exportsRef;moduleRef;wrapperRef;
           exports;nimps;binds;records;stars;syms;parts
           exports  "src:ref" ","      binds  "key:src:ref:rx" "," with rx = "s.p" joined by "+" ("_" = none)
           records  "kind:target:star dflt esm extDyn" ","  ("n" = no target)
           syms     "idx:link:isImport isEmpty isIdentity mutated" ","
           parts    joined by "|", a part is uses/callUses/decls/recs with callUses "ref:calls:single", decls "ref:top"

Answer: PANIC if the Go code would panic, else
  wf=<8 bits> deps=<file;…> lpu=<…> tls=<…> xu=<…>
-/
import EsbuildModel.Impl.PartDeps
namespace EsbuildModel.PartDeps

def pBool (s : String) : Option Bool := if s = "1" then some true else if s = "0" then some false else none

def pBits (n : Nat) (s : String) : Option (List Bool) :=
  if s.length = n then s.toList.mapM (fun c => if c = '1' then some true else if c = '0' then some false else none)
  else none

def pList {α : Type} (sep : String) (f : String → Option α) (s : String) : Option (List α) :=
  if s = "-" then some [] else (s.splitOn sep).mapM f

def pRef (s : String) : Option Ref :=
  match s.splitOn "." with
  | [a, b] => do pure ⟨← a.toNat?, ← b.toNat?⟩
  | _ => none

def pDep (s : String) : Option Dep :=
  match s.splitOn "." with
  | [a, b] => do pure ⟨← a.toNat?, ← b.toNat?⟩
  | _ => none

def pOptNat (s : String) : Option (Option Nat) := if s = "n" then some none else s.toNat?.map some

def pExport (s : String) : Option (Nat × Ref) :=
  match s.splitOn ":" with
  | [a, b] => do pure (← a.toNat?, ← pRef b)
  | _ => none

def pBind (s : String) : Option Bind :=
  match s.splitOn ":" with
  | [k, src, r, rx] => do
    let rx ← if rx = "_" then some [] else (rx.splitOn "+").mapM pDep
    pure { key := ← pRef k, src := ← src.toNat?, ref := ← pRef r, rx }
  | _ => none

def pRec (s : String) : Option Rec :=
  match s.splitOn ":" with
  | [k, t, fl] => do
    match ← pBits 4 fl with
    | [a, b, c, d] => pure { kind := ← k.toNat?, target := ← pOptNat t, star := a, dflt := b, esm := c, extDyn := d }
    | _ => none
  | _ => none

def pSym (s : String) : Option Sym :=
  match s.splitOn ":" with
  | [i, l, fl] => do
    let link ← if l = "n" then some none else (pRef l).map some
    match ← pBits 4 fl with
    | [a, b, c, d] => pure { idx := ← i.toNat?, link, isImport := a, isEmpty := b, isIdentity := c, mutated := d }
    | _ => none
  | _ => none

def pCallUse (s : String) : Option CallUse :=
  match s.splitOn ":" with
  | [r, c, g] => do pure { ref := ← pRef r, calls := ← c.toNat?, single := ← g.toNat? }
  | _ => none

def pDecl (s : String) : Option Decl :=
  match s.splitOn ":" with
  | [r, t] => do pure { ref := ← pRef r, top := ← pBool t }
  | _ => none

def pPart (s : String) : Option Part :=
  match s.splitOn "/" with
  | [u, c, d, r] => do
    pure { uses := ← pList "," pRef u, callUses := ← pList "," pCallUse c, decls := ← pList "," pDecl d,
           recs := ← pList "," String.toNat? r }
  | _ => none

def pFile (s : String) : Option File :=
  match s.splitOn ";" with
  | [src, fl, wrap, kind, wp, ep, er, mr, wr, exps, nimps, binds, recs, stars, syms, parts] => do
    match ← pBits 3 fl with
    | [a, b, c] =>
      pure { src := ← src.toNat?, isEntry := a, forceInclude := b, needsExportsVar := c, wrap := ← wrap.toNat?,
             kind := ← kind.toNat?, wrapperPart := ← pOptNat wp, entryPart := ← pOptNat ep, exportsRef := ← pRef er,
             moduleRef := ← pRef mr, wrapperRef := ← pRef wr, exports := ← pList "," pExport exps,
             nimps := ← pList "," pRef nimps, binds := ← pList "," pBind binds, recs := ← pList "," pRec recs,
             stars := ← pList "," String.toNat? stars, syms := ← pList "," pSym syms,
             parts := ← (parts.splitOn "|").mapM pPart }
    | _ => none
  | _ => none

def pState (args : List String) : Option State :=
  match args with
  | opts :: consts :: rt :: files => do
    match ← pBits 5 opts, rt.splitOn ";" with
    | [a, b, c, d, e], [rs, r1, r2, r3, r4, r5, r6, r7] =>
      pure { opts := { keepESM := a, fmtCJS := b, rtReq := c, noDyn := d, constOn := e },
             consts := ← pList "," pRef consts, rtSrc := ← rs.toNat?, rtToESM := ← pRef r1, rtToCJS := ← pRef r2,
             rtRequire := ← pRef r3, rtReExport := ← pRef r4, rtExport := ← pRef r5, rtCommonJS := ← pRef r6,
             rtESM := ← pRef r7, files := ← files.mapM pFile }
    | _, _ => none
  | _ => none

-- ---------------------------------------------------------------- output

def insertNat (x : Nat) : List Nat → List Nat
  | [] => [x]
  | y :: ys => if x < y then x :: y :: ys else if x = y then y :: ys else y :: insertNat x ys

def sortNat (l : List Nat) : List Nat := l.foldl (fun acc x => insertNat x acc) []

def Dep.lt (a b : Dep) : Bool := a.src < b.src || (a.src == b.src && a.part < b.part)
def Ref.lt (a b : Ref) : Bool := a.src < b.src || (a.src == b.src && a.idx < b.idx)

def insertBy {α : Type} [DecidableEq α] (lt : α → α → Bool) (x : α) : List α → List α
  | [] => [x]
  | y :: ys => if lt x y then x :: y :: ys else if x = y then y :: ys else y :: insertBy lt x ys

def sortBy {α : Type} [DecidableEq α] (lt : α → α → Bool) (l : List α) : List α :=
  l.foldl (fun acc x => insertBy lt x acc) []

def join (sep : String) (l : List String) : String := if l.isEmpty then "-" else sep.intercalate l

def showRef (r : Ref) : String := toString r.src ++ "." ++ toString r.idx
def showDep (d : Dep) : String := toString d.src ++ "." ++ toString d.part

def bit (b : Bool) : String := if b then "1" else "0"

def indexed {α : Type} (l : List α) : List (Nat × α) := (List.range l.length).zip l

def showDeps (s : State) : String :=
  join ";" (s.files.map (fun f => toString f.src ++ ":" ++
    join "|" ((indexed f.parts).map (fun qp => join "," ((sortBy Dep.lt (deps s f qp.1 qp.2)).map showDep)))))

def showLpu (s : State) : String :=
  join ";" (s.files.map (fun f => toString f.src ++ ":" ++
    join "|" (f.nimps.map (fun k => showRef k ++ ">" ++ join "," ((localPartsWithUses s f k).map toString)))))

/-- keys with a non-empty answer: every declared symbol (followed), the exports object, and every linked symbol whose
chain end is declared by a parser part -/
def tlsKeys (f : File) : List Ref :=
  sortBy Ref.lt (f.exportsRef :: (f.parts.flatMap (fun p => p.decls.filterMap (fun d =>
    if d.top then pfollow f f.fuel d.ref else none)) ++
    (f.syms.map (fun y => (⟨f.src, y.idx⟩ : Ref))).filter (fun r => (plink f r).isSome && !(tlsOf f r).isEmpty)))

def showTls (s : State) : String :=
  join ";" (s.files.map (fun f => toString f.src ++ ":" ++
    join "|" ((tlsKeys f).map (fun k => showRef k ++ ">" ++ join "," ((sortNat (tlsOf f k)).map toString)))))

def showXu (s : State) : String :=
  join ";" (s.files.flatMap (fun f => (indexed f.parts).filterMap (fun qp =>
    let missing := (linkerUses s f qp.1 qp.2).filter (fun r => !qp.2.uses.contains r)
    if missing.isEmpty then none
    else some (toString f.src ++ "." ++ toString qp.1 ++ ":" ++ join "," ((sortBy Ref.lt missing).map showRef)))))

def showWf (s : State) : String :=
  bit (s.files.all (File.shapeOk s) && rtOk s) ++ bit (s.files.all (File.genBindsOk s)) ++ bit (s.files.all File.otherBindsOk) ++
  bit (s.files.all (File.foreignUsesOk s)) ++ bit (s.files.all (File.rxOk s)) ++ bit (s.files.all File.wrapperOk) ++
  bit (decide (s.files.map (·.src)).Nodup) ++ bit (s.files.all (File.linksOk s))

def driver (args : List String) : String :=
  match pState args with
  | none => "bad-op"
  | some s =>
    if !structOk s then "PANIC"
    else "wf=" ++ showWf s ++ " deps=" ++ showDeps s ++ " lpu=" ++ showLpu s ++ " tls=" ++ showTls s ++ " xu=" ++ showXu s

end EsbuildModel.PartDeps
