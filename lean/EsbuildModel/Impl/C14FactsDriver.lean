import EsbuildModel.Impl.OverrideFix
import EsbuildModel.Impl.FeatureGates
/-
Driver of kernel `c14facts` (harness/cmd/hinternal/k_c14facts.go). Everything it evaluates is regenerated from the source:
  c14facts \t fix \t <browser 0|1> \t <features> \t <overrides> \t <mask>   → the three words after applyOptionDefaults
  c14facts \t rt \t <unsupported features>                                  → "ok" / "error": does the parser accept
                                                                               runtime.Source(unsupported) for that target
-/
namespace EsbuildModel.C14FactsDriver
open EsbuildModel.OverrideFix EsbuildModel.FeatureGates

def driver (args : List String) : String :=
  match args with
  | "fix" :: rest => OverrideFix.driver rest
  | ["rt", m] =>
    match m.toNat? with
    | some m =>
      if m ≥ 2 ^ 64 then "bad-op" else
      let u := namesOf Gen.compatFeatures m
      if (predictedErrors genSummary u Gen.RuntimeGuards.segments).isEmpty then "ok" else "error"
    | none => "bad-op"
  | _ => "bad-op"

end EsbuildModel.C14FactsDriver
