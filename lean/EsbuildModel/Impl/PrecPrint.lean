/-
Model of the parenthesisation decisions of esbuild's expression printer
(internal/js_printer/js_printer.go: `printExpr` cases EIdentifier, ENumber (non-negative), EUnary, EBinary
(`binaryExprVisitor.checkAndPrepare` / `visitRightAndFinish`), EIf, EDot, EIndex, ECall, ENew), token level,
default options, or MinifyWhitespace alone (token stream only; the white space of that mode is `PrecSpace.lean`). Levels, operator texts, keyword flags and the associativity ranges are NOT written
here: they are read from `Gen/OpTable.lean`, which is regenerated from internal/js_ast/js_ast.go on every check.

Outside the model (the kernel generator never builds them, the theorems exclude them): negative / non-finite numbers,
EUndefined (printed `void 0`), optional chains, call targets that became property accesses after parsing (printed
`(0, a.b)()`), `typeof` / `delete` of a substituted identifier (printed `typeof (0, x)`), comma simplification under
MinifySyntax, `/* @__PURE__ */` comments, statement-start parentheses (`({}).x`, `let[`).
-/
import EsbuildModel.Gen.OpTable
import EsbuildModel.Spec.ExprGrammar

namespace EsbuildModel.PrecPrint
open EsbuildModel.JsExpr

/-- numeric value of an `L` constant of js_ast.go (position in the const block) -/
def lvl (name : String) : Nat := Gen.opLevelNames.idxOf name

/-- a row of `OpTable` with its opcode number -/
structure Entry where
  code : Nat
  text : String
  level : Nat
  isKeyword : Bool
  deriving Repr, DecidableEq

def findRow (name : String) : List (String × String × Nat × Bool) → Nat → Option Entry
  | [], _ => none
  | (n, t, l, k) :: rest, i => if n = name then some ⟨i, t, l, k⟩ else findRow name rest (i + 1)

/-- `OpTable[op]` for the opcode constant called `name`; a name that js_ast.go no longer has gives a token that no
grammar accepts (so nothing is silently defaulted) -/
def entryOf (name : String) : Entry :=
  match findRow name Gen.opTable 0 with
  | some e => e
  | none => ⟨Gen.opTable.length, "<missing " ++ name ++ ">", 0, false⟩

def unOpName : UnOp → String
  | .pos => "UnOpPos" | .neg => "UnOpNeg" | .cpl => "UnOpCpl" | .not => "UnOpNot" | .void => "UnOpVoid"
  | .typeof => "UnOpTypeof" | .delete => "UnOpDelete" | .preDec => "UnOpPreDec" | .preInc => "UnOpPreInc"
  | .postDec => "UnOpPostDec" | .postInc => "UnOpPostInc"

def binOpName : BinOp → String
  | .add => "BinOpAdd" | .sub => "BinOpSub" | .mul => "BinOpMul" | .div => "BinOpDiv" | .rem => "BinOpRem"
  | .pow => "BinOpPow" | .lt => "BinOpLt" | .le => "BinOpLe" | .gt => "BinOpGt" | .ge => "BinOpGe"
  | .in_ => "BinOpIn" | .instanceof => "BinOpInstanceof" | .shl => "BinOpShl" | .shr => "BinOpShr"
  | .ushr => "BinOpUShr" | .looseEq => "BinOpLooseEq" | .looseNe => "BinOpLooseNe" | .strictEq => "BinOpStrictEq"
  | .strictNe => "BinOpStrictNe" | .nullish => "BinOpNullishCoalescing" | .logicalOr => "BinOpLogicalOr"
  | .logicalAnd => "BinOpLogicalAnd" | .bitOr => "BinOpBitwiseOr" | .bitAnd => "BinOpBitwiseAnd"
  | .bitXor => "BinOpBitwiseXor" | .comma => "BinOpComma" | .assign => "BinOpAssign" | .addAssign => "BinOpAddAssign"
  | .subAssign => "BinOpSubAssign" | .mulAssign => "BinOpMulAssign" | .divAssign => "BinOpDivAssign"
  | .remAssign => "BinOpRemAssign" | .powAssign => "BinOpPowAssign" | .shlAssign => "BinOpShlAssign"
  | .shrAssign => "BinOpShrAssign" | .ushrAssign => "BinOpUShrAssign" | .bitOrAssign => "BinOpBitwiseOrAssign"
  | .bitAndAssign => "BinOpBitwiseAndAssign" | .bitXorAssign => "BinOpBitwiseXorAssign"
  | .nullishAssign => "BinOpNullishCoalescingAssign" | .logicalOrAssign => "BinOpLogicalOrAssign"
  | .logicalAndAssign => "BinOpLogicalAndAssign"

def unEntry (op : UnOp) : Entry := entryOf (unOpName op)
def binEntry (op : BinOp) : Entry := entryOf (binOpName op)

/-- `OpCode.IsPrefix` -/
def isPrefix (code : Nat) : Bool := code < Gen.opPrefixBelow
/-- `OpCode.UnaryAssignTarget() != AssignTargetNone` -/
def isUnaryUpdate (code : Nat) : Bool := Gen.opUnaryUpdateFrom ≤ code && code ≤ Gen.opUnaryUpdateTo
/-- `OpCode.IsLeftAssociative` -/
def isLeftAssoc (code : Nat) : Bool := Gen.opLeftAssocFrom ≤ code && code < Gen.opLeftAssocBelow && code != Gen.opLeftAssocExcept
/-- `OpCode.IsRightAssociative` -/
def isRightAssoc (code : Nat) : Bool := Gen.opRightAssocFrom ≤ code || code == Gen.opRightAssocAlso

def paren (wrap : Bool) (ts : List Tok) : List Tok :=
  if wrap then Tok.p .lparen :: (ts ++ [Tok.p .rparen]) else ts

/-- `left.Op == BinOpLogicalOr || left.Op == BinOpLogicalAnd` for an EBinary operand of `??` -/
def isOrAnd : Expr → Bool
  | .binary op _ _ => (binEntry op).code == (binEntry .logicalOr).code || (binEntry op).code == (binEntry .logicalAnd).code
  | _ => false

/-- the left operands of `**` that `checkAndPrepare` prints at LCall: a non-update EUnary, or an ENumber -/
def powLeftNeedsCall : Expr → Bool
  | .unary op _ => !isUnaryUpdate (unEntry op).code
  | .num _ => true
  | _ => false

/-- `binaryExprVisitor.checkAndPrepare`: (wrap, leftLevel, rightLevel) -/
def binaryLevels (op : BinOp) (l r : Expr) (level : Nat) (forbidIn : Bool) : Bool × Nat × Nat :=
  let entry := binEntry op
  let wrap := decide (level ≥ entry.level) || (entry.code == (binEntry .in_).code && forbidIn)
  let leftLevel := if isRightAssoc entry.code then entry.level else entry.level - 1
  let rightLevel := if isLeftAssoc entry.code then entry.level else entry.level - 1
  if entry.code == (binEntry .nullish).code then
    (wrap, if isOrAnd l then lvl "LPrefix" else leftLevel, if isOrAnd r then lvl "LPrefix" else rightLevel)
  else if entry.code == (binEntry .pow).code then
    (wrap, if powLeftNeedsCall l then lvl "LCall" else leftLevel, rightLevel)
  else (wrap, leftLevel, rightLevel)

def _root_.EsbuildModel.JsExpr.Args.isNil : Args → Bool
  | .nil => true
  | _ => false

mutual
/-- `printExpr(expr, level, flags)`; of the flags only `forbidIn` and `isNewTarget` matter for this fragment, of the
options only `MinifyWhitespace` (= `minify`) changes the token stream: it drops the `()` of an argument-less `new` below LPostfix -/
def print (minify : Bool) : Expr → (level : Nat) → (forbidIn isNewTarget : Bool) → List Tok
  | .ident n, _, _, _ => [.ident n]
  | .num n, _, _, _ => [.num n]
  | .unary op v, level, _, _ =>
    let entry := unEntry op
    let wrap := decide (level ≥ entry.level)
    paren wrap
      (if isPrefix entry.code then Tok.ofText entry.text :: print minify v (lvl "LPrefix" - 1) false false
       else print minify v (lvl "LPostfix" - 1) false false ++ [Tok.ofText entry.text])
  | .binary op l r, level, forbidIn, _ =>
    let (wrap, leftLevel, rightLevel) := binaryLevels op l r level forbidIn
    let fi := forbidIn && !wrap
    paren wrap (print minify l leftLevel fi false ++ Tok.ofText (binEntry op).text :: print minify r rightLevel fi false)
  | .cond t y n, level, forbidIn, _ =>
    let wrap := decide (level ≥ lvl "LConditional")
    let fi := forbidIn && !wrap
    paren wrap (print minify t (lvl "LConditional") fi false ++ Tok.p .question :: (print minify y (lvl "LYield") false false
      ++ Tok.p .colon :: print minify n (lvl "LYield") fi false))
  | .dot e name, _, _, isNewTarget =>
    print minify e (lvl "LPostfix") false isNewTarget ++ [Tok.p .dot, Tok.ident name]
  | .index e i, _, _, isNewTarget =>
    print minify e (lvl "LPostfix") false isNewTarget ++ Tok.p .lbrack :: (print minify i (lvl "LLowest") false false ++ [Tok.p .rbrack])
  | .call f args, level, _, isNewTarget =>
    let wrap := decide (level ≥ lvl "LNew") || isNewTarget
    paren wrap (print minify f (lvl "LPostfix") false false ++ Tok.p .lparen :: (printArgs minify args ++ [Tok.p .rparen]))
  | .new f args, level, _, _ =>
    let wrap := decide (level ≥ lvl "LCall")
    -- `if !p.options.MinifyWhitespace || len(e.Args) > 0 || level >= js_ast.LPostfix || isMultiLine`
    let parens := !minify || !args.isNil || decide (level ≥ lvl "LPostfix")
    paren wrap (Tok.p .kNew :: (print minify f (lvl "LNew") false true ++
      (if parens then Tok.p .lparen :: (printArgs minify args ++ [Tok.p .rparen]) else [])))
/-- the argument loop of ECall / ENew: each argument at LComma, separated by `,` -/
def printArgs (minify : Bool) : Args → List Tok
  | .nil => []
  | .cons a .nil => print minify a (lvl "LComma") false false
  | .cons a rest => print minify a (lvl "LComma") false false ++ Tok.p .comma :: printArgs minify rest
end
