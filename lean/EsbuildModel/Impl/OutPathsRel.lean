import EsbuildModel.Impl.OutPaths
/-
Model of how esbuild computes the PATH of an output file (property C17), part 2:
`PlatformIndependentPathDirBaseExt` (internal/logger/logger.go), `sanitizeFilePathForVirtualModulePath`,
`PathRelativeToOutbase`, `lowestCommonAncestorDirectory` (internal/bundler/bundler.go).
-/
namespace EsbuildModel.OutPaths

def isSlashOrBackslash (c : Char) : Bool := c = '/' || c = '\\'

/-- the `absRootSlash` computed at the top of `PlatformIndependentPathDirBaseExt` (`none` = -1).
The Go source really says `c < 'z'` for the lower-case range. -/
def absRootSlash (path : Str) : Option Nat :=
  match path with
  | c0 :: rest =>
    if isSlashOrBackslash c0 then some 0
    else
      match rest with
      | c1 :: c2 :: _ =>
        if c1 = ':' ∧ isSlashOrBackslash c2 ∧
            (('a' ≤ c0 ∧ c0 < 'z') ∨ ('A' ≤ c0 ∧ c0 ≤ 'Z')) then some 2 else none
      | _ => none
  | [] => none

/-- the `for` loop of `PlatformIndependentPathDirBaseExt` on the REVERSED path: (dir, base) -/
def pidbeLoop (root : Option Nat) : Str → Str × Str
  | [] => ([], [])
  | c :: r =>
    if isSlashOrBackslash c then
      -- the last slash is the last byte: i = len - 1
      if some r.length = root then ((c :: r).reverse, [])
      else pidbeLoop root r                                      -- ignore trailing slashes
    else
      let baseRev := (c :: r).takeWhile (fun x => !isSlashOrBackslash x)
      match (c :: r).dropWhile (fun x => !isSlashOrBackslash x) with
      | [] => ([], (c :: r).reverse)                             -- no more slashes
      | sl :: before =>
        if some before.length = root then ((sl :: before).reverse, baseRev.reverse)
        else (before.reverse, baseRev.reverse)

/-- index of the last '.' of a string, as the pair (text before it, text from it on) -/
def splitLastDot (s : Str) : Option (Str × Str) :=
  let tailRev := s.reverse.takeWhile (fun c => c ≠ '.')
  match s.reverse.dropWhile (fun c => c ≠ '.') with
  | [] => none
  | d :: beforeRev => some (beforeRev.reverse, d :: tailRev.reverse)

/-- `PlatformIndependentPathDirBaseExt`: (dir, base, ext) -/
def pidbe (path : Str) : Str × Str × Str :=
  let (d, b) := pidbeLoop (absRootSlash path) path.reverse
  match splitLastDot b with
  | none => (d, b, [])
  | some (before, ext) =>
    if ext = lit ".css" then
      match splitLastDot before with
      | some (before2, ext2) =>
        if ext2 ++ ext = lit ".module.css" then (d, before2, ext2 ++ ext) else (d, before, ext)
      | none => (d, before, ext)
    else (d, before, ext)

/-- is the character dropped by `sanitizeFilePathForVirtualModulePath` -/
def sanitizeDrops (c : Char) : Bool :=
  c.toNat < 0x20 || c = '<' || c = '>' || c = ':' || c = '"' || c = '|' || c = '?' || c = '*'

/-- the loop of `sanitizeFilePathForVirtualModulePath` (ASCII input); `out` is reversed -/
def sanitizeLoop : Str → Str → Bool → Str
  | [], out, _ => out
  | c :: cs, out, needsGap =>
    if sanitizeDrops c then sanitizeLoop cs out (if out ≠ [] then true else needsGap)
    else if needsGap then sanitizeLoop cs (c :: '_' :: out) false
    else sanitizeLoop cs (c :: out) false

def sanitize (path : Str) : Str :=
  let out := sanitizeLoop path [] false
  if out = [] then ['_'] else out.reverse

def replaceBackslash (s : Str) : Str := s.map (fun c => if c = '\\' then '/' else c)

/-- `for strings.HasPrefix(relDir[dotDotCount*3:], "../") { dotDotCount++ }`: (count, rest) -/
def countDotDot : Str → Nat × Str
  | '.' :: '.' :: '/' :: rest => let (k, r) := countDotDot rest; (k + 1, r)
  | s => (0, s)

def stripTrailingSlashes (s : Str) : Str := (s.reverse.dropWhile (fun c => c = '/')).reverse

/-- the `else` branch after `fs.Rel` succeeded: from the relative path to (relDir, baseName) -/
def relDirOf (relPath : Str) : Str :=
  let relDir := replaceBackslash (dir relPath ++ ['/'])
  let (k, rest) := countDotDot relDir
  let relDir := if k > 0 then (List.replicate k (lit "_.._/")).flatten ++ rest else relDir
  let relDir := '/' :: stripTrailingSlashes relDir
  if (lit "/.").reverse.isPrefixOf relDir.reverse then relDir.dropLast else relDir

/-- `PathRelativeToOutbase(inputFile, options, fs, avoidIndex, customFilePath)`; the input file is its key
path (`keyText`, and whether the namespace is "file"), the options are `AbsOutputBase` -/
def pathRelativeToOutbase (keyText : Str) (isFileNs : Bool) (outbase : Str) (avoidIndex : Bool)
    (custom : Str) : Str × Str :=
  if custom = [] ∧ !isFileNs then
    -- virtual (non-file-system) path
    let (d, b, _) := pidbe keyText
    let b := if avoidIndex ∧ b = lit "index" then (pidbe d).2.1 else b
    (['/'], sanitize b)
  else
    let absPath :=
      if custom ≠ [] then (if isAbs custom then custom else join [outbase, custom])
      else if avoidIndex ∧ stripExt (base keyText) = lit "index" then dir keyText
      else keyText
    let (relDir, baseName) :=
      match fsRel outbase absPath with
      | none => (['/'], base absPath)
      | some relPath => (relDirOf relPath, base relPath)
    (relDir, if custom = [] then stripExt baseName else baseName)

/-- ASCII `unicode.ToLower` -/
def asciiLower (c : Char) : Char := if 'A' ≤ c ∧ c ≤ 'Z' then Char.ofNat (c.toNat + 32) else c

/-- the inner `for` of `lowestCommonAncestorDirectory` on ASCII strings (every rune is one byte, so the
two indices `a` and `b` are equal): `ra`/`rb` what is left of `absDir`/`lowestAbsDir` -/
def lcaLoop (absDir : Str) : Str → Str → Nat → Nat → Str
  | ra, rb, a, lastSlash =>
    let boundaryA : Bool := match ra with | [] => true | c :: _ => isSlashOrBackslash c
    let boundaryB : Bool := match rb with | [] => true | c :: _ => isSlashOrBackslash c
    let differ :=
      -- If both paths are different at this point, stop …
      let ls := if lastSlash < absDir.length ∧ ¬ (absDir.take lastSlash).any isSlashOrBackslash
                then lastSlash + 1 else lastSlash
      absDir.take ls
    match ra, rb with
    | ca :: ra', cb :: rb' =>
      if boundaryA && boundaryB then lcaLoop absDir ra' rb' (a + 1) a
      else if boundaryA != boundaryB || asciiLower ca != asciiLower cb then differ
      else lcaLoop absDir ra' rb' (a + 1) lastSlash
    | _, _ =>
      -- one of the two is exhausted (width 0)
      if boundaryA && boundaryB then absDir.take a else differ

/-- `lowestCommonAncestorDirectory`: entry points as (OutputPath, OutputPathWasAutoGenerated) -/
def lca (entryPoints : List (Str × Bool)) : Str :=
  match (entryPoints.filter (·.2)).map (·.1) with
  | [] => []
  | first :: others =>
    others.foldl (fun lowest absPath => let d := dir absPath; lcaLoop d d lowest 0 0) (dir first)

end EsbuildModel.OutPaths
