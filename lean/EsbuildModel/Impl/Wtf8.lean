import EsbuildModel.Util.Wire
/-
Model of `internal/helpers/utf.go`: `encodeWTF8Rune`, `DecodeWTF8Rune`, `UTF16ToString`,
`UTF16ToStringWithValidation`, `UTF16EqualsString`, `StringToUTF16`, `ContainsNonBMPCodePointUTF16`.

Bytes, UTF-16 units and code points are naturals (bytes < 256, units < 65536 is a hypothesis of the theorems;
the line protocol cannot produce anything else).  Go's bit operators are kept (`&&&`, `|||`, `<<<`, `>>>`),
`byte(x)` is `x % 256`.  Indexing that Go does with `s[k]` on a slice whose length is only known through an
earlier test is modelled with `s[k]?`; `none` = index-out-of-range panic.  Loops over a `[]uint16` with the
one-unit look-ahead `i+1 < n` are list recursion (`c :: c2 :: rest`), Go's `for _, c := range text` over a string
(the language's own UTF-8 decoding, not esbuild code) is `goDecodeRune`, transcribed from `unicode/utf8`.
-/
namespace EsbuildModel.Wtf8

/-- `utf8.RuneError` -/
def runeError : Nat := 0xFFFD
/-- `utf8.MaxRune` -/
def maxRune : Nat := 0x10FFFF

/-- `encodeWTF8Rune(p, r)` with `len(p) = plen`; `r` is a Go `rune` (int32, any value). Result: the bytes
`p[0:width]`; `none` = index out of range (`_ = p[k]`). -/
def encodeWTF8Rune (plen : Nat) (r : Int) : Option (List Nat) :=
  let i : Nat := (r % 4294967296).toNat -- uint32(r)
  if i ≤ 0x7F then
    if plen < 1 then none else some [i % 256]
  else if i ≤ 0x7FF then
    if plen < 2 then none
    else some [0xC0 ||| ((i >>> 6) % 256), 0x80 ||| ((i % 256) &&& 0x3F)]
  else if i > maxRune ∨ i ≤ 0xFFFF then
    -- case i > utf8.MaxRune: r = utf8.RuneError; fallthrough
    let r := if i > maxRune then runeError else i
    if plen < 3 then none
    else some [0xE0 ||| ((r >>> 12) % 256), 0x80 ||| (((r >>> 6) % 256) &&& 0x3F), 0x80 ||| ((r % 256) &&& 0x3F)]
  else
    if plen < 4 then none
    else some [0xF0 ||| ((i >>> 18) % 256), 0x80 ||| (((i >>> 12) % 256) &&& 0x3F),
               0x80 ||| (((i >>> 6) % 256) &&& 0x3F), 0x80 ||| ((i % 256) &&& 0x3F)]

/-- `var temp [utf8.UTFMax]byte; width := encodeWTF8Rune(temp[:], r1)` as every caller does it -/
def enc (r : Nat) : Option (List Nat) := encodeWTF8Rune 4 (r : Int)

/-- `DecodeWTF8Rune(s)`: `(rune, width)`; `none` = index out of range -/
def decodeWTF8Rune (s : List Nat) : Option (Nat × Nat) :=
  let n := s.length
  if n < 1 then some (runeError, 0) else
  match s[0]? with
  | none => none
  | some s0 =>
  if s0 < 0x80 then some (s0, 1) else
  let sz : Nat :=
    if s0 &&& 0xE0 = 0xC0 then 2 else if s0 &&& 0xF0 = 0xE0 then 3 else if s0 &&& 0xF8 = 0xF0 then 4 else 0
  if sz = 0 then some (runeError, 1) else
  if n < sz then some (runeError, 1) else
  match s[1]? with
  | none => none
  | some s1 =>
  if s1 &&& 0xC0 ≠ 0x80 then some (runeError, 1) else
  if sz = 2 then
    let cp := ((s0 &&& 0x1F) <<< 6) ||| (s1 &&& 0x3F)
    if cp < 0x80 then some (runeError, 1) else some (cp, 2)
  else
  match s[2]? with
  | none => none
  | some s2 =>
  if s2 &&& 0xC0 ≠ 0x80 then some (runeError, 1) else
  if sz = 3 then
    let cp := ((s0 &&& 0x0F) <<< 12) ||| ((s1 &&& 0x3F) <<< 6) ||| (s2 &&& 0x3F)
    if cp < 0x0800 then some (runeError, 1) else some (cp, 3)
  else
  match s[3]? with
  | none => none
  | some s3 =>
  if s3 &&& 0xC0 ≠ 0x80 then some (runeError, 1) else
  let cp := ((s0 &&& 0x07) <<< 18) ||| ((s1 &&& 0x3F) <<< 12) ||| ((s2 &&& 0x3F) <<< 6) ||| (s3 &&& 0x3F)
  if cp < 0x010000 ∨ cp > 0x10FFFF then some (runeError, 1) else some (cp, 4)

def isHigh (c : Nat) : Bool := decide (0xD800 ≤ c) && decide (c ≤ 0xDBFF)
def isLow (c : Nat) : Bool := decide (0xDC00 ≤ c) && decide (c ≤ 0xDFFF)

/-- `r1 = (r1-0xD800)<<10 | (r2 - 0xDC00) + 0x10000` (`|` and `+` have the same precedence in Go) -/
def combine (r1 r2 : Nat) : Nat := (((r1 - 0xD800) <<< 10) ||| (r2 - 0xDC00)) + 0x10000

/-- `width := encodeWTF8Rune(temp[:], r1); b.Write(temp[:width])` in front of what the rest of the loop writes -/
def appendEnc (r : Nat) (tail : Option (List Nat)) : Option (List Nat) :=
  match enc r, tail with
  | some b, some bs => some (b ++ bs)
  | _, _ => none

/-- `UTF16ToString`; `none` = a panic inside `encodeWTF8Rune` -/
def utf16ToString : List Nat → Option (List Nat)
  | [] => some []
  | [c] => appendEnc c (some [])
  | c :: c2 :: rest =>
    if isHigh c && isLow c2 then appendEnc (combine c c2) (utf16ToString rest)
    else appendEnc c (utf16ToString (c2 :: rest))

/-- `UTF16ToStringWithValidation`: `ok bytes` or `bad unit` (`"", uint16(r1), false`) -/
inductive Validated where
  | ok (bytes : List Nat)
  | bad (unit : Nat)
  | panic
deriving DecidableEq, Repr

def appendEncV (r : Nat) (tail : Validated) : Validated :=
  match enc r, tail with
  | none, _ => .panic
  | some b, .ok bs => .ok (b ++ bs)
  | some _, r => r

def utf16ToStringWithValidation : List Nat → Validated
  | [] => .ok []
  | [c] =>
    if isHigh c then .bad c
    else if isLow c then .bad c
    else appendEncV c (.ok [])
  | c :: c2 :: rest =>
    if isHigh c then
      if isLow c2 then appendEncV (combine c c2) (utf16ToStringWithValidation rest)
      else .bad c
    else if isLow c then .bad c
    else appendEncV c (utf16ToStringWithValidation (c2 :: rest))

/-- `for k := 0; k < width; k++ { if temp[k] != str[j] { return false }; j++ }`:
`none` = panic, `some none` = `return false`, `some (some j)` = new `j` -/
def cmpBytes (str : List Nat) : List Nat → Nat → Option (Option Nat)
  | [], j => some (some j)
  | t :: ts, j =>
    match str[j]? with
    | none => none
    | some b => if t ≠ b then some none else cmpBytes str ts (j + 1)

/-- one round of the loop of `UTF16EqualsString` for code point `r`: encode, test `j+width > len(str)`, compare -/
def equalsStep (str : List Nat) (r : Nat) (j : Nat) : Option (Option Nat) :=
  match enc r with
  | none => none
  | some t => if j + t.length > str.length then some none else cmpBytes str t j

/-- what the loop does with the outcome of a round: panic, `return false`, or go on with the new `j` -/
def afterStep (r : Option (Option Nat)) (k : Nat → Option Bool) : Option Bool :=
  match r with
  | none => none
  | some none => some false
  | some (some j) => k j

/-- the loop of `UTF16EqualsString` with `j` bytes of `str` matched -/
def equalsLoop (str : List Nat) : List Nat → Nat → Option Bool
  | [], j => some (j = str.length)
  | [c], j => afterStep (equalsStep str c j) (fun j => some (j = str.length))
  | c :: c2 :: rest, j =>
    if isHigh c && isLow c2 then afterStep (equalsStep str (combine c c2) j) (fun j => equalsLoop str rest j)
    else afterStep (equalsStep str c j) (fun j => equalsLoop str (c2 :: rest) j)

/-- `UTF16EqualsString(text, str)`; `none` = panic -/
def utf16EqualsString (text str : List Nat) : Option Bool :=
  if text.length > str.length then some false else equalsLoop str text 0

/-- `ContainsNonBMPCodePointUTF16` -/
def containsNonBMPUTF16 : List Nat → Bool
  | [] => false
  | [_] => false
  | c :: c2 :: rest => (isHigh c && isLow c2) || containsNonBMPUTF16 (c2 :: rest)

/-! ### Go's `for _, c := range text` (package `unicode/utf8`, `DecodeRuneInString`) -/

/-- second-byte range accepted after lead byte `s0` (`acceptRanges[first[s0]>>4]`) -/
def acceptLo (s0 : Nat) : Nat := if s0 = 0xE0 then 0xA0 else if s0 = 0xF0 then 0x90 else 0x80
def acceptHi (s0 : Nat) : Nat := if s0 = 0xED then 0x9F else if s0 = 0xF4 then 0x8F else 0xBF

def isCont (b : Nat) : Bool := decide (0x80 ≤ b) && decide (b ≤ 0xBF)

/-- append one decoded code point as `StringToUTF16` does -/
def pushUTF16 (c : Nat) : List Nat :=
  if c ≤ 0xFFFF then [c]
  else
    let c := c - 0x10000
    [(0xD800 + ((c >>> 10) &&& 0x3FF)) % 65536, (0xDC00 + (c &&& 0x3FF)) % 65536]

/-- `utf8.DecodeRuneInString(s)` for non-empty `s0 :: rest`: `(rune, width)`, width 1 with U+FFFD on every
ill-formed or truncated sequence -/
def goDecodeRune (s0 : Nat) (rest : List Nat) : Nat × Nat :=
  if s0 < 0x80 then (s0, 1)
  else if 0xC2 ≤ s0 ∧ s0 ≤ 0xDF then
    match rest with
    | s1 :: _ =>
      if isCont s1 then (((s0 &&& 0x1F) <<< 6) ||| (s1 &&& 0x3F), 2) else (runeError, 1)
    | [] => (runeError, 1)
  else if 0xE0 ≤ s0 ∧ s0 ≤ 0xEF then
    match rest with
    | s1 :: s2 :: _ =>
      if acceptLo s0 ≤ s1 ∧ s1 ≤ acceptHi s0 ∧ isCont s2 then
        (((s0 &&& 0x0F) <<< 12) ||| ((s1 &&& 0x3F) <<< 6) ||| (s2 &&& 0x3F), 3)
      else (runeError, 1)
    | _ => (runeError, 1)
  else if 0xF0 ≤ s0 ∧ s0 ≤ 0xF4 then
    match rest with
    | s1 :: s2 :: s3 :: _ =>
      if acceptLo s0 ≤ s1 ∧ s1 ≤ acceptHi s0 ∧ isCont s2 ∧ isCont s3 then
        (((s0 &&& 0x07) <<< 18) ||| ((s1 &&& 0x3F) <<< 12) ||| ((s2 &&& 0x3F) <<< 6) ||| (s3 &&& 0x3F), 4)
      else (runeError, 1)
    | _ => (runeError, 1)
  else (runeError, 1)

/-- `StringToUTF16`: `for _, c := range text { … }` -/
def stringToUTF16 : List Nat → List Nat
  | [] => []
  | s0 :: rest =>
    let cw := goDecodeRune s0 rest
    pushUTF16 cw.1 ++ stringToUTF16 (rest.drop (cw.2 - 1))
termination_by s => s.length
decreasing_by simp; omega

/-! ### a consumer loop over `DecodeWTF8Rune` (`i += width` until `i >= n`), as in `helpers.internalQuote` -/

inductive Scan where
  | runes (cps : List Nat)
  | stuck (cps : List Nat) -- a non-empty rest decoded with width 0: the Go loop would never advance again
                           -- (cannot happen since `DecodeWTF8Rune` returns width 1 on a truncated sequence)
  | panic
deriving DecidableEq, Repr

/-- decode `s` rune by rune; `fuel` bounds the rounds (`s.length` suffices: every round that is not stuck
consumes a byte) -/
def decodeAll : Nat → List Nat → Scan
  | _, [] => .runes []
  | 0, _ :: _ => .stuck []
  | fuel + 1, s@(_ :: _) =>
    match decodeWTF8Rune s with
    | none => .panic
    | some (c, w) =>
      if w = 0 then .stuck [] else
      match decodeAll fuel (s.drop w) with
      | .runes cps => .runes (c :: cps)
      | .stuck cps => .stuck (c :: cps)
      | .panic => .panic

/-- WTF-8 → UTF-16 through `DecodeWTF8Rune`; `none` = stuck or panic -/
def wtf8ToUTF16 (s : List Nat) : Option (List Nat) :=
  match decodeAll s.length s with
  | .runes cps => some (cps.flatMap pushUTF16)
  | _ => none

end EsbuildModel.Wtf8
