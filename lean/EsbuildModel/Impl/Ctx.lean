/-
Model of a build context under concurrent use (pkg/api/api_impl.go: internalContext.rebuild / Cancel / Dispose).

The context's mutex makes each of the following an atomic step; the build itself runs outside the mutex:

  callRebuild t   disposed → the call returns an empty result at once;
                  a build b is active → thread t joins it (waits for b's wait group);
                  otherwise a new build is created with the inputs as they are now, becomes the active build,
                  and t runs it;
  finish t        thread t, which runs build b, ends it: b is done, no build is active any more, t returns b;
  callCancel t    disposed or no active build → returns at once; otherwise b's cancel flag is set and t waits for b;
  callDispose t   already disposed → returns at once; otherwise the context is disposed, and if a build is
                  active t waits for it;
  resume t        a thread waiting for build b returns once b is done (joined Rebuild returns b's result);
  edit            the environment changes the inputs (version + 1).

Threads and builds are numbered; `pcs` and `builds` are total functions so that updates are simple.
-/
import EsbuildModel.Util.Wire
namespace EsbuildModel.Ctx

inductive Pc where
  | idle                       -- not inside an API call
  | running (b : Nat)          -- inside Rebuild, running build b
  | joined (b : Nat)           -- inside Rebuild, waiting for build b started by someone else
  | cancelWait (b : Nat)       -- inside Cancel, waiting for b
  | disposeWait (b : Nat)      -- inside Dispose, waiting for b
  | returned (r : Option Nat)  -- the call has returned (Rebuild: the build whose result it got)
deriving DecidableEq, Repr

structure Build where
  owner : Nat
  startVersion : Nat
  done : Bool
  cancelled : Bool
deriving DecidableEq, Repr

structure State where
  disposed : Bool
  active : Option Nat
  nbuilds : Nat
  builds : Nat → Build
  version : Nat
  pcs : Nat → Pc

def setPc (s : State) (t : Nat) (p : Pc) : State := { s with pcs := fun u => if u = t then p else s.pcs u }
def setBuild (s : State) (b : Nat) (x : Build) : State := { s with builds := fun c => if c = b then x else s.builds c }

inductive Action where
  | callRebuild (t : Nat)
  | callCancel (t : Nat)
  | callDispose (t : Nat)
  | finish (t : Nat)
  | resume (t : Nat)
  | edit
deriving Repr

def waitingOn : Pc → Option Nat
  | .joined b => some b
  | .cancelWait b => some b
  | .disposeWait b => some b
  | _ => none

/-- one atomic step; `none` when the action is not enabled -/
def step (s : State) : Action → Option State
  | .callRebuild t =>
    if s.pcs t ≠ .idle then none else
    if s.disposed then some (setPc s t (.returned none)) else
    match s.active with
    | some b => some (setPc s t (.joined b))
    | none =>
      let b := s.nbuilds
      let s1 := setBuild s b { owner := t, startVersion := s.version, done := false, cancelled := false }
      some (setPc { s1 with active := some b, nbuilds := b + 1 } t (.running b))
  | .callCancel t =>
    if s.pcs t ≠ .idle then none else
    if s.disposed then some (setPc s t (.returned none)) else
    match s.active with
    | none => some (setPc s t (.returned none))
    | some b => some (setPc (setBuild s b { s.builds b with cancelled := true }) t (.cancelWait b))
  | .callDispose t =>
    if s.pcs t ≠ .idle then none else
    if s.disposed then some (setPc s t (.returned none)) else
    match s.active with
    | none => some (setPc { s with disposed := true } t (.returned none))
    | some b => some (setPc { s with disposed := true } t (.disposeWait b))
  | .finish t =>
    match s.pcs t with
    | .running b =>
      let s1 := setBuild s b { s.builds b with done := true }
      some (setPc { s1 with active := none } t (.returned (some b)))
    | _ => none
  | .resume t =>
    match s.pcs t with
    | .joined b => if (s.builds b).done then some (setPc s t (.returned (some b))) else none
    | .cancelWait b => if (s.builds b).done then some (setPc s t (.returned none)) else none
    | .disposeWait b => if (s.builds b).done then some (setPc s t (.returned none)) else none
    | _ => none
  | .edit => some { s with version := s.version + 1 }

def init : State :=
  { disposed := false, active := none, nbuilds := 0,
    builds := fun _ => { owner := 0, startVersion := 0, done := true, cancelled := false },
    version := 0, pcs := fun _ => .idle }

def run : State → List Action → Option State
  | s, [] => some s
  | s, a :: as => match step s a with | some s' => run s' as | none => none

-- ---------------------------------------------------------------- wire

def parseAction (s : String) : Option Action :=
  if s = "E" then some .edit else
  let t := (s.drop 1).toString.toNat?
  match s.take 1 |>.toString, t with
  | "R", some t => some (.callRebuild t)
  | "C", some t => some (.callCancel t)
  | "D", some t => some (.callDispose t)
  | "F", some t => some (.finish t)
  | "U", some t => some (.resume t)
  | _, _ => none

/-- run the actions; report the first one that is not enabled -/
def runReport : State → Nat → List Action → Except String State
  | s, _, [] => .ok s
  | s, i, a :: as =>
    match step s a with
    | some s' => runReport s' (i + 1) as
    | none => .error s!"stuck at action {i}"

/-- `ctx <actions> <expected returns "t=k,t=-"> <seen versions "k=v">`: the linearised history of a real run is
replayed on the model; every action must be enabled, every Rebuild must return the build the real call returned,
and every build must have seen at least the edits that preceded its creation. -/
def driver (args : List String) : String :=
  match args with
  | [acts, rets, seen] =>
    match (if acts = "-" then some [] else (acts.splitOn ",").mapM parseAction) with
    | none => "bad-op"
    | some as =>
      match runReport init 0 as with
      | .error e => e
      | .ok s =>
        let pairs (x : String) : List (Nat × String) :=
          if x = "-" then [] else (x.splitOn ",").filterMap (fun kv =>
            match kv.splitOn "=" with
            | [k, v] => k.toNat?.map (fun k => (k, v))
            | _ => none)
        let badRet := (pairs rets).find? (fun (t, v) =>
          match s.pcs t, v with
          | .returned none, "-" => false
          | .returned (some b), v => v != toString b
          | _, _ => true)
        let stale := (pairs seen).find? (fun (k, v) =>
          match v.toNat? with
          | some v => v < (s.builds k).startVersion
          | none => true)
        match badRet, stale with
        | some (t, v), _ => s!"thread {t}: real call returned {v}, model has {repr (s.pcs t)}"
        | none, some (k, v) => s!"build {k} saw version {v} but {(s.builds k).startVersion} edits preceded its creation"
        | none, none => "ok"
  | _ => "bad-op"

end EsbuildModel.Ctx
