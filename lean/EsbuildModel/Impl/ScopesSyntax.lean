/-
What the parse pass of internal/js_parser/js_parser.go does for the statements of Spec/JsScopes.lean, as a sequence
of scope pushes, declarations and references (`Item`s, Impl/Scopes.lean): parseStmt (SLocal → parseAndDeclareDecls,
TOpenBrace → block scope, TTry, TFunction → parseFnStmt, TClass → parseClassStmt), parseFnExpr, parseParenExpr /
parseArrowBody, parseFn (parameters, the "arguments" step, parseFnBody).

The kernel `scope` (op `core`) checks this translation against the real parser on source text: the program is
printed as JavaScript and parsed with js_parser.Parse, the model runs on `progItems`, the whole scope tree, symbol
table, references and errors are compared.  The same op evaluates the statements of Props/C15Lookup.lean on the run
(`checkProps`), so that a false statement shows up as a disagreement before any proof is attempted.
-/
import EsbuildModel.Impl.Scopes
import EsbuildModel.Spec.JsScopes
namespace EsbuildModel.Scopes
open JsScopes

def lexSK : LexKind → SK
  | .let_ => .other
  | .const_ => .const_
  | .class_ => .class_

def catchItems : CatchParam → List Item
  | .none => []
  | .ident n => [.decl .catchIdentifier n]
  | .pattern ns => ns.map (.decl .other)

mutual
/-- parseStmt / parseExpr on one statement -/
def stmtItems : Stmt → List Item
  | .var_ n => [.decl .hoisted n]
  | .lex k n =>
    if k = .class_ then
      [.decl .class_ n, .scope .className false none [.classInner (some n), .scope .classBody false none []]]
    else [.decl (lexSK k) n]
  | .fn n gen params us body =>
    [.scope .fnArgs false none
        (params.map (.decl .hoisted) ++ [.declArgs, .scope .fnBody us none (listItems body)]),
      .decl (if gen then .generatorOrAsyncFunction else .hoistedFunction) n]
  | .ref n => [.ref n]
  | .block b => [.scope .block false none (listItems b)]
  | .try_ b c h =>
    [.scope .block false none (listItems b),
      .scope .catchBinding false none (catchItems c ++ [.scope .block false none (listItems h)])]
  | .fnExpr n params us body =>
    [.scope .fnArgs false none
        ((match n with | some n => [.decl .hoistedFunction n] | none => []) ++ params.map (.decl .hoisted)
          ++ [.declArgs, .scope .fnBody us none (listItems body)])]
  | .arrow params body =>
    [.scope .fnArgs false none (params.map (.decl .hoisted) ++ [.scope .fnBody false none (listItems body)])]
def listItems : List Stmt → List Item
  | [] => []
  | s :: ss => stmtItems s ++ listItems ss
end

/-- Parse on a program of the fragment -/
def runProgram (p : Program) : Option Result := run true p.module p.strict (listItems p.body)

/-- ast.FollowSymbols (the loop over `Link`; `none` when the fuel runs out, i.e. the links form a cycle) -/
def follow : Nat → Syms → Nat → Option Nat
  | 0, _, _ => none
  | fuel + 1, syms, r =>
    match syms[r]? with
    | none => none
    | some s =>
      match s.link with
      | none => some r
      | some l => follow fuel syms l

def followSym (syms : Syms) (r : Nat) : Option Nat := follow (syms.length + 1) syms r

-- the statements of Props/C15Lookup.lean as a computation -----------------------------------------------------------

/-- the symbol of a declaration occurrence for the k-th binding the spec says it declares: the ref declareSymbol
returned, and for the var binding of a block-level function (Annex B) the symbol hoistSymbols created for it -/
def declSym (r : Result) (d : Nat) (k : Nat) : Option Nat :=
  if k = 0 then some d else lookup d r.hmap

/-- the first pair (reference j, declaration i) for which the spec says "j resolves to a binding that i declares" but the
two symbols differ after following links -/
def firstMismatch (w : Walk) (r : Result) : Option (Nat × Nat) :=
  let refs := w.refs.zip r.refs
  let decls := w.decls.zip r.declRefs
  let rec goBindings (b : Binding) (rs : Option Nat) (d : Nat) (k : Nat) : List Binding → Bool
    | [] => false
    | b' :: bs =>
      (b' == b && ((declSym r d k).bind (followSym r.syms) != rs || rs.isNone)) || goBindings b rs d (k + 1) bs
  let rec goDecls (b : Binding) (rs : Option Nat) (i : Nat) : List (List Binding × Nat) → Option Nat
    | [] => none
    | (bs, d) :: rest => if goBindings b rs d 0 bs then some i else goDecls b rs (i + 1) rest
  let rec goRefs (j : Nat) : List (Option Binding × Nat) → Option (Nat × Nat)
    | [] => none
    | (none, _) :: rest => goRefs (j + 1) rest
    | (some b, s) :: rest =>
      match goDecls b (followSym r.syms s) 0 decls with
      | some i => some (j, i)
      | none => goRefs (j + 1) rest
  goRefs 0 refs

mutual
/-- the member symbols of the scopes that stop hoisting -/
def stopMembers : Sc → List Nat
  | .node f kids => (if f.kind.stopsHoisting then f.members.map (·.2) else []) ++ stopMembersL kids
def stopMembersL : List Sc → List Nat
  | [] => []
  | k :: ks => stopMembers k ++ stopMembersL ks
end

/-- Annex B the other way round: a block-level function whose hoisted variable reached the function (it is a member of
a scope that stops hoisting, or was merged into another symbol) must be one the spec gives a var binding -/
def annexBMismatch (w : Walk) (r : Result) : Option Nat :=
  let stops := stopMembers r.tree
  let rec go (i : Nat) : List (List Binding × Nat) → Option Nat
    | [] => none
    | (bs, d) :: rest =>
      match lookup d r.hmap with
      | some h =>
        if bs.length < 2 && (stops.contains h || followSym r.syms h != some h) then some i else go (i + 1) rest
      | none => go (i + 1) rest
  go 0 (w.decls.zip r.declRefs)

/-- a reference the spec cannot resolve must be bound to an unbound symbol, and only those -/
def unboundMismatch (w : Walk) (r : Result) : Option Nat :=
  let rec go (j : Nat) : List (Option Binding × Nat) → Option Nat
    | [] => none
    | (b, s) :: rest =>
      let k := (followSym r.syms s).bind (kindOf? r.syms)
      if (b.isNone && k != some SK.unbound) || (b.isSome && k == some SK.unbound) then some j else go (j + 1) rest
  go 0 (w.refs.zip r.refs)

def checkProps (p : Program) (r : Result) : String :=
  let w := p.walk
  let specErr := p.earlyError
  let modelErr := !r.errs.isEmpty
  if p.moduleFnVarClash || argumentsClashL p.body || (catchFnClashL [] p.body && specErr && !modelErr) then
    -- the hypotheses of the theorems fail; such a program has an early error, esbuild may accept it
    if specErr then (if modelErr then "ok-rejected" else "ok") else "hypothesis-without-early-error"
  else if specErr != modelErr then "err-mismatch:spec=" ++ toString specErr ++ ",esbuild=" ++ toString modelErr
  else if specErr then "ok-rejected"
  else if dupBlockFnL p.body || blockFnClashL p.body then "ok"
  else if w.decls.length != r.declRefs.length || w.refs.length != r.refs.length then "length-mismatch"
  else
    match firstMismatch w r with
    | some (j, i) => "lookup-mismatch:ref=" ++ toString j ++ ",decl=" ++ toString i
    | none =>
      match unboundMismatch w r with
      | some j => "unbound-mismatch:ref=" ++ toString j
      | none =>
        match annexBMismatch w r with
        | some i => "annexb-mismatch:decl=" ++ toString i
        | none => "ok"

-- line protocol ------------------------------------------------------------------------------------------------

def parseNames (s : String) : Option (List Name) :=
  if s = "" then some [] else (s.splitOn ".").mapM (·.toNat?)

/-- `D4:2.3!` → (4, [2,3], true) -/
def parseFnHead (cs : List Char) : Option (String × List Name × Bool) :=
  let s := String.ofList cs
  let (s, us) := if s.endsWith "!" then ((s.dropEnd 1).toString, true) else (s, false)
  match s.splitOn ":" with
  | [n, ps] => (parseNames ps).map (fun ps => (n, ps, us))
  | _ => none

mutual
/-- statements up to the matching `)` (or the end when `top`) -/
def parseStmts : Nat → Bool → List String → Option (List Stmt × List String)
  | 0, _, _ => none
  | _, top, [] => if top then some ([], []) else none
  | fuel + 1, top, t :: ts =>
    if t = ")" then (if top then none else some ([], ts))
    else
      match parseStmt fuel t ts with
      | none => none
      | some (s, ts1) =>
        match parseStmts fuel top ts1 with
        | none => none
        | some (rest, ts2) => some (s :: rest, ts2)
def parseStmt : Nat → String → List String → Option (Stmt × List String)
  | 0, _, _ => none
  | fuel + 1, t, ts =>
    match t.toList with
    | 'v' :: cs => (natOfChars cs).map (fun n => (.var_ n, ts))
    | 'l' :: cs => (natOfChars cs).map (fun n => (.lex .let_ n, ts))
    | 'c' :: cs => (natOfChars cs).map (fun n => (.lex .const_ n, ts))
    | 'K' :: cs => (natOfChars cs).map (fun n => (.lex .class_ n, ts))
    | 'r' :: cs => (natOfChars cs).map (fun n => (.ref n, ts))
    | ['(', 'B'] =>
      match parseStmts fuel false ts with
      | none => none
      | some (b, ts1) => some (.block b, ts1)
    | ['(', 'T'] =>
      match parseStmts fuel false ts with
      | none => none
      | some (b, ts1) =>
        match ts1 with
        | h :: ts2 =>
          let cp : Option CatchParam :=
            match h.toList with
            | ['(', 'H', '-'] => some .none
            | '(' :: 'H' :: 'i' :: cs => (natOfChars cs).map .ident
            | '(' :: 'H' :: 'p' :: cs => (parseNames (String.ofList cs)).map .pattern
            | _ => none
          match cp, parseStmts fuel false ts2 with
          | some cp, some (hb, ts3) => some (.try_ b cp hb, ts3)
          | _, _ => none
        | [] => none
    | '(' :: 'D' :: cs =>
      match parseFnHead cs, parseStmts fuel false ts with
      | some (n, ps, us), some (b, ts1) => n.toNat?.map (fun n => (.fn n false ps us b, ts1))
      | _, _ => none
    | '(' :: 'G' :: cs =>
      match parseFnHead cs, parseStmts fuel false ts with
      | some (n, ps, us), some (b, ts1) => n.toNat?.map (fun n => (.fn n true ps us b, ts1))
      | _, _ => none
    | '(' :: 'E' :: cs =>
      match parseFnHead cs, parseStmts fuel false ts with
      | some (n, ps, us), some (b, ts1) =>
        if n = "-" then some (.fnExpr none ps us b, ts1) else n.toNat?.map (fun n => (.fnExpr (some n) ps us b, ts1))
      | _, _ => none
    | '(' :: 'A' :: cs =>
      match parseFnHead cs, parseStmts fuel false ts with
      | some (_, ps, _), some (b, ts1) => some (.arrow ps b, ts1)
      | _, _ => none
    | _ => none
end

/-- op `core`: `<module 0/1> <strict 0/1> <statements>` -/
def coreDriver (args : List String) : String :=
  match args with
  | m :: st :: prog :: _ =>
    let toks := if prog = "-" then [] else prog.splitOn " "
    match m.toNat?, st.toNat?, parseStmts (toks.length + 1) true toks with
    | some m, some st, some (body, []) =>
      if m ≤ 1 ∧ st ≤ 1 then
        let p : Program := ⟨m == 1, st == 1, body⟩
        match runProgram p with
        | none => "PANIC"
        | some r => showResult r ++ "|P:" ++ checkProps p r
      else "bad-op"
    | _, _, _ => "bad-op"
  | _ => "bad-op"

/-- op `specerr` (validation of the spec against Node, not part of the kernel): the early-error verdict and the three
hypothesis flags -/
def specErrDriver (args : List String) : String :=
  match args with
  | m :: st :: prog :: _ =>
    let toks := if prog = "-" then [] else prog.splitOn " "
    match m.toNat?, st.toNat?, parseStmts (toks.length + 1) true toks with
    | some m, some st, some (body, []) =>
      let p : Program := ⟨m == 1, st == 1, body⟩
      toString p.earlyError ++ " " ++ toString p.moduleFnVarClash ++ " " ++ toString (argumentsClashL p.body) ++ " "
        ++ toString (dupBlockFnL p.body)
    | _, _, _ => "bad-op"
  | _ => "bad-op"

/-- the kernel `scope`: op `core` (programs of Spec/JsScopes.lean) and the ops of Impl/Scopes.lean -/
def driverAll (args : List String) : String :=
  match args with
  | "core" :: rest => coreDriver rest
  | "specerr" :: rest => specErrDriver rest
  | _ => driver args

end EsbuildModel.Scopes
