import EsbuildModel.Util.Wire
import EsbuildModel.Impl.Wtf8
/-
Model of `internal/css_lexer/css_lexer.go` (`Tokenize`, `next`, `consumeToEndOfMultiLineComment`,
`isValidEscape`, `wouldStartIdentifier`, `wouldStartNumber`, `consumeName`, `consumeEscape`, `consumeIdentLike`,
`consumeURL`, `consumeString`, `consumeNumeric`, the character classes, `decodeEscapesInToken`,
`Token.DecodedText`, `WouldStartIdentifierWithoutEscapes`).

Representation.  The Go lexer keeps `current` (a byte offset), `codePoint` (the rune decoded at the end of the
token so far, `-1` at the end of the file) and `Token.Range`; `step()` decodes the next rune with
`utf8.DecodeRuneInString` and moves on by its width.  Every position the lexer ever decodes at is reached from
offset 0 by such steps (the byte loop of `consumeName` only runs over bytes that are name bytes: ASCII name
characters are one rune each and every byte ≥ 0x80 belongs to a rune ≥ 0x80, so it also stops on a rune
boundary).  The model therefore decodes the input ONCE into `List Ch` (code point + the bytes it was decoded
from; an ill-formed byte is U+FFFD of width 1, as in Go) and the lexer state is the SUFFIX that starts at the
rune `lexer.codePoint` (`[]` = eof); `step()` is `tail`.  `Range.End()` is `total - rawLen suffix`.
Bytes looked at directly in Go (`contents[lexer.current]`, `contents[current:current+2] == "->"`, …) are only
ever compared with ASCII constants at rune boundaries, which is the same as comparing the code point there.
Nothing in this file can panic in Go except `DecodedText` (slice bounds), which is modelled with `Option`.
-/
namespace EsbuildModel.CssLex
open EsbuildModel.Wtf8 (goDecodeRune)

/-- a decoded rune together with the source bytes it came from (`raw.length` = the width `step()` moves by) -/
structure Ch where
  cp : Nat
  raw : List Nat
deriving DecidableEq, Repr, Inhabited

/-- `utf8.RuneError` -/
def runeError : Nat := 0xFFFD

/-- decode a whole byte string the way repeated `utf8.DecodeRuneInString` / `step()` does;
`skip` = bytes of the current rune still to pass over -/
def decodeFrom : Nat → List Nat → List Ch
  | _, [] => []
  | 0, a :: t =>
    let cw := goDecodeRune a t
    ⟨cw.1, (a :: t).take cw.2⟩ :: decodeFrom (cw.2 - 1) t
  | k + 1, _ :: t => decodeFrom k t

def decodeAll (s : List Nat) : List Ch := decodeFrom 0 s

/-- the source text of a run of runes -/
def rawOf (s : List Ch) : List Nat := s.flatMap (·.raw)
def rawLen (s : List Ch) : Nat := (rawOf s).length
def cpsOf (s : List Ch) : List Nat := s.map (·.cp)

/-- `utf8.EncodeRune` / `strings.Builder.WriteRune`: surrogates and values above U+10FFFF are written as U+FFFD -/
def encRune (r : Nat) : List Nat :=
  let i := if r > 0x10FFFF ∨ (0xD800 ≤ r ∧ r ≤ 0xDFFF) then runeError else r
  if i ≤ 127 then [i]
  else if i ≤ 2047 then [192 + i / 64, 128 + i % 64]
  else if i ≤ 65535 then [224 + i / 4096, 128 + i / 64 % 64, 128 + i % 64]
  else [240 + i / 262144, 128 + i / 4096 % 64, 128 + i / 64 % 64, 128 + i % 64]

/-- `utf8.RuneLen` (`-1` for a surrogate or a value above U+10FFFF) -/
def runeLen (r : Nat) : Int :=
  if r ≤ 127 then 1 else if r ≤ 2047 then 2
  else if 0xD800 ≤ r ∧ r ≤ 0xDFFF then -1
  else if r ≤ 65535 then 3 else if r ≤ 0x10FFFF then 4 else -1

/-! ### character classes (arguments are real runes; `eof` is the empty suffix and is handled by the callers) -/

def isDigit (c : Nat) : Bool := decide (48 ≤ c) && decide (c ≤ 57)
def isNameStart (c : Nat) : Bool :=
  (decide (97 ≤ c) && decide (c ≤ 122)) || (decide (65 ≤ c) && decide (c ≤ 90)) || c == 95 || decide (c ≥ 0x80) || c == 0
def isNameContinue (c : Nat) : Bool := isNameStart c || isDigit c || c == 45
def isNewline (c : Nat) : Bool := c == 10 || c == 13 || c == 12
def isWhitespace (c : Nat) : Bool := c == 32 || c == 9 || c == 10 || c == 13 || c == 12
def isHex (c : Nat) : Option Nat :=
  if 48 ≤ c ∧ c ≤ 57 then some (c - 48)
  else if 97 ≤ c ∧ c ≤ 102 then some (c + 10 - 97)
  else if 65 ≤ c ∧ c ≤ 70 then some (c + 10 - 65)
  else none
def isNonPrintable (c : Nat) : Bool :=
  decide (c ≤ 0x08) || c == 0x0B || (decide (0x0E ≤ c) && decide (c ≤ 0x1F)) || c == 0x7F

/-- `p(lexer.codePoint)` for a class `p` that is false on `eof` -/
def headIs (p : Nat → Bool) : List Ch → Bool
  | [] => false
  | c :: _ => p c.cp

/-- `lexer.step()` -/
def step : List Ch → List Ch
  | [] => []
  | _ :: t => t

/-- `lexer.isValidEscape()`: the rune after the backslash is decoded from `contents[current:]`; at the end of the
file that is `RuneError`, which is not a newline -/
def isValidEscape : List Ch → Bool
  | [] => false
  | c :: t => c.cp == 92 && !headIs isNewline t

/-- `lexer.wouldStartIdentifier()` -/
def wouldStartIdentifier : List Ch → Bool
  | [] => false
  | c :: t =>
    if isNameStart c.cp then true
    else if c.cp == 45 then
      match t with
      | [] => false -- `c == utf8.RuneError && width <= 1`
      | d :: u =>
        if d.cp == runeError && d.raw.length ≤ 1 then false -- decoding error
        else if isNameStart d.cp || d.cp == 45 then true
        else if d.cp == 92 then !headIs isNewline u
        else false
    else isValidEscape (c :: t)

/-- `lexer.wouldStartNumber()` -/
def wouldStartNumber : List Ch → Bool
  | [] => false
  | c :: t =>
    if isDigit c.cp then true
    else if c.cp == 46 then headIs isDigit t
    else if c.cp == 43 || c.cp == 45 then
      match t with
      | [] => false
      | d :: u => if isDigit d.cp then true else if d.cp == 46 then headIs isDigit u else false
    else false

/-! ### escapes and names -/

/-- the `for i := 0; i < 5; i++` loop of `consumeEscape` / `decodeEscapesInToken`: up to `k` more hex digits -/
def hexLoop : Nat → Nat → List Ch → Nat × List Ch
  | 0, hex, s => (hex, s)
  | _ + 1, hex, [] => (hex, [])
  | k + 1, hex, c :: t =>
    match isHex c.cp with
    | some d => hexLoop k (hex * 16 + d) t
    | none => (hex, c :: t)

/-- `if hex == 0 || (hex >= 0xD800 && hex <= 0xDFFF) || hex > 0x10FFFF { return utf8.RuneError }` -/
def fixHex (hex : Nat) : Nat :=
  if hex = 0 ∨ (0xD800 ≤ hex ∧ hex ≤ 0xDFFF) ∨ hex > 0x10FFFF then runeError else hex

/-- `if isWhitespace(lexer.codePoint) { lexer.step() }` -/
def skipOneWs : List Ch → List Ch
  | [] => []
  | c :: t => if isWhitespace c.cp then t else c :: t

/-- `lexer.consumeEscape()` called with `lexer.codePoint == '\\'`: the rune and the state after it -/
def consumeEscape : List Ch → Nat × List Ch
  | [] => (runeError, []) -- not reached (callers test `isValidEscape`); Go: `step()` is a no-op, `c == eof`
  | _ :: t => -- `lexer.step() // Skip the backslash`
    match t with
    | [] => (runeError, []) -- `c == eof`
    | c :: u =>
      match isHex c.cp with
      | some h =>
        let r := hexLoop 5 h u
        (fixHex r.1, skipOneWs r.2)
      | none => (c.cp, u)

/-- the byte loop of `consumeName` (`for i < n && IsNameContinue(rune(contents[i])) { i++ }`) and every other
"skip while the rune is in class `p`" loop -/
def skipWhile (p : Nat → Bool) : List Ch → List Ch
  | [] => []
  | c :: t => if p c.cp then skipWhile p t else c :: t

/-- the runes passed over by `skipWhile` -/
def takeWhileCh (p : Nat → Bool) : List Ch → List Ch
  | [] => []
  | c :: t => if p c.cp then c :: takeWhileCh p t else []

theorem hexLoop_length (k hex : Nat) (s : List Ch) : (hexLoop k hex s).2.length ≤ s.length := by
  induction k generalizing hex s with
  | zero => simp [hexLoop]
  | succ k ih =>
    cases s with
    | nil => simp [hexLoop]
    | cons c t =>
      simp only [hexLoop]
      split
      · exact Nat.le_trans (ih _ t) (by simp)
      · simp

theorem skipOneWs_length (s : List Ch) : (skipOneWs s).length ≤ s.length := by
  cases s with
  | nil => simp [skipOneWs]
  | cons c t => simp only [skipOneWs]; split <;> simp

/-- an escape consumes at least the backslash: this is what makes every loop around `consumeEscape` terminate -/
theorem consumeEscape_length (c : Ch) (t : List Ch) : (consumeEscape (c :: t)).2.length ≤ t.length := by
  cases t with
  | nil => simp [consumeEscape]
  | cons d u =>
    simp only [consumeEscape]
    split
    · exact Nat.le_trans (skipOneWs_length _) (Nat.le_trans (hexLoop_length _ _ _) (by simp))
    · simp

/-- the `for { … }` loop of the uncommon case of `consumeName`; `acc` = bytes in the `strings.Builder` -/
def nameLoop (acc : List Nat) (s : List Ch) : List Nat × List Ch :=
  match s with
  | [] => (acc, [])
  | c :: t =>
    if isNameContinue c.cp then nameLoop (acc ++ encRune c.cp) t
    else if isValidEscape (c :: t) then
      nameLoop (acc ++ encRune (consumeEscape (c :: t)).1) (consumeEscape (c :: t)).2
    else (acc, c :: t)
termination_by s.length
decreasing_by
  · simp
  · have := consumeEscape_length c t; simp only [List.length_cons]; omega

/-- `lexer.consumeName()`: the returned string (bytes) and the state after the name.  `raw` in Go is
`contents[Token.Range.Loc.Start:Token.Range.End()]`; the callers that use the result (`consumeIdentLike`) call
it with an empty token, so `raw` is exactly what the fast loop passed over. -/
def consumeName (s : List Ch) : List Nat × List Ch :=
  -- `raw` = `rawOf (takeWhileCh isNameContinue s)`, the state after the fast loop = `skipWhile isNameContinue s`
  if isValidEscape (skipWhile isNameContinue s) then
    nameLoop (rawOf (takeWhileCh isNameContinue s) ++ encRune (consumeEscape (skipWhile isNameContinue s)).1)
      (consumeEscape (skipWhile isNameContinue s)).2
  else (rawOf (takeWhileCh isNameContinue s), skipWhile isNameContinue s)

/-! ### token kinds (`css_lexer.T`, in the order of the Go `iota`) -/

inductive T where
  | TEndOfFile | TAtKeyword | TUnterminatedString | TBadURL | TCDC | TCDO | TCloseBrace | TCloseBracket | TCloseParen
  | TColon | TComma | TDelim | TDelimAmpersand | TDelimAsterisk | TDelimBar | TDelimCaret | TDelimDollar | TDelimDot
  | TDelimEquals | TDelimExclamation | TDelimGreaterThan | TDelimLessThan | TDelimMinus | TDelimPlus | TDelimSlash
  | TDelimTilde | TDimension | TFunction | THash | TIdent | TNumber | TOpenBrace | TOpenBracket | TOpenParen
  | TPercentage | TSemicolon | TString | TURL | TWhitespace | TSymbol
deriving DecidableEq, Repr, Inhabited

def T.all : List T :=
  [.TEndOfFile, .TAtKeyword, .TUnterminatedString, .TBadURL, .TCDC, .TCDO, .TCloseBrace, .TCloseBracket, .TCloseParen,
   .TColon, .TComma, .TDelim, .TDelimAmpersand, .TDelimAsterisk, .TDelimBar, .TDelimCaret, .TDelimDollar, .TDelimDot,
   .TDelimEquals, .TDelimExclamation, .TDelimGreaterThan, .TDelimLessThan, .TDelimMinus, .TDelimPlus, .TDelimSlash,
   .TDelimTilde, .TDimension, .TFunction, .THash, .TIdent, .TNumber, .TOpenBrace, .TOpenBracket, .TOpenParen,
   .TPercentage, .TSemicolon, .TString, .TURL, .TWhitespace, .TSymbol]

/-- the numeric value of the Go constant -/
def T.toNat (k : T) : Nat := (T.all.idxOf k)
def T.ofNat? (n : Nat) : Option T := T.all[n]?

/-! ### URLs -/

/-- "Consume the remnants of a bad url": the second loop of `consumeURL`.  Note the `lexer.step()` after the
`switch`: it also runs after `consumeEscape()`, so the rune that follows an escape is skipped unseen. -/
def badUrl (s : List Ch) : T × List Ch :=
  match s with
  | [] => (.TBadURL, []) -- `case ')', eof: lexer.step(); return TBadURL`
  | c :: t =>
    if c.cp == 41 then (.TBadURL, t)
    else if c.cp == 92 then
      if isValidEscape (c :: t) then badUrl (step (consumeEscape (c :: t)).2)
      else badUrl t
    else badUrl t
termination_by s.length
decreasing_by
  · have := consumeEscape_length c t
    have : (step (consumeEscape (c :: t)).2).length ≤ (consumeEscape (c :: t)).2.length := by
      cases (consumeEscape (c :: t)).2 <;> simp [step]
    simp only [List.length_cons]; omega
  · simp
  · simp

/-- `lexer.consumeURL(matchingLoc)`: the `validURL` loop -/
def consumeURL (s : List Ch) : T × List Ch :=
  match s with
  | [] => (.TURL, []) -- `case eof`
  | c :: t =>
    if c.cp == 41 then (.TURL, t)
    else if isWhitespace c.cp then
      match skipWhile isWhitespace t with
      | [] => (.TURL, [])
      | d :: u => if d.cp == 41 then (.TURL, u) else badUrl (d :: u)
    else if c.cp == 34 || c.cp == 39 || c.cp == 40 then badUrl (c :: t)
    else if c.cp == 92 then
      if !isValidEscape (c :: t) then badUrl (c :: t)
      else consumeURL (consumeEscape (c :: t)).2
    else if isNonPrintable c.cp then badUrl (c :: t)
    else consumeURL t
termination_by s.length
decreasing_by
  · have := consumeEscape_length c t; simp only [List.length_cons]; omega
  · simp

/-- `(u == 'u' || u == 'U') && (r == 'r' || r == 'R') && (l == 'l' || l == 'L')` on a name of `len(name) == 3` -/
def isUrlName (name : List Nat) : Bool :=
  match name with
  | [u, r, l] => (u == 117 || u == 85) && (r == 114 || r == 82) && (l == 108 || l == 76)
  | _ => false

/-- `lexer.consumeIdentLike()` -/
def consumeIdentLike (s : List Ch) : T × List Ch :=
  match (consumeName s).2 with
  | [] => (.TIdent, [])
  | c :: t =>
    if c.cp == 40 then
      if isUrlName (consumeName s).1 then
        -- "Check to see if this is a URL token instead of a function"
        if !(headIs (fun x => x == 34 || x == 39) (skipWhile isWhitespace t)) then consumeURL (skipWhile isWhitespace t)
        else (.TFunction, t) -- "Restore state (i.e. backtrack)"
      else (.TFunction, t)
    else (.TIdent, c :: t)

/-! ### strings -/

/-- the loop of `lexer.consumeString()` after the opening quote -/
def stringLoop (quote : Nat) : List Ch → T × List Ch
  | [] => (.TUnterminatedString, [])
  | c :: t =>
    if c.cp == 92 then
      match t with
      | [] => (.TUnterminatedString, []) -- both `step()`s are no-ops, the next round sees `eof`
      | d :: u =>
        if d.cp == 13 then -- "Handle Windows CRLF"
          match u with
          | [] => (.TUnterminatedString, [])
          | e :: v => if e.cp == 10 then stringLoop quote v else stringLoop quote (e :: v)
        else stringLoop quote u -- "fall through to ignore the character after the backslash"
    else if isNewline c.cp then (.TUnterminatedString, c :: t)
    else if c.cp == quote then (.TString, t)
    else stringLoop quote t
termination_by s => s.length
decreasing_by all_goals (simp only [List.length_cons]; omega)

/-- `lexer.consumeString()` called with `lexer.codePoint` = the quote -/
def consumeString : List Ch → T × List Ch
  | [] => (.TUnterminatedString, [])
  | q :: t => stringLoop q.cp t

/-! ### numbers -/

/-- `if lexer.codePoint == '+' || lexer.codePoint == '-' { lexer.step() }` -/
def skipSign : List Ch → List Ch
  | [] => []
  | c :: t => if c.cp == 43 || c.cp == 45 then t else c :: t

/-- "Skip over digits after dot" -/
def skipFraction : List Ch → List Ch
  | [] => []
  | c :: t => if c.cp == 46 then skipWhile isDigit t else c :: t

/-- `c := contents[current]; if (c == '+' || c == '-') && current+1 < len(contents) { c = contents[current+1] }` -/
def expLook (d : Ch) (u : List Ch) : Nat :=
  if d.cp == 43 || d.cp == 45 then (match u with | [] => d.cp | e :: _ => e.cp) else d.cp

/-- "Skip over exponent" -/
def skipExponent : List Ch → List Ch
  | [] => []
  | c :: t =>
    if c.cp == 101 || c.cp == 69 then
      match t with
      | [] => c :: t -- `lexer.current < len(contents)` fails
      | d :: u =>
        if isDigit (expLook d u) then skipWhile isDigit (skipSign t) else c :: t
    else c :: t

/-- the part of `consumeNumeric` before "Determine the numeric type" -/
def skipNumber (s : List Ch) : List Ch :=
  skipExponent (skipFraction (skipWhile isDigit (skipSign s)))

/-- `lexer.consumeNumeric()`: kind, state after, and the state at the start of the unit (for `UnitOffset`) -/
def consumeNumeric (s : List Ch) : T × List Ch × List Ch :=
  if wouldStartIdentifier (skipNumber s) then (.TDimension, (consumeName (skipNumber s)).2, skipNumber s)
  else
    match skipNumber s with
    | [] => (.TNumber, [], [])
    | c :: t => if c.cp == 37 then (.TPercentage, t, c :: t) else (.TNumber, c :: t, c :: t)

/-! ### comments -/

/-- the `for` loop of `consumeToEndOfMultiLineComment`: `none` = `case eof` (unterminated), otherwise the state
at the `*` of the closing `*/` and the state after it -/
def commentLoop : List Ch → Option (List Ch × List Ch)
  | [] => none
  | [_] => none -- a last rune (a `*` or not) and then `eof`
  | c :: d :: u => if c.cp == 42 && d.cp == 47 then some (c :: d :: u, u) else commentLoop (d :: u)

/-- `strings.HasPrefix(rawOf s, lit)` for an ASCII literal -/
def hasPrefixCps (lit : List Nat) (s : List Ch) : Bool := lit.isPrefixOf (cpsOf s)

def litSourceMappingURL : List Nat := " sourceMappingURL=".toList.map Char.toNat
def litPreserve : List Nat := "preserve".toList.map Char.toNat
def litLicense : List Nat := "license".toList.map Char.toNat

/-- `containsAtPreserveOrAtLicense` -/
def containsAtPreserveOrAtLicense : List Ch → Bool
  | [] => false
  | c :: t => (c.cp == 64 && (hasPrefixCps litPreserve t || hasPrefixCps litLicense t)) || containsAtPreserveOrAtLicense t

/-- a terminated comment: the states at its `/` and after its `*/` (positions are `total - rawLen ·`);
`legal` = goes to `legalCommentsBefore` -/
structure Comment where
  startS : List Ch
  restS : List Ch
  legal : Bool
deriving DecidableEq, Repr

/-- `lexer.sourceMappingURL`: the state at `startOfSourceMappingURL` and `r.Len` (bytes) -/
structure SmUrl where
  urlS : List Ch
  len : Nat
deriving DecidableEq, Repr

structure CommentOut where
  rest : List Ch
  /-- `commentRange` of a terminated comment (goes to `allComments` when `RecordAllComments`; to
  `legalCommentsBefore` when `legal`) -/
  recd : Option Comment
  /-- new `lexer.sourceMappingURL` if this comment set it -/
  sm : Option SmUrl
deriving Repr

/-- `switch lexer.codePoint { case '#', '@': if strings.HasPrefix(contents[current:], " sourceMappingURL=") … }`:
the state at `startOfSourceMappingURL` -/
def smStartOf : List Ch → Option (List Ch)
  | [] => none
  | c :: t => if (c.cp == 35 || c.cp == 64) && hasPrefixCps litSourceMappingURL t then some (t.drop 18) else none

/-- `lexer.consumeToEndOfMultiLineComment(startRange)` with `startRange.Loc` at state `startS`, called when
`lexer.codePoint` is the first rune after `/*` (state `body`) -/
def consumeComment (startS body : List Ch) : CommentOut :=
  match commentLoop body with
  | none => ⟨[], none, none⟩
  | some (star, rest) =>
    let sm := (smStartOf body).map fun u =>
      -- `text := contents[startOfSourceMappingURL:endOfSourceMappingURL]`, cut at the first whitespace
      let text := u.take (u.length - star.length)
      SmUrl.mk u (rawLen (takeWhileCh (fun c => !isWhitespace c) text))
    let chars := body.take (body.length - rest.length)
    -- `case '!': isLegalComment = true`
    let isLegal := headIs (· == 33) body
    ⟨rest, some ⟨startS, rest, isLegal || containsAtPreserveOrAtLicense chars⟩, sm⟩

theorem commentLoop_length : ∀ (s : List Ch) (star rest : List Ch), commentLoop s = some (star, rest) → rest.length < s.length
  | [], _, _, h => by simp [commentLoop] at h
  | [_], _, _, h => by simp [commentLoop] at h
  | c :: d :: u, star, rest, h => by
    simp only [commentLoop] at h
    split at h
    · simp only [Option.some.injEq, Prod.mk.injEq] at h; rw [← h.2]; simp only [List.length_cons]; omega
    · have := commentLoop_length (d :: u) star rest h
      simp only [List.length_cons] at this ⊢; omega

theorem consumeComment_length (startS body : List Ch) :
    (consumeComment startS body).rest.length ≤ body.length := by
  unfold consumeComment
  cases h : commentLoop body with
  | none => simp
  | some p =>
    obtain ⟨star, rest⟩ := p
    have := commentLoop_length _ _ _ h
    simp only; omega

/-- later setting wins (`lexer.sourceMappingURL = …` is a plain assignment) -/
def laterSm (later earlier : Option SmUrl) : Option SmUrl := if later.isSome then later else earlier

/-! ### whitespace tokens -/

/-- the loop of the whitespace case of `next()`: whitespace and comments that directly follow whitespace;
result: state after, the comments seen (in order), the last `sourceMappingURL` set -/
def wsLoop (s : List Ch) : List Ch × List Comment × Option SmUrl :=
  match s with
  | [] => ([], [], none)
  | c :: t =>
    if isWhitespace c.cp then wsLoop t
    else if c.cp == 47 && headIs (· == 42) t then
      -- `startRange := {Loc: End(), Len: 2}; step(); step(); consumeToEndOfMultiLineComment(startRange)`
      ((wsLoop (consumeComment (c :: t) (step t)).rest).1,
       (consumeComment (c :: t) (step t)).recd.toList ++ (wsLoop (consumeComment (c :: t) (step t)).rest).2.1,
       laterSm (wsLoop (consumeComment (c :: t) (step t)).rest).2.2 (consumeComment (c :: t) (step t)).sm)
    else (c :: t, [], none)
termination_by s.length
decreasing_by
  · simp
  · have := consumeComment_length (c :: t) (step t)
    have : (step t).length ≤ t.length := by cases t <;> simp [step]
    simp only [List.length_cons]; omega

/-! ### `next()` -/

/-- the cases of the `switch` in `next()` that are `lexer.step(); lexer.Token.Kind = K` -/
def singleCharTable : List (Nat × T) :=
  [(40, .TOpenParen), (41, .TCloseParen), (91, .TOpenBracket), (93, .TCloseBracket), (123, .TOpenBrace),
   (125, .TCloseBrace), (44, .TComma), (58, .TColon), (59, .TSemicolon), (62, .TDelimGreaterThan), (126, .TDelimTilde),
   (38, .TDelimAmpersand), (42, .TDelimAsterisk), (124, .TDelimBar), (33, .TDelimExclamation), (61, .TDelimEquals),
   (94, .TDelimCaret), (36, .TDelimDollar)]

def lookupT (c : Nat) : List (Nat × T) → Option T
  | [] => none
  | (a, k) :: r => if c == a then some k else lookupT c r

def singleCharKind (c : Nat) : Option T := lookupT c singleCharTable

/-- result of the `switch` for one token: kind, state after, state at the start of the unit (`UnitOffset`, only
meaningful for `TDimension`), `IsID` -/
structure Lexed where
  kind : T
  rest : List Ch
  unitS : List Ch
  isID : Bool
deriving Repr

def Lexed.simple (k : T) (rest : List Ch) : Lexed := ⟨k, rest, rest, false⟩
def Lexed.ofPair (p : T × List Ch) : Lexed := ⟨p.1, p.2, p.2, false⟩
def Lexed.ofNumeric (p : T × List Ch × List Ch) : Lexed := ⟨p.1, p.2.1, p.2.2, false⟩

/-- the `switch lexer.codePoint` of `next()` for every case except `eof`, `'/'` and whitespace -/
def lexOther (c : Ch) (t : List Ch) : Lexed :=
  if c.cp == 34 || c.cp == 39 then .ofPair (consumeString (c :: t))
  else if c.cp == 35 then -- '#'
    if headIs isNameContinue t || isValidEscape t then ⟨.THash, (consumeName t).2, t, wouldStartIdentifier t⟩
    else .simple .TDelim t
  else if c.cp == 43 then -- '+'
    if wouldStartNumber (c :: t) then .ofNumeric (consumeNumeric (c :: t)) else .simple .TDelimPlus t
  else if c.cp == 46 then -- '.'
    if wouldStartNumber (c :: t) then .ofNumeric (consumeNumeric (c :: t)) else .simple .TDelimDot t
  else if c.cp == 45 then -- '-'
    if wouldStartNumber (c :: t) then .ofNumeric (consumeNumeric (c :: t))
    else
      match t with
      | d :: e :: u =>
        if d.cp == 45 && e.cp == 62 then .simple .TCDC u
        else if wouldStartIdentifier (c :: t) then .ofPair (consumeIdentLike (c :: t)) else .simple .TDelimMinus t
      | _ => if wouldStartIdentifier (c :: t) then .ofPair (consumeIdentLike (c :: t)) else .simple .TDelimMinus t
  else if c.cp == 60 then -- '<'
    match t with
    | d :: e :: f :: u => if d.cp == 33 && e.cp == 45 && f.cp == 45 then .simple .TCDO u else .simple .TDelimLessThan t
    | _ => .simple .TDelimLessThan t
  else if c.cp == 64 then -- '@'
    if wouldStartIdentifier t then .simple .TAtKeyword (consumeName t).2 else .simple .TDelim t
  else if c.cp == 92 then -- '\\'
    if isValidEscape (c :: t) then .ofPair (consumeIdentLike (c :: t)) else .simple .TDelim t
  else if isDigit c.cp then .ofNumeric (consumeNumeric (c :: t))
  else
    match singleCharKind c.cp with
    | some k => .simple k t
    | none => if isNameStart c.cp then .ofPair (consumeIdentLike (c :: t)) else .simple .TDelim t

/-- what one call of `next()` leaves behind -/
structure NextOut where
  kind : T
  /-- state at `Token.Range.Loc.Start` (after the comments that `next()` skipped) -/
  startS : List Ch
  /-- state at `Token.Range.End()` -/
  rest : List Ch
  unitS : List Ch
  isID : Bool
  /-- `DidWarnAboutSingleLineComment` -/
  didWarn : Bool
  /-- `lexer.oldSingleLineCommentEnd`, kept as the number of bytes from there to the end of the file -/
  oldRem : Nat
  /-- terminated comments met during this call, in order -/
  comments : List Comment
  sm : Option SmUrl
deriving Repr

/-- a comment skipped by the `continue` of `next()` in front of what the next round returns -/
def NextOut.withComment (r : NextOut) (o : CommentOut) : NextOut :=
  ⟨r.kind, r.startS, r.rest, r.unitS, r.isID, r.didWarn, r.oldRem, o.recd.toList ++ r.comments, laterSm r.sm o.sm⟩

/-- `lexer.next()`.  `oldRem` = bytes from `oldSingleLineCommentEnd` to the end of the file (so that
`loc.Start >= oldSingleLineCommentEnd.Start` is `rawLen s ≤ oldRem`). -/
def next (oldRem : Nat) (s : List Ch) : NextOut :=
  match s with
  | [] => ⟨.TEndOfFile, [], [], [], false, false, oldRem, [], none⟩
  | c :: t =>
    if c.cp == 47 then -- '/'
      match t with
      | [] => ⟨.TDelimSlash, s, [], [], false, false, oldRem, [], none⟩
      | d :: u =>
        if d.cp == 42 then
          -- `lexer.step(); lexer.consumeToEndOfMultiLineComment(lexer.Token.Range); continue`
          (next oldRem (consumeComment (c :: d :: u) u).rest).withComment (consumeComment (c :: d :: u) u)
        else if d.cp == 47 then
          -- "Warn when people use "//" comments": once per line
          if rawLen (c :: d :: u) ≤ oldRem then
            ⟨.TDelimSlash, c :: d :: u, d :: u, d :: u, false, true, rawLen (skipWhile (fun x => !isNewline x) u), [], none⟩
          else ⟨.TDelimSlash, c :: d :: u, d :: u, d :: u, false, false, oldRem, [], none⟩
        else ⟨.TDelimSlash, c :: d :: u, d :: u, d :: u, false, false, oldRem, [], none⟩
    else if isWhitespace c.cp then
      ⟨.TWhitespace, c :: t, (wsLoop t).1, (wsLoop t).1, false, false, oldRem, (wsLoop t).2.1, (wsLoop t).2.2⟩
    else
      ⟨(lexOther c t).kind, c :: t, (lexOther c t).rest, (lexOther c t).unitS, (lexOther c t).isID, false, oldRem, [], none⟩
termination_by s.length
decreasing_by
  have := consumeComment_length (c :: d :: u) u
  simp only [List.length_cons]; omega
