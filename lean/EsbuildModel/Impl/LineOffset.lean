import EsbuildModel.Impl.Wtf8
import EsbuildModel.Util.Wire
/-
Model of the byte-offset → (line, UTF-16 column) conversion of `internal/sourcemap/sourcemap.go`:

* `GenerateLineOffsetTables(contents, approximateLineCount)`               → `step`, `finish`, `tablesOf`, `generate`
* the lookup at the top of `ChunkBuilder.AddSourceMapping` (binary search + column) → `search`, `lookup`
* `LineColumnOffset.AdvanceString` / `AdvanceBytes`                       → `advance`
* `ChunkBuilder.updateGeneratedLineAndColumn` (position bookkeeping only)  → `update`
* the duplicate test of `AddSourceMapping` and what `GenerateChunk` reports of the positions → `addSourceMapping`, `generateChunk`

Bytes, runes, offsets are naturals (`contents` shorter than 2^31 bytes: the `int32` conversions are exact);
`logger.Loc.Start` and the computed column are `Int` (Go: int32 / int, may be negative).  `none` = Go panic
(index / slice bound out of range, `make` with negative capacity).

Go's `for i, c := range s` and `utf8.DecodeRune` are the language's own UTF-8 decoding (`Wtf8.goDecodeRune`,
transcribed from `unicode/utf8`): `goRange s` lists, per iteration, the rune, its width and `s[i+1:]`
(what the look-ahead `i+1 < len(s) && s[i+1] == '\n'` inspects).

`i - lineByteOffset` is a `Nat` subtraction here; in Go it is an `int` that is never negative, because
`lineByteOffset` is only ever assigned an earlier (or the current) value of `i`.
-/
namespace EsbuildModel.LineOffset
open EsbuildModel.Wtf8 (goDecodeRune)

/-- one iteration of `for i, c := range s` -/
structure Item where
  c : Nat
  w : Nat
  /-- `s[i+1:]` -/
  after : List Nat
deriving Repr, DecidableEq

/-- iterations of `range` over the bytes, with `skip` bytes of the current rune still to be passed over -/
def rangeAux : Nat → List Nat → List Item
  | _, [] => []
  | 0, b :: rest => let cw := goDecodeRune b rest; ⟨cw.1, cw.2, rest⟩ :: rangeAux (cw.2 - 1) rest
  | k + 1, _ :: rest => rangeAux k rest

def goRange (s : List Nat) : List Item := rangeAux 0 s

/-- `case '\r', '\n', '\u2028', '\u2029':` -/
def isTerm (c : Nat) : Bool := c == 13 || c == 10 || c == 0x2028 || c == 0x2029

/-- `c == '\r' && i+1 < len(s) && s[i+1] == '\n'` -/
def crBeforeLf (it : Item) : Bool := it.c == 13 && it.after.head? == some 10

/-- `if c <= 0xFFFF { column++ } else { column += 2 }` -/
def colWidth (c : Nat) : Nat := if c ≤ 0xFFFF then 1 else 2

/-- `LineOffsetTable` (`cols = none`: `columnsForNonASCII == nil`) -/
structure Table where
  cols : Option (List Nat)
  first : Nat
  start : Nat
deriving Repr, DecidableEq

/-- the local variables of `GenerateLineOffsetTables` -/
structure Gen where
  cols : Option (List Nat) := none
  first : Nat := 0
  lineByteOffset : Nat := 0
  columnByteOffset : Nat := 0
  column : Nat := 0
  tables : List Table := []
deriving Repr, DecidableEq

/-- `for lineBytesSoFar := …; columnByteOffset <= lineBytesSoFar; columnByteOffset++ { cols = append(cols, column) }`:
the new slice and the new `columnByteOffset` -/
def fill (cols : List Nat) (columnByteOffset lineBytesSoFar column : Nat) : List Nat × Nat :=
  if columnByteOffset ≤ lineBytesSoFar then
    (cols ++ List.replicate (lineBytesSoFar + 1 - columnByteOffset) column, lineBytesSoFar + 1)
  else (cols, columnByteOffset)

/-- the head of the loop body at byte offset `i` ("Mark the start of the next line", "Start the mapping if this
character is non-ASCII" when `nonAscii`, "Update the per-byte column offsets"); the code after the loop runs the
same statements with `i = len(contents)` and without the second one -/
def pre (g : Gen) (i : Nat) (nonAscii : Bool) : Gen :=
  -- Mark the start of the next line
  let lbo := if g.column = 0 then i else g.lineByteOffset
  -- Start the mapping if this character is non-ASCII
  let start := nonAscii && g.cols.isNone
  let cbo := if start then i - lbo else g.columnByteOffset
  let first := if start then i - lbo else g.first
  let cols := if start then some [] else g.cols
  -- Update the per-byte column offsets
  match cols with
  | some l =>
    let r := fill l cbo (i - lbo) g.column
    { g with cols := some r.1, first := first, lineByteOffset := lbo, columnByteOffset := r.2 }
  | none => { g with cols := none, first := first, lineByteOffset := lbo, columnByteOffset := cbo }

/-- the `LineOffsetTable{…}` literal appended for the current line -/
def tableOf (g : Gen) : Table := ⟨g.cols, g.first, g.lineByteOffset⟩

/-- the body of the `range` loop for the iteration at byte offset `i` with rune `c`;
`crlf` = `c == '\r' && i+1 < len(contents) && contents[i+1] == '\n'` -/
def step (g : Gen) (i : Nat) (c : Nat) (crlf : Bool) : Gen :=
  let g := pre g i (decide (c > 0x7F))
  if isTerm c then
    if crlf then { g with column := g.column + 1 }
    else
      { cols := none, first := 0, lineByteOffset := g.lineByteOffset, columnByteOffset := 0, column := 0,
        tables := g.tables ++ [tableOf g] }
  else { g with column := g.column + colWidth c }

/-- the loop: `i` is the byte offset of the first remaining iteration -/
def run (g : Gen) (i : Nat) : List Item → Gen
  | [] => g
  | it :: rest => run (step g i it.c (crBeforeLf it)) (i + it.w) rest

/-- the code after the loop (`len = len(contents)`) -/
def finish (g : Gen) (len : Nat) : List Table :=
  let g := pre g len false
  g.tables ++ [tableOf g]

/-- the tables `GenerateLineOffsetTables` returns -/
def tablesOf (contents : List Nat) : List Table := finish (run {} 0 (goRange contents)) contents.length

/-- `GenerateLineOffsetTables`: `make([]LineOffsetTable, 0, approximateLineCount)` panics on a negative capacity;
the count has no other influence -/
def generate (contents : List Nat) (approximateLineCount : Int) : Option (List Table) :=
  if approximateLineCount < 0 then none else some (tablesOf contents)

/-- the binary search of `AddSourceMapping`: `originalLine` when the loop ends -/
def search (ts : List Table) (loc : Int) (originalLine count : Nat) : Option Nat :=
  if _h : count = 0 then some originalLine else
    let step := count / 2
    let i := originalLine + step
    match ts[i]? with
    | none => none
    | some t =>
      if (t.start : Int) ≤ loc then search ts loc (i + 1) (count - step - 1)
      else search ts loc originalLine step
termination_by count
decreasing_by all_goals omega

/-- `originalLine`, `originalColumn` as `AddSourceMapping` computes them for `originalLoc.Start = loc` -/
def lookup (ts : List Table) (loc : Int) : Option (Nat × Int) :=
  match search ts loc 0 ts.length with
  | none => none
  | some 0 => none -- originalLine-- gives -1; `&lineOffsetTables[-1]` panics
  | some (l + 1) =>
    match ts[l]? with
    | none => none
    | some line =>
      let originalColumn : Int := loc - line.start
      match line.cols with
      | some cols =>
        if originalColumn ≥ line.first then
          match cols[(originalColumn - line.first).toNat]? with
          | some c => some (l, (c : Int))
          | none => none
        else some (l, originalColumn)
      | none => some (l, originalColumn)

/-! ### the generated position -/

/-- `LineColumnOffset` -/
structure LC where
  lines : Nat
  cols : Nat
deriving Repr, DecidableEq

/-- loop body of `AdvanceString` (and of `AdvanceBytes`, which decodes with `utf8.DecodeRune`, slices
`bytes = bytes[width:]` first and then tests `len(bytes) > 0 && bytes[0] == '\n'` — for `c == '\r'` the width
is 1, so that is the same byte `s[i+1]`) -/
def advStep (o : LC) (c : Nat) (crlf : Bool) : LC :=
  if isTerm c then
    if crlf then ⟨o.lines, o.cols + 1⟩ else ⟨o.lines + 1, 0⟩
  else ⟨o.lines, o.cols + colWidth c⟩

/-- `offset.AdvanceString(text)` / `offset.AdvanceBytes(bytes)` -/
def advance (o : LC) (text : List Nat) : LC := (goRange text).foldl (fun o it => advStep o it.c (crBeforeLf it)) o

/-- `LineColumnOffset.Add` -/
def add (a b : LC) : LC := if b.lines = 0 then ⟨a.lines, a.cols + b.cols⟩ else ⟨a.lines + b.lines, b.cols⟩

/-- loop body of `updateGeneratedLineAndColumn` on (`prevState.GeneratedLine`, `generatedColumn`): a CR in front
of LF is skipped (`continue`) without counting a column; the look-ahead `output[lastGeneratedUpdate+i+1]` reads the
same byte as `s[i+1]` of the scanned suffix `s = output[lastGeneratedUpdate:]` -/
def updStep (o : LC) (c : Nat) (crlf : Bool) : LC :=
  if isTerm c then
    if crlf then o else ⟨o.lines + 1, 0⟩
  else ⟨o.lines, o.cols + colWidth c⟩

/-- the position fields of `ChunkBuilder` -/
structure Builder where
  /-- `prevOriginalLoc.Start` -/
  prevLoc : Int := -1
  prevGeneratedLen : Nat := 0
  /-- `prevOriginalName` as a token (0 = "") -/
  prevName : Nat := 0
  /-- `prevState.GeneratedLine`, `generatedColumn` -/
  gen : LC := ⟨0, 0⟩
  lastGeneratedUpdate : Nat := 0
  /-- `prevState.GeneratedColumn`, `.OriginalLine`, `.OriginalColumn` -/
  mapGenCol : Nat := 0
  mapLine : Int := 0
  mapCol : Int := 0
deriving Repr, DecidableEq

/-- `updateGeneratedLineAndColumn(output)`; `output[b.lastGeneratedUpdate:]` panics when the output shrank.
(The mappings it may insert to cover lines repeat the previous original position at generated column 0.) -/
def update (b : Builder) (output : List Nat) : Option Builder :=
  if b.lastGeneratedUpdate > output.length then none else
  let items := goRange (output.drop b.lastGeneratedUpdate)
  let g := items.foldl (fun o it => updStep o it.c (crBeforeLf it)) b.gen
  -- every line break sets `prevState.GeneratedColumn = 0`
  let sawBreak := g.lines ≠ b.gen.lines
  some { b with gen := g, lastGeneratedUpdate := output.length,
                mapGenCol := if sawBreak then 0 else b.mapGenCol }

/-- `AddSourceMapping(Loc{loc}, name, output)` with no input source map -/
def addSourceMapping (ts : List Table) (b : Builder) (loc : Int) (name : Nat) (output : List Nat) : Option Builder :=
  if loc = b.prevLoc ∧ (b.prevGeneratedLen = output.length ∨ b.prevName = name) then some b else
  let b := { b with prevLoc := loc, prevGeneratedLen := output.length, prevName := name }
  match lookup ts loc with
  | none => none
  | some (line, col) =>
    match update b output with
    | none => none
    | some b => some { b with mapGenCol := b.gen.cols, mapLine := line, mapCol := col }

/-- `GenerateChunk(output)`: the builder afterwards and (`EndState.GeneratedLine`, `EndState.GeneratedColumn`,
`EndState.OriginalLine`, `EndState.OriginalColumn`, `FinalGeneratedColumn`) -/
def generateChunk (b : Builder) (output : List Nat) : Option (Builder × String) :=
  match update b output with
  | none => none
  | some b => some (b, s!"{b.gen.lines}:{b.mapGenCol}:{b.mapLine}:{b.mapCol}:{b.gen.cols}")

/-! ### driver -/
open Wire

def showTable (t : Table) : String :=
  let cols := match t.cols with
    | none => "nil"
    | some l => "[" ++ ",".intercalate (l.map toString) ++ "]"
  s!"{t.start}/{t.first}/{cols}"

def showLookup (r : Option (Nat × Int)) : String :=
  match r with
  | none => "PANIC"
  | some (l, c) => s!"{l}:{c}"

/-- call syntax `loc/name/cut` -/
def parseCall (s : String) : Option (Int × Nat × Nat) :=
  match s.splitOn "/" with
  | [a, b, c] => do pure (← parseInt a, ← parseNat b, ← parseNat c)
  | _ => none

/-- each call is `AddSourceMapping(loc, name, output[:cut])` followed by `GenerateChunk(output[:cut])`; once a call
panics the builder is dead -/
def runCalls (ts : List Table) (output : List Nat) : Option Builder → List (Int × Nat × Nat) → List String
  | _, [] => []
  | none, _ :: rest => "PANIC" :: runCalls ts output none rest
  | some b, (loc, name, cut) :: rest =>
    if cut > output.length then "PANIC" :: runCalls ts output none rest else
    match addSourceMapping ts b loc name (output.take cut) with
    | none => "PANIC" :: runCalls ts output none rest
    | some b =>
      match generateChunk b (output.take cut) with
      | none => "PANIC" :: runCalls ts output none rest
      | some (b, s) => s :: runCalls ts output (some b) rest

def driver (args : List String) : String :=
  match args with
  | ["tables", contents, approx] =>
    match parseHexUnits 2 contents, parseInt approx with
    | some bs, some a =>
      match generate bs a with
      | some ts => " ".intercalate (ts.map showTable)
      | none => "PANIC"
    | _, _ => "bad-op"
  | ["lookup", contents, locs] =>
    match parseHexUnits 2 contents, parseIntList locs with
    | some bs, some ls =>
      let ts := tablesOf bs
      " ".intercalate (ls.map (fun l => showLookup (lookup ts l)))
    | _, _ => "bad-op"
  | ["adv", l, c, text] =>
    match parseNat l, parseNat c, parseHexUnits 2 text with
    | some l, some c, some bs => let o := advance ⟨l, c⟩ bs; s!"{o.lines}:{o.cols}"
    | _, _, _ => "bad-op"
  | ["builder", contents, output, calls] =>
    match parseHexUnits 2 contents, parseHexUnits 2 output, (calls.splitOn ",").mapM parseCall with
    | some bs, some out, some cs => " ".intercalate (runCalls (tablesOf bs) out (some {}) cs)
    | _, _, _ => "bad-op"
  | _ => "bad-op"

end EsbuildModel.LineOffset
