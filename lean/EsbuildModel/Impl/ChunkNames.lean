/-
Model of how ONE CHUNK's symbols get their final names: internal/linker/linker.go `renameSymbolsInChunk`
(both branches) together with the parts of internal/renamer/renamer.go it drives that Impl/Slots.lean and
Impl/Rename.lean do not cover: `MinifyRenamer.AccumulateSymbolUseCounts / AccumulateSymbolCount /
AllocateTopLevelSymbolSlots / NameForSymbol`, `NumberRenamer.NameForSymbol`, `ast.FollowSymbols`, and the
chunk-level inputs of `ComputeReservedNames`, `AddTopLevelSymbol`, `AssignNamesByScope`, `AssignNamesByFrequency`.

Representation (what the harness hands over, see harness/cmd/hinternal/k_chunknames.go):
* a symbol is a number: the hook numbers every `ast.Ref` the chunk can mention densely in the order
  (StableSourceIndex, InnerIndex); this numbering is monotone, so "sort by stable source index, then inner
  index" (stableRefArray.Less, StableSymbolCountArray.Less) and "sort the inner indices of one file" (sort.Ints
  in assignNamesInScope) are both the order of the numbers; `r.names[source][inner]` is one flat table;
* `CSym`: `Symbol.SlotNamespace()` (0 default, 1 label, 2 private, 3 mangled prop, 4 must-not-be-renamed),
  `OriginalName` (ASCII), the MustStartWithCapitalLetterForJSX flag, `Link`, `NamespaceAlias.NamespaceRef`,
  `NestedScopeSlot`;
* `File`: what the function reads of a file of `filesInOrder`; `Part.scopes` are `part.Scopes` given as paths
  from the module scope (`scope.Parent == nil` ⇔ the empty path; the test
  `scope.Parent != nil && scope.Parent.Parent != nil` ⇔ the path has two or more steps);
* `HStmt`: the import / export-star / export-from statements of a CommonJS-wrapped file (all parts, live or not),
  `ext` = `!ImportRecords[i].SourceIndex.IsValid()`.

Go panics (an index outside a table, `slots[4]`) and the endless recursion of FollowSymbols on a cyclic link
chain are `none` / `.panic`.  uint32 wrap-around of counts is ignored.  The goroutines of the two parallel
phases are run one after the other in file order (Props/C15ChunkNames.lean: the result does not depend on the
order in which the symbol-use maps are ranged over, nor on the order of `importsFromOtherChunks`).
-/
import EsbuildModel.Impl.Slots
import EsbuildModel.Impl.Rename
namespace EsbuildModel.ChunkNames
open Slots (Scope Name NSym Res)

structure CSym where
  ns : Nat
  name : Name
  jsx : Bool
  link : Option Nat
  alias : Option Nat
  slot : Option Nat

def toN (s : CSym) : NSym := ⟨s.ns, s.name, s.jsx⟩

/-- ast.FollowSymbols (the path compression it performs does not change any answer) -/
def follow (syms : List CSym) : Nat → Nat → Option Nat
  | 0, _ => none
  | fuel + 1, r =>
    match syms[r]? with
    | none => none
    | some s =>
      match s.link with
      | none => some r
      | some l => follow syms fuel l

/-- the loop `for symbol.NamespaceAlias != nil { ref = FollowSymbols(NamespaceAlias.NamespaceRef) }` of
AccumulateSymbolCount, started on a followed ref -/
def resolveAlias (syms : List CSym) (ffuel : Nat) : Nat → Nat → Option Nat
  | 0, _ => none
  | fuel + 1, r =>
    match syms[r]? with
    | none => none
    | some s =>
      match s.alias with
      | none => some r
      | some a =>
        match follow syms ffuel a with
        | none => none
        | some r' => resolveAlias syms ffuel fuel r'

inductive HStmt where
  | imp (ext : Bool) (nsRef : Nat) (dflt : Option Nat) (items : List Nat)
  | star (ext : Bool) (nsRef : Nat)
  | from_ (ext : Bool) (nsRef : Nat) (items : List Nat)

/-- the `switch s := stmt.Data.(type)` of the CommonJS branch: the refs handed to AddTopLevelSymbol, in order -/
def HStmt.refs : HStmt → List Nat
  | .imp ext n d items => if ext then n :: (d.toList ++ items) else []
  | .star ext n => if ext then [n] else []
  | .from_ ext n items => if ext then n :: items else []

structure Part where
  live : Bool
  declared : List (Nat × Bool)
  uses : List (Nat × Nat)
  scopes : List (List Nat)
  stmts : List HStmt

structure File where
  wrap : Nat
  wrapperRef : Nat
  usesExports : Bool
  exportsRef : Nat
  usesModule : Bool
  moduleRef : Nat
  slotCounts : List Nat
  module : Scope
  parts : List Part

structure Chunk where
  minify : Bool
  cjsNode : Bool
  bundling : Bool
  keepESM : Bool
  head : List Char
  tail : List Char
  syms : List CSym
  files : List File
  imports : List Nat

def Chunk.fol (c : Chunk) (r : Nat) : Option Nat := follow c.syms (c.syms.length + 1) r
def Chunk.nsyms (c : Chunk) : List NSym := c.syms.map toN

-- ------------------------------------------------------------------------------------------------
-- reserved names

/-- js_lexer.Keywords -/
def jsKeywords : List Name :=
  ["break", "case", "catch", "class", "const", "continue", "debugger", "default", "delete", "do", "else", "enum",
   "export", "extends", "false", "finally", "for", "function", "if", "import", "in", "instanceof", "new", "null",
   "return", "super", "switch", "this", "throw", "true", "try", "typeof", "var", "void", "while", "with"].map String.toList
/-- js_lexer.StrictModeReservedWords -/
def strictReserved : List Name :=
  ["implements", "interface", "let", "package", "private", "protected", "public", "static", "yield"].map String.toList

/-- `reservedNames["exports"] = 1 …` after ComputeReservedNames -/
def extraReserved (c : Chunk) : List Name :=
  (if c.cjsNode then ["exports".toList, "module".toList] else []) ++
  (if c.bundling then ["require".toList, "Promise".toList] else [])

/-- the keys of `reservedNames` in renameSymbolsInChunk -/
def reservedNames (c : Chunk) : Option (List Name) :=
  match Slots.reservedScopes c.nsyms (c.files.map (·.module)) with
  | none => none
  | some pinned => some (jsKeywords ++ strictReserved ++ pinned ++ extraReserved c)

-- ------------------------------------------------------------------------------------------------
-- NumberRenamer branch

/-- sort.Sort(sortedImportsFromOtherChunks) -/
def sortedImports (c : Chunk) : List Nat := Slots.sortNat c.imports

/-- the refs one file hands to AddTopLevelSymbol, in order -/
def fileTop (keepESM : Bool) (f : File) : List Nat :=
  if f.wrap = 1 then
    f.wrapperRef :: (if keepESM then f.parts.flatMap (fun p => p.stmts.flatMap HStmt.refs) else [])
  else
    (if f.wrap = 2 then [f.wrapperRef] else []) ++
      f.parts.flatMap (fun p => if p.live then (p.declared.filter (·.2)).map (·.1) else [])

/-- every ref handed to AddTopLevelSymbol, in order -/
def topRefs (c : Chunk) : List Nat := sortedImports c ++ c.files.flatMap (fileTop c.keepESM)

/-- the scopes of a live part from which AssignNamesByScope starts a traversal -/
def partScopes (module : Scope) (p : Part) : Option (List Scope) :=
  (p.scopes.filter (fun path => path.length ≤ 1)).mapM module.sub?

/-- `nestedScopes[sourceIndex]` after the filter of AssignNamesByScope -/
def fileScopes (f : File) : Option (List Scope) :=
  if f.wrap = 1 then some [f.module]
  else ((f.parts.filter (·.live)).mapM (partScopes f.module)).map List.flatten

mutual
/-- a scope as assignNamesInScope walks it: the sorted members, then the generated symbols, every ref followed -/
def resolveScope (f : Nat → Option Nat) : Scope → Option Scope
  | ⟨m, g, l, ch⟩ =>
    match (Slots.sortNat m ++ g).mapM f, resolveScopes f ch with
    | some refs, some ch' => some ⟨[], refs, l, ch'⟩
    | _, _ => none
def resolveScopes (f : Nat → Option Nat) : List Scope → Option (List Scope)
  | [] => some []
  | s :: rest =>
    match resolveScope f s, resolveScopes f rest with
    | some s', some rest' => some (s' :: rest')
    | _, _ => none
end

/-- the followed top-level refs and the followed nested scope trees of the chunk -/
def numberInputs (c : Chunk) : Option (List Nat × List Scope) :=
  match (topRefs c).mapM c.fol, c.files.mapM fileScopes with
  | some top, some scopes =>
    match resolveScopes c.fol scopes.flatten with
    | some scopes' => some (top, scopes')
    | none => none
  | _, _ => none

/-- the NumberRenamer branch: `r.names`, flattened -/
def numberNames (fuel : Nat) (c : Chunk) : Res (List Name) :=
  match reservedNames c, numberInputs c with
  | some reserved, some (top, scopes) => Slots.numberRenameWith fuel c.nsyms reserved top scopes
  | _, _ => .panic

/-- NumberRenamer.NameForSymbol -/
def numberNameFor (c : Chunk) (names : List Name) (ref : Nat) : Option Name :=
  match c.fol ref with
  | none => none
  | some r => Slots.nameForSymbol c.nsyms names r

-- ------------------------------------------------------------------------------------------------
-- MinifyRenamer branch

/-- `r.slots`: one table per slot namespace 0..3 -/
abbrev SlotTab := List (List Rename.Slot)
/-- a StableSymbolCountArray: (ref, count) -/
abbrev TopArr := List (Nat × Nat)

/-- `slot.count += count; if jsx { slot.needsCapitalForJSX = 1 }` -/
def addCount (sl : List Rename.Slot) (i cnt : Nat) (jsx : Bool) : Option (List Rename.Slot) :=
  match sl[i]? with
  | none => none
  | some s => some (sl.set i ⟨s.count + cnt, s.capital || jsx⟩)

/-- MinifyRenamer.AccumulateSymbolCount -/
def accumulate (syms : List CSym) (st : SlotTab × TopArr) (e : Nat × Nat) : Option (SlotTab × TopArr) :=
  match follow syms (syms.length + 1) e.1 with
  | none => none
  | some r0 =>
    match resolveAlias syms (syms.length + 1) (syms.length + 1) r0 with
    | none => none
    | some r =>
      match syms[r]? with
      | none => none
      | some sym =>
        if sym.ns = 4 then some st
        else
          match sym.slot with
          | some i =>
            match st.1[sym.ns]? with
            | none => none
            | some sl =>
              match addCount sl i e.2 sym.jsx with
              | none => none
              | some sl' => some (st.1.set sym.ns sl', st.2)
          | none => some (st.1, st.2 ++ [(r, e.2)])

def accumulateAll (syms : List CSym) : SlotTab × TopArr → List (Nat × Nat) → Option (SlotTab × TopArr)
  | st, [] => some st
  | st, e :: es =>
    match accumulate syms st e with
    | none => none
    | some st' => accumulateAll syms st' es

/-- the calls of AccumulateSymbolCount the goroutine of one file makes, as (ref, count); `p.uses` is the Go map
`part.SymbolUses` in some order -/
def fileCalls (f : File) : List (Nat × Nat) :=
  (if f.usesExports then [(f.exportsRef, 1)] else []) ++ (if f.usesModule then [(f.moduleRef, 1)] else []) ++
  f.parts.flatMap (fun p => if p.live then p.uses ++ p.declared.map (fun d => (d.1, 1)) else [])

/-- StableSymbolCountArray.Less (as ≤): count descending, then the ref -/
def countLe (a b : Nat × Nat) : Bool := a.2 > b.2 || (a.2 == b.2 && a.1 ≤ b.1)

/-- the parallel phase, one file after the other; `sort.Sort(topLevelSymbols)` per file -/
def accFiles (syms : List CSym) : SlotTab → List File → Option (SlotTab × List TopArr)
  | tab, [] => some (tab, [])
  | tab, f :: fs =>
    match accumulateAll syms (tab, []) (fileCalls f) with
    | none => none
    | some (tab', arr) =>
      match accFiles syms tab' fs with
      | none => none
      | some (tab'', arrs) => some (tab'', arr.mergeSort countLe :: arrs)

/-- one iteration of AllocateTopLevelSymbolSlots; `m` is `topLevelSymbolToSlot` -/
def allocOne (syms : List CSym) (st : SlotTab × List (Nat × Nat)) (e : Nat × Nat) : Option (SlotTab × List (Nat × Nat)) :=
  match syms[e.1]? with
  | none => none
  | some sym =>
    match st.1[sym.ns]? with
    | none => none
    | some sl =>
      match st.2.lookup e.1 with
      | some i => (addCount sl i e.2 sym.jsx).map (fun sl' => (st.1.set sym.ns sl', st.2))
      | none => some (st.1.set sym.ns (sl ++ [⟨e.2, sym.jsx⟩]), (e.1, sl.length) :: st.2)

def allocAll (syms : List CSym) : SlotTab × List (Nat × Nat) → TopArr → Option (SlotTab × List (Nat × Nat))
  | st, [] => some st
  | st, e :: es =>
    match allocOne syms st e with
    | none => none
    | some st' => allocAll syms st' es

/-- `firstTopLevelSlots`: UnionMax over the files' NestedScopeSlotCounts (`ast.SlotCounts` is a `[4]uint32`: the wire
parser only accepts exactly four counts per file, and only namespaces 0..3 are ever read) -/
def firstTopLevelSlots (files : List File) : Slots.Counts :=
  files.foldl (fun acc f => Slots.unionMax acc (fun k => f.slotCounts.getD k 0)) Slots.zero

/-- NewMinifyRenamer -/
def initSlots (first : Slots.Counts) : SlotTab :=
  (List.range 4).map (fun ns => List.replicate (first ns) ⟨0, false⟩)

/-- everything up to and including AllocateTopLevelSymbolSlots: the slot tables and `topLevelSymbolToSlot` -/
def minifySlots (c : Chunk) : Option (SlotTab × List (Nat × Nat)) :=
  match accFiles c.syms (initSlots (firstTopLevelSlots c.files)) c.files with
  | none => none
  | some (tab, arrs) =>
    match accumulateAll c.syms (tab, []) ((sortedImports c).map (fun r => (r, 1))) with
    | none => none
    | some (tab', imps) => allocAll c.syms (tab', []) (imps ++ arrs.flatten)

/-- AssignNamesByFrequency on every namespace: (slot index, name) per namespace.  Labels avoid `js_lexer.Keywords`
only, ordinary symbols the whole reserved set. -/
def assignTabs (alpha : Rename.Alphabet) (reserved : List Name) (fuel : Nat) : Nat → SlotTab → Option (List (List (Nat × Name)))
  | _, [] => some []
  | ns, sl :: rest =>
    match Rename.assign alpha ns (if ns = 1 then jsKeywords else reserved) fuel sl, assignTabs alpha reserved fuel (ns + 1) rest with
    | some t, some ts => some (t :: ts)
    | _, _ => none

structure Minified where
  toSlot : List (Nat × Nat)
  tabs : List (List (Nat × Name))

/-- the MinifyRenamer branch -/
def minifyNames (fuel : Nat) (c : Chunk) : Res Minified :=
  match reservedNames c, minifySlots c with
  | some reserved, some (tab, m) =>
    match assignTabs ⟨c.head, c.tail⟩ reserved fuel 0 tab with
    | some tabs => .ok ⟨m, tabs⟩
    | none => .outOfFuel
  | _, _ => .panic

/-- the slot MinifyRenamer.NameForSymbol reads for a followed ref: its NestedScopeSlot, else its entry in
`topLevelSymbolToSlot` -/
def slotOf (sym : CSym) (toSlot : List (Nat × Nat)) (r : Nat) : Option Nat :=
  match sym.slot with
  | some i => some i
  | none => toSlot.lookup r

/-- MinifyRenamer.NameForSymbol -/
def minifyNameFor (c : Chunk) (mf : Minified) (ref : Nat) : Option Name :=
  match c.fol ref with
  | none => none
  | some r =>
    match c.syms[r]? with
    | none => none
    | some sym =>
      if sym.ns = 4 then some sym.name
      else
        match slotOf sym mf.toSlot r with
        | none => some sym.name
        | some i =>
          match mf.tabs[sym.ns]? with
          | none => none
          | some t => t.lookup i

-- ------------------------------------------------------------------------------------------------
-- the whole function: the renamer it returns, asked for every symbol

inductive Renamer where
  | number (names : List Name)
  | minify (mf : Minified)

/-- renameSymbolsInChunk -/
def renameSymbolsInChunk (fuel : Nat) (c : Chunk) : Res Renamer :=
  if c.minify then
    match minifyNames fuel c with
    | .ok mf => .ok (.minify mf)
    | .panic => .panic
    | .outOfFuel => .outOfFuel
  else
    match numberNames fuel c with
    | .ok names => .ok (.number names)
    | .panic => .panic
    | .outOfFuel => .outOfFuel

/-- Renamer.NameForSymbol -/
def nameFor (c : Chunk) : Renamer → Nat → Option Name
  | .number names, ref => numberNameFor c names ref
  | .minify mf, ref => minifyNameFor c mf ref

end EsbuildModel.ChunkNames
