import EsbuildModel.Impl.Quote
import EsbuildModel.Impl.IdentLex
import EsbuildModel.Impl.NumPrint
/-
Model of how esbuild PRINTS the members of object literals and classes (internal/js_printer/js_printer.go):

  * `printProperty` (the whole function): spread, the late removal of the computed flag under MinifySyntax (numbers; strings
    other than `__proto__` / `constructor` / `prototype`; `EInlinedEnum` keys), `static`, `get` / `set` / `accessor`, `async` / `*`,
    the forced brackets of `numericKeyMustBeComputed` (sign bit; `Infinity` under MinifySyntax or inside `with`; `NaN` inside `with`), the computed branch, the `switch` over
    the key (`EPrivateIdentifier`, `ENameOfSymbol` = mangled property, `EString`, default = `printExpr`), the shorthand decisions
    (`canUseShorthandProperty`, `EIdentifier` / `EImportIdentifier` values, `__proto__`), method bodies, `: value`, `= initializer`;
  * `printClass` (no `extends`, no decorators): indentation, static blocks, the semicolons after fields
    (`printSemicolonAfterStatement` / `printSemicolonIfNeeded` / `needsSemicolon`);
  * `printExpr` for `EObject` (single-line and multi-line layout), `EIdentifier`, `EImportIdentifier` (namespace alias, inlined
    constant), `ENumber` = `printNumber` (NaN / Infinity, also inside `with`), `EBigInt`, `EString` (`printQuotedUTF16` with the choice
    of the quote character), `ENameOfSymbol`, `EInlinedEnum`, `EFunction` with an empty body (`printFn`, `printBlock`);
  * `printSpace`, `printNewline`, `printIndent`, `printSpaceBeforeIdentifier` (with `endsWithBracedUnicodeEscape`).

The model is in two layers.  `propPieces` / `objectPieces` / `classPieces` transcribe the DECISIONS: they return the sequence of
print calls (`Piece`).  `render` executes the calls on the output buffer (code points; `Quote.utf8Encode` gives the bytes) with the
existing models of `printIdentifier(UTF16)` (IdentLex), `printUnquotedUTF16` (Quote) and `printNonNegativeFloat` (NumPrint).
A Go panic (an identifier that cannot be encoded, an `EPrivateIdentifier` in expression position, an out-of-range index in the
number printer) is `none`.

Not modelled: comments (`printExprCommentsAtLoc`, `willPrintExprCommentsAtLoc` = false), source mappings, `LineLimit`,
decorators, `extends`, `HasPropertyKeyComment`, `lateConstantFoldUnaryOrBinaryOrIfExpr` on keys other than the modelled forms (on
those it is the identity), `ImportItemMissing`.  Function values have no parameters and an empty body; any other value is an
`EIdentifier` or a small non-negative `ENumber` (`Val.raw`: `printSpaceBeforeIdentifier` + its digits).
-/
namespace EsbuildModel.PrintKey
open EsbuildModel.IdentLex (Tables)

/-- `p.options` and the printer state that the modelled code reads -/
structure Opts where
  minifySyntax : Bool
  minifyWhitespace : Bool
  minifyIdentifiers : Bool        -- only read by the `EInlinedEnum` comment
  asciiOnly : Bool
  noObjExt : Bool                 -- UnsupportedFeatures.Has(compat.ObjectExtensions)
  noUE : Bool                     -- UnsupportedFeatures.Has(compat.UnicodeEscapes)
  noTemplate : Bool               -- UnsupportedFeatures.Has(compat.TemplateLiteral)
  noInlineScript : Bool           -- UnsupportedFeatures.Has(compat.InlineScript)
  inWith : Bool                   -- p.withNesting != 0
  deriving Repr, DecidableEq

/-- an `ENumber` value: what the printer can learn from the float64 (see Impl/NumPrint.lean for `intVal` / `text` of |x|) -/
inductive Num
  | nan (signbit : Bool)
  | inf (neg : Bool)
  | fin (neg : Bool) (intVal : Option Nat) (text : List Char)
  deriving Repr, DecidableEq

/-- `math.Signbit(value)` -/
def Num.signbit : Num → Bool
  | .nan s => s
  | .inf n => n
  | .fin n _ _ => n

/-- `property.Key.Data` (names are what the renamer / `mangledPropName` answer) -/
inductive KeyE
  | str (units : List Nat)                       -- EString
  | num (n : Num)                                -- ENumber
  | bigint (text : List Nat)                     -- EBigInt{Value}
  | priv (name : List Nat)                       -- EPrivateIdentifier
  | mangled (name : List Nat)                    -- ENameOfSymbol
  | ident (name : List Nat)                      -- EIdentifier
  | enumStr (units : List Nat) (comment : List Nat)   -- EInlinedEnum{Value: EString}
  | enumNum (n : Num) (comment : List Nat)            -- EInlinedEnum{Value: ENumber}
  deriving Repr, DecidableEq

/-- `property.ValueOrNil` -/
inductive Val
  | none
  | ident (name : List Nat)                      -- EIdentifier
  /-- EImportIdentifier after FollowSymbols: the symbol's name, `NamespaceAlias` (namespace name, alias) and an inlined
  constant `ConstValues[ref]` (a number below 1000) -/
  | imp (name : List Nat) (nsAlias : Option (List Nat × List Nat)) (const : Option Nat)
  | fn (isAsync isGenerator : Bool)              -- EFunction, no name, no parameters, empty body
  | raw (text : List Nat)                        -- a small non-negative ENumber written with these digits
  deriving Repr, DecidableEq

/-- `property.InitializerOrNil` when present: an EIdentifier or a small non-negative ENumber -/
inductive Atom
  | ident (name : List Nat)
  | num (text : List Nat)
  deriving Repr, DecidableEq

inductive Kind
  | field | method | getter | setter | autoAccessor | spread | declareOrAbstract | staticBlock
  deriving Repr, DecidableEq

/-- `PropertyKind.IsMethodDefinition` -/
def Kind.isMethodDef : Kind → Bool
  | .method | .getter | .setter => true
  | _ => false

/-- `js_ast.Property` -/
structure Property where
  kind : Kind
  computed : Bool            -- PropertyIsComputed
  isStatic : Bool            -- PropertyIsStatic
  wasShorthand : Bool        -- PropertyWasShorthand
  preferQuoted : Bool        -- PropertyPreferQuotedKey
  key : KeyE
  value : Val
  init : Option Atom         -- InitializerOrNil
  deriving Repr, DecidableEq

/-- one print call -/
inductive Piece
  | lit (s : String)                             -- p.print("…") with a fixed ASCII text
  | sp                                           -- printSpace
  | nl                                           -- printNewline
  | ind (k : Nat)                                -- printIndent with p.options.Indent = k
  | sbi                                          -- printSpaceBeforeIdentifier
  | identU (units : List Nat)                    -- printIdentifierUTF16
  | identN (name : List Nat)                     -- printIdentifier
  | quote (units : List Nat) (allowBacktick : Bool)   -- printQuotedUTF16(units, flags)
  | numText (intVal : Option Nat) (text : List Char)  -- printNonNegativeFloat
  | raw (text : List Nat)                        -- p.print(text): the digits of a small number
  | bigint (text : List Nat)                     -- p.print(e.Value); p.print("n")
  | comment (text : List Nat)                    -- p.print(" /* "); p.print(e.Comment); p.print(" */")
  | panic                                        -- a Go panic
  deriving Repr, DecidableEq

def str (s : String) : List Nat := s.toList.map Char.toNat

/-! ### the output buffer -/

def isHexByte (c : Nat) : Bool := (48 ≤ c && c ≤ 57) || (65 ≤ c && c ≤ 70) || (97 ≤ c && c ≤ 102)

/-- `endsWithBracedUnicodeEscape(js)` on the reversed buffer: `}` hexdigits* `{` `u` `\`, with at least one digit -/
def endsWithBracedUnicodeEscapeRev : List Nat → Bool
  | 125 :: r =>
    let ds := r.takeWhile isHexByte
    match r.dropWhile isHexByte with
    | 123 :: 117 :: 92 :: _ => !ds.isEmpty           -- `i < len(js)-2`: something between `{` and `}`
    | _ => false
  | _ => false

/-- the test of `printSpaceBeforeIdentifier` (`p.prevRegExpEnd == len(p.js)` is never true here: no regular expression is
printed by the modelled code) -/
def needSpace (T : Tables) (js : List Nat) : Bool :=
  IdentLex.needSpace T js.getLast? false || (js.getLast? == some 125 && endsWithBracedUnicodeEscapeRev js.reverse)

/-- the loop of `printQuotedUTF16` over the code units: (singleCost, doubleCost, backtickCost) -/
def quoteCosts (minifySyntax : Bool) : List Nat → Int × Int × Int
  | [] => (0, 0, 0)
  | c :: rest =>
    let (s, d, b) := quoteCosts minifySyntax rest
    if c = 10 then (s, d, if minifySyntax then b - 1 else b)
    else if c = 39 then (s + 1, d, b)
    else if c = 34 then (s, d + 1, b)
    else if c = 96 then (s, d, b + 1)
    else if c = 36 then (s, d, if rest.head? = some 123 then b + 1 else b)
    else (s, d, b)

/-- the quote character `printQuotedUTF16` chooses -/
def quoteChar (o : Opts) (units : List Nat) (allowBacktick : Bool) : Nat :=
  let allow := allowBacktick && !o.noTemplate
  let (s, d, b) := quoteCosts o.minifySyntax units
  if d > s then (if s > b && allow then 96 else 39)
  else if d > b && allow then 96 else 34

def quoteOpts (o : Opts) : Quote.Opts :=
  { asciiOnly := o.asciiOnly, noUnicodeEscapes := o.noUE, noInlineScript := o.noInlineScript, lineLimit := 0, noWrap := false }

/-- `printQuotedUTF16(units, flags)` -/
def printQuoted (o : Opts) (units : List Nat) (allowBacktick : Bool) : List Nat :=
  let c := quoteChar o units allowBacktick
  c :: (Quote.printUnquoted (quoteOpts o) c 0 units ++ [c])

/-- executes one print call on the buffer -/
def renderPiece (T : Tables) (o : Opts) (js : List Nat) : Piece → Option (List Nat)
  | .lit s => some (js ++ str s)
  | .sp => some (if o.minifyWhitespace then js else js ++ [32])
  | .nl => some (if o.minifyWhitespace then js else js ++ [10])
  | .ind k => some (if o.minifyWhitespace then js else js ++ List.replicate (2 * k) 32)
  | .sbi => some (if needSpace T js then js ++ [32] else js)
  | .identU u => (IdentLex.printIdentifierUTF16 o.asciiOnly o.noUE u).map (js ++ ·)
  | .identN n => (IdentLex.printIdentifier o.asciiOnly o.noUE n).map (js ++ ·)
  | .quote u ab => some (js ++ printQuoted o u ab)
  | .numText iv t => (NumPrint.printNonNegativeFloat o.minifyWhitespace iv t).map fun r => js ++ r.1.map Char.toNat
  | .raw t => some (js ++ t)
  | .bigint t => some (js ++ t ++ [110])
  | .comment c => some (js ++ str " /* " ++ c ++ str " */")
  | .panic => none

def render (T : Tables) (o : Opts) : List Nat → List Piece → Option (List Nat)
  | js, [] => some js
  | js, p :: rest =>
    match renderPiece T o js p with
    | some js' => render T o js' rest
    | none => none

/-! ### the decisions -/

def LLowest : Nat := 0
def LComma : Nat := 1
def LMultiply : Nat := 16
def LPrefix : Nat := 18

def paren (wrap : Bool) (ps : List Piece) : List Piece :=
  if wrap then .lit "(" :: (ps ++ [.lit ")"]) else ps

/-- `printNumber(value, level)`.  `printSpaceBeforeOperator(UnOpNeg)` prints nothing here: it only acts when an operator was the
last thing printed (`p.prevOpEnd == len(p.js)`), and a number of the modelled code is printed after `[`, `:`, `=` or white space -/
def numberPieces (o : Opts) (n : Num) (level : Nat) : List Piece :=
  match n with
  | .nan _ =>
    .sbi :: (if o.inWith then paren (decide (level ≥ LMultiply)) [.lit (if o.minifyWhitespace then "0/0" else "0 / 0")]
             else [.lit "NaN"])
  | .inf neg =>
    let wrap := ((o.minifySyntax || o.inWith) && decide (level ≥ LMultiply)) || (neg && decide (level ≥ LPrefix))
    paren wrap ((if neg then [.lit "-"] else [.sbi]) ++
      [if !o.minifySyntax && !o.inWith then .lit "Infinity" else if o.minifyWhitespace then .lit "1/0" else .lit "1 / 0"])
  | .fin neg iv t =>
    if !neg then [.sbi, .numText iv t]
    else if level ≥ LPrefix then [.lit "(-", .numText iv t, .lit ")"]
    else [.lit "-", .numText iv t]

/-- helpers.StringToUTF16 on a Go string given as code points -/
def toUTF16 (name : List Nat) : List Nat := name.flatMap fun c =>
  if c ≤ 0xFFFF then [c] else [0xD800 + (c - 0x10000) / 1024 % 1024, 0xDC00 + (c - 0x10000) % 1024]

/-- `printFn(fn)` for no parameters and an empty body at indentation level `k`: `printFnArgs`, `printSpace`, `printBlock` -/
def fnPieces (k : Nat) : List Piece := [.lit "(", .lit ")", .sp, .lit "{", .nl, .ind k, .lit "}"]

/-- `printExpr(key, level, …)` for the key forms -/
def keyExprPieces (o : Opts) (k : KeyE) (level : Nat) : List Piece :=
  match k with
  | .str u => [.quote u true]                                    -- EString: flags | printQuotedAllowBacktick
  | .num n => numberPieces o n level
  | .bigint t => [.sbi, .bigint t]
  | .priv _ => [.panic]                                          -- "Unexpected expression of type *js_ast.EPrivateIdentifier"
  | .mangled name => [.quote (toUTF16 name) true]                -- ENameOfSymbol: printQuotedUTF8(name, printQuotedAllowBacktick)
  | .ident name => [.sbi, .identN name]
  | .enumStr u c =>
    .quote u true :: (if !o.minifyWhitespace && !o.minifyIdentifiers then [.comment c] else [])
  | .enumNum n c =>
    numberPieces o n level ++ (if !o.minifyWhitespace && !o.minifyIdentifiers then [.comment c] else [])

/-- `printExpr(value, LComma, 0)` for the value forms; `k` = p.options.Indent -/
def valPieces (T : Tables) (o : Opts) (k : Nat) : Val → List Piece
  | .none => []
  | .ident name => [.sbi, .identN name]
  | .imp name ns const =>
    match ns with
    | some (nsName, alias) =>
      .sbi :: .identN nsName ::
        (if IdentLex.canPrintIdentifier T o.asciiOnly o.noUE alias then [.lit ".", .identN alias]
         else [.lit "[", .quote (toUTF16 alias) true, .lit "]"])
    | none =>
      match const with
      | some c => [.sbi, .numText (some c) []]                    -- printExpr(ConstValueToExpr(value)): a number below 1000
      | none => [.sbi, .identN name]
  | .fn a g =>
    .sbi :: ((if a then [.lit "async "] else []) ++ .lit "function" :: ((if g then [.lit "*", .sp] else []) ++ fnPieces k))
  | .raw t => [.sbi, .raw t]

def initPieces : Option Atom → List Piece
  | none => []
  | some (.ident name) => [.sp, .lit "=", .sp, .sbi, .identN name]
  | some (.num t) => [.sp, .lit "=", .sp, .sbi, .raw t]

def isSpecialName (u : List Nat) : Bool := u == str "__proto__" || u == str "constructor" || u == str "prototype"

/-- the block `if p.options.MinifySyntax && property.Flags.Has(PropertyIsComputed)`: the key and the computed flag afterwards.
`lateConstantFoldUnaryOrBinaryOrIfExpr` is the identity on the modelled key forms -/
def foldKey (o : Opts) (p : Property) : KeyE × Bool :=
  if o.minifySyntax && p.computed then
    let k := match p.key with
      | .enumStr u _ => KeyE.str u
      | .enumNum n _ => KeyE.num n
      | k => k
    match k with
    | .num _ => (k, false)
    | .str u => (k, isSpecialName u)
    | _ => (k, true)
  else (p.key, p.computed)

/-- `canUseShorthandProperty(key, name, flags)`; `name` is a valid Unicode string, so comparing WTF-8 bytes is comparing
code points -/
def canUseShorthand (u name : List Nat) (wasShorthand : Bool) : Bool :=
  IdentLex.joinUnits u == name && (name != str "__proto__" || wasShorthand)

/-- the condition under which the `EString` key is printed as a shorthand property -/
def strShorthand (o : Opts) (u : List Nat) (p : Property) : Bool :=
  !o.noObjExt && (match p.value with
    | .ident name => canUseShorthand u name p.wasShorthand
    | .imp name ns const => ns.isNone && canUseShorthand u name p.wasShorthand && const.isNone
    | _ => false)

/-- the same for a mangled property -/
def mangledShorthand (o : Opts) (name : List Nat) (p : Property) : Bool :=
  !o.noObjExt && (match p.value with
    | .ident n => name == n
    | .imp n ns const => ns.isNone && name == n && const.isNone
    | _ => false)

/-- what follows the key: a method body, or `: value` and `= initializer` -/
def tailPieces (T : Tables) (o : Opts) (k : Nat) (p : Property) : List Piece :=
  match p.value with
  | .fn a g =>
    if p.kind.isMethodDef then fnPieces k
    else .lit ":" :: .sp :: (valPieces T o k (.fn a g) ++ initPieces p.init)
  | .none => initPieces p.init
  | v => .lit ":" :: .sp :: (valPieces T o k v ++ initPieces p.init)

/-- the modifiers printed before the key -/
def prefixPieces (p : Property) : List Piece :=
  (if p.isStatic then [.sbi, .lit "static", .sp] else []) ++
  (match p.kind with
   | .getter => [.sbi, .lit "get", .sp]
   | .setter => [.sbi, .lit "set", .sp]
   | .autoAccessor => [.sbi, .lit "accessor", .sp]
   | _ => []) ++
  (match p.value with
   | .fn a g => if p.kind.isMethodDef then (if a then [.sbi, .lit "async", .sp] else []) ++ (if g then [.lit "*"] else []) else []
   | _ => [])

/-- `numericKeyMustBeComputed(value)`: numbers that `printNumber` prints as an expression (`-1`; `1 / 0` and `0 / 0` when
minifying or inside `with`) can only be used as a property key inside brackets -/
def numericKeyMustBeComputed (o : Opts) (n : Num) : Bool :=
  n.signbit || (n = .inf false && (o.minifySyntax || o.inWith)) ||
  ((match n with | .nan _ => true | _ => false) && o.inWith)

/-- `isComputed` after "Automatically print numbers that would cause a syntax error as computed properties" -/
def isComputed (o : Opts) (p : Property) : Bool :=
  (foldKey o p).2 || (match (foldKey o p).1 with
    | .num n => numericKeyMustBeComputed o n
    | _ => false)

/-- what `printProperty` prints for the KEY (between the modifiers and the method body / `: value` / `= initializer`), and
whether the property ends there as a shorthand property (the `return`s inside the `switch`) -/
def keyPieces (T : Tables) (o : Opts) (p : Property) : List Piece × Bool :=
  let key := (foldKey o p).1
  if isComputed o p then (.lit "[" :: (keyExprPieces o key LComma ++ [.lit "]"]), false)
  else match key with
    | .priv name => ([.identN name], false)
    | .mangled name =>
      if IdentLex.canPrintIdentifier T o.asciiOnly o.noUE name then ([.sbi, .identN name], mangledShorthand o name p)
      else ([.quote (toUTF16 name) false], false)
    | .str u =>
      if !p.preferQuoted && IdentLex.canPrintIdentifierUTF16 T o.asciiOnly o.noUE u then
        if strShorthand o u p then ([.sbi, .identU u], true)
        else if p.wasShorthand && !o.noObjExt && u == str "__proto__" then ([.sbi, .lit "[", .quote u false, .lit "]"], false)
        else ([.sbi, .identU u], false)
      else ([.quote u false], false)
    | key => (keyExprPieces o key LLowest, false)

/-- `printProperty(property)` with `p.options.Indent = k` -/
def propPieces (T : Tables) (o : Opts) (k : Nat) (p : Property) : List Piece :=
  if p.kind = .spread then
    -- printExpr(property.ValueOrNil, LComma, 0); a nil value: panic("Unexpected expression of type <nil>")
    .lit "..." :: (if p.value = .none then [.panic] else valPieces T o k p.value)
  else
    prefixPieces p ++ (keyPieces T o p).1 ++ (if (keyPieces T o p).2 then initPieces p.init else tailPieces T o k p)

/-- `printExpr` for `EObject{Properties, IsSingleLine}` that is not at the start of a statement or arrow body; `k` = Indent -/
def objectPieces (T : Tables) (o : Opts) (k : Nat) (singleLine : Bool) (props : List Property) : List Piece :=
  let multi := !props.isEmpty && !singleLine
  let k' := if multi then k + 1 else k
  let rec items (first : Bool) : List Property → List Piece
    | [] => []
    | p :: rest =>
      (if first then [] else [.lit ","]) ++ (if multi then [.nl, .ind k'] else [.sp]) ++ propPieces T o k' p ++ items false rest
  .lit "{" :: (items true props ++
    (if multi then [.nl, .ind k] else if !props.isEmpty then [.sp] else []) ++ [.lit "}"])

/-- the member loop of `printClass`; `needs` = p.needsSemicolon, `k` = Indent inside the body -/
def classItems (T : Tables) (o : Opts) (k : Nat) : Bool → List Property → List Piece
  | _, [] => []
  | needs, p :: rest =>
    (if needs then [.lit ";"] else []) ++ .ind k ::
    (if p.kind = .staticBlock then
       [.lit "static", .sp, .lit "{", .nl, .ind k, .lit "}", .nl] ++ classItems T o k false rest
     else
       propPieces T o k p ++
       (if p.value = .none then
          (if !o.minifyWhitespace then .lit ";\n" :: classItems T o k false rest else classItems T o k true rest)
        else .nl :: classItems T o k false rest))

/-- `printExpr` for `EClass` without name, `extends` and decorators, not at the start of a statement: `class`, `printClass` -/
def classPieces (T : Tables) (o : Opts) (k : Nat) (members : List Property) : List Piece :=
  .sbi :: .lit "class" :: .sp :: .lit "{" :: .nl :: (classItems T o (k + 1) false members ++ [.ind k, .lit "}"])

def objectText (T : Tables) (o : Opts) (k : Nat) (singleLine : Bool) (props : List Property) : Option (List Nat) :=
  render T o [] (objectPieces T o k singleLine props)

def classText (T : Tables) (o : Opts) (k : Nat) (members : List Property) : Option (List Nat) :=
  render T o [] (classPieces T o k members)

end EsbuildModel.PrintKey
