/-
Line protocol of kernel `chunknames` (see harness/cmd/hinternal/k_chunknames.go).

  chunknames <flags> <head> <tail> <syms> <files> <imports>

`flags` = minify,cjsNode,bundling,keepESM (0/1); `head` / `tail` the alphabets of the name minifier as text;
`syms`, `files` one comma separated list of naturals each (lists are length-prefixed, names are length-prefixed
code point lists, optional values `0` or `1 v`); `imports` a list of refs ("-" = none).
Answer: the final name of every symbol in hex, comma separated (`!` = NameForSymbol panics), then `|hyp=…`:
`ok` when the chunk meets the decidable hypotheses of Props/C15ChunkNames.lean (`wf`: hoisted copies,
`slots`: nested slots below the first top-level slot, `imp`: a pinned cross-chunk import has a reserved name);
the harness always expects `ok`, so a real build that leaves the hypotheses shows up as a disagreement.
-/
import EsbuildModel.Impl.ChunkNames
namespace EsbuildModel.ChunkNames
open Slots (Scope Name Res)

abbrev P (α : Type) := List Nat → Option (α × List Nat)

def pNat : P Nat
  | x :: r => some (x, r)
  | [] => none

def pBool : P Bool
  | 0 :: r => some (false, r)
  | 1 :: r => some (true, r)
  | _ => none

def pOpt : P (Option Nat)
  | 0 :: r => some (none, r)
  | 1 :: a :: r => some (some a, r)
  | _ => none

def pMany {α : Type} (p : P α) : Nat → P (List α)
  | 0, r => some ([], r)
  | n + 1, r =>
    match p r with
    | none => none
    | some (a, r') =>
      match pMany p n r' with
      | none => none
      | some (as, r'') => some (a :: as, r'')

def pList {α : Type} (p : P α) : P (List α)
  | n :: r => pMany p n r
  | [] => none

def pName : P Name := fun r => do
  let (cps, r) ← pList pNat r
  if cps.all (· < 128) then some (cps.map Char.ofNat, r) else none

def pSym : P CSym := fun r => do
  let (ns, r) ← pNat r
  let (jsx, r) ← pBool r
  let (name, r) ← pName r
  let (link, r) ← pOpt r
  let (alias, r) ← pOpt r
  let (slot, r) ← pOpt r
  if ns > 4 then none else some ({ ns, name, jsx, link, alias, slot }, r)

/-- a scope: members, generated, label, children (the fuel bounds the depth) -/
def pScope : Nat → P Scope
  | 0, _ => none
  | fuel + 1, r => do
    let (m, r) ← pList pNat r
    let (g, r) ← pList pNat r
    let (l, r) ← pOpt r
    let (ch, r) ← pList (pScope fuel) r
    some (⟨m, g, l, ch⟩, r)

def pStmt : P HStmt := fun r => do
  let (kind, r) ← pNat r
  let (ext, r) ← pBool r
  let (n, r) ← pNat r
  let (d, r) ← pOpt r
  let (items, r) ← pList pNat r
  match kind with
  | 0 => some (.imp ext n d items, r)
  | 1 => some (.star ext n, r)
  | 2 => some (.from_ ext n items, r)
  | _ => none

def pPair {α β : Type} (p : P α) (q : P β) : P (α × β) := fun r => do
  let (a, r) ← p r
  let (b, r) ← q r
  some ((a, b), r)

def pPart : P Part := fun r => do
  let (live, r) ← pBool r
  let (declared, r) ← pList (pPair pNat pBool) r
  let (uses, r) ← pList (pPair pNat pNat) r
  let (scopes, r) ← pList (pList pNat) r
  let (stmts, r) ← pList pStmt r
  some ({ live, declared, uses, scopes, stmts }, r)

def pFile (fuel : Nat) : P File := fun r => do
  let (wrap, r) ← pNat r
  let (wrapperRef, r) ← pNat r
  let (usesExports, r) ← pBool r
  let (exportsRef, r) ← pNat r
  let (usesModule, r) ← pBool r
  let (moduleRef, r) ← pNat r
  let (slotCounts, r) ← pMany pNat 4 r
  let (module, r) ← pScope fuel r
  let (parts, r) ← pList pPart r
  some ({ wrap, wrapperRef, usesExports, exportsRef, usesModule, moduleRef, slotCounts, module, parts }, r)

def parseAll {α : Type} (p : P α) (s : String) : Option α :=
  match Wire.parseNatList s with
  | none => none
  | some l =>
    match p l with
    | some (a, []) => some a
    | _ => none

def parseChunk (flags head tail syms files imports : String) : Option Chunk := do
  let fl ← Wire.parseNatList flags
  let (minify, cjsNode, bundling, keepESM) ←
    match fl.mapM (fun x => if x = 0 then some false else if x = 1 then some true else none) with
    | some [a, b, c, d] => some (a, b, c, d)
    | _ => none
  let syms ← parseAll (pList pSym) syms
  let files ← parseAll (pList (pFile (files.length + 2))) files
  let imports ← Wire.parseNatList imports
  if head.isEmpty || tail.isEmpty then none
  else some { minify, cjsNode, bundling, keepESM, head := head.toList, tail := tail.toList, syms, files, imports }

-- ------------------------------------------------------------------------------------------------
-- decidable hypotheses of the theorems

mutual
def wfScopeB (d : Scope → List Nat) (ctx : List Nat) : Scope → Bool
  | ⟨m, g, l, ch⟩ => wfListB d (ctx ++ d ⟨m, g, l, ch⟩) ch
def wfListB (d : Scope → List Nat) (ctx : List Nat) : List Scope → Bool
  | [] => true
  | c :: cs =>
    wfScopeB d ctx c && wfListB d ctx cs &&
      (c.all d).all (fun s => !(Slots.allList d cs).contains s || ctx.contains s)
end

/-- `WFList declB top scopes` for the followed inputs of the number renamer -/
def hypWF (c : Chunk) : Bool :=
  match numberInputs c with
  | some (top, scopes) => wfListB Slots.declB top scopes
  | none => true

/-- every renameable symbol declared in a scope tree of the chunk that has a nested slot has one below
`firstTopLevelSlots` of its namespace -/
def hypSlots (c : Chunk) : Bool :=
  let first := firstTopLevelSlots c.files
  (Slots.allList Slots.declA (c.files.map (·.module))).all (fun r =>
    match c.syms[r]? with
    | some sym =>
      (match sym.slot with
       | some i => sym.ns = 4 || decide (i < first sym.ns)
       | none => true)
    | none => true)

/-- a cross-chunk import that must keep its name has a reserved name -/
def hypImports (c : Chunk) : Bool :=
  match reservedNames c with
  | none => true
  | some reserved =>
    c.imports.all (fun i =>
      match c.fol i with
      | some r =>
        (match c.syms[r]? with
         | some sym => sym.ns != 4 || reserved.contains sym.name
         | none => true)
      | none => true)

def hypText (c : Chunk) : String :=
  let bad := (if hypWF c then [] else ["wf"]) ++ (if c.minify && !hypSlots c then ["slots"] else []) ++
    (if hypImports c then [] else ["imp"])
  if bad.isEmpty then "ok" else "+".intercalate bad

def driver (args : List String) : String :=
  match args with
  | [flags, head, tail, syms, files, imports] =>
    match parseChunk flags head tail syms files imports with
    | none => "bad-op"
    | some c =>
      match renameSymbolsInChunk 1000000 c with
      | .panic => "PANIC"
      | .outOfFuel => "out-of-fuel"
      | .ok r =>
        let names := (List.range c.syms.length).map (fun i =>
          match nameFor c r i with
          | some n => Slots.showName n
          | none => "!")
        (if names.isEmpty then "-" else ",".intercalate names) ++ "|hyp=" ++ hypText c
  | _ => "bad-op"

end EsbuildModel.ChunkNames
