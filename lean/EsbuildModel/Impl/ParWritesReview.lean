import EsbuildModel.Gen.ParWrites
/-
REVIEW of every `go` statement that the extractor harness/cmd/extract/parwrites.go finds in esbuild's build pipeline
(Gen/ParWrites.lean). Written by reading the source of /repo at 829e9dd.

For every site: `expected` — the facts as they were when the site was reviewed (enclosing function, ordinal of the go
statement in it, loop, own variables, every write to shared memory with its class, foreign reads of a slot array, callees
that receive shared memory); `verdict`; `why` — for every write that is not a plain `slot`/`waitGroup`/`localOnly`, for every
foreign read, for the callee list and for the own-index binding, the reason why the joined result does not depend on the
schedule, and which theorem of Props/C08ParWrites.lean carries it:

  slot            → disjoint_slot_writers_commute (+ neighbour_read_is_schedule_dependent for the reads column)
  underMutex/atomic with a commutative accumulator → mutex_commutative_accumulator / mutex_map_insert_distinct_keys
  channelSend / append under a mutex, sorted after the join → channel_collect_then_sort
  firstWriterWins → first_writer_wins_is_schedule_dependent: NOT acceptable between workers; every such site is listed
                    in `firstWriterWinsReviewed` with what the guarded value is.

`Props/C08ParWrites.lean: facts_match_review` proves that the regenerated facts are exactly `expected`: a new goroutine, a
new shared write, a changed class, a new foreign read or a new callee on shared data breaks that proof.
-/
namespace EsbuildModel.ParWritesReview
open EsbuildModel.Gen.ParWrites

structure Reviewed where
  expected : Site
  verdict : String
  /-- one entry per item that needs a reason, in the order of `expected.needs` -/
  why : List (String × String)
  /-- further remarks (how the own index is bound, …) -/
  notes : List (String × String) := []

/-- internal/bundler/bundler.go:1394 (line at review time) -/
def r_site00 : Reviewed := {
  expected := {
    file := "internal/bundler/bundler.go", fn := "ScanBundle", ord := 0, callee := "",
    loop := "range plugin.OnStart value onStart",
    own := ["plugin←plugin", "onStart←onStart@value"],
    writes := [
      ⟨"localOnly", "*", ""⟩,
      ⟨"waitGroup", "onStartWaitGroup", "Done"⟩],
    needs := ["calls"],
    reads := [],
    calls := ["OnStart.Callback", "logPluginMessages"] },
  verdict := "FLAGGED-diagnostics-order",
  why := [
    ("calls",
     "OnStart.Callback is the user's plugin code. logPluginMessages → Log.Add* take the log's own mutex and only append to its message list; the list is sorted at Log.Done() by (file, line, column, kind, text) with sort.Stable (theorem Det.sorted_msgs_independent_of_arrival_order: order independent IF no two messages agree on that key — see finding F1 for the case where they do). FINDING F1: two onStart callbacks that return the same message text without a location are ordered by ARRIVAL (they differ only in pluginName): demonstrated on the real api with harness/cmd/pwprobe")],
  notes := [
    ("own",
     "plugin and onStart are passed as arguments (copies of the loop variables); nothing is indexed by them")] }

/-- internal/bundler/bundler.go:1427 (line at review time) -/
def r_site01 : Reviewed := {
  expected := {
    file := "internal/bundler/bundler.go", fn := "ScanBundle", ord := 1, callee := "",
    loop := "",
    own := [],
    writes := [
      ⟨"channelSend", "s.resultChannel", ""⟩,
      ⟨"localOnly", "*", ""⟩],
    needs := ["s.resultChannel", "calls"],
    reads := [],
    calls := ["runtimeCache.parseRuntime"] },
  verdict := "deterministic",
  why := [
    ("s.resultChannel",
     "channelSend of the runtime's parse result; the receiver (scanner.scanAllDependencies) stores every result at s.results[sourceIndex] — a store under a unique key (mutex_map_insert_distinct_keys with the receiver as the only writer). The ARRIVAL order decides in which order NEW source indices are allocated; that is neutralised later by StableSourceIndices and the DFS from the entry points (existing C08/C10 theorems), not here"),
    ("calls",
     "parseRuntime reads the options and the global runtime cache (its own mutex, keyed by the option subset: same key ⇒ same value)")],
  notes := [
] }

/-- internal/bundler/bundler.go:1634 (line at review time) -/
def r_site02 : Reviewed := {
  expected := {
    file := "internal/bundler/bundler.go", fn := "scanner.maybeParseFile", ord := 0, callee := "parseFile",
    loop := "",
    own := ["args←‹fresh›"],
    writes := [
      ⟨"OTHER", "RunOnResolvePlugins(…).PathPair.Primary.ImportAttributes", "assign; through the result of RunOnResolvePlugins"⟩,
      ⟨"OTHER", "RunOnResolvePlugins(…).PathPair.Secondary.ImportAttributes", "assign; through the result of RunOnResolvePlugins"⟩,
      ⟨"OTHER", "args.res.ResolveGlob(…)[key]", "assign; through the result of args.res.ResolveGlob; map store"⟩,
      ⟨"OTHER", "js_parser.ParseSourceMap(…).SourcesContent", "assign; through the result of js_parser.ParseSourceMap"⟩,
      ⟨"OTHER", "js_parser.ParseSourceMap(…).Sources[i]", "assign; through the result of js_parser.ParseSourceMap"⟩,
      ⟨"OTHER", "result.file.inputFile.Repr.ImportRecords(…)", "assign; through the result of result.file.inputFile.Repr.ImportRecords"⟩,
      ⟨"OTHER", "result.globResolveResults[uint32(importRecordIndex)]", "assign; map store"⟩,
      ⟨"OTHER", "result.resolveResults[importRecordIndex]", "assign"⟩,
      ⟨"channelSend", "args«‹fresh›».inject", ""⟩,
      ⟨"channelSend", "args«‹fresh›».results", ""⟩,
      ⟨"firstWriterWins", "js_parser.ParseSourceMap(…).SourcesContent[i].Value", "only if sourceMap.SourcesContent[i].Value == nil; assign"⟩,
      ⟨"localOnly", "*", ""⟩],
    needs := ["RunOnResolvePlugins(…).PathPair.Primary.ImportAttributes", "RunOnResolvePlugins(…).PathPair.Secondary.ImportAttributes", "args.res.ResolveGlob(…)[key]", "js_parser.ParseSourceMap(…).SourcesContent", "js_parser.ParseSourceMap(…).Sources[i]", "result.file.inputFile.Repr.ImportRecords(…)", "result.globResolveResults[uint32(importRecordIndex)]", "result.resolveResults[importRecordIndex]", "args«‹fresh›».inject", "args«‹fresh›».results", "js_parser.ParseSourceMap(…).SourcesContent[i].Value", "calls"],
    reads := [],
    calls := ["CSSCache.Parse", "DebugMeta.LogErrorMsg", "Encoding.EncodeToString", "FS.IsAbs", "FS.Join", "FS.Rel", "FSCache.ReadFile", "ImportRecordFlags.Has", "Index32.IsValid", "InputFileRepr.ImportRecords", "JSCache.Parse", "JSFeature.Has", "JSONCache.Parse", "Log.AddError", "Log.AddErrorWithNotes", "Log.AddID", "Log.AddIDWithNotes", "Log.AddMsg", "Log.Done", "PathPair.HasSecondary", "PrettyPaths.Select", "ResolveFailureErrorTextSuggestionNotes", "Resolver.ResolveGlob", "RunOnResolvePlugins", "ast.FindAssertOrWithEntry", "config.LoaderFromFileExtension", "extractSourceMapFromComment", "helpers.FilePathFromFileURL", "helpers.GlobPatternToString", "helpers.UTF16ToString", "js_lexer.RangeOfImportAssertOrWith", "js_parser.LazyExportAST", "js_parser.ParseSourceMap", "logger.MakeLineColumnTracker", "logger.NewDeferLog", "reportExplicitPhaseImport", "resolver.MakePrettyPaths", "runOnLoadPlugins"] },
  verdict := "FLAGGED-diagnostics-location",
  why := [
    ("RunOnResolvePlugins(…).PathPair.Primary.ImportAttributes",
     "the resolve result was returned to THIS goroutine by the plugin runner/resolver for this import record; not yet published"),
    ("RunOnResolvePlugins(…).PathPair.Secondary.ImportAttributes",
     "same object as above"),
    ("args.res.ResolveGlob(…)[key]",
     "map returned by ResolveGlob to this goroutine (fresh per call)"),
    ("js_parser.ParseSourceMap(…).SourcesContent",
     "source map parsed by this goroutine for its own file"),
    ("js_parser.ParseSourceMap(…).Sources[i]",
     "same source map"),
    ("result.file.inputFile.Repr.ImportRecords(…)",
     "`result` is the parseResult this goroutine builds (composite literal); the AST inside comes from the parse cache: JSCache.Parse returns the cached AST object when source and options are unchanged — an incremental (rebuild) concern covered by C09, a single build parses every path once (s.visited under the scanner's single thread)"),
    ("result.globResolveResults[uint32(importRecordIndex)]",
     "map made by this goroutine inside its own result"),
    ("result.resolveResults[importRecordIndex]",
     "slice made by this goroutine inside its own result"),
    ("args«‹fresh›».inject",
     "channel with capacity 1 created per injected file by the forking thread; exactly one send, received by site05's goroutine for that file"),
    ("args«‹fresh›».results",
     "the scanner's result channel: see site01. FINDING F2: the receiver handles results in ARRIVAL order and calls maybeParseFile for each import record; for a file that several modules import, the FIRST importer handled wins (`s.visited`): its import statement becomes the importSource/importPathRange of the new parse task, i.e. the LOCATION of every diagnostic about loading that file (\"No loader is configured …\", \"Could not read from file\", plugin onLoad messages without a location). That is first_writer_wins_is_schedule_dependent in the receiver; demonstrated on the real api with `harness/cmd/pwprobe shared`. Outputs and metafile are not affected (stable source indices)"),
    ("js_parser.ParseSourceMap(…).SourcesContent[i].Value",
     "guarded fill of a missing sourcesContent entry in the goroutine's OWN freshly parsed source map: one writer, not a first-writer-wins between workers"),
    ("calls",
     "caches (FSCache, JSCache, CSSCache, JSONCache) have their own mutex and are keyed by path+content: same key ⇒ same value whatever the order. Resolver.Resolve*/RunOnResolvePlugins read the resolver's caches (mutex, keyed by directory). Log.Add* take the log's own mutex and only append to its message list; the list is sorted at Log.Done() by (file, line, column, kind, text) with sort.Stable (theorem Det.sorted_msgs_independent_of_arrival_order: order independent IF no two messages agree on that key — see finding F1 for the case where they do)")],
  notes := [
] }

/-- internal/bundler/bundler.go:1745 (line at review time) -/
def r_site03 : Reviewed := {
  expected := {
    file := "internal/bundler/bundler.go", fn := "scanner.preprocessInjectedFiles", ord := 0, callee := "",
    loop := "range s.options.InjectedDefines value define",
    own := [],
    writes := [
      ⟨"channelSend", "s.resultChannel", ""⟩],
    needs := ["s.resultChannel"],
    reads := [],
    calls := [] },
  verdict := "deterministic",
  why := [
    ("s.resultChannel",
     "see site01 (one injected-define result per goroutine; source index allocated before the fork by the forking thread in loop order)")],
  notes := [
    ("loop-variable",
     "the closure captures `result`, which is declared inside the loop body (fresh per iteration), not the loop variable `define`")] }

/-- internal/bundler/bundler.go:1756 (line at review time) -/
def r_site04 : Reviewed := {
  expected := {
    file := "internal/bundler/bundler.go", fn := "scanner.preprocessInjectedFiles", ord := 1, callee := "",
    loop := "range s.options.InjectPaths key i value importPath",
    own := ["i←i@key", "importPath←importPath@value"],
    writes := [
      ⟨"localOnly", "*", ""⟩,
      ⟨"slot", "injectResolveResults[i]", "slot of injectResolveResults by i←i@key; assign"⟩,
      ⟨"waitGroup", "injectResolveWaitGroup", "Done"⟩],
    needs := ["calls"],
    reads := [],
    calls := ["DebugMeta.LogErrorMsg", "DirEntries.Get", "Entry.Kind", "FS.Base", "FS.Dir", "FS.IsAbs", "FS.Join", "FS.ReadDirectory", "Log.AddError", "Log.AddID", "RunOnResolvePlugins", "error.Error"] },
  verdict := "deterministic",
  why := [
    ("calls",
     "FS.* read the file system through its cache (mutex, keyed by directory). RunOnResolvePlugins runs user plugins. Log.Add* take the log's own mutex and only append to its message list; the list is sorted at Log.Done() by (file, line, column, kind, text) with sort.Stable (theorem Det.sorted_msgs_independent_of_arrival_order: order independent IF no two messages agree on that key — see finding F1 for the case where they do)")],
  notes := [
    ("own",
     "i is the range KEY: one goroutine per index")] }

/-- internal/bundler/bundler.go:1824 (line at review time) -/
def r_site05 : Reviewed := {
  expected := {
    file := "internal/bundler/bundler.go", fn := "scanner.preprocessInjectedFiles", ord := 2, callee := "",
    loop := "range injectResolveResults value resolveResult",
    own := ["i←j"],
    writes := [
      ⟨"OTHER", "results[i]", "assign"⟩,
      ⟨"waitGroup", "injectWaitGroup", "Done"⟩],
    needs := ["results[i]"],
    reads := [],
    calls := [] },
  verdict := "deterministic",
  why := [
    ("results[i]",
     "i is bound to j, a counter declared before the loop and incremented once per started goroutine right after the go statement (`j++`): distinct per goroutine, and `results` was made with len(InjectPaths) ≥ the number of goroutines, so no reallocation: a slot write in everything but syntax")],
  notes := [
    ("own",
     "see results[i]")] }

/-- internal/bundler/bundler.go:1926 (line at review time) -/
def r_site06 : Reviewed := {
  expected := {
    file := "internal/bundler/bundler.go", fn := "scanner.addEntryPoints", ord := 0, callee := "",
    loop := "range entryPoints key i value entryPoint",
    own := ["i←i@key", "entryPoint←entryPoint@value"],
    writes := [
      ⟨"localOnly", "*", ""⟩,
      ⟨"slot", "entryPointInfos[i]", "slot of entryPointInfos by i←i@key; assign"⟩,
      ⟨"waitGroup", "entryPointWaitGroup", "Done"⟩],
    needs := ["calls"],
    reads := [],
    calls := ["DebugMeta.LogErrorMsg", "FS.IsAbs", "Log.AddError", "Log.AddID", "Resolver.ProbeResolvePackageAsRelative", "Resolver.ResolveGlob", "RunOnResolvePlugins", "resolver.MakePrettyPaths"] },
  verdict := "deterministic",
  why := [
    ("calls",
     "resolver + plugins + log as in site04")],
  notes := [
    ("own",
     "i is the range KEY")] }

/-- internal/bundler/bundler.go:3094 (line at review time) -/
def r_site07 : Reviewed := {
  expected := {
    file := "internal/bundler/bundler.go", fn := "Bundle.Compile", ord := 0, callee := "",
    loop := "range b.entryPoints key i value entryPoint",
    own := ["i←i@key", "entryPoint←entryPoint@value"],
    writes := [
      ⟨"localOnly", "*", ""⟩,
      ⟨"slot", "resultGroups[i]", "slot of resultGroups by i←i@key; assign"⟩,
      ⟨"waitGroup", "waitGroup", "Done"⟩],
    needs := ["calls"],
    reads := [],
    calls := ["Serializer.Enter", "Serializer.Leave", "Timer.Fork", "Timer.Join", "cb", "findReachableFiles", "link"] },
  verdict := "deterministic",
  why := [
    ("calls",
     "link (linker.Link) starts by cloning the graph (graph.CloneLinkerGraph, site09) so that every entry point group mutates its own copy; Serializer.Enter/Leave force the critical parts into index order (theorem Det.serializer_runs_in_index_order); cb/findReachableFiles only read; Timer.Fork/Join are per goroutine")],
  notes := [
    ("own",
     "i is the range KEY")] }

/-- internal/bundler/bundler.go:3310 (line at review time) -/
def r_site08 : Reviewed := {
  expected := {
    file := "internal/bundler/bundler.go", fn := "Bundle.computeDataForSourceMapsInParallel", ord := 0, callee := "",
    loop := "range reachableFiles value sourceIndex",
    own := ["sourceIndex←sourceIndex@value", "f←b.files[sourceIndex]", "approximateLineCount←approximateLineCount"],
    writes := [
      ⟨"localOnly", "*", ""⟩,
      ⟨"slot", "results[sourceIndex].LineOffsetTables", "slot of results by sourceIndex←sourceIndex@value; assign"⟩,
      ⟨"slot", "results[sourceIndex].QuotedContents", "slot of results by sourceIndex←sourceIndex@value; assign"⟩,
      ⟨"slot", "results[sourceIndex].QuotedContents[i]", "slot of results by sourceIndex←sourceIndex@value; assign"⟩,
      ⟨"waitGroup", "waitGroup", "Done"⟩],
    needs := ["calls"],
    reads := [],
    calls := ["helpers.UTF16ToString"] },
  verdict := "deterministic",
  why := [
    ("calls",
     "pure helper")],
  notes := [
    ("own",
     "sourceIndex is a range VALUE of reachableFiles, which has no duplicates (findReachableFiles visits every file once: `visited` map) ⇒ distinct slots")] }

/-- internal/graph/graph.go:153 (line at review time) -/
def r_site09 : Reviewed := {
  expected := {
    file := "internal/graph/graph.go", fn := "CloneLinkerGraph", ord := 0, callee := "",
    loop := "range reachableFiles key stableIndex value sourceIndex",
    own := ["sourceIndex←sourceIndex@value"],
    writes := [
      ⟨"localOnly", "*", ""⟩,
      ⟨"slot", "files[sourceIndex].DistanceFromEntryPoint", "slot of files by sourceIndex←sourceIndex@value; assign"⟩,
      ⟨"slot", "files[sourceIndex].InputFile", "slot of files by sourceIndex←sourceIndex@value; assign"⟩,
      ⟨"slot", "files[sourceIndex].InputFile.Repr", "slot of files by sourceIndex←sourceIndex@value; assign"⟩,
      ⟨"slot", "files[sourceIndex].InputFile.Repr.AST.ImportRecords", "slot of files by sourceIndex←sourceIndex@value; append"⟩,
      ⟨"slot", "files[sourceIndex].InputFile.Repr.AST.ImportRecords[importRecordIndex].AssertOrWith", "slot of files by sourceIndex←sourceIndex@value; assign"⟩,
      ⟨"slot", "files[sourceIndex].InputFile.Repr.AST.ModuleScope", "slot of files by sourceIndex←sourceIndex@value; assign"⟩,
      ⟨"slot", "files[sourceIndex].InputFile.Repr.AST.NamedImports", "slot of files by sourceIndex←sourceIndex@value; assign"⟩,
      ⟨"slot", "files[sourceIndex].InputFile.Repr.AST.Parts", "slot of files by sourceIndex←sourceIndex@value; append"⟩,
      ⟨"slot", "files[sourceIndex].InputFile.Repr.AST.Parts[i].SymbolUses", "slot of files by sourceIndex←sourceIndex@value; assign"⟩,
      ⟨"slot", "files[sourceIndex].InputFile.Repr.AST.Symbols", "slot of files by sourceIndex←sourceIndex@value; assign"⟩,
      ⟨"slot", "files[sourceIndex].InputFile.Repr.Meta.ImportsToBind", "slot of files by sourceIndex←sourceIndex@value; assign"⟩,
      ⟨"slot", "files[sourceIndex].InputFile.Repr.Meta.IsProbablyTypeScriptType", "slot of files by sourceIndex←sourceIndex@value; assign"⟩,
      ⟨"slot", "files[sourceIndex].InputFile.Repr.Meta.ResolvedExports", "slot of files by sourceIndex←sourceIndex@value; assign"⟩,
      ⟨"slot", "symbols.SymbolsForSource[sourceIndex]", "slot of symbols.SymbolsForSource by sourceIndex←sourceIndex@value; assign"⟩,
      ⟨"underMutex", "dynamicImportEntryPoints", "dynamicImportEntryPointsMutex"⟩,
      ⟨"waitGroup", "waitGroup", "Done"⟩],
    needs := ["dynamicImportEntryPoints", "calls"],
    reads := [],
    calls := ["Index32.GetIndex", "Index32.IsValid"] },
  verdict := "deterministic",
  why := [
    ("dynamicImportEntryPoints",
     "append under dynamicImportEntryPointsMutex: the list IS the arrival order (append_under_mutex_keeps_arrival_order). After waitGroup.Wait() it is deduplicated (entryPointKind flag: first occurrence of each file), mapped to STABLE source indices and sorted with sort.Ints before anything is appended to entryPoints: the sorted SET of stable indices — channel_collect_then_sort with distinct keys"),
    ("calls",
     "pure accessors")],
  notes := [
    ("own",
     "sourceIndex is a range VALUE of reachableFiles (no duplicates, see site08); stableIndex (the key) is not passed")] }

/-- internal/linker/linker.go:622 (line at review time) -/
def r_site10 : Reviewed := {
  expected := {
    file := "internal/linker/linker.go", fn := "linkerContext.generateChunksInParallel", ord := 0, callee := "c.generateChunkJS",
    loop := "range c.chunks key chunkIndex",
    own := ["chunkIndex←chunkIndex@key", "chunkWaitGroup←generateWaitGroup"],
    writes := [
      ⟨"localOnly", "*", ""⟩,
      ⟨"slot", "c.chunks[chunkIndex].intermediateOutput", "slot of c.chunks by chunkIndex←chunkIndex@key; assign"⟩,
      ⟨"slot", "c.chunks[chunkIndex].isExecutable", "slot of c.chunks by chunkIndex←chunkIndex@key; assign"⟩,
      ⟨"slot", "c.chunks[chunkIndex].jsonMetadataChunkCallback", "slot of c.chunks by chunkIndex←chunkIndex@key; assign"⟩,
      ⟨"slot", "c.chunks[chunkIndex].outputSourceMap", "slot of c.chunks by chunkIndex←chunkIndex@key; assign"⟩,
      ⟨"waitGroup", "chunkWaitGroup«generateWaitGroup»", "Done"⟩],
    needs := ["read c.chunks[chunkImport.chunkIndex].uniqueKey", "read c.chunks[chunkRepr.cssChunkIndex].uniqueKey", "calls"],
    reads := ["c.chunks[chunkImport.chunkIndex].uniqueKey", "c.chunks[chunkRepr.cssChunkIndex].uniqueKey"],
    calls := ["FS.Dir", "FS.Join", "Format.KeepESMImportExportSyntax", "JSFeature.Has", "Joiner.AddBytes", "LineColumnOffset.AdvanceBytes", "MetafileFormat.MaybeRemoveWhitespace", "PrettyPaths.Select", "Timer.Begin", "Timer.End", "Timer.Fork", "Timer.Join", "ast.FollowSymbols", "config.TemplateToString", "go linkerContext.generateCodeForFileInChunkJS", "js_printer.Print", "linkerContext.accurateFinalByteCount", "linkerContext.breakJoinerIntoPieces", "linkerContext.breakOutputIntoPieces", "linkerContext.dataForSourceMaps", "linkerContext.generateEntryPointTailJS", "linkerContext.generateExtraDataForFileJS", "linkerContext.generateGlobalNamePrefix", "linkerContext.generateIsolatedHashInParallel", "linkerContext.generateSourceMapForChunk", "linkerContext.maybeAppendLegalComments", "linkerContext.recoverInternalError", "linkerContext.renameSymbolsInChunk", "sort.Strings", "verifObserveChunkNames"] },
  verdict := "deterministic",
  why := [
    ("read c.chunks[chunkImport.chunkIndex].uniqueKey",
     "field uniqueKey of another chunk: assigned in computeChunks before the fork and never written by any worker (workers write intermediateOutput, isExecutable, jsonMetadataChunkCallback, outputSourceMap of their OWN chunk only; a read of a field that some worker writes would be the hazard of theorem neighbour_read_is_schedule_dependent)"),
    ("read c.chunks[chunkRepr.cssChunkIndex].uniqueKey",
     "same field"),
    ("calls",
     "renameSymbolsInChunk / js_printer.Print / generateSourceMapForChunk … build values local to the chunk; nested goroutines are site15 and site16; generateIsolatedHashInParallel is site18; Log.Add* take the log's own mutex and only append to its message list; the list is sorted at Log.Done() by (file, line, column, kind, text) with sort.Stable (theorem Det.sorted_msgs_independent_of_arrival_order: order independent IF no two messages agree on that key — see finding F1 for the case where they do)")],
  notes := [
    ("own",
     "chunkIndex is the range KEY; chunkWaitGroup is the shared WaitGroup")] }

/-- internal/linker/linker.go:624 (line at review time) -/
def r_site11 : Reviewed := {
  expected := {
    file := "internal/linker/linker.go", fn := "linkerContext.generateChunksInParallel", ord := 1, callee := "c.generateChunkCSS",
    loop := "range c.chunks key chunkIndex",
    own := ["chunkIndex←chunkIndex@key", "chunkWaitGroup←generateWaitGroup"],
    writes := [
      ⟨"OTHER", "rules[end]", "assign"⟩,
      ⟨"localOnly", "*", ""⟩,
      ⟨"slot", "c.chunks[chunkIndex].intermediateOutput", "slot of c.chunks by chunkIndex←chunkIndex@key; assign"⟩,
      ⟨"slot", "c.chunks[chunkIndex].jsonMetadataChunkCallback", "slot of c.chunks by chunkIndex←chunkIndex@key; assign"⟩,
      ⟨"slot", "c.chunks[chunkIndex].outputSourceMap", "slot of c.chunks by chunkIndex←chunkIndex@key; assign"⟩,
      ⟨"waitGroup", "chunkWaitGroup«generateWaitGroup»", "Done"⟩],
    needs := ["rules[end]", "calls"],
    reads := [],
    calls := ["CSSFeature.Has", "DeadRuleRemover.RemoveDeadRulesInPlace", "FS.Dir", "FS.Join", "Joiner.AddBytes", "LineColumnOffset.AdvanceBytes", "MetafileFormat.MaybeRemoveWhitespace", "PrettyPaths.Select", "Timer.Begin", "Timer.End", "Timer.Fork", "Timer.Join", "bytes.TrimSpace", "config.TemplateToString", "css_parser.MakeDeadRuleMangler", "css_printer.Print", "go func literal", "linkerContext.accurateFinalByteCount", "linkerContext.breakJoinerIntoPieces", "linkerContext.breakOutputIntoPieces", "linkerContext.dataForSourceMaps", "linkerContext.generateIsolatedHashInParallel", "linkerContext.generateSourceMapForChunk", "linkerContext.maybeAppendLegalComments", "linkerContext.recoverInternalError", "wrapRulesWithConditions"] },
  verdict := "deterministic",
  why := [
    ("rules[end]",
     "`rules` is made by this goroutine (`make([]css_ast.Rule, 0, len(ast.Rules))`); the extractor sees shared VALUES being appended to it and therefore cannot prove the backing array private; it is"),
    ("calls",
     "as site10; the nested goroutine is site17; RemoveDeadRulesInPlace works on the chunk's own remover and own rule slices")],
  notes := [
    ("own",
     "chunkIndex is the range KEY")] }

/-- internal/linker/linker.go:663 (line at review time) -/
def r_site12 : Reviewed := {
  expected := {
    file := "internal/linker/linker.go", fn := "linkerContext.generateChunksInParallel", ord := 2, callee := "",
    loop := "range c.chunks key chunkIndex value chunk",
    own := ["chunkIndex←chunkIndex@key", "chunk←chunk@value"],
    writes := [
      ⟨"localOnly", "*", ""⟩,
      ⟨"slot", "results[chunkIndex]", "slot of results by chunkIndex←chunkIndex@key; assign"⟩,
      ⟨"waitGroup", "resultsWaitGroup", "Done"⟩],
    needs := ["calls"],
    reads := [],
    calls := ["Encoding.EncodeToString", "FS.Dir", "FS.Join", "Joiner.AddString", "Joiner.Done", "Joiner.EnsureNewlineAtEnd", "MetafileFormat.MaybeRemoveWhitespace", "SourceMapPieces.Finalize", "SourceMapPieces.HasContent", "chunkInfo.jsonMetadataChunkCallback", "linkerContext.breakJoinerIntoPieces", "linkerContext.pathBetweenChunks", "linkerContext.substituteFinalPaths", "resolver.MakePrettyPaths"] },
  verdict := "deterministic",
  why := [
    ("calls",
     "substituteFinalPaths / pathBetweenChunks / jsonMetadataChunkCallback read the chunks' final paths, which were all computed sequentially between the two forks")],
  notes := [
    ("own",
     "chunkIndex is the range KEY; `chunk` is a COPY of the chunk (value parameter)")] }

/-- internal/linker/linker.go:939 (line at review time) -/
def r_site13 : Reviewed := {
  expected := {
    file := "internal/linker/linker.go", fn := "linkerContext.computeCrossChunkDependencies", ord := 0, callee := "",
    loop := "range c.chunks key chunkIndex value chunk",
    own := ["chunkIndex←chunkIndex@key", "chunk←chunk@value"],
    writes := [
      ⟨"OTHER", "c.graph.Files[sourceIndex].InputFile.Repr.AST.ImportRecords[importRecordIndex].Flags", "op-assign |="⟩,
      ⟨"OTHER", "c.graph.Files[sourceIndex].InputFile.Repr.AST.ImportRecords[importRecordIndex].Path.Text", "assign"⟩,
      ⟨"OTHER", "c.graph.Files[sourceIndex].InputFile.Repr.AST.ImportRecords[importRecordIndex].SourceIndex", "assign"⟩,
      ⟨"OTHER", "c.graph.Symbols.Get(…).ChunkIndex", "assign; through the result of c.graph.Symbols.Get"⟩,
      ⟨"localOnly", "*", ""⟩,
      ⟨"slot", "chunkMetas[chunkIndex].dynamicImports", "slot of chunkMetas by chunkIndex←chunkIndex@key; only if chunkMeta.dynamicImports == nil; assign"⟩,
      ⟨"slot", "chunkMetas[chunkIndex].dynamicImports[int(otherChunkIndex)]", "slot of chunkMetas by chunkIndex←chunkIndex@key; assign; map store"⟩,
      ⟨"slot", "chunkMetas[chunkIndex].exports", "slot of chunkMetas by chunkIndex←chunkIndex@key; assign"⟩,
      ⟨"slot", "chunkMetas[chunkIndex].imports", "slot of chunkMetas by chunkIndex←chunkIndex@key; assign"⟩,
      ⟨"waitGroup", "waitGroup", "Done"⟩],
    needs := ["c.graph.Files[sourceIndex].InputFile.Repr.AST.ImportRecords[importRecordIndex].Flags", "c.graph.Files[sourceIndex].InputFile.Repr.AST.ImportRecords[importRecordIndex].Path.Text", "c.graph.Files[sourceIndex].InputFile.Repr.AST.ImportRecords[importRecordIndex].SourceIndex", "c.graph.Symbols.Get(…).ChunkIndex", "calls"],
    reads := [],
    calls := ["Index32.GetIndex", "Index32.IsValid", "SymbolMap.Get", "linkerContext.isExternalDynamicImport"] },
  verdict := "deterministic",
  why := [
    ("c.graph.Files[sourceIndex].InputFile.Repr.AST.ImportRecords[importRecordIndex].Flags",
     "sourceIndex ranges over chunk.filesWithPartsInChunk; every JS file is in exactly ONE JS chunk (computeChunks keys chunks by the file's entryBits) and the branch is taken for JS files only ⇒ the files, and so their import records, are disjoint between workers. Also idempotent: the value written does not depend on the writer"),
    ("c.graph.Files[sourceIndex].InputFile.Repr.AST.ImportRecords[importRecordIndex].Path.Text",
     "same records; the value is the target chunk's uniqueKey (fixed before the fork)"),
    ("c.graph.Files[sourceIndex].InputFile.Repr.AST.ImportRecords[importRecordIndex].SourceIndex",
     "same records"),
    ("c.graph.Symbols.Get(…).ChunkIndex",
     "symbols DECLARED by a part of a file of this chunk: refs carry the file's source index, files are disjoint between chunks ⇒ disjoint symbol slots; merged (linked) symbols are not followed by Get"),
    ("calls",
     "pure accessors")],
  notes := [
    ("own",
     "chunkIndex is the range KEY; `chunk` a copy")] }

/-- internal/linker/linker.go:1587 (line at review time) -/
def r_site14 : Reviewed := {
  expected := {
    file := "internal/linker/linker.go", fn := "linkerContext.scanImportsAndExports", ord := 0, callee := "",
    loop := "range c.graph.ReachableFiles value sourceIndex",
    own := ["sourceIndex←sourceIndex@value", "repr←c.graph.Files[sourceIndex].InputFile.Repr.(*graph.JSRepr)"],
    writes := [
      ⟨"localOnly", "*", ""⟩,
      ⟨"slot", "delete(repr«c.graph.Files[sourceIndex].InputFile.Repr.(*graph.JSRepr)».AST.Parts[partIndex].SymbolUses, …)", "slot of c.graph.Files by sourceIndex@value; delete; map store"⟩,
      ⟨"slot", "repr«c.graph.Files[sourceIndex].InputFile.Repr.(*graph.JSRepr)».AST.NamedImports[ref]", "slot of c.graph.Files by sourceIndex@value; assign; map store"⟩,
      ⟨"slot", "repr«c.graph.Files[sourceIndex].InputFile.Repr.(*graph.JSRepr)».AST.Parts[partIndex].Dependencies", "slot of c.graph.Files by sourceIndex@value; append"⟩,
      ⟨"slot", "repr«c.graph.Files[sourceIndex].InputFile.Repr.(*graph.JSRepr)».AST.Parts[partIndex].SymbolUses[ref]", "slot of c.graph.Files by sourceIndex@value; assign; map store"⟩,
      ⟨"slot", "repr«c.graph.Files[sourceIndex].InputFile.Repr.(*graph.JSRepr)».Meta.SortedAndFilteredExportAliases", "slot of c.graph.Files by sourceIndex@value; assign"⟩,
      ⟨"waitGroup", "waitGroup", "Done"⟩],
    needs := ["read &c.graph.Files[ambiguousExport.SourceIndex].InputFile", "read &c.graph.Files[export.SourceIndex].InputFile", "calls"],
    reads := ["&c.graph.Files[ambiguousExport.SourceIndex].InputFile", "&c.graph.Files[export.SourceIndex].InputFile"],
    calls := ["JSFeature.Has", "JSRepr.TopLevelSymbolToParts", "LinkerFile.IsEntryPoint", "Log.AddIDWithNotes", "PrettyPaths.Select", "SymbolMap.Get", "linkerContext.createExportsForFile", "linkerContext.maybeForbidArbitraryModuleNamespaceIdentifier", "logger.MakeLineColumnTracker"] },
  verdict := "deterministic",
  why := [
    ("read &c.graph.Files[ambiguousExport.SourceIndex].InputFile",
     "only InputFile.Source (for an error message's location) of the other file is read: never written after the scan phase"),
    ("read &c.graph.Files[export.SourceIndex].InputFile",
     "same"),
    ("calls",
     "createExportsForFile adds parts/symbols to THIS file only (repr of sourceIndex; symbols are generated in the file's own symbol array); SymbolMap.Get on other files' symbols only reads fields fixed in step 1-5. Log.Add* take the log's own mutex and only append to its message list; the list is sorted at Log.Done() by (file, line, column, kind, text) with sort.Stable (theorem Det.sorted_msgs_independent_of_arrival_order: order independent IF no two messages agree on that key — see finding F1 for the case where they do)")],
  notes := [
    ("own",
     "sourceIndex is a range VALUE of c.graph.ReachableFiles (no duplicates); repr is that file's representation")] }

/-- internal/linker/linker.go:5413 (line at review time) -/
def r_site15 : Reviewed := {
  expected := {
    file := "internal/linker/linker.go", fn := "linkerContext.renameSymbolsInChunk", ord := 0, callee := "",
    loop := "range filesInOrder key i value sourceIndex",
    own := ["topLevelSymbols←allTopLevelSymbols‹one object for all iterations›[i]", "repr←c.graph.Files[sourceIndex].InputFile.Repr.(*graph.JSRepr)"],
    writes := [
      ⟨"waitGroup", "waitGroup", "Done"⟩],
    needs := ["calls"],
    reads := [],
    calls := ["MinifyRenamer.AccumulateSymbolCount", "MinifyRenamer.AccumulateSymbolUseCounts", "sort.Sort"] },
  verdict := "deterministic",
  why := [
    ("calls",
     "AccumulateSymbolCount / AccumulateSymbolUseCounts: nested-scope symbols are counted with atomic.AddUint32 on the slot's counter (counterAcc: mutex_commutative_accumulator) and atomic.StoreUint32(needsCapitalForJSX, 1) (idempotent set: setAcc); top-level symbols are appended to the worker's OWN array topLevelSymbols = &allTopLevelSymbols[i] and sorted there; the arrays are merged sequentially after Wait()")],
  notes := [
    ("own",
     "topLevelSymbols is &allTopLevelSymbols[i] with i the range KEY")] }

/-- internal/linker/linker.go:5632 (line at review time) -/
def r_site16 : Reviewed := {
  expected := {
    file := "internal/linker/linker.go", fn := "linkerContext.generateChunkJS", ord := 0, callee := "c.generateCodeForFileInChunkJS",
    loop := "range chunkRepr.partsInChunkInOrder value partRange",
    own := ["r←r", "waitGroup←waitGroup", "partRange←partRange@value", "toCommonJSRef←toCommonJSRef", "toESMRef←toESMRef", "runtimeRequireRef←runtimeRequireRef", "result←compileResults[len(compileResults) - 1]", "dataForSourceMaps←dataForSourceMaps"],
    writes := [
      ⟨"OTHER", "c.graph.Files[partRange.sourceIndex].InputFile.Repr.(*graph.JSRepr).AST.Parts[partIndex].Stmts[0].Data.(*js_ast.SExportDefault).Value.Data.(*js_ast.SExpr).Value.Data.(*js_ast.EObject).Properties[i].ValueOrNil", "assign"⟩,
      ⟨"OTHER", "result«compileResults[len(compileResults) - 1]»", "assign"⟩,
      ⟨"OTHER", "result«compileResults[len(compileResults) - 1]».JSONMetadataImports", "append"⟩,
      ⟨"localOnly", "*", ""⟩,
      ⟨"waitGroup", "waitGroup", "Done"⟩],
    needs := ["c.graph.Files[partRange.sourceIndex].InputFile.Repr.(*graph.JSRepr).AST.Parts[partIndex].Stmts[0].Data.(*js_ast.SExportDefault).Value.Data.(*js_ast.SExpr).Value.Data.(*js_ast.EObject).Properties[i].ValueOrNil", "result«compileResults[len(compileResults) - 1]»", "result«compileResults[len(compileResults) - 1]».JSONMetadataImports", "calls"],
    reads := [],
    calls := ["Index32.GetIndex", "JSFeature.Has", "JSRepr.TopLevelSymbolToParts", "LinkerFile.IsEntryPoint", "Loader.CanHaveSourceMap", "MetafileFormat.MaybeRemoveWhitespace", "PrettyPaths.Select", "helpers.UTF16ToString", "js_printer.Print", "linkerContext.convertStmtsForChunk", "linkerContext.recoverInternalError"] },
  verdict := "deterministic",
  why := [
    ("c.graph.Files[partRange.sourceIndex].InputFile.Repr.(*graph.JSRepr).AST.Parts[partIndex].Stmts[0].Data.(*js_ast.SExportDefault).Value.Data.(*js_ast.SExpr).Value.Data.(*js_ast.EObject).Properties[i].ValueOrNil",
     "false alarm of the alias analysis: the write goes to objectClone.Properties, which the line before re-assigns to a fresh copy (`append([]js_ast.Property{}, …)`, comment 'Avoid mutating the original AST')"),
    ("result«compileResults[len(compileResults) - 1]»",
     "`&compileResults[len-1]` taken right after `append`; compileResults was made with cap = len(partsInChunkInOrder) ≥ number of appends, so append never reallocates and every goroutine owns a distinct element"),
    ("result«compileResults[len(compileResults) - 1]».JSONMetadataImports",
     "same element"),
    ("calls",
     "js_printer.Print with the chunk's renamer r (read-only after renameSymbolsInChunk); convertStmtsForChunk builds new statement lists; recoverInternalError → log")],
  notes := [
    ("own",
     "partRange is the range VALUE (a distinct file/part range per iteration)")] }

/-- internal/linker/linker.go:6259 (line at review time) -/
def r_site17 : Reviewed := {
  expected := {
    file := "internal/linker/linker.go", fn := "linkerContext.generateChunkCSS", ord := 0, callee := "",
    loop := "range chunkRepr.importsInChunkInOrder key i value entry",
    own := ["i←i@key", "entry←entry@value", "compileResult←compileResults‹one object for all iterations›[i]"],
    writes := [
      ⟨"localOnly", "*", ""⟩,
      ⟨"slot", "compileResult«compileResults‹one object for all iterations›[i]».PrintResult", "slot of compileResults‹one object for all iterations› by i@key; assign"⟩,
      ⟨"slot", "compileResult«compileResults‹one object for all iterations›[i]».sourceIndex", "slot of compileResults‹one object for all iterations› by i@key; assign"⟩,
      ⟨"waitGroup", "waitGroup", "Done"⟩],
    needs := ["calls"],
    reads := [],
    calls := ["Loader.CanHaveSourceMap", "css_printer.Print", "linkerContext.recoverInternalError"] },
  verdict := "deterministic",
  why := [
    ("calls",
     "css_printer.Print builds a new result; recoverInternalError → log")],
  notes := [
    ("own",
     "compileResult is &compileResults[i] with i the range KEY")] }

/-- internal/linker/linker.go:6847 (line at review time) -/
def r_site18 : Reviewed := {
  expected := {
    file := "internal/linker/linker.go", fn := "linkerContext.generateIsolatedHashInParallel", ord := 0, callee := "c.generateIsolatedHash",
    loop := "",
    own := ["chunk←chunk", "channel←channel‹one object for all iterations›"],
    writes := [
      ⟨"channelSend", "channel«channel‹one object for all iterations›»", ""⟩,
      ⟨"localOnly", "*", ""⟩],
    needs := ["channel«channel‹one object for all iterations›»", "calls"],
    reads := [],
    calls := ["Joiner.Done", "SourceMapPieces.HasContent", "hashWriteLengthPrefixed"] },
  verdict := "deterministic",
  why := [
    ("channel«channel‹one object for all iterations›»",
     "one goroutine per call, one send, one receive (`chunk.waitForIsolatedHash`): a future, no ordering involved"),
    ("calls",
     "hash of the chunk's own pieces")],
  notes := [
] }

/-- internal/renamer/renamer.go:530 (line at review time) -/
def r_site19 : Reviewed := {
  expected := {
    file := "internal/renamer/renamer.go", fn := "NumberRenamer.AssignNamesByScope", ord := 0, callee := "",
    loop := "range nestedScopes key sourceIndex value scopes",
    own := ["sourceIndex←sourceIndex@mapkey", "scopes←scopes@value"],
    writes := [
      ⟨"waitGroup", "waitGroup", "Done"⟩],
    needs := ["calls"],
    reads := [],
    calls := ["NumberRenamer.assignNamesRecursive"] },
  verdict := "deterministic",
  why := [
    ("calls",
     "assignNamesRecursive writes r.names[ref.SourceIndex][ref.InnerIndex] for the symbols DECLARED in the nested scopes of file sourceIndex — source indices are the map's keys, hence distinct — and reads the top-level names assigned sequentially before the fork")],
  notes := [
    ("own",
     "sourceIndex is a MAP key (distinct by construction; the iteration order of the map only decides which goroutine starts first)")] }

/-- pkg/api/api_impl.go:1047 (line at review time) -/
def r_site20 : Reviewed := {
  expected := {
    file := "pkg/api/api_impl.go", fn := "internalContext.rebuild", ord := 0, callee := "",
    loop := "",
    own := [],
    writes := [
      ⟨"firstWriterWins", "ctx.recentBuild", "only if ctx.recentBuild == recentBuild; assign; under ctx.mutex"⟩],
    needs := ["ctx.recentBuild"],
    reads := [],
    calls := [] },
  verdict := "out-of-scope",
  why := [
    ("ctx.recentBuild",
     "incremental context API: clears the cached 'recent build' 250 ms after a rebuild, only if it is still the same one (compare-and-clear under ctx.mutex). Timer driven, affects only whether a rebuild request within that window reuses the result (C20), never the bytes of a build")],
  notes := [
] }

/-- pkg/api/api_impl.go:1127 (line at review time) -/
def r_site21 : Reviewed := {
  expected := {
    file := "pkg/api/api_impl.go", fn := "internalContext.Watch", ord := 0, callee := "",
    loop := "",
    own := [],
    writes := [
      ⟨"localOnly", "*", ""⟩,
      ⟨"waitGroup", "ctx.activeBuild.waitGroup", "Wait"⟩],
    needs := ["calls"],
    reads := [],
    calls := ["internalContext.Rebuild"] },
  verdict := "out-of-scope",
  why := [
    ("calls",
     "watch mode (C19/C20), not part of a build")],
  notes := [
] }

/-- pkg/api/api_impl.go:1197 (line at review time) -/
def r_site22 : Reviewed := {
  expected := {
    file := "pkg/api/api_impl.go", fn := "internalContext.Dispose", ord := 0, callee := "fn",
    loop := "range ctx.args.onDisposeCallbacks value fn",
    own := [],
    writes := [
      ⟨"OTHER", "fn", "goroutine runs a function value / a function of another package: body not analysed"⟩],
    needs := ["fn"],
    reads := [],
    calls := [] },
  verdict := "out-of-scope",
  why := [
    ("fn",
     "Dispose(): runs the onDispose callbacks of plugins; not part of a build")],
  notes := [
] }

/-- pkg/api/api_impl.go:1595 (line at review time) -/
def r_site23 : Reviewed := {
  expected := {
    file := "pkg/api/api_impl.go", fn := "rebuildImpl", ord := 0, callee := "",
    loop := "range results value result",
    own := ["result←result@value"],
    writes := [
      ⟨"localOnly", "*", ""⟩,
      ⟨"waitGroup", "waitGroup", "Done"⟩],
    needs := ["calls"],
    reads := [],
    calls := ["FS.Dir", "Log.AddError", "bytes.Equal", "error.Error", "fs.MkdirAll", "ioutil.WriteFile"] },
  verdict := "deterministic",
  why := [
    ("calls",
     "writes one output file per goroutine (distinct absolute paths: duplicates were rejected before); errors go to the log, their text contains the path ⇒ distinct sort keys. Log.Add* take the log's own mutex and only append to its message list; the list is sorted at Log.Done() by (file, line, column, kind, text) with sort.Stable (theorem Det.sorted_msgs_independent_of_arrival_order: order independent IF no two messages agree on that key — see finding F1 for the case where they do)")],
  notes := [
    ("own",
     "result is a copy of the loop variable")] }

/-- pkg/api/api_impl.go:1624 (line at review time) -/
def r_site24 : Reviewed := {
  expected := {
    file := "pkg/api/api_impl.go", fn := "rebuildImpl", ord := 1, callee := "",
    loop := "range toDelete value absPath",
    own := ["absPath←absPath@value"],
    writes := [
      ⟨"waitGroup", "waitGroup", "Done"⟩],
    needs := [],
    reads := [],
    calls := [] },
  verdict := "deterministic",
  why := [
],
  notes := [
    ("own",
     "deletes one stale file per goroutine; nothing shared is written")] }

def reviewed : List Reviewed := [r_site00, r_site01, r_site02, r_site03, r_site04, r_site05, r_site06, r_site07, r_site08, r_site09, r_site10, r_site11, r_site12, r_site13, r_site14, r_site15, r_site16, r_site17, r_site18, r_site19, r_site20, r_site21, r_site22, r_site23, r_site24]

/-- the guarded ("only if x == nil") writes that are not inside the worker's own slot, with the reviewed judgement -/
def firstWriterWinsReviewed : List (String × String × String) := [
  ("scanner.maybeParseFile", "js_parser.ParseSourceMap(…).SourcesContent[i].Value", "own freshly parsed source map: a single writer"),
  ("internalContext.rebuild", "ctx.recentBuild", "compare-and-clear of the context's recent build by a timer (incremental API, C20); not a join of workers")
]

/-- the verdicts, site by site: "deterministic", "FLAGGED-…" (a finding, see the reasons) or "out-of-scope" (not part of a build) -/
def verdicts : List (String × Nat × String) := reviewed.map (fun r => (r.expected.fn, r.expected.ord, r.verdict))

end EsbuildModel.ParWritesReview
