import EsbuildModel.Impl.PkgExports
/-
Model of esbuild's package.json `browser` MAP, transcribed from the Go code:

  /repo/internal/resolver/package_json.go   the "browser" part of parsePackageJSON, checkBrowserMap
                                            (with its closure checkPath), browserPathKind
  /repo/internal/resolver/resolver.go       IsPackagePath
  /repo/internal/fs                         Rel (filepath.Rel / the mock's Rel, on cleaned paths)
  Go standard library                       path.Join / path.Clean (taken from Impl/PkgExports.lean)

A Go `map[string]*string` is an association list with pairwise distinct keys; `none` as a value is the nil
pointer ("disabled").  The named results `(remapped *string, ok bool)` of checkBrowserMap become
`Option (Str × Option Str)`: `none` = `ok == false`; `some (key, v)` = `ok == true`, found under `key`
(the final value of the variable `inputPath`, only used in debug logs by the Go code), `v` = `remapped`.
-/
namespace EsbuildModel.BrowserMap
open EsbuildModel.NodeExports (Str)
open EsbuildModel.PkgExports (hasPrefix goClean goJoin splitAt joinSlash)

/-- Go `map[string]*string` -/
abbrev BMap := List (Str × Option Str)

/-- a JSON value of one property of the "browser" object -/
inductive BVal where
  | str (s : Str)     -- a string: replacement
  | fls               -- false: disabled
  | tru               -- true: ignored without a warning
  | other             -- anything else: warning, ignored
deriving Repr, DecidableEq

/-- `m[key] = v` -/
def insert (m : BMap) (key : Str) (v : Option Str) : BMap :=
  match m with
  | [] => [(key, v)]
  | (k, w) :: rest => if k = key then (k, v) :: rest else (k, w) :: insert rest key v

/-- the loop over `browser.Properties` in parsePackageJSON -/
def parseBrowser (m : BMap) : List (Str × BVal) → BMap
  | [] => m
  | (key, .str s) :: props => parseBrowser (insert m key (some s)) props
  | (key, .fls) :: props => parseBrowser (insert m key none) props
  | (_, .tru) :: props => parseBrowser m props
  | (_, .other) :: props => parseBrowser m props

/-- `v, ok := m[key]` -/
def lookup (m : BMap) (key : Str) : Option (Option Str) :=
  match m with
  | [] => none
  | (k, v) :: rest => if k = key then some v else lookup rest key

/-- `IsPackagePath` (resolver.go) -/
def isPackagePath (p : Str) : Bool :=
  !hasPrefix p ['/'] && !hasPrefix p ['.', '/'] && !hasPrefix p ['.', '.', '/'] && p != ['.'] && p != ['.', '.']

/-- `for _, ext := range r.options.ExtensionOrder { … browserMap[base + ext] … }` -/
def tryExts (m : BMap) (base : Str) : List Str → Option (Str × Option Str)
  | [] => none
  | ext :: exts =>
    match lookup m (base ++ ext) with
    | some v => some (base ++ ext, v)
    | none => tryExts m base exts

def indexStr : Str := ['i', 'n', 'd', 'e', 'x']

/-- `indexPath` of the closure checkPath -/
def indexPathOf (p : Str) : Str :=
  let idx := goJoin p indexStr                              -- path.Join(pathToCheck, "index")
  if isPackagePath idx && !isPackagePath p then '.' :: '/' :: idx else idx

/-- the closure `checkPath(pathToCheck, implicitExtensions)`; `implicit = true` is includeImplicitExtensions -/
def checkPath (m : BMap) (exts : List Str) (p : Str) (implicit : Bool) : Option (Str × Option Str) :=
  match lookup m p with
  | some v => some (p, v)
  | none =>
    match (if implicit then tryExts m p exts else none) with
    | some r => some r
    | none =>
      let idx := indexPathOf p
      match lookup m idx with
      | some v => some (idx, v)
      | none => if implicit then tryExts m idx exts else none

/-! ## fs.Rel -/

/-- the path elements that `Rel` walks over: "/" has the single element "" (the root) -/
def relSegs (p : Str) : List Str := if p = ['/'] then [[]] else splitAt (· = '/') p

/-- drop the common leading elements -/
def dropCommon : List Str → List Str → List Str × List Str
  | a :: as, b :: bs => if a = b then dropCommon as bs else (a :: as, b :: bs)
  | as, bs => (as, bs)

/-- `fs.Rel(base, target)`: both are cleaned, both must be rooted or both not; ".." for every element of
`base` left after the common part, then the rest of `target` -/
def rel (base target : Str) : Option Str :=
  let b := goClean base
  let t := goClean target
  if b = t then some ['.']
  else
    let b := if b = ['.'] then [] else b
    if (b.head? = some '/') != (t.head? = some '/') then none
    else
      let (rb, rt) := dropCommon (if b = [] then [] else relSegs b) (relSegs t)
      some (joinSlash (rb.map (fun _ => ['.', '.']) ++ rt))

/-- `strings.ReplaceAll(s, "\\", "/")` -/
def backToFwd (s : Str) : Str := s.map fun c => if c = '\\' then '/' else c

inductive Kind where
  | absolute    -- absolutePathKind
  | package     -- packagePathKind
deriving Repr, DecidableEq

def nodeModulesStr : Str := "node_modules".toList

/-- `checkBrowserMap(resolveDirInfo, inputPath, kind)`.
`browser` = platform is browser; `scope` = `resolveDirInfo.enclosingBrowserScope` (its absPath and map);
`resolveDir` = `resolveDirInfo.absPath`.  The directories visited by the loop
`for info := resolveDirInfo; info != scope; info = info.parent` are those whose base names are the elements
of the relative path from the scope to `resolveDir`; `info.isNodeModules` means that name is "node_modules". -/
def checkBrowserMap (browser : Bool) (scope : Option (Str × BMap)) (exts : List Str) (resolveDir : Str)
    (inputPath : Str) (kind : Kind) : Option (Str × Option Str) :=
  if !browser then none
  else
    match scope with
    | none => none
    | some (scopeAbs, m) =>
      let input? : Option Str := match kind with
        | .absolute => (rel scopeAbs inputPath).map backToFwd
        | .package => some inputPath
      match input? with
      | none => none
      | some ip =>
        if ip = ['.'] then none
        else
          match checkPath m exts ip true with
          | some r => some r
          | none =>
            if !isPackagePath ip then none
            else
              match kind with
              | .absolute => checkPath m exts ('.' :: '/' :: ip) true
              | .package =>
                let relDir := rel scopeAbs resolveDir
                let between := match relDir with
                  | some r => if r = ['.'] then [] else splitAt (· = '/') r
                  | none => []
                if between.any (· = nodeModulesStr) then none
                else
                  let pre : Str := match relDir with
                    | some r => if r = ['.'] then ['.', '/'] else '.' :: '/' :: (backToFwd r ++ ['/'])
                    | none => ['.', '/']
                  checkPath m exts (pre ++ ip) false

/-- the Go return value `(remapped, ok)` without the matched key -/
def checkBrowserMapV (browser : Bool) (scope : Option (Str × BMap)) (exts : List Str) (resolveDir : Str)
    (inputPath : Str) (kind : Kind) : Option (Option Str) :=
  (checkBrowserMap browser scope exts resolveDir inputPath kind).map (·.2)

end EsbuildModel.BrowserMap
