import EsbuildModel.Impl.JsonLex
/-
Model of `internal/js_parser/json_parser.go`: `parseExpr`, `parseMaybeTrailingComma`, `ParseJSON` (options `Flavor`,
`UnsupportedJSFeatures.Has(compat.ObjectExtensions)`; `IsForDefine = false`; `suppressWarningsAboutWeirdCode` =
`helpers.IsInsideNodeModules(path)` as an option), on top of the lexer model `Impl/JsonLex.lean`.

* `parseExpr` is recursive and its two loops call it; the recursion is on `fuel` (one unit per call / per round of a
  loop).  `ParseJSON` starts with `2·len(source) + 3`, which `Props/C16Json.lean` proves sufficient for every input
  (`R.crash` = out of fuel or a Go run-time panic, never the result).
* The AST keeps what the printer and the linker read: values, `IsSingleLine`, keys, `PropertyIsComputed`; no locations.
* `helpers.UTF16EqualsString(keyString, "__proto__")` and the comparison of `helpers.UTF16ToString(keyString)` in the
  `duplicates` map are equality of the UTF-16 code units (`UTF16ToString` is injective and `UTF16EqualsString` is
  correct: `C16Wtf8.utf16_wtf8_roundtrip`, `utf16EqualsString_correct`).
-/
namespace EsbuildModel.Json

inductive Ast where
  | null
  | bool (b : Bool)
  | num (v : F64)
  | str (u : List Nat)
  | arr (items : List Ast) (single : Bool)
  /-- properties: key, `PropertyIsComputed`, value -/
  | obj (props : List (List Nat × Bool × Ast)) (single : Bool)
  deriving Repr

structure Opts where
  flavor : Flavor
  /-- `!options.UnsupportedJSFeatures.Has(compat.ObjectExtensions)` -/
  objExt : Bool
  /-- `p.suppressWarningsAboutWeirdCode` -/
  suppress : Bool
  deriving DecidableEq, Repr

def protoKey : List Nat := [95, 95, 112, 114, 111, 116, 111, 95, 95]

def R.bind {α β : Type} (r : R α) (f : α → R β) : R β :=
  match r with
  | .ok a => f a
  | .panic l => .panic l
  | .crash => .crash

/-- `parseMaybeTrailingComma(closeToken)`: the result and the state after the comma -/
def maybeTrailingComma (o : Opts) (P : Params) (L : Lx) (close : Tok) : R (Bool × Lx) :=
  let commaStart := L.start
  (expect o.flavor P L .comma).bind fun L1 =>
    if L1.tok = close then
      if o.flavor = .json then .ok (false, { L1 with log := L1.log.error commaStart })
      else .ok (false, L1)
    else .ok (true, L1)

inductive Sep where
  /-- go on with the element -/
  | go (single : Bool) (L : Lx)
  /-- `break` (trailing comma) -/
  | brk (single : Bool) (L : Lx)

/-- the part of a loop round in front of the element: `if len(items) > 0 { … }` -/
def sepStep (o : Opts) (P : Params) (L : Lx) (close : Tok) (nonEmpty single : Bool) : R Sep :=
  if !nonEmpty then .ok (.go single L)
  else
    let single := if L.nl then false else single
    (maybeTrailingComma o P L close).bind fun (more, L1) =>
      if !more then .ok (.brk single L1)
      else .ok (.go (if L1.nl then false else single) L1)

/-- after a loop: `if HasNewlineBefore { isSingleLine = false }; Expect(closeToken)` -/
def closeStep (o : Opts) (P : Params) (L : Lx) (close : Tok) (single : Bool) : R (Bool × Lx) :=
  (expect o.flavor P L close).bind fun L1 => .ok ((if L.nl then false else single), L1)

/-- key of a property: `StringLiteral()` on the current token, `Expect(TStringLiteral)`, the duplicate-key warning,
`Expect(TColon)`; returns key, the keys seen so far, state at the value -/
def keyStep (o : Opts) (P : Params) (L : Lx) (seen : List (List Nat)) : R (List Nat × List (List Nat) × Lx) :=
  (stringLiteral o.flavor L).bind fun (key, L1) =>
    let keyStart := L1.start
    (expect o.flavor P L1 .str).bind fun L2 =>
      let dup := !o.suppress && seen.contains key
      let L3 := if dup then { L2 with log := L2.log.warn keyStart } else L2
      let seen := if o.suppress || seen.contains key then seen else key :: seen
      (expect o.flavor P L3 .colon).bind fun L4 => .ok (key, seen, L4)

mutual
def parseExpr (o : Opts) (P : Params) : Nat → Lx → R (Ast × Lx)
  | 0, _ => .crash
  | n + 1, L =>
    match L.tok with
    | .tFalse => (next o.flavor P L).bind fun L1 => .ok (.bool false, L1)
    | .tTrue => (next o.flavor P L).bind fun L1 => .ok (.bool true, L1)
    | .tNull => (next o.flavor P L).bind fun L1 => .ok (.null, L1)
    | .str =>
      (stringLiteral o.flavor L).bind fun (u, L1) => (next o.flavor P L1).bind fun L2 => .ok (.str u, L2)
    | .num => (next o.flavor P L).bind fun L1 => .ok (.num L.number, L1)
    | .minus =>
      -- `p.lexer.Next(); value := p.lexer.Number; p.lexer.Expect(js_lexer.TNumericLiteral)`
      (next o.flavor P L).bind fun L1 => (expect o.flavor P L1 .num).bind fun L2 => .ok (.num (F64.neg L1.number), L2)
    | .openBracket =>
      match next o.flavor P L with
      | .ok L1 => arrLoop o P n L1 [] (!L1.nl)
      | .panic l => .panic l
      | .crash => .crash
    | .openBrace =>
      match next o.flavor P L with
      | .ok L1 => objLoop o P n L1 [] [] (!L1.nl)
      | .panic l => .panic l
      | .crash => .crash
    -- `default:` and `TBigIntegerLiteral` with `IsForDefine == false`: `p.lexer.Unexpected()`
    | _ => unexpected L.log L.start

def arrLoop (o : Opts) (P : Params) : Nat → Lx → List Ast → Bool → R (Ast × Lx)
  | 0, _, _, _ => .crash
  | n + 1, L, items, single =>
    if L.tok = .closeBracket then
      (closeStep o P L .closeBracket single).bind fun (s, L1) => .ok (.arr items s, L1)
    else
      match sepStep o P L .closeBracket (!items.isEmpty) single with
      | .ok (.brk s L1) => (closeStep o P L1 .closeBracket s).bind fun (s, L2) => .ok (.arr items s, L2)
      | .ok (.go s L1) =>
        match parseExpr o P n L1 with
        | .ok (item, L2) => arrLoop o P n L2 (items ++ [item]) s
        | .panic l => .panic l
        | .crash => .crash
      | .panic l => .panic l
      | .crash => .crash

def objLoop (o : Opts) (P : Params) : Nat → Lx → List (List Nat × Bool × Ast) → List (List Nat) → Bool → R (Ast × Lx)
  | 0, _, _, _, _ => .crash
  | n + 1, L, props, seen, single =>
    if L.tok = .closeBrace then
      (closeStep o P L .closeBrace single).bind fun (s, L1) => .ok (.obj props s, L1)
    else
      match sepStep o P L .closeBrace (!props.isEmpty) single with
      | .ok (.brk s L1) => (closeStep o P L1 .closeBrace s).bind fun (s, L2) => .ok (.obj props s, L2)
      | .ok (.go s L1) =>
        match keyStep o P L1 seen with
        | .ok (key, seen, L2) =>
          match parseExpr o P n L2 with
          | .ok (value, L3) =>
            -- "The key "__proto__" must not be a string literal in JavaScript …"
            objLoop o P n L3 (props ++ [(key, decide (key = protoKey) && o.objExt, value)]) seen s
          | .panic l => .panic l
          | .crash => .crash
        | .panic l => .panic l
        | .crash => .crash
      | .panic l => .panic l
      | .crash => .crash
end

/-- what `ParseJSON` leaves: `ok`, the expression when `ok`, the log in the order the messages were added -/
inductive Out where
  | done (ok : Bool) (ast : Option Ast) (msgs : List Msg)
  | crash
  deriving Repr

def fuelFor (bytes : List Nat) : Nat := 2 * bytes.length + 3

/-- `ParseJSON(log, source, options)` -/
def parseJSON (o : Opts) (P : Params) (bytes : List Nat) : Out :=
  match newLexer o.flavor P bytes with
  | .crash => .crash
  | .panic l => .done false none l.msgs.reverse
  | .ok L =>
    match parseExpr o P (fuelFor bytes) L with
    | .crash => .crash
    | .panic l => .done false none l.msgs.reverse
    | .ok (a, L1) =>
      match expect o.flavor P L1 .eof with
      | .crash => .crash
      | .panic l => .done false none l.msgs.reverse
      | .ok L2 => .done true (some a) L2.log.msgs.reverse

/-- the file is accepted: `ok` and no error message (`log.HasErrors()` fails the build otherwise) -/
def Out.accepted : Out → Option Ast
  | .done true (some a) msgs => if msgs.any (·.err) then none else some a
  | _ => none

end EsbuildModel.Json
