import EsbuildModel.Util.Wire
/-
Model of how esbuild's lexer READS string and template literals (internal/js_lexer/js_lexer.go, NotJSON mode):

  * `scanLoop`   — the `case '\'', '"', '`':` arm of `(*Lexer).Next`: the `stringLiteral:` loop that finds the end of the
                   literal, decides the token kind (TStringLiteral, TNoSubstitutionTemplateLiteral, TTemplateHead,
                   TTemplateMiddle, TTemplateTail), `suffixLen`, `needsSlowPath`, and the "Unterminated string literal" errors;
                   `RescanCloseBraceAsTemplateToken` (the token starts at `}` and is scanned as if it were a backtick);
  * `decodeLoop` — `tryToDecodeEscapeSequences(start, text, reportErrors)`: every escape, CR/CRLF normalisation, legacy octal
                   bookkeeping (`LegacyOctalLoc`), every failure return (incl. the three `!reportErrors` returns of /repo b13b8f8 for
                   legacy octal, `\8 \9` and out-of-range `\u{…}`) and the out-of-range panic;
  * `stringLiteral`      — `(*Lexer).StringLiteral()` (fast path copy or lazy decoding, SyntaxError at the returned position);
  * `cookedAndRaw`       — `(*Lexer).CookedAndRawTemplateContents()` (CR/CRLF → LF in raw, cooked = nil on failure).

The source text is a list of code points (what `utf8.DecodeRuneInString` yields on well-formed UTF-8); positions and
lengths are counted in CHARACTERS from the start of the token; the driver converts them to byte offsets with the UTF-8
width of every character.  At the end of a text `utf8.DecodeRuneInString("")` returns (RuneError = U+FFFD, width 0): the
model spells that out wherever the Go code reads past the end.
-/
namespace EsbuildModel.StrLex

inductive Kind | str | noSubst | head | middle | tail
  deriving DecidableEq, Repr

/-- outcome of the `stringLiteral:` loop; positions relative to the first character after the opening quote -/
inductive Scan
  /-- the loop left through `break stringLiteral`: `bodyLen` characters of text, then `suffixLen` closing characters -/
  | ok (k : Kind) (bodyLen suffixLen : Nat) (slow : Bool)
  /-- addRangeError(lexer.end, "Unterminated string literal"); panic -/
  | unterminated (pos : Nat)
  deriving DecidableEq, Repr

/-- the `stringLiteral:` loop. `quote` = the opening character (after rescanning: a backtick), `rescan` =
`lexer.rescanCloseBraceAsTemplateToken`, the list = the source from `lexer.current - width` on (the current code point
first), `i` = characters consumed since the opening quote, `slow` = needsSlowPath -/
def scanLoop (quote : Nat) (rescan : Bool) : List Nat → Nat → Bool → Scan
  | [], i, _ => .unterminated i                                  -- case -1 (end of file): error at lexer.end
  | c :: rest, i, slow =>
    if c = 92 then                                               -- case '\\': needsSlowPath = true; step()
      match rest with
      | [] => .unterminated (i + 1)                              -- the final step() stays at the end; next round: case -1
      | d :: r =>
        if d = 13 then                                           -- Handle Windows CRLF: step(); if '\n' step(); continue
          match r with
          | [] => .unterminated (i + 2)
          | e :: r' => if e = 10 then scanLoop quote rescan r' (i + 3) true else scanLoop quote rescan (e :: r') (i + 2) true
        else scanLoop quote rescan r (i + 2) true                -- the step() after the switch skips the escaped character
    else if c = 13 then                                          -- case '\r'
      if quote ≠ 96 then .unterminated i else scanLoop quote rescan rest (i + 1) true
    else if c = 10 then                                          -- case '\n'
      if quote ≠ 96 then .unterminated i else scanLoop quote rescan rest (i + 1) slow
    else if c = 36 ∧ quote = 96 then                             -- case '$' in a template
      match rest with
      | [] => .unterminated (i + 1)
      | d :: r =>
        if d = 123 then .ok (if rescan then .middle else .head) i 2 slow
        else scanLoop quote rescan (d :: r) (i + 1) slow         -- continue stringLiteral (no step)
    else if c = quote then                                       -- case quote: step(); break
      .ok (if quote ≠ 96 then .str else if rescan then .tail else .noSubst) i 1 slow
    else scanLoop quote rescan rest (i + 1) (slow || decide (c ≥ 128))   -- default: non-ASCII needs the slow path

/-- the final `if c <= 0xFFFF { append(uint16(c)) } else { c -= 0x10000; append(0xD800+((c>>10)&0x3FF), 0xDC00+(c&0x3FF)) }`
for a rune `c` given as the uint32 bit pattern of the int32 (negative ⇔ ≥ 2^31) -/
def encodeRune (c : Nat) : List Nat :=
  if c ≥ 2147483648 ∨ c ≤ 65535 then [c % 65536]
  else [55296 + (c - 65536) / 1024 % 1024, 56320 + (c - 65536) % 1024]

/-- the three `case '0'…'9' / 'a'…'f' / 'A'…'F'` arms: the digit value -/
def hexVal (c : Nat) : Option Nat :=
  if 48 ≤ c ∧ c ≤ 57 then some (c - 48)
  else if 97 ≤ c ∧ c ≤ 102 then some (c + 10 - 97)
  else if 65 ≤ c ∧ c ≤ 70 then some (c + 10 - 65)
  else none

def isOct (c : Nat) : Bool := 48 ≤ c && c ≤ 55

/-- what one round of the main loop of `tryToDecodeEscapeSequences` does; offsets relative to the round's first character -/
inductive Step
  /-- `used` characters consumed, `units` appended; `legacy`: LegacyOctalLoc was set (always to the backslash) -/
  | emit (units : List Nat) (used : Nat) (legacy : Bool)
  /-- `return nil, false, start + off` -/
  | fail (off : Nat)
  /-- "Unicode escape sequence is out of range" with Range{start + hexStart, len}; panic -/
  | range (len : Nat)
  deriving DecidableEq, Repr

/-- `case '0'…'7'` after the backslash: `d1` = value of the first digit, `r` = the text after it.
legacy = `isBad || text[octalStart:i] != "\\0"` -/
def octal (d1 : Nat) (r : List Nat) : Step :=
  match r with
  | [] => .emit [d1] 2 (d1 ≠ 0)                                  -- c3 = RuneError: no further digit
  | c3 :: r' =>
    if isOct c3 then
      let value := d1 * 8 + (c3 - 48)
      match r' with
      | [] => .emit [value] 3 true
      | c4 :: _ =>
        if isOct c4 then
          let temp := value * 8 + (c4 - 48)
          if temp < 256 then .emit [temp] 4 true else .emit [value] 3 true
        else .emit [value] 3 true                                -- '8','9': isBad = true; two digits are legacy anyway
    else if c3 = 56 ∨ c3 = 57 then .emit [d1] 2 true             -- isBad = true
    else .emit [d1] 2 (d1 ≠ 0)

/-- `case 'x'`: `r` = the text after `\x` (offsets 2 and 3) -/
def hex2 (r : List Nat) : Step :=
  match r with
  | [] => .fail 2
  | a :: r' =>
    match hexVal a with
    | none => .fail 2
    | some x =>
      match r' with
      | [] => .fail 3
      | b :: _ =>
        match hexVal b with
        | none => .fail 3
        | some y => .emit [x * 16 + y] 4 false

/-- the fixed-length loop of `case 'u'`: `r` = the text after `\u` (offsets 2 … 5) -/
def hex4 (r : List Nat) : Step :=
  match r with
  | [] => .fail 2
  | a :: r1 =>
    match hexVal a with
    | none => .fail 2
    | some w =>
      match r1 with
      | [] => .fail 3
      | b :: r2 =>
        match hexVal b with
        | none => .fail 3
        | some x =>
          match r2 with
          | [] => .fail 4
          | c :: r3 =>
            match hexVal c with
            | none => .fail 4
            | some y =>
              match r3 with
              | [] => .fail 5
              | d :: _ =>
                match hexVal d with
                | none => .fail 5
                | some z => .emit [((w * 16 + x) * 16 + y) * 16 + z] 6 false
/-- outcome of the `variableLength:` loop -/
inductive Brace
  /-- left through `break variableLength` after `used` characters (the `}` included) -/
  | done (value : Nat) (outOfRange : Bool) (used : Nat)
  | fail (off : Nat)
  deriving DecidableEq, Repr

/-- the `variableLength:` loop of `case 'u'`. The list = the text after `\u{`, `v` = `value` (a Go `rune` = int32, kept
as its uint32 bit pattern: `value*16 | digit` wraps modulo 2^32; `|` is `+` because the low four bits of `value*16` are
zero), `first` = isFirst, `oor` = isOutOfRange, `n` = offset of the current character from the backslash -/
def braceLoop : List Nat → Nat → Bool → Bool → Nat → Brace
  | [], _, _, _, n => .fail n                                    -- RuneError, width 0: default arm
  | c :: r, v, first, oor, n =>
    if c = 125 then (if first then .fail n else .done v oor (n + 1))
    else
      match hexVal c with
      | none => .fail n
      | some d =>
        let v' := (v * 16 + d) % 4294967296
        -- `if value > utf8.MaxRune` is a signed comparison
        braceLoop r v' false (oor || decide (v' < 2147483648 ∧ v' > 1114111)) (n + 1)

/-- `case 'u'`: `r` = the text after `\u` -/
def unicode (rep : Bool) (r : List Nat) : Step :=
  match r with
  | 123 :: r' =>
    match braceLoop r' 0 true false 3 with
    | .fail off => .fail off
    | .done v oor used =>
      if oor then (if rep then .range used else .fail 0)         -- !reportErrors: return nil, false, start + hexStart
      else .emit (encodeRune v) used false
  | _ => hex4 r

/-- `if isBad || text[octalStart:i] != "\\0" { if !reportErrors { return nil, false, start + octalStart }; LegacyOctalLoc = … }`:
without error reporting (cooked value of a tagged template) a legacy octal escape makes the whole decoding fail -/
def legacyGate (rep : Bool) : Step → Step
  | .emit units used true => if rep then .emit units used true else .fail 0
  | s => s

/-- `case '\\'`: `t` = the text after the backslash -/
def escape (rep : Bool) (t : List Nat) : Step :=
  match t with
  | [] => .emit [65533] 1 false                                  -- c2 = RuneError, width2 = 0: default arm, c = c2
  | c2 :: r =>
    if c2 = 98 then .emit [8] 2 false                            -- 'b'
    else if c2 = 102 then .emit [12] 2 false                     -- 'f'
    else if c2 = 110 then .emit [10] 2 false                     -- 'n'
    else if c2 = 114 then .emit [13] 2 false                     -- 'r'
    else if c2 = 116 then .emit [9] 2 false                      -- 't'
    else if c2 = 118 then .emit [11] 2 false                     -- 'v'
    else if isOct c2 then legacyGate rep (octal (c2 - 48) r)     -- '0' … '7'
    else if c2 = 56 ∨ c2 = 57 then                               -- '8', '9': c = c2; LegacyOctalLoc, or nil without reporting
      (if rep then .emit [c2] 2 true else .fail 0)
    else if c2 = 120 then hex2 r                                 -- 'x'
    else if c2 = 117 then unicode rep r                          -- 'u'
    else if c2 = 13 then                                         -- '\r': line continuation, CRLF counts once
      match r with
      | 10 :: _ => .emit [] 3 false
      | _ => .emit [] 2 false
    else if c2 = 10 ∨ c2 = 8232 ∨ c2 = 8233 then .emit [] 2 false
    else .emit (encodeRune c2) 2 false                           -- default: c = c2

/-- one round of `for i < len(text)`: `c` = the decoded rune, `t` = the text after it -/
def step (rep : Bool) (c : Nat) (t : List Nat) : Step :=
  if c = 13 then                                                 -- '\r': CRLF and CR become '\n'
    match t with
    | 10 :: _ => .emit [10] 2 false
    | _ => .emit [10] 1 false
  else if c = 92 then escape rep t
  else .emit (encodeRune c) 1 false

/-- result of `tryToDecodeEscapeSequences`; positions relative to the start of `text`; `legacy` = the last value
stored into `lexer.LegacyOctalLoc` by this call, if any -/
inductive Dec
  | ok (units : List Nat) (legacy : Option Nat)
  | fail (pos : Nat) (legacy : Option Nat)
  | range (pos len : Nat)
  deriving DecidableEq, Repr

def Dec.prepend (units : List Nat) (leg : Option Nat) : Dec → Dec
  | .ok more l => .ok (units ++ more) (l <|> leg)                -- a later assignment to LegacyOctalLoc wins
  | .fail p l => .fail p (l <|> leg)
  | .range p n => .range p n

/-- the main loop: `skip` characters still belong to the round that was just decoded, `i` = index of the head -/
def decodeLoop (rep : Bool) : List Nat → Nat → Nat → Dec
  | [], _, _ => .ok [] none
  | _ :: t, skip + 1, i => decodeLoop rep t skip (i + 1)
  | c :: t, 0, i =>
    match step rep c t with
    | .emit units used legacy => (decodeLoop rep t (used - 1) (i + 1)).prepend units (if legacy then some i else none)
    | .fail off => .fail (i + off) none
    | .range len => .range i len

/-- `tryToDecodeEscapeSequences(start, text, reportErrors)` -/
def decode (rep : Bool) (text : List Nat) : Dec := decodeLoop rep text 0 0

/-- the token as `Next()` (or `RescanCloseBraceAsTemplateToken()`) leaves it: kind, the text between the delimiters
(`lexer.source.Contents[lexer.start+1 : lexer.end-suffixLen]`), suffixLen, needsSlowPath -/
structure Tok where
  kind : Kind
  body : List Nat
  suffixLen : Nat
  slow : Bool
  deriving DecidableEq, Repr

/-- `lexer.end - lexer.start` in characters -/
def Tok.len (t : Tok) : Nat := 1 + t.body.length + t.suffixLen

inductive Lexed
  | tok (t : Tok)
  | unterminated (pos : Nat)
  /-- the first character does not start a string / template token -/
  | other
  deriving DecidableEq, Repr

/-- `Next()` on a source that starts with `'`, `"` or a backtick (`rescan = false`), or `Next()` giving TCloseBrace followed
by `RescanCloseBraceAsTemplateToken()` on a source that starts with `}` (`rescan = true`) -/
def lexToken (rescan : Bool) (src : List Nat) : Lexed :=
  match src with
  | [] => .other
  | q :: s =>
    if (rescan && q == 125) || (!rescan && (q == 39 || q == 34 || q == 96)) then
      let quote := if rescan then 96 else q
      match scanLoop quote rescan s 0 false with
      | .unterminated pos => .unterminated (1 + pos)
      | .ok k n suffix slow => .tok ⟨k, s.take n, suffix, slow⟩
    else .other

/-- what the caller of the lexer gets -/
inductive Res
  /-- token kind, length, cooked value (`none` = nil), raw text (code points; only for `cookedAndRaw`), LegacyOctalLoc
  (position from the start of the token) if the call stored one -/
  | tok (k : Kind) (len : Nat) (cooked : Option (List Nat)) (raw : List Nat) (legacy : Option Nat)
  | unterminated (pos : Nat)
  /-- `lexer.end = end; lexer.SyntaxError()` -/
  | syntaxError (pos : Nat)
  /-- "Unicode escape sequence is out of range" -/
  | outOfRange (pos len : Nat)
  | other
  deriving DecidableEq, Repr

/-- `(*Lexer).StringLiteral()` on the token: fast path = the copy made by `Next()`; slow path = lazy decoding with
`reportErrors = true` from `encodedStringLiteralStart = lexer.start + 1` -/
def Tok.stringLiteral (t : Tok) : Res :=
  if t.slow then
    match decode true t.body with
    | .ok units leg => .tok t.kind t.len (some units) [] (leg.map (1 + ·))
    | .fail pos _ => .syntaxError (1 + pos)
    | .range pos len => .outOfRange (1 + pos) len
  else .tok t.kind t.len (some t.body) [] none

/-- the byte loop of `CookedAndRawTemplateContents` that turns CRLF and CR into LF -/
def normalizeCR : List Nat → List Nat
  | [] => []
  | c :: r =>
    if c = 13 then
      match r with
      | [] => [10]
      | d :: r' => if d = 10 then 10 :: normalizeCR r' else 10 :: normalizeCR (d :: r')
    else c :: normalizeCR r

/-- `(*Lexer).CookedAndRawTemplateContents()`: raw = the text between the delimiters, normalised if it contains a CR;
cooked = `tryToDecodeEscapeSequences(lexer.start+1, raw, false)`, nil on failure -/
def Tok.cookedAndRaw (t : Tok) : Res :=
  let raw := if t.body.contains 13 then normalizeCR t.body else t.body
  match decode false raw with
  | .ok units leg => .tok t.kind t.len (some units) raw (leg.map (1 + ·))
  | .fail _ leg => .tok t.kind t.len none raw (leg.map (1 + ·))
  | .range _ _ => .other                                        -- unreachable: reportErrors = false

/-- `NewLexer` (+ rescan) followed by `StringLiteral()` -/
def lexValue (rescan : Bool) (src : List Nat) : Res :=
  match lexToken rescan src with
  | .tok t => t.stringLiteral
  | .unterminated pos => .unterminated pos
  | .other => .other

/-- `NewLexer` (+ rescan) followed by `CookedAndRawTemplateContents()` -/
def lexRaw (rescan : Bool) (src : List Nat) : Res :=
  match lexToken rescan src with
  | .tok t => if t.kind = .str then .other else t.cookedAndRaw
  | .unterminated pos => .unterminated pos
  | .other => .other

/-! ### line protocol -/

def utf8Width (c : Nat) : Nat := if c < 128 then 1 else if c < 2048 then 2 else if c < 65536 then 3 else 4

/-- byte offset of character index `n` in `chars` -/
def byteOff (chars : List Nat) (n : Nat) : Nat := ((chars.take n).map utf8Width).sum

def Kind.name : Kind → String
  | .str => "str" | .noSubst => "nosubst" | .head => "head" | .middle => "middle" | .tail => "tail"

open Wire in
def showRes (src : List Nat) (isRaw : Bool) : Res → String
  | .tok k len cooked raw leg =>
    -- LegacyOctalLoc of `cookedAndRaw` is an offset into the NORMALISED raw text (as in the Go code)
    let legBase := if isRaw then (src.take 1 ++ raw) else src
    s!"tok {k.name} {byteOff src len} {match cooked with | none => "nil" | some u => hexUnits 4 u} {if isRaw then hexUnits 6 raw else "x"} {match leg with | none => "-" | some p => toString (byteOff legBase p)}"
  | .unterminated pos => s!"unterminated {byteOff src pos}"
  | .syntaxError pos => s!"syntax {byteOff src pos}"
  | .outOfRange pos len => s!"range {byteOff src pos} {byteOff src (pos + len) - byteOff src pos}"
  | .other => "other"

open Wire in
def driver (args : List String) : String :=
  match args with
  | [api, rescan, text] =>
    match parseNat rescan, parseHexUnits 6 text with
    | some r, some src =>
      if r > 1 then "bad-op"
      else if api = "value" then showRes src false (lexValue (r = 1) src)
      else if api = "raw" then showRes src true (lexRaw (r = 1) src)
      else "bad-op"
    | _, _ => "bad-op"
  | _ => "bad-op"

end EsbuildModel.StrLex
