/-
Model of esbuild's identifier minifier.

* `name` — ast.NameMinifier.NumberToMinifiedName (internal/ast/ast.go): the i-th short name over a head
  alphabet (identifier start characters) and a tail alphabet (identifier part characters); after the first
  character the remaining digits are written in bijective base |tail|.
* `assign` — renamer.MinifyRenamer.AssignNamesByFrequency (internal/renamer/renamer.go): slots are sorted by
  use count (descending, slot index ascending) and receive consecutive names, skipping names that are
  reserved (keywords, free identifiers of the chunk) and, for symbols used as JSX element names, names that
  start with a lowercase letter.  Private names get a `#` prefix.

Alphabets, the reserved set and the slot table are inputs (the harness reads them off the real minifier).
-/
import EsbuildModel.Util.Wire
namespace EsbuildModel.Rename

/-- digits after the first character, in the order they are written -/
def tailDigits (T : Nat) (i : Nat) : List Nat :=
  if h : i = 0 then [] else ((i - 1) % T) :: tailDigits T ((i - 1) / T)
termination_by i
decreasing_by
  have : (i - 1) / T ≤ i - 1 := Nat.div_le_self _ _
  omega

structure Alphabet where
  head : List Char
  tail : List Char

def name (a : Alphabet) (i : Nat) : List Char :=
  a.head.getD (i % a.head.length) '?' :: (tailDigits a.tail.length (i / a.head.length)).map (a.tail.getD · '?')

def isLowerFirst : List Char → Bool
  | c :: _ => 'a' ≤ c && c ≤ 'z'
  | [] => false

/-- the first k ≥ start (within fuel) whose name passes `ok` -/
def nextOk (ok : List Char → Bool) (nm : Nat → List Char) : Nat → Nat → Option Nat
  | 0, _ => none
  | fuel + 1, k => if ok (nm k) then some k else nextOk ok nm fuel (k + 1)

structure Slot where
  count : Nat
  capital : Bool

/-- which names a slot may take: namespace 0 (ordinary symbols) avoids reserved names and, for JSX element
names, a lowercase first letter; namespace 1 (labels) avoids reserved names (the keywords); others: anything -/
def okFor (ns : Nat) (reserved : List (List Char)) (s : Slot) (n : List Char) : Bool :=
  match ns with
  | 0 => !reserved.contains n && !(s.capital && isLowerFirst n)
  | 1 => !reserved.contains n
  | _ => true

/-- process the slots in the given order; returns the name number chosen for each -/
def assignSeq (ns : Nat) (reserved : List (List Char)) (nm : Nat → List Char) (fuel : Nat) :
    Nat → List Slot → Option (List Nat)
  | _, [] => some []
  | next, s :: rest =>
    match nextOk (okFor ns reserved s) nm fuel next with
    | none => none
    | some k => (assignSeq ns reserved nm fuel (k + 1) rest).map (k :: ·)

/-- slot indices in processing order: by count descending, then by index -/
def order (slots : List Slot) : List (Nat × Slot) :=
  (slots.zipIdx.map (fun p => (p.2, p.1))).mergeSort (fun x y => x.2.count > y.2.count || (x.2.count == y.2.count && x.1 ≤ y.1))

def assign (a : Alphabet) (ns : Nat) (reserved : List (List Char)) (fuel : Nat) (slots : List Slot) :
    Option (List (Nat × List Char)) :=
  let ord := order slots
  (assignSeq ns reserved (name a) fuel 0 (ord.map (·.2))).map (fun ks =>
    (ord.map (·.1)).zip (ks.map (fun k => (if ns = 2 then ['#'] else []) ++ name a k)))

-- ---------------------------------------------------------------- wire

def driver (args : List String) : String :=
  match args with
  | ["name", head, tail, i] =>
    match i.toNat? with
    | some i => String.ofList (name { head := head.toList, tail := tail.toList } i)
    | none => "bad-op"
  | ["assign", head, tail, ns, reserved, counts, caps] =>
    match ns.toNat?, Wire.parseNatList counts, Wire.parseNatList caps with
    | some ns, some counts, some caps =>
      if counts.length ≠ caps.length then "bad-op" else
      let res := if reserved = "-" then [] else (reserved.splitOn ",").map (·.toList)
      let slots := (counts.zip caps).map (fun p => ({ count := p.1, capital := p.2 != 0 } : Slot))
      match assign { head := head.toList, tail := tail.toList } ns res 100000 slots with
      | none => "out-of-fuel"
      | some pairs =>
        -- names in slot order
        let byIdx := (List.range slots.length).map (fun i =>
          match pairs.find? (fun p => p.1 == i) with
          | some p => String.ofList p.2
          | none => "?")
        if byIdx.isEmpty then "-" else ",".intercalate byIdx
    | _, _, _ => "bad-op"
  | _ => "bad-op"

end EsbuildModel.Rename
