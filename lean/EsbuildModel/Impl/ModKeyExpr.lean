import EsbuildModel.Spec.StatCache
/-
A tiny expression language for the facts that `harness/cmd/extract/modkey.go` reads out of
internal/fs/modkey_unix.go and internal/fs/modkey_other.go (Gen/ModKeyFacts.lean): the conditions under which
`modKey` answers `modKeyUnusable`, with `modKeySafetyGap` and the `time` unit constants inlined as numbers.
The interpreter gives them their Go meaning over nanosecond times.
-/
namespace EsbuildModel.ModKeyExpr
open EsbuildModel.StatCache

/-- the quantities the two Go files look at -/
inductive V where
  | statSec      -- stat.Mtim.Sec                       (modkey_unix.go)
  | statNsec     -- stat.Mtim.Nsec
  | nowSec       -- now.Sec   where now := unix.TimeToTimespec(time.Now())
  | nowNsec      -- now.Nsec
  | mtime        -- mtime := info.ModTime()            (modkey_other.go), a time.Time: ns since the epoch
  | now          -- time.Now()
  | zeroTime     -- var zeroTime time.Time
  deriving DecidableEq, Repr

inductive E where
  | var (v : V)
  | lit (n : Int)
  | add (a b : E)          -- a + b, t.Add(d)
  | mul (a b : E)          -- a * b
  | unixSec (a : E)        -- t.Unix(): whole seconds, rounded down
  deriving Repr

inductive C where
  | gt (a b : E)           -- a > b, t.After(u)
  | lt (a b : E)           -- a < b, t.Before(u)
  | ge (a b : E)
  | le (a b : E)
  | eq (a b : E)           -- a == b
  | ne (a b : E)
  | and (a b : C)
  | or (a b : C)
  | not (a : C)
  deriving Repr

def E.eval (env : V → Int) : E → Int
  | .var v => env v
  | .lit n => n
  | .add a b => a.eval env + b.eval env
  | .mul a b => a.eval env * b.eval env
  | .unixSec a => secOf (a.eval env)

def C.eval (env : V → Int) : C → Prop
  | .gt a b => a.eval env > b.eval env
  | .lt a b => a.eval env < b.eval env
  | .ge a b => a.eval env ≥ b.eval env
  | .le a b => a.eval env ≤ b.eval env
  | .eq a b => a.eval env = b.eval env
  | .ne a b => a.eval env ≠ b.eval env
  | .and a b => a.eval env ∧ b.eval env
  | .or a b => a.eval env ∨ b.eval env
  | .not a => ¬ a.eval env

/-- `zeroTime` (January 1, year 1 UTC) in Unix nanoseconds -/
def zeroTimeNs : Int := -62135596800 * nsPerSec

/-- the values of the quantities for a file time stamp `m` and a clock reading `now` (both in ns) -/
def env (m now : Int) : V → Int
  | .statSec => secOf m
  | .statNsec => nsecOf m
  | .nowSec => secOf now
  | .nowNsec => nsecOf now
  | .mtime => m
  | .now => now
  | .zeroTime => zeroTimeNs

end EsbuildModel.ModKeyExpr
