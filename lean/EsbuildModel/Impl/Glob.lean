import EsbuildModel.Spec.MiniRegex
import EsbuildModel.Spec.Glob
import EsbuildModel.Spec.GlobImport
import EsbuildModel.Impl.Wtf8
import EsbuildModel.Util.Wire
/-
Model of esbuild's two glob translators and of the way their output is used.

  internal/resolver/package_json.go   globstarToEscapedRegexp, the "sideEffects" array branch of parsePackageJSON
  internal/resolver/resolver.go       the `sideEffectsMap` / `sideEffectsRegexps` lookup in finalizeResolve,
                                      ResolveGlob (prefix test, leading directories, regexp text, directory walk)
  internal/helpers/glob.go            ParseGlobPattern, GlobPatternToString
  internal/js_parser/js_parser.go     the parts loop of handleGlobPattern
  Go standard library                 path.Clean / path.Join (fs.Join of the Unix file systems), regexp.QuoteMeta,
                                      regexp.MustCompile + MatchString restricted to the fragment of
                                      Spec/MiniRegex.lean, with Go's UTF-8 decoding in front of both

Strings are lists of bytes (naturals < 256), exactly as the Go code sees them.  `Out.panic` = a Go run-time panic
(index out of range), `Out.diverge` = the fuel of a loop ran out (shown
impossible in Lemmas/Glob.lean).
-/
namespace EsbuildModel.Glob
open EsbuildModel.Spec.MiniRegex

inductive Out (α : Type) where
  | ok (a : α)
  | panic
  | diverge
  deriving Repr, DecidableEq

def bytes (s : String) : List Nat := s.toList.map Char.toNat

/-- `(?:[^/]*(?:/|$))*` -/
def gsText : List Nat := [40, 63, 58, 91, 94, 47, 93, 42, 40, 63, 58, 47, 124, 36, 41, 41, 42]
/-- `[^/]*` -/
def starText : List Nat := [91, 94, 47, 93, 42]

/-! ## globstarToEscapedRegexp -/

/-- `case '\\', '^', '$', '.', '+', '|', '(', ')', '[', ']', '{', '}'` -/
def isEscaped (c : Nat) : Bool :=
  c = 92 || c = 94 || c = 36 || c = 46 || c = 43 || c = 124 || c = 40 || c = 41 || c = 91 || c = 93 || c = 123 || c = 125

/-- `for i+1 < n && glob[i+1] == '*' { starCount++; i++ }` : final `(i, starCount)` -/
def starScan (glob : List Nat) (n : Nat) : Nat → Nat → Nat → Out (Nat × Nat)
  | 0, _, _ => .diverge
  | fuel + 1, i, cnt =>
    if i + 1 < n then
      match glob[i + 1]? with
      | none => .panic
      | some d => if d = 42 then starScan glob n fuel (i + 1) (cnt + 1) else .ok (i, cnt)
    else .ok (i, cnt)

/-- `int(glob[k])` with Go's bounds check -/
def charAt (glob : List Nat) (k : Nat) : Out Int :=
  match glob[k]? with
  | none => .panic
  | some p => .ok (p : Int)

/-- the main loop; state = (`i`, contents of `sb`, `hadWildcard`) -/
def mainLoop (glob : List Nat) (n : Nat) : Nat → Nat → List Nat → Bool → Out (List Nat × Bool)
  | 0, _, _, _ => .diverge
  | fuel + 1, i, sb, wild =>
    if i < n then
      match glob[i]? with
      | none => .panic
      | some c =>
        if isEscaped c then mainLoop glob n fuel (i + 1) (sb ++ [92, c]) wild
        else if c = 63 then mainLoop glob n fuel (i + 1) (sb ++ [46]) true
        else if c = 42 then
          -- prevChar := -1; if i > 0 { prevChar = int(glob[i-1]) }
          let prev : Out Int := if i > 0 then charAt glob (i - 1) else .ok (-1)
          match prev with
          | .panic => .panic
          | .diverge => .diverge
          | .ok prevChar =>
            match starScan glob n (n + 1) i 1 with
            | .panic => .panic
            | .diverge => .diverge
            | .ok (i, starCount) =>
              -- nextChar := -1; if i+1 < n { nextChar = int(glob[i+1]) }
              let next : Out Int := if i + 1 < n then charAt glob (i + 1) else .ok (-1)
              match next with
              | .panic => .panic
              | .diverge => .diverge
              | .ok nextChar =>
                let isGlobstar := decide (starCount > 1) && (prevChar == 47 || prevChar == -1) && (nextChar == 47 || nextChar == -1)
                if isGlobstar then mainLoop glob n fuel (i + 1 + 1) (sb ++ gsText) true   -- `i++` "move over the /", then the loop's `i++`
                else mainLoop glob n fuel (i + 1) (sb ++ starText) true
        else mainLoop glob n fuel (i + 1) (sb ++ [c]) wild
    else .ok (sb ++ [36], wild)

/-- `globstarToEscapedRegexp(glob)`: (regexp text, hadWildcard) -/
def globstarToEscapedRegexp (glob : List Nat) : Out (List Nat × Bool) :=
  mainLoop glob glob.length (glob.length + 1) 0 [94] false

/-! ## Go's UTF-8 layer in front of the regexp package -/

/-- `for s != "" { rune, size := utf8.DecodeRuneInString(s); …; s = s[size:] }` : the (rune, size) pairs.
`skip` = bytes of the current sequence still to be passed over (so that the recursion is structural). -/
def goRunesAux : Nat → List Nat → List (Nat × Nat)
  | _, [] => []
  | 0, s0 :: rest =>
    let cw := Wtf8.goDecodeRune s0 rest
    cw :: goRunesAux (cw.2 - 1) rest
  | k + 1, _ :: rest => goRunesAux k rest

def goRunes (s : List Nat) : List (Nat × Nat) := goRunesAux 0 s

/-- `checkUTF8`: no ill-formed byte (`rune == utf8.RuneError && size == 1`) -/
def validUTF8 (s : List Nat) : Bool := (goRunes s).all (fun cw => !(cw.1 == Wtf8.runeError && cw.2 == 1))

/-- the code points the regexp machine sees in a subject: ill-formed bytes are U+FFFD -/
def runesOf (s : List Nat) : List Nat := (goRunes s).map (·.1)

inductive Compiled where
  | ok (re : Re)
  | invalidUTF8      -- `regexp.MustCompile` panics: "invalid UTF-8"
  | unsupported      -- outside the fragment of Spec/MiniRegex (never produced by the translators: Props `escape_complete`)
  deriving Repr, DecidableEq

/-- `regexp.MustCompile(text)` on the fragment -/
def compile (text : List Nat) : Compiled :=
  if validUTF8 text then
    match parse (runesOf text) with
    | some re => .ok re
    | none => .unsupported
  else .invalidUTF8

/-- `re.MatchString(path)` -/
def goMatch (re : Re) (path : List Nat) : Bool := matchString re (runesOf path)

/-! ## path.Clean / path.Join (Go standard library; `fs.Join` of the Unix file systems) -/

/-- split at every `/` (like `strings.Split(p, "/")`) -/
def splitSlash : List Nat → List (List Nat)
  | [] => [[]]
  | c :: cs =>
    if c = 47 then [] :: splitSlash cs
    else
      match splitSlash cs with
      | [] => [[c]]
      | s :: ss => (c :: s) :: ss

def joinSlash : List (List Nat) → List Nat
  | [] => []
  | [s] => s
  | s :: ss => s ++ 47 :: joinSlash ss

/-- the element loop of `path.Clean`: `out` = elements written so far -/
def cleanSegs (rooted : Bool) (out : List (List Nat)) : List (List Nat) → List (List Nat)
  | [] => out
  | s :: rest =>
    if s = [] || s = [46] then cleanSegs rooted out rest              -- empty or "." element: skip
    else if s = [46, 46] then
      match out.getLast? with
      | some l =>
        if l = [46, 46] then cleanSegs rooted (out ++ [s]) rest        -- cannot backtrack over ".."
        else cleanSegs rooted out.dropLast rest                        -- can backtrack
      | none =>
        if rooted then cleanSegs rooted out rest                       -- "/.." = "/"
        else cleanSegs rooted (out ++ [s]) rest                        -- cannot backtrack, append ".."
    else cleanSegs rooted (out ++ [s]) rest

def goClean (p : List Nat) : List Nat :=
  if p = [] then [46]
  else
    let rooted := p.head? = some 47
    let segs := cleanSegs rooted [] (splitSlash p)
    if rooted then 47 :: joinSlash segs
    else if segs = [] then [46] else joinSlash segs

/-- `fs.Join(a, b)` of the mock/real Unix file system: `path.Clean(path.Join(a, b))` -/
def fsJoin (a b : List Nat) : List Nat :=
  if a = [] then goClean b            -- path.Join skips empty elements; "" stays "" and Clean("") = "."
  else if b = [] then goClean a
  else goClean (a ++ 47 :: b)

/-- `path.IsAbs` -/
def isAbs (p : List Nat) : Bool := p.head? = some 47

/-- `strings.ReplaceAll(s, "\\", "/")` -/
def backslashToSlash (s : List Nat) : List Nat := s.map (fun c => if c = 92 then 47 else c)

/-! ## the "sideEffects" array of package.json and its lookup -/

/-- what parsePackageJSON stores for `"sideEffects": [ … ]` -/
structure SideEffects where
  exact : List (List Nat)     -- keys of `sideEffectsMap`
  regexps : List Re           -- `sideEffectsRegexps`
  deriving Repr, DecidableEq

/-- `absPattern` of one array item (already a Go string) -/
def absPattern (inputPath pattern : List Nat) : List Nat :=
  let pattern := if pattern.contains 47 then pattern else [42, 42, 47] ++ pattern
  backslashToSlash (fsJoin inputPath pattern)

/-- `regexp.MustCompile("")`: the empty regexp, which matches every subject (`parse [] = some emptyRegexp`) -/
def emptyRegexp : Re := .eps

/-- the loop over the array items. An item is the UTF-16 content of a JSON string. -/
def parseSideEffects (inputPath : List Nat) : List (List Nat) → SideEffects → Out SideEffects
  | [], acc => .ok acc
  | item :: rest, acc =>
    match Wtf8.utf16ToString item with
    | none => .panic
    | some pattern =>
      let ap := absPattern inputPath pattern
      match globstarToEscapedRegexp ap with
      | .panic => .panic
      | .diverge => .diverge
      | .ok (re, hadWildcard) =>
        if hadWildcard then
          -- compiled, err := regexp.Compile(re); if err != nil { compiled = regexp.MustCompile("") }
          match compile re with
          | .ok r => parseSideEffects inputPath rest { acc with regexps := acc.regexps ++ [r] }
          | .invalidUTF8 => parseSideEffects inputPath rest { acc with regexps := acc.regexps ++ [emptyRegexp] }
          | .unsupported => .panic     -- outside the modelled fragment: never happens (Props `sideeffects_no_panic`)
        else parseSideEffects inputPath rest { acc with exact := acc.exact ++ [ap] }

/-- the lookup in finalizeResolve: `true` = "hasSideEffects" (the file is NOT marked as removable) -/
def hasSideEffects (se : SideEffects) (pathText : List Nat) : Bool :=
  let pathLookup := backslashToSlash pathText
  se.exact.contains pathLookup || se.regexps.any (fun re => goMatch re pathLookup)

/-! ## helpers/glob.go -/

inductive Wild where
  | none         -- GlobNone
  | noSlash      -- GlobAllExceptSlash
  | withSlash    -- GlobAllIncludingSlash
  deriving DecidableEq, Repr

structure Part where
  pre : List Nat
  wild : Wild
  deriving DecidableEq, Repr

def isSlashOrBackslash (c : Nat) : Bool := c = 47 || c = 92

/-- `star == 0 || text[star-1] == '/' || text[star-1] == '\\'` where `pre` = `text[:star]` -/
def boundaryBefore (pre : List Nat) : Bool :=
  match pre.getLast? with
  | none => true
  | some p => isSlashOrBackslash p

/-- `star+count == len(text) || text[star+count] == '/' || text[star+count] == '\\'` where `rest` = `text[star+count:]` -/
def boundaryAfter (rest : List Nat) : Bool :=
  match rest.head? with
  | none => true
  | some p => isSlashOrBackslash p

/-- `ParseGlobPattern(text)`. The index arithmetic of the Go loop is replaced by list operations:
`text[:star]` = the longest `*`-free prefix, `count` = the length of the run of `*` after it, `text[star+count:]` = what
follows the run; every `text[k]` in the Go code is guarded by a length test in the same condition. -/
def parseGlobPattern (text : List Nat) : List Part :=
  match h : text.dropWhile (· != 42) with
  | [] => [{ pre := text, wild := .none }]
  | _ :: afterFirst =>
    { pre := text.takeWhile (· != 42),
      wild := if decide (1 + (afterFirst.takeWhile (· == 42)).length > 1) &&
                  boundaryBefore (text.takeWhile (· != 42)) && boundaryAfter (afterFirst.dropWhile (· == 42))
              then Wild.withSlash else Wild.noSlash } :: parseGlobPattern (afterFirst.dropWhile (· == 42))
termination_by text.length
decreasing_by
  have h1 := (List.dropWhile_sublist (l := text) (· != 42)).length_le
  have h2 := (List.dropWhile_sublist (l := afterFirst) (· == 42)).length_le
  rw [h] at h1
  simp only [List.length_cons] at h1
  omega

/-- `GlobPatternToString(pattern)` -/
def globPatternToString : List Part → List Nat
  | [] => []
  | p :: ps =>
    p.pre ++ (match p.wild with | .noSlash => [42] | .withSlash => [42, 42] | .none => []) ++ globPatternToString ps

/-! ## js_parser: the parts loop of handleGlobPattern -/

/-- one element of what globPatternFromExpr returns: literal text or a wildcard (`${…}` / non-constant operand) -/
inductive Piece where
  | text (t : List Nat)
  | hole
  deriving DecidableEq, Repr

/-- the same thing in the vocabulary of Spec/GlobImport.lean -/
def toFrag : Piece → Spec.GlobImport.Frag
  | .text t => .text t
  | .hole => .hole

/-- the loop `for _, part := range pattern`; state = (`parts`, `last`) -/
def templateLoop : List Piece → List Part → Part → List Part × Part
  | [], parts, last => (parts, last)
  | .hole :: ps, parts, last =>
    if last.wild = .none then
      if last.pre.getLast? ≠ some 47 then
        templateLoop ps parts { last with wild := .noSlash }                       -- "`a${b}c`" => "a*c"
      else
        templateLoop ps (parts ++ [{ last with wild := .withSlash }]) { pre := [47], wild := .noSlash }  -- "`a/${b}c`" => "a/**/*c"
    else templateLoop ps parts last
  | .text t :: ps, parts, last =>
    if t ≠ [] then
      if last.wild ≠ .none then templateLoop ps (parts ++ [last]) { pre := t, wild := .none }
      else templateLoop ps parts { last with pre := last.pre ++ t }
    else templateLoop ps parts last

def hasPrefix (s p : List Nat) : Bool := p.isPrefixOf s

/-- handleGlobPattern up to the decision "is this a glob import": `none` = the expression is left alone -/
def templateParts (pieces : List Piece) : Option (List Part) :=
  let (parts, last) := templateLoop pieces [] { pre := [], wild := .none }
  let parts := parts ++ [last]
  match parts with
  | [p] => if p.wild = .none then none                                                     -- a string constant
           else if hasPrefix p.pre [46, 47] || hasPrefix p.pre [46, 46, 47] then some parts else none
  | p :: _ => if hasPrefix p.pre [46, 47] || hasPrefix p.pre [46, 46, 47] then some parts else none
  | [] => none

/-! ## resolver.ResolveGlob -/

/-- `special(b)` of package regexp: one of  \ . + * ? ( ) | [ ] { } ^ $ -/
def isSpecialByte (b : Nat) : Bool :=
  b < 128 && (b = 92 || b = 46 || b = 43 || b = 42 || b = 63 || b = 40 || b = 41 || b = 124 ||
    b = 91 || b = 93 || b = 123 || b = 125 || b = 94 || b = 36)

/-- `regexp.QuoteMeta` (a byte loop) -/
def quoteMeta (s : List Nat) : List Nat := s.flatMap (fun b => if isSpecialByte b then [92, b] else [b])

/-- `prefix = prefix[1:]` when `wasGlobStar && len(prefix) > 0 && (prefix[0] == '/' || prefix[0] == '\\')` -/
def stripAfterGlobStar (wasGlobStar : Bool) (pre : List Nat) : List Nat :=
  match pre with
  | c :: t => if wasGlobStar && isSlashOrBackslash c then t else pre
  | [] => []

/-- the loop that writes the regexp text; state = (`wasGlobStar`, `sb`, `canMatchOnSlash`).
Note that a part without wildcard (only the last one can be) leaves `wasGlobStar` as it is. -/
def globRegexLoop : List Part → Bool → List Nat → Bool → List Nat × Bool
  | [], _, sb, cm => (sb ++ [36], cm)
  | p :: ps, wgs, sb, cm =>
    let sb := sb ++ quoteMeta (stripAfterGlobStar wgs p.pre)
    match p.wild with
    | .withSlash => globRegexLoop ps true (sb ++ gsText) true
    | .noSlash => globRegexLoop ps false (sb ++ starText) cm
    | .none => globRegexLoop ps wgs sb cm

/-- (regexp text, canMatchOnSlash) for the pattern whose first prefix has already been replaced by `firstPrefix` -/
def globRegexText (parts : List Part) : List Nat × Bool := globRegexLoop parts false [94] false

/-- "Handle leading directories in the pattern": the final `dirPrefix` -/
def dirPrefixLoop (fp : List Nat) : Nat → Nat → Out Nat
  | 0, _ => .diverge
  | fuel + 1, dp =>
    if dp > fp.length then .panic else               -- firstPrefix[dirPrefix:]
    let rem := fp.drop dp
    match rem.findIdx? isSlashOrBackslash with
    | none => .ok dp
    | some slash =>
      match rem.findIdx? (· == 42) with
      | some star => if slash > star then .ok dp else dirPrefixLoop fp fuel (dp + slash + 1)
      | none => dirPrefixLoop fp fuel (dp + slash + 1)

/-- `d` with a slash at the end (`/` stays `/`) -/
def dirSlash (d : List Nat) : List Nat := if d.getLast? = some 47 then d else d ++ [47]

/-- what the file system does with trailing slashes of an absolute directory path before the lookup
(`mockFS.ReadDirectory`: "Trim trailing slashes before lookup"; a real file system ignores them as well) -/
def trimTrailingSlashes (p : List Nat) : List Nat :=
  match (p.reverse.dropWhile (· == 47)).reverse with
  | [] => if p = [] then [] else [47]
  | q => q

/-- a directory exists in a file system given by its (clean, absolute) file paths -/
def dirExists (files : List (List Nat)) (d : List Nat) : Bool :=
  d = [47] || files.any (fun f => hasPrefix f (dirSlash d) && decide (f.length > (dirSlash d).length))

/-- the paths of the files below `d`, relative to `d` -/
def filesBelow (files : List (List Nat)) (d : List Nat) : List (List Nat) :=
  files.filterMap (fun f => if hasPrefix f (dirSlash d) && decide (f.length > (dirSlash d).length)
                            then some (f.drop (dirSlash d).length) else none)

/-- `ResolveGlob(sourceDir, parts, kind, …)` on a file system without symlinks: `none` = nil (not a valid glob /
directory not found), `some keys` = the keys of the result map (in file order; the driver sorts them).
The recursive `visit` is modelled by its result: a file is visited iff it is below `sourceDir`, directly or —
only when `canMatchOnSlash` — in a sub-directory; its `relPath` is `firstPrefix[:dirPrefix]` + the path below. -/
def resolveGlob (files : List (List Nat)) (sourceDir : List Nat) (parts : List Part) (isEntryPoint : Bool) :
    Out (Option (List (List Nat))) :=
  match parts with
  | [] => .ok none
  | p0 :: ps =>
    let fp := p0.pre
    let relative := hasPrefix fp [46, 47] || hasPrefix fp [46, 46, 47] || hasPrefix fp [46, 92] || hasPrefix fp [46, 46, 92]
    let fp' : Option (List Nat) :=
      if relative then some fp
      else if isEntryPoint then (if isAbs fp then some fp else some ([46, 47] ++ fp))
      else none
    match fp' with
    | none => .ok none
    | some fp =>
      match dirPrefixLoop fp (fp.length + 1) 0 with
      | .panic => .panic
      | .diverge => .diverge
      | .ok dp =>
        let suffix := fp.take dp
        let sourceDir := if isAbs suffix then trimTrailingSlashes suffix else fsJoin sourceDir suffix
        if !dirExists files sourceDir then .ok none else
        let (text, canMatchOnSlash) := globRegexText ({ p0 with pre := fp } :: ps)
        match compile text with
        | .ok re =>
          .ok (some ((filesBelow files sourceDir).filterMap (fun rel =>
            if (canMatchOnSlash || !rel.contains 47) && goMatch re (suffix ++ rel) then some (suffix ++ rel) else none)))
        | .invalidUTF8 => .ok none     -- re, err := regexp.Compile(…); if err != nil { return nil, nil }
        | .unsupported => .panic       -- outside the modelled fragment: never happens (Props `resolve_glob_no_panic`)

/-! ## the dialect the generated regexps implement

Not a transcription of code: the language of the regexp texts above, written as a matcher in the style of
Spec/Glob.lean so that the two can be compared (Props/C04Glob.lean proves that the regexps mean exactly this).
Differences from the specified dialect: `?` is `.` (any code point but U+000A, `/` included), and a globstar is
`(?:[^/]*(?:/|$))*`, which besides "zero or more directories" also swallows the whole rest of the path when
what follows it in the pattern can match the empty string. -/

inductive CTok where
  | lit (c : Nat)
  | one          -- `.`
  | star         -- `[^/]*`
  | gstar        -- `(?:[^/]*(?:/|$))*`
  deriving DecidableEq, Repr

def codeMatch : List CTok → List Nat → Bool
  | [] => fun w => w.isEmpty
  | .lit c :: ts => fun w => match w with
    | x :: xs => x == c && codeMatch ts xs
    | [] => false
  | .one :: ts => fun w => match w with
    | x :: xs => x != 10 && codeMatch ts xs
    | [] => false
  | .star :: ts => Spec.Glob.starLoop (codeMatch ts)
  | .gstar :: ts => fun w => Spec.Glob.dirsLoop (codeMatch ts) true w || codeMatch ts []

/-- `(?:[^/]*(?:/|$))*` as Spec/MiniRegex parses it -/
def gsRe : Re :=
  .star (.seq (.star .notSlash) (.seq (.alt (.seq (.chr 47) .eps) (.seq .eol .eps)) .eps))

/-- the regexp item a token stands for: a literal code point is a `chr` leaf and nothing else -/
def tokRe : CTok → Re
  | .lit c => .chr c
  | .one => .dot
  | .star => .star .notSlash
  | .gstar => gsRe

/-- the regexp a token list stands for: `^`, the items, `$` -/
def reOf (ts : List CTok) : Re := catOf (.bol :: ts.map tokRe ++ [.eol])

/-- how globstarToEscapedRegexp renders the tokens of the specified dialect -/
def ofSpecTok : Spec.Glob.Tok → CTok
  | .lit c => .lit c
  | .one => .one
  | .star => .star
  | .dirs => .gstar
  | .deep => .gstar

/-- the tokens globstarToEscapedRegexp renders for a pattern: those of the specified dialect, both kinds of
globstar as `gstar` -/
def codeToks (glob : List Nat) : List CTok := (Spec.Glob.tokens glob).map ofSpecTok

/-- the tokens the regexp loop of ResolveGlob renders for a list of parts (`wgs` = `wasGlobStar`): the bytes of a
prefix are literal, whatever they are -/
def partsToks : Bool → List Part → List CTok
  | _, [] => []
  | wgs, p :: ps =>
    (stripAfterGlobStar wgs p.pre).map .lit ++
      (match p.wild with
       | .withSlash => .gstar :: partsToks true ps
       | .noSlash => .star :: partsToks false ps
       | .none => partsToks wgs ps)

/-- how ParseGlobPattern + ResolveGlob render the tokens of the specified dialect: as globstarToEscapedRegexp does,
except that `?` is an ordinary character -/
def ofSpecTokQ : Spec.Glob.Tok → CTok
  | .one => .lit 63
  | t => ofSpecTok t

/-- does the pattern contain `*` or `?` (what `hadWildcard` reports) -/
def hasWild (l : List Nat) : Bool := l.any (fun c => c == 42 || c == 63)

/-! ## line protocol -/

section Driver
open Wire

def lexLe : List Nat → List Nat → Bool
  | [], _ => true
  | _ :: _, [] => false
  | a :: as, b :: bs => if a < b then true else if b < a then false else lexLe as bs

def insertSorted (x : List Nat) : List (List Nat) → List (List Nat)
  | [] => [x]
  | y :: ys => if x = y then y :: ys else if lexLe x y then x :: y :: ys else y :: insertSorted x ys

/-- sorted, duplicate-free (the keys of a Go map, sorted by the harness) -/
def sortKeys (l : List (List Nat)) : List (List Nat) := l.foldr insertSorted []

def showBool (b : Bool) : String := if b then "true" else "false"

def showPart (p : Part) : String :=
  hexUnits 2 p.pre ++ ":" ++ (match p.wild with | .none => "0" | .noSlash => "1" | .withSlash => "2")

def showParts (ps : List Part) : String := ",".intercalate (ps.map showPart)

def parsePart (s : String) : Option Part :=
  match s.splitOn ":" with
  | [h, w] =>
    match parseHexUnits 2 h with
    | some pre =>
      if w = "0" then some { pre := pre, wild := .none }
      else if w = "1" then some { pre := pre, wild := .noSlash }
      else if w = "2" then some { pre := pre, wild := .withSlash }
      else none
    | none => none
  | _ => none

def parseParts (s : String) : Option (List Part) :=
  if s = "-" then some [] else (s.splitOn ",").mapM parsePart

def parsePiece (s : String) : Option Piece :=
  if s = "H" then some .hole
  else if s.startsWith "T" then (parseHexUnits 2 (s.drop 1).toString).map .text
  else none

def parseHexList (s : String) : Option (List (List Nat)) :=
  if s = "-" then some [] else (s.splitOn ",").mapM (parseHexUnits 2)

def showHexList (l : List (List Nat)) : String :=
  if l.isEmpty then "-" else ",".intercalate (l.map (hexUnits 2))

def driver (args : List String) : String :=
  match args with
  | ["se", g, p] =>
    match parseHexUnits 2 g, parseHexUnits 2 p with
    | some glob, some path =>
      match globstarToEscapedRegexp glob with
      | .panic => "PANIC"
      | .diverge => "DIVERGE"
      | .ok (re, wild) =>
        let m := match compile re with
          | .ok r => showBool (goMatch r path)
          | .invalidUTF8 => "INVALID"
          | .unsupported => "UNSUPPORTED"
        s!"{hexUnits 2 re} {showBool wild} {m}"
    | _, _ => "bad-op"
  | "pj" :: d :: p :: items =>
    match parseHexUnits 2 d, parseHexUnits 2 p, items.mapM (parseHexUnits 4) with
    | some dir, some path, some items =>
      match parseSideEffects dir items { exact := [], regexps := [] } with
      | .ok se => if hasSideEffects se path then "se" else "nose"
      | .panic => "PANIC"
      | .diverge => "DIVERGE"
    | _, _, _ => "bad-op"
  | ["parse", t] =>
    match parseHexUnits 2 t with
    | some text =>
      let parts := parseGlobPattern text
      s!"{showParts parts} {hexUnits 2 (globPatternToString parts)}"
    | none => "bad-op"
  | "tpl" :: pieces =>
    match pieces.mapM parsePiece with
    | some ps =>
      match templateParts ps with
      | some parts => showParts parts
      | none => "none"
    | none => "bad-op"
  | ["rg", k, sd, ps, fs] =>
    match parseHexUnits 2 sd, parseParts ps, parseHexList fs with
    | some sourceDir, some parts, some files =>
      if k ≠ "E" ∧ k ≠ "I" then "bad-op" else
      match resolveGlob files sourceDir parts (k = "E") with
      | .ok none => "nil"
      | .ok (some keys) => showHexList (sortKeys keys)
      | .panic => "PANIC"
      | .diverge => "DIVERGE"
    | _, _, _ => "bad-op"
  | _ => "bad-op"

end Driver

end EsbuildModel.Glob
