import EsbuildModel.Util.Wire
/-
Message-level model of esbuild's stdio service (cmd/esbuild/service.go) with its asynchronous commands: property
C20, "every request receives exactly one response carrying its own id".

  runService            reader loop (one packet at a time, sequentially), the single writer goroutine fed by the
                        unbuffered channel `outgoingPackets`, `keepAliveWaitGroup` at EOF, `sendPings`
  sendPacket            a sender blocks until the writer goroutine has RECEIVED its packet
  sendRequest           id allocation + `callbacks[id] = …` under the mutex, then sendPacket, then wait for the answer
  handleIncomingPacket  responses: callback lookup + delete (nil → panic); requests: build / transform / … on their
                        own goroutine, resolve / rebuild / watch / serve / cancel / dispose keyed by build key
  activeBuild           createActiveBuild / destroyActiveBuild (panic on a duplicate / missing key), `ctx`,
                        `pluginResolve`, `disposeWaitGroup`, `rebuildWaitGroup`, `withinRebuildCount`, `didGetCancel`
  handleBuildRequest    one-shot builds, context creation, the "onEnd" plugin's OnStart that cancels a rebuild

The unit of the model is one packet. What a handler computes (api.Build, api.Transform …) is abstracted to: a
handler goroutine may send requests to the host (`svcReq`), each of which blocks one of its goroutines until the
host's answer has been delivered; it can end (`finish`) only when all of them have returned.  Every interleaving of
the goroutines is a list of `Action`s; `step` is one atomic step (everything between two blocking points / two
critical sections of the Go code), `none` when the action is not enabled.  Go panics (nothing recovers them: the
process dies) set `panicked`, after which nothing is enabled.

Simplifications, all in the direction "the model allows more": the goroutine that carries a host answer to the
waiting sender is merged into the delivery of the answer; the OnStart helper goroutine that cancels a rebuild is
kept (`startCancel` / `helperDone`): before fix e2efb4f it was where the service died when the context had been
disposed meanwhile; now it is started only while `ctx != nil`; ids are natural numbers (the Go
counter is a uint32 and the wire carries id<<1: see the assumption on 2^31 requests in the property file).
-/
namespace EsbuildModel.StdioAsync

inductive Cmd where
  | simple                          -- transform, format-msgs, analyze-metafile, error: own goroutine, no key
  | invalid                         -- unknown command: answered by the reader itself
  | build (ctx plugins : Bool)      -- `context`; `plugins` = the request has a "plugins" entry (pluginResolve gets set)
  | resolve | rebuild | watch | serve | cancel | dispose
deriving DecidableEq, Repr

/-- a packet written by the host -/
inductive HostPkt where
  | request (id : Nat) (cmd : Cmd) (key : Nat)
  | response (id : Nat)
  | garbage                         -- `decodePacket` says ok == false: dropped
deriving DecidableEq, Repr

/-- a packet written by the service. `tag`: for a request the command (0 on-start, 1 on-resolve, 2 on-load,
3 on-end, 4 ping, 5 serve-request); for a response 1 = one of the fixed refusals ("Cannot rebuild", …,
"Invalid command: …") sent by the reader, 0 = anything else. `key`: build key of a request, 0 otherwise. -/
structure OutPkt where
  isRequest : Bool
  id : Nat
  tag : Nat
  key : Nat
deriving DecidableEq, Repr

/-- a goroutine blocked in `sendPacket` -/
structure Pending where
  pkt : OutPkt
  fromReader : Bool                 -- it is the reader goroutine (nothing is read from stdin meanwhile)
  hold : Option Nat                 -- its deferred `disposeWaitGroup.Done()` of this build key has not run yet
deriving DecidableEq, Repr

/-- a handler goroutine that has not yet reached its final `sendPacket` -/
structure Task where
  id : Nat                          -- id of the host request it will answer
  cmd : Cmd
  key : Nat
  started : Bool                    -- build: `createActiveBuild` has run
  hold : Bool                       -- it did `disposeWaitGroup.Add(1)`
  group : Option Nat                -- rebuild: its rebuildWaitGroup; cancel: the group it waits for
deriving DecidableEq, Repr

/-- `activeBuild` -/
structure Active where
  key : Nat
  ctx : Bool                        -- `ctx != nil`
  plugins : Bool                    -- `pluginResolve != nil`
  group : Option Nat                -- `rebuildWaitGroup`
  within : Nat                      -- `withinRebuildCount`
  didGetCancel : Bool
  background : Bool                 -- watch / serve was started: builds not tied to a request may run
deriving DecidableEq, Repr

/-- an entry of `callbacks`: `owner` = the handler whose goroutine waits (none: ping / background build) -/
structure Callback where
  id : Nat
  owner : Option Nat
  key : Nat
deriving DecidableEq, Repr

structure State where
  stdin : List HostPkt              -- written by the host, not yet read by the service
  closed : Bool                     -- the host has closed stdin
  delivered : List HostPkt          -- history: packets handed to handleIncomingPacket
  tasks : List Task
  actives : List Active
  callbacks : List Callback
  nextId : Nat                      -- `nextRequestID`
  nextGroup : Nat
  helpers : List Nat                -- OnStart cancel goroutines, by the group they added themselves to
  pending : List Pending
  writing : Option OutPkt           -- the writer goroutine is inside `os.Stdout.Write(packet)`
  written : List OutPkt             -- history: packets completely written
  pings : Bool
  panicked : Bool
deriving Repr

def init (pings : Bool) : State :=
  { stdin := [], closed := false, delivered := [], tasks := [], actives := [], callbacks := [], nextId := 0,
    nextGroup := 0, helpers := [], pending := [], writing := none, written := [], pings := pings, panicked := false }

inductive Action where
  | hostSend (p : HostPkt)          -- the host writes a packet
  | hostAnswer (id : Nat)           -- the host answers service request `id` (which it has not answered yet)
  | close                           -- the host closes stdin
  | deliver                         -- the reader takes the next packet and runs handleIncomingPacket
  | start (tid : Nat)               -- build handler: createActiveBuild + plugin setup
  | finish (tid : Nat) (ok : Bool)  -- a handler reaches its final sendPacket (`ok`: api.Context succeeded)
  | svcReq (owner : Option Nat) (tag key : Nat)   -- sendRequest up to and including the blocking sendPacket
  | take (isRequest : Bool) (id : Nat)            -- the writer receives a packet from the channel
  | writeDone                       -- os.Stdout.Write returned
  | startCancel (tid : Nat)         -- OnStart of a rebuild sees `didGetCancel`
  | helperDone (g : Nat)
deriving DecidableEq, Repr

/-! ## list helpers -/

/-- mark the handler that `findTask` finds (the first one with this request id) as started -/
def setStarted (tid : Nat) : List Task → List Task
  | [] => []
  | t :: ts => if t.id == tid then { t with started := true } :: ts else t :: setStarted tid ts

def findActive (s : State) (key : Nat) : Option Active := s.actives.find? (·.key == key)
def findTask (s : State) (tid : Nat) : Option Task := s.tasks.find? (·.id == tid)

def setActive (s : State) (a : Active) : State :=
  { s with actives := s.actives.map (fun b => if b.key == a.key then a else b) }
def removeActive (s : State) (key : Nat) : State := { s with actives := s.actives.eraseP (·.key == key) }
def removeTask (s : State) (tid : Nat) : State := { s with tasks := s.tasks.eraseP (·.id == tid) }
def addTask (s : State) (t : Task) : State := { s with tasks := s.tasks ++ [t] }
def enqueue (s : State) (p : Pending) : State := { s with pending := s.pending ++ [p] }
def panic (s : State) : State := { s with panicked := true }

def response (id tag : Nat) : OutPkt := ⟨false, id, tag, 0⟩

/-- the reader goroutine is blocked in sendPacket -/
def readerBlocked (s : State) : Bool := s.pending.any (·.fromReader)

/-- number of requests to the host sent on behalf of handler `tid` that have not returned -/
def outstanding (s : State) (tid : Nat) : Nat := s.callbacks.countP (fun c => c.owner == some tid)

/-- the reader answers by itself -/
def syncReply (s : State) (id tag : Nat) : State := enqueue s ⟨response id tag, true, none⟩

/-! ## handleIncomingPacket for a request -/

def mkTask (id : Nat) (cmd : Cmd) (key : Nat) (hold : Bool) (group : Option Nat) : Task :=
  ⟨id, cmd, key, false, hold, group⟩

def deliverRequest (s : State) (id : Nat) (cmd : Cmd) (key : Nat) : State :=
  match cmd with
  | .simple => addTask s (mkTask id cmd key false none)
  | .invalid => syncReply s id 1
  | .build _ _ => addTask s (mkTask id cmd key false none)
  | .resolve =>
    match findActive s key with
    | some a => if a.plugins then addTask s (mkTask id cmd key a.ctx none) else syncReply s id 1
    | none => syncReply s id 1
  | .rebuild =>
    match findActive s key with
    | some a =>
      if a.ctx then
        match a.group with
        | some g => addTask (setActive s { a with within := a.within + 1 }) (mkTask id cmd key true (some g))
        | none =>
          let g := s.nextGroup
          addTask { setActive s { a with within := a.within + 1, group := some g } with nextGroup := g + 1 }
            (mkTask id cmd key true (some g))
      else syncReply s id 1
    | none => syncReply s id 1
  | .watch | .serve =>
    match findActive s key with
    | some a =>
      if a.ctx then addTask (setActive s { a with background := true }) (mkTask id cmd key true none)
      else syncReply s id 1
    | none => syncReply s id 1
  | .cancel =>
    match findActive s key with
    | some a =>
      let a' := if a.within > 0 then { a with didGetCancel := true } else a
      if a.ctx then addTask (setActive s a') (mkTask id cmd key false a.group)
      else syncReply (setActive s a') id 0
    | none => syncReply s id 0
  | .dispose =>
    match findActive s key with
    | some a =>
      if a.ctx then addTask (setActive s { a with ctx := false }) (mkTask id cmd key false none)
      else syncReply s id 0
    | none => syncReply s id 0

/-! ## a handler reaches its final sendPacket -/

def reply (s : State) (t : Task) (hold : Option Nat) : State :=
  enqueue (removeTask s t.id) ⟨response t.id 0, false, hold⟩

/-- `destroyActiveBuild`: panics when the key is missing -/
def destroy (s : State) (key : Nat) : State :=
  match findActive s key with
  | some _ => removeActive s key
  | none => panic s

/-- somebody still holds the disposeWaitGroup of `key`, or a background build of it still waits for the host -/
def isHolderCmd : Cmd → Bool
  | .resolve | .rebuild | .watch | .serve => true
  | _ => false

def disposeBlocked (s : State) (key : Nat) : Bool :=
  s.tasks.any (fun t => t.key == key && t.hold && isHolderCmd t.cmd) || s.pending.any (fun p => p.hold == some key) ||
  s.callbacks.any (fun c => c.key == key && c.owner == none)

/-- a rebuild of the group, or an OnStart helper that joined it, is still running -/
def cancelBlocked (s : State) (t : Task) : Bool :=
  match t.group with
  | some g => s.tasks.any (fun u => u.cmd == .rebuild && u.group == some g) || s.helpers.any (· == g)
  | none => false

def finishTask (s : State) (t : Task) (ok : Bool) : Option State :=
  if outstanding s t.id ≠ 0 then none else
  match t.cmd with
  | .simple => some (reply s t none)
  | .invalid => some (reply s t none)                            -- never spawned (the reader answers these itself)
  | .build ctx _ =>
    if !t.started then some (reply s t none)                     -- the options did not parse
    else if ctx && ok then
      match findActive s t.key with
      | some a => some (reply (setActive s { a with ctx := true }) t none)
      | none => none
    else some (reply (destroy s t.key) t none)                   -- one-shot build over / api.Context failed
  | .resolve => some (reply s t (if t.hold then some t.key else none))
  | .rebuild =>
    let s1 := match findActive s t.key with
      | some a =>
        if a.within - 1 = 0 then setActive s { a with within := 0, didGetCancel := false, group := none }
        else setActive s { a with within := a.within - 1 }
      | none => s
    some (reply s1 t (some t.key))
  | .watch | .serve => some (reply s t (some t.key))
  | .cancel => if cancelBlocked s t then none else some (reply s t none)
  | .dispose =>
    if disposeBlocked s t.key then none else some (reply (destroy s t.key) t none)

/-! ## one atomic step -/

def step (s : State) (a : Action) : Option State :=
  if s.panicked then none else
  match a with
  | .hostSend p => if s.closed then none else some { s with stdin := s.stdin ++ [p] }
  | .hostAnswer id =>
    if s.closed then none
    else if s.callbacks.any (·.id == id) && !s.stdin.contains (.response id) then
      some { s with stdin := s.stdin ++ [.response id] }
    else none
  | .close => if s.closed then none else some { s with closed := true }
  | .deliver =>
    if readerBlocked s then none else
    match s.stdin with
    | [] => none
    | p :: rest =>
      let s1 := { s with stdin := rest, delivered := s.delivered ++ [p] }
      match p with
      | .garbage => some s1
      | .response id =>
        match s1.callbacks.find? (·.id == id) with
        | some _ => some { s1 with callbacks := s1.callbacks.eraseP (·.id == id) }
        | none => some (panic s1)                                -- panic("callback nil for id …")
      | .request id cmd key => some (deliverRequest s1 id cmd key)
  | .start tid =>
    match findTask s tid with
    | some t =>
      match t.cmd with
      | .build _ plugins =>
        if t.started then none else
        match findActive s t.key with
        | some _ => some (panic s)                               -- createActiveBuild: panic("Internal error")
        | none =>
          some { s with actives := s.actives ++ [⟨t.key, false, plugins, none, 0, false, false⟩],
                        tasks := setStarted tid s.tasks }
      | _ => none
    | none => none
  | .finish tid ok =>
    match findTask s tid with
    | some t => finishTask s t ok
    | none => none
  | .svcReq owner tag key =>
    let send : State :=
      { s with callbacks := s.callbacks ++ [⟨s.nextId, owner, key⟩], nextId := s.nextId + 1,
               pending := s.pending ++ [⟨⟨true, s.nextId, tag, key⟩, false, none⟩] }
    match owner with
    | some tid =>
      match findTask s tid with
      | some t =>
        let worker := match t.cmd with
          | .build _ _ => t.started
          | .rebuild => true
          | .resolve => true
          | _ => false
        if worker && t.key == key && tag < 4 then some send else none
      | none => none
    | none =>
      if tag == 4 then (if s.pings && key == 0 then some send else none)
      else
        match findActive s key with
        | some a => if a.background then some send else none
        | none => none
  | .take isRequest id =>
    match s.writing with
    | some _ => none
    | none =>
      match s.pending.find? (fun p => p.pkt.isRequest == isRequest && p.pkt.id == id) with
      | some p =>
        some { s with writing := some p.pkt,
                      pending := s.pending.eraseP (fun p => p.pkt.isRequest == isRequest && p.pkt.id == id) }
      | none => none
  | .writeDone =>
    match s.writing with
    | some p => some { s with writing := none, written := s.written ++ [p] }
    | none => none
  | .startCancel tid =>
    match findTask s tid with
    | some t =>
      if t.cmd != .rebuild then none else
      match findActive s t.key with
      | some a =>
        match a.group with
        | some g =>
          if !a.didGetCancel then none
          else if a.ctx then some { s with helpers := s.helpers ++ [g] }
          else none                                              -- context already disposed: no helper (fix e2efb4f)
        | none => none
      | none => none
    | none => none
  | .helperDone g => if s.helpers.contains g then some { s with helpers := s.helpers.erase g } else none

def run : State → List Action → Option State
  | s, [] => some s
  | s, a :: as => match step s a with | some s' => run s' as | none => none

/-- `keepAliveWaitGroup` is back to zero after EOF: runService returns -/
def canExit (s : State) : Bool :=
  s.closed && s.stdin.isEmpty && s.tasks.isEmpty && s.pending.isEmpty && s.writing.isNone && s.actives.isEmpty &&
  !s.panicked

/-! ## line protocol

`stdioasync <pings 0|1> <actions> <observed stdout packets> <EXIT|PANIC|OPEN>`: the action list is the observed
history of a real session (every packet the host wrote, every packet it read, in one order) with the invisible
steps filled in by the harness. The model must accept every action, must have written exactly the observed
packets in the observed order, and must end as the real service ended. -/

def parseCmd (s : String) : Option Cmd :=
  match s with
  | "t" => some .simple
  | "i" => some .invalid
  | "b00" => some (.build false false)
  | "b01" => some (.build false true)
  | "b10" => some (.build true false)
  | "b11" => some (.build true true)
  | "s" => some .resolve
  | "r" => some .rebuild
  | "w" => some .watch
  | "v" => some .serve
  | "c" => some .cancel
  | "d" => some .dispose
  | _ => none

def parseAction (s : String) : Option Action :=
  let head := (s.take 1).toString
  let fields := ((s.drop 1).toString).splitOn ":"
  match head, fields with
  | "Q", [id, cmd, key] =>
    match id.toNat?, parseCmd cmd, key.toNat? with
    | some id, some cmd, some key => some (.hostSend (.request id cmd key))
    | _, _, _ => none
  | "A", [id] => id.toNat?.map .hostAnswer
  | "X", [id] => id.toNat?.map (fun id => .hostSend (.response id))
  | "G", [""] => some (.hostSend .garbage)
  | "E", [""] => some .close
  | "D", [""] => some .deliver
  | "S", [t] => t.toNat?.map .start
  | "F", [t] => t.toNat?.map (fun t => .finish t true)
  | "N", [t] => t.toNat?.map (fun t => .finish t false)
  | "U", [owner, tag, key] =>
    match tag.toNat?, key.toNat? with
    | some tag, some key =>
      if owner = "-" then some (.svcReq none tag key) else owner.toNat?.map (fun o => .svcReq (some o) tag key)
    | _, _ => none
  | "T", [r, id] =>
    match id.toNat? with
    | some id => if r = "1" then some (.take true id) else if r = "0" then some (.take false id) else none
    | none => none
  | "W", [""] => some .writeDone
  | "C", [t] => t.toNat?.map .startCancel
  | "H", [g] => g.toNat?.map .helperDone
  | _, _ => none

def parseOut (s : String) : Option OutPkt :=
  let head := (s.take 1).toString
  let fields := ((s.drop 1).toString).splitOn ":"
  match head, fields with
  | "Q", [id, tag, key] =>
    match id.toNat?, tag.toNat?, key.toNat? with
    | some id, some tag, some key => some ⟨true, id, tag, key⟩
    | _, _, _ => none
  | "R", [id, tag] =>
    match id.toNat?, tag.toNat? with
    | some id, some tag => some (response id tag)
    | _, _ => none
  | _, _ => none

def runReport : State → Nat → List (String × Action) → Except String State
  | s, _, [] => .ok s
  | s, i, (tok, a) :: as =>
    match step s a with
    | some s' => runReport s' (i + 1) as
    | none => .error s!"stuck at action {i} ({tok})"

def isRequestPkt : HostPkt → Option Nat
  | .request id _ _ => some id
  | _ => none

/-- the conclusion of `one_response_per_request`, evaluated on an end state -/
def answeredOnce (s : State) : Bool :=
  let reqs := s.delivered.filterMap isRequestPkt
  let resps := (s.written.filter (fun p => !p.isRequest)).map (·.id)
  reqs.all (fun i => resps.count i == reqs.count i) && resps.all (fun i => reqs.contains i)

def driver (args : List String) : String :=
  match args with
  | [pings, acts, outs, ending] =>
    let toks := if acts = "-" then [] else acts.splitOn ","
    match toks.mapM (fun t => (parseAction t).map (fun a => (t, a))),
          (if outs = "-" then some [] else (outs.splitOn ",").mapM parseOut) with
    | some as, some obs =>
      if (pings != "0" && pings != "1") || (ending != "EXIT" && ending != "PANIC" && ending != "OPEN") then "bad-op" else
      match runReport (init (pings == "1")) 0 as with
      | .error e => e
      | .ok s =>
        if s.written != obs then s!"stdout differs: model wrote {s.written.length} packets, observed {obs.length}"
        else if ending == "PANIC" then (if s.panicked then "ok" else "real service panicked, model did not")
        else if s.panicked then "model panicked, real service did not"
        else if ending == "EXIT" && !canExit s then "real service returned, model cannot exit"
        else if ending == "EXIT" && !answeredOnce s then "not exactly one response per request"
        else "ok"
    | _, _ => "bad-op"
  | _ => "bad-op"

end EsbuildModel.StdioAsync
