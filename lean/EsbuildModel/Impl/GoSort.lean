/-
Model of Go's `sort.Stable` (go1.23 `sort/zsortinterface.go`: `insertionSort`, `stable`, `symMerge`, `rotate`,
`swapRange`) over an array, with `Less(i, j) = lt d[i] d[j]` and `Swap(i, j)` exchanging two elements.

Why the library routine is modelled: `js_parser.ParseSourceMap` calls `sort.Stable(mappings)` with
`mappingArray.Less` = "generated position of i <= generated position of j" — a REFLEXIVE relation, which is
outside the contract of `sort.Interface` (a strict weak ordering is required).  What the call does is therefore
not determined by the documentation of `sort`, only by its code; in particular the order among mappings with equal
generated position depends on the algorithm.

Every index is a natural; a subtraction that Go performs on `int`s and that would go negative is checked
(`sub?`) and an access or swap outside the array is `none` (Go: index-out-of-range panic).  Loops carry `fuel`;
running out of fuel is also `none` (the theorems show that neither happens).
-/
namespace EsbuildModel.GoSort
variable {α : Type}

/-- `data.Swap(i, j)` -/
def swap? (d : Array α) (i j : Nat) : Option (Array α) :=
  if h : i < d.size ∧ j < d.size then some (d.swap i j h.1 h.2) else none

/-- `data.Less(i, j)` -/
def less? (lt : α → α → Bool) (d : Array α) (i j : Nat) : Option Bool :=
  match d[i]?, d[j]? with
  | some x, some y => some (lt x y)
  | _, _ => none

/-- `x - y` on Go ints where the model needs the result as an index: `none` if negative -/
def sub? (x y : Nat) : Option Nat := if y ≤ x then some (x - y) else none

/-- `for j := i; j > a && data.Less(j, j-1); j-- { data.Swap(j, j-1) }` -/
def insInner (lt : α → α → Bool) (a : Nat) : Nat → Array α → Option (Array α)
  | 0, d => some d
  | j + 1, d =>
    if j + 1 > a then
      match less? lt d (j + 1) j with
      | none => none
      | some false => some d
      | some true =>
        match swap? d (j + 1) j with
        | none => none
        | some d => insInner lt a j d
    else some d

/-- `for i := …; i < b; i++ { inner loop }`, `cnt` = number of rounds left -/
def insLoop (lt : α → α → Bool) (a : Nat) : Nat → Nat → Array α → Option (Array α)
  | _, 0, d => some d
  | i, cnt + 1, d =>
    match insInner lt a i d with
    | none => none
    | some d => insLoop lt a (i + 1) cnt d

/-- `insertionSort(data, a, b)` -/
def insertionSort (lt : α → α → Bool) (d : Array α) (a b : Nat) : Option (Array α) :=
  insLoop lt a (a + 1) (b - (a + 1)) d

/-- `swapRange(data, a, b, n)` -/
def swapRange (d : Array α) (a b : Nat) : Nat → Nat → Option (Array α)
  | _, 0 => some d
  | i, cnt + 1 =>
    match swap? d (a + i) (b + i) with
    | none => none
    | some d => swapRange d a b (i + 1) cnt
/- note: `swapRange d a b i cnt` performs `Swap(a+i, b+i)`, …, `Swap(a+i+cnt-1, b+i+cnt-1)`; Go's call is `i = 0, cnt = n` -/

/-- the loop of `rotate`: `for i != j { … }` followed by the final `swapRange(data, m-i, m, i)` -/
def rotateLoop (m : Nat) : Nat → Nat → Nat → Array α → Option (Array α)
  | 0, _, _, _ => none
  | fuel + 1, i, j, d =>
    if i ≠ j then
      if i > j then
        match sub? m i with
        | none => none
        | some mi =>
          match swapRange d mi m 0 j with
          | none => none
          | some d => rotateLoop m fuel (i - j) j d
      else
        match sub? m i, sub? (m + j) i with
        | some mi, some mji =>
          match swapRange d mi mji 0 i with
          | none => none
          | some d => rotateLoop m fuel i (j - i) d
        | _, _ => none
    else
      match sub? m i with
      | none => none
      | some mi => swapRange d mi m 0 i

/-- `rotate(data, a, m, b)` -/
def rotate (d : Array α) (a m b : Nat) : Option (Array α) :=
  match sub? m a, sub? b m with
  | some i, some j => rotateLoop m (i + j + 1) i j d
  | _, _ => none

/-- `for i < j { h := int(uint(i+j) >> 1); if data.Less(h, a) { i = h + 1 } else { j = h } }` (case `m-a == 1`) -/
def searchA (lt : α → α → Bool) (d : Array α) (a : Nat) : Nat → Nat → Nat → Option Nat
  | 0, _, _ => none
  | fuel + 1, i, j =>
    if i < j then
      let h := (i + j) / 2
      match less? lt d h a with
      | none => none
      | some true => searchA lt d a fuel (h + 1) j
      | some false => searchA lt d a fuel i h
    else some i

/-- `for i < j { h := …; if !data.Less(m, h) { i = h + 1 } else { j = h } }` (case `b-m == 1`) -/
def searchB (lt : α → α → Bool) (d : Array α) (m : Nat) : Nat → Nat → Nat → Option Nat
  | 0, _, _ => none
  | fuel + 1, i, j =>
    if i < j then
      let h := (i + j) / 2
      match less? lt d m h with
      | none => none
      | some false => searchB lt d m fuel (h + 1) j
      | some true => searchB lt d m fuel i h
    else some i

/-- `for start < r { c := int(uint(start+r) >> 1); if !data.Less(p-c, c) { start = c + 1 } else { r = c } }` -/
def searchC (lt : α → α → Bool) (d : Array α) (p : Nat) : Nat → Nat → Nat → Option Nat
  | 0, _, _ => none
  | fuel + 1, start, r =>
    if start < r then
      let c := (start + r) / 2
      match sub? p c with
      | none => none
      | some pc =>
        match less? lt d pc c with
        | none => none
        | some false => searchC lt d p fuel (c + 1) r
        | some true => searchC lt d p fuel start c
    else some start

/-- `for k := a; k < i-1; k++ { data.Swap(k, k+1) }`, `cnt` = rounds left -/
def bubbleUp (d : Array α) : Nat → Nat → Option (Array α)
  | _, 0 => some d
  | k, cnt + 1 =>
    match swap? d k (k + 1) with
    | none => none
    | some d => bubbleUp d (k + 1) cnt

/-- `for k := m; k > i; k-- { data.Swap(k, k-1) }`, `cnt` = rounds left -/
def bubbleDown (d : Array α) : Nat → Nat → Option (Array α)
  | _, 0 => some d
  | k, cnt + 1 =>
    match sub? k 1 with
    | none => none
    | some k1 =>
      match swap? d k k1 with
      | none => none
      | some d => bubbleDown d k1 cnt

/-- `symMerge(data, a, m, b)`; `fuel` bounds the recursion depth -/
def symMerge (lt : α → α → Bool) : Nat → Array α → Nat → Nat → Nat → Option (Array α)
  | 0, _, _, _, _ => none
  | fuel + 1, d, a, m, b =>
    if m - a = 1 then
      match searchA lt d a (b - m + 1) m b with
      | none => none
      | some i => bubbleUp d a (i - 1 - a)
    else if b - m = 1 then
      match searchB lt d m (m - a + 1) a m with
      | none => none
      | some i => bubbleDown d m (m - i)
    else
      let mid := (a + b) / 2
      let n := mid + m
      let sr : Option (Nat × Nat) :=
        if m > mid then (match sub? n b with | some s => some (s, mid) | none => none) else some (a, m)
      match sr, sub? n 1 with
      | some (start, r), some p =>
        match searchC lt d p (r - start + 1) start r with
        | none => none
        | some start =>
          match sub? n start with
          | none => none
          | some end_ =>
            let d1 := if start < m ∧ m < end_ then rotate d start m end_ else some d
            match d1 with
            | none => none
            | some d =>
              let d2 := if a < start ∧ start < mid then symMerge lt fuel d a start mid else some d
              match d2 with
              | none => none
              | some d => if mid < end_ ∧ end_ < b then symMerge lt fuel d mid end_ b else some d
      | _, _ => none

/-- `for b <= n { insertionSort(data, a, b); a = b; b += blockSize }; insertionSort(data, a, n)` -/
def blocks (lt : α → α → Bool) (n bs : Nat) : Nat → Nat → Array α → Option (Array α)
  | 0, _, _ => none
  | fuel + 1, a, d =>
    if a + bs ≤ n then
      match insertionSort lt d a (a + bs) with
      | none => none
      | some d => blocks lt n bs fuel (a + bs) d
    else insertionSort lt d a n

/-- `for b <= n { symMerge(data, a, a+blockSize, b); a = b; b += 2*blockSize }; if m := a+blockSize; m < n { symMerge(data, a, m, n) }` -/
def mergePass (lt : α → α → Bool) (n bs : Nat) : Nat → Nat → Array α → Option (Array α)
  | 0, _, _ => none
  | fuel + 1, a, d =>
    if a + 2 * bs ≤ n then
      match symMerge lt (2 * bs + 1) d a (a + bs) (a + 2 * bs) with
      | none => none
      | some d => mergePass lt n bs fuel (a + 2 * bs) d
    else if a + bs < n then symMerge lt (n - a + 1) d a (a + bs) n
    else some d

/-- `for blockSize < n { …; blockSize *= 2 }` -/
def passes (lt : α → α → Bool) (n : Nat) : Nat → Nat → Array α → Option (Array α)
  | 0, _, _ => none
  | fuel + 1, bs, d =>
    if bs < n then
      match mergePass lt n bs (n + 1) 0 d with
      | none => none
      | some d => passes lt n fuel (2 * bs) d
    else some d

/-- `sort.Stable(data)` -/
def stable (lt : α → α → Bool) (d : Array α) : Option (Array α) :=
  let n := d.size
  match blocks lt n 20 (n + 1) 0 d with
  | none => none
  | some d => passes lt n (n + 1) 20 d

end EsbuildModel.GoSort
