import EsbuildModel.Util.Wire
/-
Model of esbuild's stdio service protocol (property C20, service part).

  cmd/esbuild/stdio_protocol.go : readUint32, writeUint32, readLengthPrefixedSlice, encodePacket, decodePacket
  cmd/esbuild/service.go        : the read/framing loop of runService, and the synchronous (no active build)
                                  part of handleIncomingPacket

Conventions
* a byte is a `Nat` (< 256 on the wire; nothing here depends on that bound), `Bytes = List Nat`;
* a Go `map[string]interface{}` is an association list; the canonical form (what `decodePacket` builds, see
  `mapInsert`) is strictly sorted by key in Go's string order `bytesLt`, so equal models = equal Go values;
* Go `int` is 64 bit (`uint32(v)` is `v mod 2^32`; `int(count)` of a uint32 is never negative);
* `make([]interface{}, count)` / `make(map…, count)` are assumed to succeed (a count near 2^32 makes the real
  process die with "fatal error: runtime: out of memory" before the loop starts; the model goes on to the loop);
* every indexing `bytes[0]` of an empty slice and the explicit `panic("Invalid packet")` are `Res.panic`.
-/
namespace EsbuildModel.Stdio

abbrev Bytes := List Nat

/-- `interface{}` values that `encodePacket` accepts / `decodePacket` produces -/
inductive Val where
  | nil
  | bool (b : Bool)
  | int (n : Int)
  | str (s : Bytes)
  | bytes (s : Bytes)
  | arr (xs : List Val)
  | map (kvs : List (Bytes × Val))

structure Packet where
  value : Val
  id : Nat
  isRequest : Bool

/-! ## primitives -/

/-- the four bytes `binary.LittleEndian.PutUint32` writes for `uint32(v)` (the cast is the `% 256` of the top byte) -/
def u32le (v : Nat) : Bytes := [v % 256, v / 256 % 256, v / 65536 % 256, v / 16777216 % 256]

/-- `writeUint32(bytes, value)` -/
def writeUint32 (bs : Bytes) (v : Nat) : Bytes := bs ++ u32le v

/-- `readUint32`: `none` = `ok == false` (the Go function then returns `0, bytes`) -/
def readUint32 : Bytes → Option (Nat × Bytes)
  | b0 :: b1 :: b2 :: b3 :: rest => some (b0 + 256 * b1 + 65536 * b2 + 16777216 * b3, rest)
  | _ => none

/-- `readLengthPrefixedSlice`: `none` = `ok == false` (the Go function then returns `[]byte{}, bytes`) -/
def readLPS (bs : Bytes) : Option (Bytes × Bytes) :=
  match readUint32 bs with
  | some (n, after) => if after.length ≥ n then some (after.take n, after.drop n) else none
  | none => none

/-- Go's `<` on strings: bytewise lexicographic, a proper prefix is smaller -/
def bytesLt : Bytes → Bytes → Bool
  | [], [] => false
  | [], _ :: _ => true
  | _ :: _, [] => false
  | a :: as, b :: bs => if a < b then true else if a = b then bytesLt as bs else false

/-- `sort.Strings(keys)` followed by the loop over the keys: insertion sort on the key component -/
def insertKV {β : Type} (x : Bytes × β) : List (Bytes × β) → List (Bytes × β)
  | [] => [x]
  | y :: ys => if bytesLt y.1 x.1 then y :: insertKV x ys else x :: y :: ys

def sortKV {β : Type} (l : List (Bytes × β)) : List (Bytes × β) := l.foldr insertKV []

/-! ## encodePacket -/

/-- what the map loop appends for one key: length, key bytes, encoded value -/
def catKV : List (Bytes × Bytes) → Bytes
  | [] => []
  | (k, e) :: rest => u32le k.length ++ k ++ e ++ catKV rest

/- `visit` of encodePacket. The bytes appended for a value do not depend on what was appended before, so the
map case encodes every entry first (`encPairs`) and then orders the entries by key; Go orders the keys first and
encodes `v[k]` in that order — the same bytes. -/
mutual
def encV : Val → Bytes
  | .nil => [0]
  | .bool b => [1, if b then 1 else 0]
  | .int n => 2 :: u32le (n % 4294967296).toNat
  | .str s => 3 :: (u32le s.length ++ s)
  | .bytes s => 4 :: (u32le s.length ++ s)
  | .arr xs => 5 :: (u32le xs.length ++ encList xs)
  | .map kvs => 6 :: (u32le kvs.length ++ catKV (sortKV (encPairs kvs)))
def encList : List Val → Bytes
  | [] => []
  | x :: xs => encV x ++ encList xs
def encPairs : List (Bytes × Val) → List (Bytes × Bytes)
  | [] => []
  | (k, v) :: kvs => (k, encV v) :: encPairs kvs
end

/-- the packet without its length prefix: `(id<<1 | !isRequest)` then the value (`id` is a uint32 in Go) -/
def encBody (p : Packet) : Bytes :=
  u32le (if p.isRequest then p.id * 2 else p.id * 2 + 1) ++ encV p.value

/-- `encodePacket`: length prefix patched in at the end as `uint32(len(bytes)-4)` -/
def encodePacket (p : Packet) : Bytes :=
  let body := encBody p
  u32le body.length ++ body

/-! ## decodePacket -/

inductive Res (α : Type) where
  | ok (a : α) (rest : Bytes)
  | fail          -- `ok == false`
  | panic         -- Go run-time panic (index out of range, "Invalid packet")
  | outOfFuel     -- artefact of the fuel parameter; `decodePacket_total` shows it never comes out

/-- `value[string(key)] = item` on the canonical (strictly sorted) representation of a Go map -/
def mapInsert (k : Bytes) (v : Val) : List (Bytes × Val) → List (Bytes × Val)
  | [] => [(k, v)]
  | (k', v') :: m =>
    if k = k' then (k, v) :: m
    else if bytesLt k k' then (k, v) :: (k', v') :: m
    else (k', v') :: mapInsert k v m

/-- the Go map after the assignments `value[k] = item` in list order -/
def buildMap (entries : List (Bytes × Val)) : List (Bytes × Val) :=
  entries.foldl (fun m e => mapInsert e.1 e.2 m) []

/- `visit` of decodePacket with its two loops. `bytes` is threaded through as the `rest` of the result. The fuel
decreases on every call; `2 * len + 1` is always enough because every `visit` consumes its kind byte. -/
mutual
def visit : Nat → Bytes → Res Val
  | 0, _ => .outOfFuel
  | _ + 1, [] => .panic                       -- kind := bytes[0]
  | fuel + 1, kind :: bs =>
    match kind with
    | 0 => .ok .nil bs
    | 1 =>
      match bs with
      | [] => .panic                          -- value := bytes[0]
      | v :: bs => .ok (.bool (v != 0)) bs
    | 2 =>
      match readUint32 bs with
      | none => .fail
      | some (n, next) => .ok (.int n) next
    | 3 =>
      match readLPS bs with
      | none => .fail
      | some (s, next) => .ok (.str s) next
    | 4 =>
      match readLPS bs with
      | none => .fail
      | some (s, next) => .ok (.bytes s) next
    | 5 =>
      match readUint32 bs with
      | none => .fail
      | some (count, next) =>
        match visitArr fuel count next with
        | .ok xs rest => .ok (.arr xs) rest
        | .fail => .fail
        | .panic => .panic
        | .outOfFuel => .outOfFuel
    | 6 =>
      match readUint32 bs with
      | none => .fail
      | some (count, next) =>
        match visitMap fuel count next with
        | .ok entries rest => .ok (.map (buildMap entries)) rest
        | .fail => .fail
        | .panic => .panic
        | .outOfFuel => .outOfFuel
    | _ => .panic                             -- panic("Invalid packet")
/-- `for i := 0; i < int(count); i++ { item, ok := visit(); … }` -/
def visitArr : Nat → Nat → Bytes → Res (List Val)
  | _, 0, bs => .ok [] bs
  | 0, _ + 1, _ => .outOfFuel
  | fuel + 1, count + 1, bs =>
    match visit fuel bs with
    | .ok item rest =>
      match visitArr fuel count rest with
      | .ok items rest' => .ok (item :: items) rest'
      | .fail => .fail
      | .panic => .panic
      | .outOfFuel => .outOfFuel
    | .fail => .fail
    | .panic => .panic
    | .outOfFuel => .outOfFuel
/-- the map loop; returns the `(key, item)` assignments in order -/
def visitMap : Nat → Nat → Bytes → Res (List (Bytes × Val))
  | _, 0, bs => .ok [] bs
  | 0, _ + 1, _ => .outOfFuel
  | fuel + 1, count + 1, bs =>
    match readLPS bs with
    | none => .fail
    | some (key, next) =>
      match visit fuel next with
      | .ok item rest =>
        match visitMap fuel count rest with
        | .ok entries rest' => .ok ((key, item) :: entries) rest'
        | .fail => .fail
        | .panic => .panic
        | .outOfFuel => .outOfFuel
      | .fail => .fail
      | .panic => .panic
      | .outOfFuel => .outOfFuel
end

/-- `decodePacket(bytes)` (the argument is the packet WITHOUT the length prefix, as `runService` passes it) -/
def decodePacket (bs : Bytes) : Res Packet :=
  match readUint32 bs with
  | none => .fail
  | some (id, bs) =>
    match visit (2 * bs.length + 1) bs with
    | .ok v rest => if rest.length ≠ 0 then .fail else .ok ⟨v, id / 2, id % 2 == 0⟩ []
    | .fail => .fail
    | .panic => .panic
    | .outOfFuel => .outOfFuel

/-! ## the framing loop of runService -/

/-- inner loop `for { packet, afterPacket, ok := readLengthPrefixedSlice(bytes); if !ok { break }; … }`:
the packets handed to `handleIncomingPacket` and the left-over. Every iteration consumes at least the four length
bytes, so fuel `len + 1` is enough (`none` = out of fuel, never produced: `frames_total`). -/
def framesAux : Nat → Bytes → Option (List Bytes × Bytes)
  | 0, _ => none
  | fuel + 1, bs =>
    match readLPS bs with
    | none => some ([], bs)
    | some (p, after) =>
      match framesAux fuel after with
      | none => none
      | some (ps, left) => some (p :: ps, left)

def frames (bs : Bytes) : Option (List Bytes × Bytes) := framesAux (bs.length + 1) bs

/-- the outer loop: one element of `chunks` is the result `buffer[:n]` of one `os.Stdin.Read`; `n == 0` (an empty
chunk) or the end of the list (EOF) leaves the loop. Result: all packets handed over, and the final `stream`. -/
def runFraming (stream : Bytes) : List Bytes → Option (List Bytes × Bytes)
  | [] => some ([], stream)
  | c :: cs =>
    if c.isEmpty then some ([], stream)
    else
      match frames (stream ++ c) with
      | none => none
      | some (ps, left) =>
        match runFraming left cs with
        | none => none
        | some (qs, left') => some (ps ++ qs, left')

/-! ## handleIncomingPacket, for a service without active builds and without outstanding requests -/

def mapGet (k : Bytes) : List (Bytes × Val) → Option Val
  | [] => none
  | (k', v) :: m => if k = k' then some v else mapGet k m

def ascii (s : String) : Bytes := s.toList.map Char.toNat

inductive Handled where
  | ignore                  -- `decodePacket` said `ok == false`: the packet is dropped silently
  | respond (frame : Bytes) -- one packet sent synchronously on stdout
  | panic                   -- the service goroutine panics (nothing recovers it: the process dies)
  | unmodelled              -- build / transform / error / format-msgs / analyze-metafile: asynchronous, not modelled
  | outOfFuel               -- artefact, never produced (`decodePacket_total`)

def errorResponse (id : Nat) (msg : Bytes) : Handled :=
  .respond (encodePacket ⟨.map [(ascii "error", .str msg)], id, false⟩)

def emptyResponse (id : Nat) : Handled :=
  .respond (encodePacket ⟨.map [], id, false⟩)

/-- `request["key"].(int)` then the branch taken when `getActiveBuild(key) == nil` -/
def withKey (request : List (Bytes × Val)) (k : Handled) : Handled :=
  match mapGet (ascii "key") request with
  | some (.int _) => k
  | _ => .panic

def handle (body : Bytes) : Handled :=
  match decodePacket body with
  | .fail => .ignore
  | .panic => .panic
  | .outOfFuel => .outOfFuel
  | .ok p _ =>
    if !p.isRequest then .panic        -- `callbacks[p.id]` is nil: panic("callback nil for id …")
    else
      match p.value with
      | .map request =>                -- request := p.value.(map[string]interface{})
        match mapGet (ascii "command") request with
        | some (.str command) =>       -- command := request["command"].(string)
          if command = ascii "build" ∨ command = ascii "transform" ∨ command = ascii "error"
              ∨ command = ascii "format-msgs" ∨ command = ascii "analyze-metafile" then .unmodelled
          else if command = ascii "resolve" then
            withKey request (errorResponse p.id (ascii "Cannot call \"resolve\" on an inactive build"))
          else if command = ascii "rebuild" then withKey request (errorResponse p.id (ascii "Cannot rebuild"))
          else if command = ascii "watch" then withKey request (errorResponse p.id (ascii "Cannot watch"))
          else if command = ascii "serve" then withKey request (errorResponse p.id (ascii "Cannot serve"))
          else if command = ascii "cancel" then withKey request (emptyResponse p.id)
          else if command = ascii "dispose" then withKey request (emptyResponse p.id)
          else errorResponse p.id (ascii "Invalid command: " ++ command)
        | _ => .panic
      | _ => .panic

inductive Ending where
  | eof | panicked | unmodelled | outOfFuel
  deriving DecidableEq

/-- the packets of one inner loop handed to the handler one after the other; a panic ends everything -/
def handleAll : List Bytes → List Bytes × Ending
  | [] => ([], .eof)
  | b :: bs =>
    match handle b with
    | .ignore => handleAll bs
    | .respond f => let (out, e) := handleAll bs; (f :: out, e)
    | .panic => ([], .panicked)
    | .unmodelled => ([], .unmodelled)
    | .outOfFuel => ([], .outOfFuel)

/-- `runService` as it is written: read a chunk, split, handle, keep the partial tail, repeat.
Result: the frames written to stdout (after the version header) and how the loop ended. -/
def serve (stream : Bytes) : List Bytes → Option (List Bytes × Ending)
  | [] => some ([], .eof)
  | c :: cs =>
    if c.isEmpty then some ([], .eof)
    else
      match frames (stream ++ c) with
      | none => none
      | some (ps, left) =>
        match handleAll ps with
        | (out, .eof) =>
          match serve left cs with
          | none => none
          | some (out', e) => some (out ++ out', e)
        | (out, e) => some (out, e)

/-! ## line protocol -/

open Wire

mutual
def showVal : Val → String
  | .nil => "N"
  | .bool b => if b then "T" else "F"
  | .int n => "I" ++ toString n ++ ";"
  | .str s => "S" ++ String.join (s.map (hexUnit 2)) ++ ";"
  | .bytes s => "B" ++ String.join (s.map (hexUnit 2)) ++ ";"
  | .arr xs => "A(" ++ showList xs ++ ")"
  | .map kvs => "M(" ++ showKVs kvs ++ ")"
def showList : List Val → String
  | [] => ""
  | x :: xs => showVal x ++ showList xs
def showKVs : List (Bytes × Val) → String
  | [] => ""
  | (k, v) :: kvs => String.join (k.map (hexUnit 2)) ++ ":" ++ showVal v ++ showKVs kvs
end

def hexUntil (stop : Char) (cs : List Char) : Option (Bytes × List Char) :=
  match cs.span (· != stop) with
  | (h, _ :: rest) =>
    if h.isEmpty then some ([], rest) else
    match parseHexUnits 2 (String.ofList h) with
    | some bs => some (bs, rest)
    | none => none
  | _ => none

mutual
def parseVal : Nat → List Char → Option (Val × List Char)
  | 0, _ => none
  | _ + 1, [] => none
  | fuel + 1, c :: cs =>
    if c = 'N' then some (.nil, cs)
    else if c = 'T' then some (.bool true, cs)
    else if c = 'F' then some (.bool false, cs)
    else if c = 'I' then
      match cs.span (· != ';') with
      | (d, _ :: rest) =>
        match (String.ofList d).toInt? with
        | some n => some (.int n, rest)
        | none => none
      | _ => none
    else if c = 'S' then
      match hexUntil ';' cs with
      | some (bs, rest) => some (.str bs, rest)
      | none => none
    else if c = 'B' then
      match hexUntil ';' cs with
      | some (bs, rest) => some (.bytes bs, rest)
      | none => none
    else if c = 'A' then
      match cs with
      | '(' :: cs =>
        match parseItems fuel cs with
        | some (xs, rest) => some (.arr xs, rest)
        | none => none
      | _ => none
    else if c = 'M' then
      match cs with
      | '(' :: cs =>
        match parseEntries fuel cs with
        | some (es, rest) => some (.map (buildMap es), rest)   -- `m[string(k)] = value` in the Go hook
        | none => none
      | _ => none
    else none
def parseItems : Nat → List Char → Option (List Val × List Char)
  | 0, _ => none
  | _ + 1, [] => none
  | fuel + 1, c :: cs =>
    if c = ')' then some ([], cs)
    else
      match parseVal fuel (c :: cs) with
      | some (v, rest) =>
        match parseItems fuel rest with
        | some (vs, rest') => some (v :: vs, rest')
        | none => none
      | none => none
def parseEntries : Nat → List Char → Option (List (Bytes × Val) × List Char)
  | 0, _ => none
  | _ + 1, [] => none
  | fuel + 1, c :: cs =>
    if c = ')' then some ([], cs)
    else
      match hexUntil ':' (c :: cs) with
      | some (k, rest) =>
        match parseVal fuel rest with
        | some (v, rest') =>
          match parseEntries fuel rest' with
          | some (es, rest'') => some ((k, v) :: es, rest'')
          | none => none
        | none => none
      | none => none
end

def parseValue (s : String) : Option Val :=
  let cs := s.toList
  match parseVal (cs.length + 1) cs with
  | some (v, []) => some v
  | _ => none

def showBool (b : Bool) : String := if b then "true" else "false"

def driver (args : List String) : String :=
  match args with
  | ["enc", id, isReq, v] =>
    match parseNat id, parseValue v with
    | some id, some v =>
      if id < 4294967296 then hexUnits 2 (encodePacket ⟨v, id, isReq == "1"⟩) else "bad-op"
    | _, _ => "bad-op"
  | ["dec", bytes] =>
    match parseHexUnits 2 bytes with
    | some bs =>
      match decodePacket bs with
      | .ok p _ => s!"ok {p.id} {if p.isRequest then 1 else 0} {showVal p.value}"
      | .fail => "fail"
      | .panic => "PANIC"
      | .outOfFuel => "OUT-OF-FUEL"
    | none => "bad-op"
  | ["ru32", bytes] =>
    match parseHexUnits 2 bytes with
    | some bs =>
      match readUint32 bs with
      | some (v, left) => s!"{v} {hexUnits 2 left} true"
      | none => s!"0 {hexUnits 2 bs} false"
    | none => "bad-op"
  | ["wu32", bytes, v] =>
    match parseHexUnits 2 bytes, parseNat v with
    | some bs, some v => if v < 4294967296 then hexUnits 2 (writeUint32 bs v) else "bad-op"
    | _, _ => "bad-op"
  | ["lps", bytes] =>
    match parseHexUnits 2 bytes with
    | some bs =>
      match readLPS bs with
      | some (s, left) => s!"{hexUnits 2 s} {hexUnits 2 left} true"
      | none => s!"- {hexUnits 2 bs} false"
    | none => "bad-op"
  | ["svc", chunks] =>
    let parsed : Option (List Bytes) :=
      if chunks = "-" then some [] else (chunks.splitOn ",").mapM (parseHexUnits 2)
    match parsed with
    | some cs =>
      if cs.any (fun c => c.isEmpty || c.length > 16384) then "bad-op" else
      match serve [] cs with
      | none => "OUT-OF-FUEL"
      | some (out, e) =>
        let tail : List String :=
          match e with
          | .eof => []
          | .panicked => ["PANIC"]
          | .unmodelled => ["UNMODELLED"]
          | .outOfFuel => ["OUT-OF-FUEL"]
        let parts := out.map (hexUnits 2) ++ tail
        if parts.isEmpty then "-" else " ".intercalate parts
    | none => "bad-op"
  | _ => "bad-op"

end EsbuildModel.Stdio
