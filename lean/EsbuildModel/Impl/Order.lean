import EsbuildModel.Util.Wire
import EsbuildModel.Impl.Dfs
/-
Model of `findImportedPartsInJSOrder` (internal/linker/linker.go): the order in which the files and the
parts (top-level statement groups) of one JavaScript chunk are emitted.

Per file the linker knows: whether it is JavaScript, whether it belongs to this chunk
(`chunk.entryBits.Equals(file.EntryBits)`), whether it can be split into parts (`Meta.Wrap == WrapNone`;
wrapped CommonJS/lazy-ESM files are emitted as one block), and its parts.  Per part: `IsLive`,
`shouldIncludePart`, and its import records that point to a bundled file, each with
`Kind == ImportStmt` and `isExternalDynamicImport`.
The traversal starts at the runtime (source index 0) and then at every file of the chunk sorted by
(distance from the entry point, stable source index); it marks a file on entry, follows a record when it is
an import statement or its part is in this chunk (unless it is an import() of another entry point under
code splitting), and appends a part after the files its records lead to.
-/
namespace EsbuildModel.Order

structure Rec where
  target : Nat
  isStmt : Bool
  extDyn : Bool
deriving Repr

structure Part where
  live : Bool
  incl : Bool
  recs : List Rec
deriving Repr

structure File where
  isJS : Bool
  inChunk : Bool
  canSplit : Bool
  parts : List Part
deriving Repr

structure Range where
  src : Nat
  b : Nat
  e : Nat
deriving Repr, DecidableEq

structure St where
  visited : List Nat
  js : List Nat
  parts : List Range
  pre : List Range
deriving Repr

/-- `appendOrExtendPartRange` -/
def extend (rs : List Range) (s p : Nat) : List Range :=
  match rs.getLast? with
  | some r => if r.src = s ∧ r.e = p then rs.dropLast ++ [{ r with e := p + 1 }] else rs ++ [⟨s, p, p + 1⟩]
  | none => [⟨s, p, p + 1⟩]

/-- `record.SourceIndex.IsValid() && (record.Kind == ast.ImportStmt || isPartInThisChunk)` and not an
external dynamic import -/
def follow (inThis : Bool) (p : Part) (r : Rec) : Bool :=
  (r.isStmt || (inThis && p.live)) && !r.extDyn

/-- the loop over `part.ImportRecordIndices` -/
def recLoop (k : Nat → St → Option St) (inThis : Bool) (p : Part) : List Rec → St → Option St
  | [], st => some st
  | r :: rs, st =>
    if follow inThis p r then
      match k r.target st with
      | none => none
      | some st' => recLoop k inThis p rs st'
    else recLoop k inThis p rs st

/-- the loop over `repr.AST.Parts` -/
def partLoop (k : Nat → St → Option St) (f : Nat) (file : File) : Nat → List Part → St → Option St
  | _, [], st => some st
  | idx, p :: ps, st =>
    match recLoop k file.inChunk p p.recs st with
    | none => none
    | some st1 =>
      let st2 :=
        if file.inChunk && p.live && file.canSplit && idx != 0 && p.incl then
          (if f = 0 then { st1 with pre := extend st1.pre f idx } else { st1 with parts := extend st1.parts f idx })
        else st1
      partLoop k f file (idx + 1) ps st2

/-- mark a file on entry -/
def mark (f : Nat) (st : St) : St := { st with visited := f :: st.visited }

/-- "Make sure the generated call to __export(exports, ...) comes first": `none` = `Parts[NSExportPartIndex]`
out of range -/
def enter (file : File) (f : Nat) (st : St) : Option St :=
  if file.canSplit && file.inChunk then
    match file.parts with
    | [] => none
    | p0 :: _ => some (if p0.live then { st with parts := extend st.parts f 0 } else st)
  else some st

/-- after the part loop: the file joins `js`; wrapped files are emitted as one block before everything else -/
def finish (file : File) (f : Nat) (st : St) : St :=
  if file.inChunk then
    { st with js := st.js ++ [f],
              pre := if !file.canSplit then st.pre ++ [⟨f, 0, file.parts.length⟩] else st.pre }
  else st

/-- the closure `visit`; `none` = the Go code would index out of range -/
def visit (files : List File) : Nat → Nat → St → Option St
  | 0, _, _ => none
  | fuel + 1, f, st =>
    if st.visited.contains f then some st
    else
      match files[f]? with
      | none => none
      | some file =>
        if !file.isJS then some (mark f st)
        else
          match enter file f (mark f st) with
          | none => none
          | some st1 =>
            match partLoop (visit files fuel) f file 0 file.parts st1 with
            | none => none
            | some st2 => some (finish file f st2)

def rootsLoop (k : Nat → St → Option St) : List Nat → St → Option St
  | [], st => some st
  | r :: rs, st =>
    match k r st with
    | none => none
    | some st' => rootsLoop k rs st'

/-- `chunkOrderArray.Less` on (sourceIndex, distance, tieBreaker) -/
def rootLess (a b : Nat × Nat × Nat) : Bool :=
  a.2.1 < b.2.1 || (a.2.1 == b.2.1 && a.2.2 < b.2.2)

def insertRoot (x : Nat × Nat × Nat) : List (Nat × Nat × Nat) → List (Nat × Nat × Nat)
  | [] => [x]
  | y :: ys => if rootLess x y then x :: y :: ys else y :: insertRoot x ys

def sortRoots : List (Nat × Nat × Nat) → List (Nat × Nat × Nat)
  | [] => []
  | x :: xs => insertRoot x (sortRoots xs)

/-- the whole function: (files in order, part ranges in order) -/
def run (files : List File) (roots : List (Nat × Nat × Nat)) : Option (List Nat × List Range) :=
  let sorted := (sortRoots roots).map (·.1)
  match rootsLoop (visit files (files.length + 1)) (0 :: sorted) ⟨[], [], [], []⟩ with
  | none => none
  | some st => some (st.js, st.pre ++ st.parts)

-- ---------------------------------------------------------------- driver
open Wire

def parseBool (s : String) : Option Bool := if s = "1" then some true else if s = "0" then some false else none

/-- rec: `target:isStmt:extDyn` -/
def parseRec (s : String) : Option Rec :=
  match s.splitOn ":" with
  | [t, a, b] => do pure ⟨← parseNat t, ← parseBool a, ← parseBool b⟩
  | _ => none

/-- part: `live,incl,recs` with recs separated by "+" ("." = none) -/
def parsePart (s : String) : Option Part :=
  match s.splitOn "," with
  | [l, i, rs] => do
    let rs ← if rs = "." then some [] else (rs.splitOn "+").mapM parseRec
    pure ⟨← parseBool l, ← parseBool i, rs⟩
  | _ => none

/-- file: `isJS/inChunk/canSplit/parts` with parts separated by "|" ("." = none) -/
def parseFile (s : String) : Option File :=
  match s.splitOn "/" with
  | [a, b, c, ps] => do
    let ps ← if ps = "." then some [] else (ps.splitOn "|").mapM parsePart
    pure ⟨← parseBool a, ← parseBool b, ← parseBool c, ps⟩
  | _ => none

def parseRoot (s : String) : Option (Nat × Nat × Nat) :=
  match s.splitOn ":" with
  | [a, b, c] => do pure (← parseNat a, ← parseNat b, ← parseNat c)
  | _ => none

def showRanges (rs : List Range) : String :=
  if rs.isEmpty then "-" else " ".intercalate (rs.map fun r => s!"{r.src}:{r.b}:{r.e}")

def driver (args : List String) : String :=
  match args with
  | ["order", files, roots] =>
    match (if files = "-" then some [] else (files.splitOn ";").mapM parseFile),
          (if roots = "-" then some [] else (roots.splitOn ",").mapM parseRoot) with
    | some fs, some rs =>
      match run fs rs with
      | some (js, parts) => s!"js={showNatList js} parts={showRanges parts}"
      | none => "PANIC"
    | _, _ => "bad-op"
  | _ => "bad-op"

end EsbuildModel.Order
