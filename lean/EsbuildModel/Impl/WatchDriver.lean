import EsbuildModel.Impl.Watch
/-
Line protocol of kernel `watch`:
  watch \t FS \t FSW \t FS' \t WARM \t OPS
FS  = entries joined by ";" ("-" = none; FSW may be "=": the same as FS):
        path|F|=content|key      regular file (key: number, or "-" = unusable)
        path|D|n1,n2,…|key       directory, names in readdir order ("-" = empty)
        path|K|symlink|kind      what kindOfPath answers (symlink "-" = empty); default ("",0)
      paths that are not listed are missing.
WARM = paths read through the content cache beforehand, joined by "," ("-" = none)
OPS  = rd|d ; get|d|q ; sk|d ; kind|d|q ; rf|p ; mk|p ; cr|p   joined by ";"
Answer: the answers the code gives, joined by ";", then " # ", then `path=0|1|P` for every key of
`WatchData().Paths` in sorted order, joined by "," ("-" = none).
-/
namespace EsbuildModel.Watch

structure FSDesc where
  nodes : List (Path × Node) := []
  kinds : List (Path × (String × Nat)) := []

def FSDesc.toFS (d : FSDesc) : FS :=
  { node := fun p => match aget d.nodes p with | some n => n | none => .missing
    kind := fun p => match aget d.kinds p with | some k => k | none => ("", 0) }

def parseKey (s : String) : Option (Option Nat) :=
  if s = "-" then some none else s.toNat?.map some

def parseNames (s : String) : List String := if s = "-" then [] else s.splitOn ","

def parseEntry (acc : FSDesc) (s : String) : Option FSDesc :=
  match s.splitOn "|" with
  | [p, "F", c, k] =>
    if c.startsWith "=" then
      (parseKey k).map fun key => { acc with nodes := acc.nodes ++ [(p, Node.file (c.drop 1).toString key)] }
    else none
  | [p, "D", ns, k] => (parseKey k).map fun key => { acc with nodes := acc.nodes ++ [(p, Node.dir (parseNames ns) key)] }
  | [p, "K", sym, k] => k.toNat?.map fun kind => { acc with kinds := acc.kinds ++ [(p, (if sym = "-" then "" else sym, kind))] }
  | _ => none

def parseFS (s : String) : Option FSDesc :=
  if s = "-" then some {} else (s.splitOn ";").foldlM parseEntry {}

def parseOp (s : String) : Option Op :=
  match s.splitOn "|" with
  | ["rd", d] => some (.readDir d)
  | ["get", d, q] => some (.get d q)
  | ["sk", d] => some (.sortedKeys d)
  | ["kind", d, q] => some (.kind d q)
  | ["rf", p] => some (.readFile p)
  | ["mk", p] => some (.modKey p)
  | ["cr", p] => some (.cachedRead p)
  | _ => none

def showErr : Option Err → String
  | none => "ok"
  | some .notFound => "ENOENT"
  | some .notDir => "ENOTDIR"
  | some .isDir => "EISDIR"

def showAns : Ans → String
  | .dir e => showErr e
  | .entry e b => showErr e ++ ":" ++ (match b with | some b => b | none => "-")
  | .keys e ks => showErr e ++ ":" ++ (match ks with
      | none => "nil"
      | some [] => "-"
      | some l => ",".intercalate l)
  | .kind e r => showErr e ++ ":" ++ (match r with
      | none => "-"
      | some (b, sym, k) => b ++ "," ++ (if sym = "" then "-" else sym) ++ "," ++ toString k)
  | .file (.ok c) => "=" ++ c
  | .file (.error e) => "!" ++ showErr (some e)
  | .key (.ok k) => "k" ++ toString k
  | .key .unusable => "unusable"
  | .key .err => "err"

def showVerdict : Verdict → String
  | .clean => "0"
  | .changed => "1"
  | .panic => "P"

def showState : WState → String
  | .dirEntries => "dirEntries" | .dirUnreadable => "dirUnreadable" | .hasModKey => "hasModKey"
  | .needModKey => "needModKey" | .missing => "missing" | .unusable => "unusable"

/-- `watch \t dbg \t …`: instead of the answer line, which branch of the model every predicate took (for the
branch statistics of the validation; not part of the correspondence) -/
def debugLine (wd : WD) (fs' : FS) (keys : List Path) : String :=
  " ".intercalate (keys.map fun p =>
    let item := match wd.item p with
      | none => "kind-only"
      | some it => showState it.state ++
          (match it.state, it.acc with
           | .dirEntries, some a => if a.allEntries.isSome then "/all" else "/each"
           | _, _ => "") ++ "/" ++ showVerdict (itemVerdict fs' p it)
    item ++ (if (wd.kind p).isSome then "+kind" else "") ++ "=" ++ showVerdict (verdict wd fs' p))

/-- which branches of the recorder one step takes (debug statistics only) -/
def stepEvents (fs : FS) (st : St) (op : Op) : List String :=
  let dirEv (d : Path) : List String :=
    match aget st.cache d with
    | some _ => ["readdir:cache-hit"]
    | none =>
      match tReadDir (fs.dirErr d) (aget st.watch d) with
      | none => ["readdir:keep-file-state"]
      | some data => [(if (aget st.watch d).isSome then "readdir:overwrite-" else "readdir:new-") ++ showState data.state]
  let fileEv (tag : String) (old : Option PWD) (new : PWD) : String :=
    tag ++ ":" ++ (match old with | none => "none" | some d => showState d.state) ++ "->" ++ showState new.state
  match op with
  | .readDir d | .get d _ | .sortedKeys d => dirEv d
  | .kind d q =>
    let st1 := (doReadDir fs st d).1
    let c := (doReadDir fs st d).2
    dirEv d ++ (match (doGet st1 d c q).2.2 with
      | none => ["kind:absent"]
      | some b => [if (aget c.statd b).isSome then "kind:stat-cached" else "kind:stat"])
  | .readFile p => [fileEv "readfile" (aget st.watch p) (tReadFile (fs.readFile p) (aget st.watch p))]
  | .modKey p => [fileEv "modkey" (aget st.watch p) (tModKey (fs.modKey p) (aget st.watch p))]
  | .cachedRead p =>
    let m := tModKey (fs.modKey p) (aget st.watch p)
    match fcHit (aget st.fcache p) (fs.modKey p) with
    | some _ => [fileEv "fscache-hit:modkey" (aget st.watch p) m]
    | none => [fileEv "fscache-miss:modkey" (aget st.watch p) m, fileEv "fscache-miss:readfile" (some m) (tReadFile (fs.readFile p) (some m))]

def allEvents (fs : FS) : St → List Op → List String
  | _, [] => []
  | st, op :: ops => stepEvents fs st op ++ allEvents fs (step fs st op).1 ops

def driver (args : List String) : String :=
  match args with
  | ["ev", sfs, _, _, swarm, sops] =>
    match parseFS sfs, (if sops = "-" then some [] else (sops.splitOn ";").mapM parseOp) with
    | some d, some ops =>
      let fs := d.toFS
      " ".intercalate (allEvents fs { fcache := warm fs (parseNames swarm) } ops)
    | _, _ => "bad-op"
  | ["dbg", sfs, sfsw, sfs', swarm, sops] =>
    match parseFS sfs, (if sfsw = "=" then parseFS sfs else parseFS sfsw), parseFS sfs',
          (if sops = "-" then some [] else (sops.splitOn ";").mapM parseOp) with
    | some d, some dw, some d', some ops =>
      let fs := d.toFS
      let st0 : St := { fcache := warm fs (parseNames swarm) }
      let wd := finalize dw.toFS (recordAll fs st0 ops)
      debugLine wd d'.toFS (sortStrings wd.keys.eraseDups)
    | _, _, _, _ => "bad-op"
  | [sfs, sfsw, sfs', swarm, sops] =>
    match parseFS sfs, (if sfsw = "=" then parseFS sfs else parseFS sfsw), parseFS sfs',
          (if sops = "-" then some [] else (sops.splitOn ";").mapM parseOp) with
    | some d, some dw, some d', some ops =>
      let fs := d.toFS
      let st0 : St := { fcache := warm fs (parseNames swarm) }
      let answers := answersOf fs st0 ops
      let wd := finalize dw.toFS (recordAll fs st0 ops)
      let keys := sortStrings wd.keys.eraseDups
      let fs' := d'.toFS
      let vs := keys.map (fun p => p ++ "=" ++ showVerdict (verdict wd fs' p))
      ";".intercalate (answers.map showAns) ++ " # " ++ (if vs.isEmpty then "-" else ",".intercalate vs)
    | _, _, _, _ => "bad-op"
  | _ => "bad-op"

end EsbuildModel.Watch
