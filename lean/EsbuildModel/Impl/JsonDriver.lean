import EsbuildModel.Impl.JsonDenote
/-
Line protocol of kernel `jsonrt` (model side):

  jsonrt  parse  <flavor 0=JSON 1=TSConfigJSON>  <objExt 0|1>  <suppress 0|1>  <source bytes, hex>
      → `ok=<0|1> <messages> <ast>`: messages = `E<offset>` / `W<offset>` comma separated in the order they were
        added (`-` = none), ast = canonical dump (`-` when ok=0)
  jsonrt  js     <source bytes, hex>
      → the JavaScript value of the expression `ParseJSON` returns for the strict flavour (what Node prints for the
        default export of esbuild's output): same dump, objects in JavaScript property order, or `reject`

Offsets: the line/column pair the logger reports cannot tell the offset between a CR and the LF after it from the
offset after that LF; both sides print the latter.
-/
namespace EsbuildModel.Json

def driverIdStart : List Nat := [0xE9, 0x3C0, 0x1D4B3, 0xAA, 0x4E2D]
def driverIdContOnly : List Nat := [0x301, 0x660, 0x203F]

/-- the non-ASCII code points the correspondence generator uses, with their ID_Start / ID_Continue status; every
other code point it emits (U+20AC, U+00D7, U+1F600, U+FFFD, U+0085, U+200B, the white space ones) is neither -/
def driverParams : Params :=
  ⟨{ LexNum.driverParams with idStartNA := fun c => driverIdStart.contains c.toNat },
   fun c => driverIdStart.contains c.toNat || driverIdContOnly.contains c.toNat⟩

mutual
def dumpAst : Ast → String
  | .null => "n"
  | .bool true => "t"
  | .bool false => "f"
  | .num v => "#" ++ Wire.hexUnit 16 (F64.toBits v)
  | .str u => "s" ++ Wire.hexUnits 4 u
  | .arr items single => "[" ++ (if single then "S" else "M") ++ dumpItems items ++ "]"
  | .obj props single => "{" ++ (if single then "S" else "M") ++ dumpProps props ++ "}"
def dumpItems : List Ast → String
  | [] => ""
  | [a] => dumpAst a
  | a :: b :: t => dumpAst a ++ "," ++ dumpItems (b :: t)
def dumpProps : List (List Nat × Bool × Ast) → String
  | [] => ""
  | [(k, c, v)] => Wire.hexUnits 4 k ++ (if c then "*" else "") ++ ":" ++ dumpAst v
  | (k, c, v) :: p :: t => Wire.hexUnits 4 k ++ (if c then "*" else "") ++ ":" ++ dumpAst v ++ "," ++ dumpProps (p :: t)
end

/-- see the header: an offset between CR and LF is printed as the offset after the LF -/
def normOff (bytes : List Nat) (off : Nat) : Nat :=
  if off > 0 ∧ bytes[off - 1]? = some 13 ∧ bytes[off]? = some 10 then off + 1 else off

def showMsgs (bytes : List Nat) (msgs : List Msg) : String :=
  if msgs.isEmpty then "-"
  else ",".intercalate (msgs.map fun m => (if m.err then "E" else "W") ++ toString (normOff bytes m.off))

def showOut (bytes : List Nat) : Out → String
  | .crash => "PANIC"
  | .done ok ast msgs =>
    s!"ok={if ok then 1 else 0} {showMsgs bytes msgs} " ++
      (match ok, ast with
       | true, some a => dumpAst a
       | _, _ => "-")

def parseFlag (s : String) : Option Bool :=
  if s = "0" then some false else if s = "1" then some true else none

def driverParse (args : List String) : String :=
  match args with
  | [fl, oe, su, hex] =>
    match parseFlag fl, parseFlag oe, parseFlag su, Wire.parseHexUnits 2 hex with
    | some fl, some oe, some su, some bytes =>
      showOut bytes (parseJSON ⟨if fl then .tsconfig else .json, oe, su⟩ driverParams bytes)
    | _, _, _, _ => "bad-op"
  | _ => "bad-op"

def driver (args : List String) : String :=
  match args with
  | "parse" :: rest => driverParse rest
  | ["js", hex] =>
    match Wire.parseHexUnits 2 hex with
    | some bytes =>
      match (parseJSON ⟨.json, true, false⟩ driverParams bytes).accepted with
      | some a =>
        match denote a with
        | some v => dumpJs v ++ " same named=ok"
        | none => "syntax-error"
      | none => "reject"
    | none => "bad-op"
  | _ => "bad-op"

end EsbuildModel.Json
