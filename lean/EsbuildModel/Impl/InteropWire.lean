/-
Line protocol of the kernel `interop` for Impl/Interop.lean.

  interop  A  <variant>  <heap>  <fns>  <prog>          object helpers in a scripted world
  interop  B  <variant>  <kind>  <heap>  <fn>  <calls>  lazy-init wrappers; kind = esm | esmMin | cjs | cjsMin
  variant = 0 (runtime text for a modern target) | 1 (text for ES5: no for-of / let): only the Node side looks at
  it, the model is the same for both texts

values   u n t f N<int> S<chars> Y<id> O<addr> R<register>
keys     s<name> y<id>
heap     objects from address 6 on (0..5 are the built-in prototypes), separated by `;`:
         <proto>:<ext>:<code>|<prop>,<prop>…   code = - | h<f>
         prop = <key>:D:<val>:<w><e><c> | <key>:A:<get>:<set>:<e><c>
fns      host function scripts separated by `;`; the behaviours of one function are separated by `/` (the k-th call
         uses behaviour k mod their number); a behaviour is `item&item…&outcome`
         items    P,<obj>,<prop> (defineProperty with a full descriptor; ignored when rejected) | X,<obj>,<key> (delete)
                  | Z,<obj> (preventExtensions)
         outcome  R,<val> | T,<val> | G,<obj>,<key> (return the value of the own data property)
prog     steps separated by `;`: toESM,<mod>,<isNodeMode> | toCJS,<mod> | export,<target>,<all>
         | reExport,<target>,<mod>,<second> | get,<val>,<key> | set,<obj>,<key>,<val> | eff,<item>
calls    bodies separated by `;`, prefix form: d,R,<val> | d,T,<val> | a,e,<key>,<val>,<Body> | a,m,<val>,<Body> | n,<Body>,<Body>
answer   <results>|<trace>|<dump>
-/
import EsbuildModel.Impl.Interop
namespace EsbuildModel.Interop
open EsbuildModel.Lower3 (Key alGet)

def dropFirst (s : String) : String := String.ofList (s.toList.drop 1)

def parseVal (regs : List Val) (s : String) : Option Val :=
  match s.toList with
  | ['u'] => some .undef
  | ['n'] => some .null
  | ['t'] => some (.bool true)
  | ['f'] => some (.bool false)
  | 'N' :: r => (String.ofList r).toInt?.map .num
  | 'S' :: r => some (.str (String.ofList r))
  | 'Y' :: r => (String.ofList r).toNat?.map .sym
  | 'O' :: r => (String.ofList r).toNat?.map .obj
  | 'R' :: r => (String.ofList r).toNat?.bind fun i => regs[i]?
  | _ => none

def parseKey (s : String) : Option Key :=
  match s.toList with
  | 's' :: r => some (.str (String.ofList r))
  | 'y' :: r => (String.ofList r).toNat?.map .sym
  | _ => none

def parseBit (c : Char) : Option Bool :=
  if c = '1' then some true else if c = '0' then some false else none

def parseProp (regs : List Val) (s : String) : Option (Key × PropD) :=
  match s.splitOn ":" with
  | [k, "D", v, fl] => do
    let k ← parseKey k
    let v ← parseVal regs v
    match fl.toList with
    | [w, e, c] => do
      let w ← parseBit w; let e ← parseBit e; let c ← parseBit c
      some (k, ⟨.data v w, e, c⟩)
    | _ => none
  | [k, "A", g, st, fl] => do
    let k ← parseKey k
    let g ← parseVal regs g
    let st ← parseVal regs st
    match fl.toList with
    | [e, c] => do
      let e ← parseBit e; let c ← parseBit c
      some (k, ⟨.acc g st, e, c⟩)
    | _ => none
  | _ => none

def parseObj (s : String) : Option Obj :=
  match s.splitOn "|" with
  | [hd, ps] =>
    match hd.splitOn ":" with
    | [p, e, c] => do
      let p ← parseVal [] p
      let e ← match e with | "1" => some true | "0" => some false | _ => none
      let c ← if c = "-" then some none else
        match c.toList with
        | 'h' :: r => (String.ofList r).toNat?.map fun f => some (Code.host f)
        | _ => none
      let props ← if ps = "" then some [] else (ps.splitOn ",").mapM (parseProp [])
      some ⟨p, e, c, props⟩
    | _ => none
  | _ => none

def builtins : Heap :=
  [⟨.null, true, none, []⟩, ⟨.obj 0, true, none, []⟩, ⟨.obj 0, true, none, []⟩, ⟨.obj 0, true, none, []⟩,
   ⟨.obj 0, true, none, []⟩, ⟨.obj 0, true, none, []⟩]

def parseHeap (s : String) : Option Heap :=
  if s = "-" then some builtins else do
    let os ← (s.splitOn ";").mapM parseObj
    some (builtins ++ os)

-- ---------------------------------------------------------------- scripted world

inductive Item where
  | define (o : String) (p : String)       -- resolved when it runs (registers)
  | delete (o : String) (k : Key)
  | freeze (o : String)
  | ret (v : String)
  | throw (v : String)
  | getRaw (o : String) (k : Key)
deriving Repr

def parseItem (s : String) : Option Item :=
  match s.splitOn "," with
  | ["P", o, p] => some (.define o p)
  | ["X", o, k] => (parseKey k).map (.delete o)
  | ["Z", o] => some (.freeze o)
  | ["R", v] => some (.ret v)
  | ["T", v] => some (.throw v)
  | ["G", o, k] => (parseKey k).map (.getRaw o)
  | _ => none

abbrev Script := List (List Item)      -- behaviours of one function

def parseFns (s : String) : Option (List Script) :=
  if s = "-" then some [] else
    (s.splitOn ";").mapM fun f => (f.splitOn "/").mapM fun b => (b.splitOn "&").mapM parseItem

/-- run the effects of one behaviour on the heap; the answer is the last outcome item -/
def runItems (regs : List Val) : List Item → Heap → HRes → HRes × Heap
  | [], h, out => (out, h)
  | it :: rest, h, out =>
    match it with
    | .define o p =>
      match parseVal regs o, parseProp regs p with
      | some (.obj a), some (k, pd) =>
        match h[a]? with
        | some ob =>
          let d : Desc := match pd.slot with
            | .data v w => { value := some v, writable := some w, enumerable := some pd.en, configurable := some pd.cf }
            | .acc g st => { get := some g, set := some st, enumerable := some pd.en, configurable := some pd.cf }
          match defineOwn ob k d with
          | some ob' => runItems regs rest (setObj h a ob') out
          | none => runItems regs rest h out
        | none => runItems regs rest h out
      | _, _ => runItems regs rest h out
    | .delete o k =>
      match parseVal regs o with
      | some (.obj a) =>
        match h[a]? with
        | some ob =>
          match alGet ob.props k with
          | some pd => if pd.cf then runItems regs rest (setObj h a { ob with props := alDel ob.props k }) out
                       else runItems regs rest h out
          | none => runItems regs rest h out
        | none => runItems regs rest h out
      | _ => runItems regs rest h out
    | .freeze o =>
      match parseVal regs o with
      | some (.obj a) =>
        match h[a]? with
        | some ob => runItems regs rest (setObj h a { ob with ext := false }) out
        | none => runItems regs rest h out
      | _ => runItems regs rest h out
    | .ret v => runItems regs rest h (.ret ((parseVal regs v).getD .undef))
    | .throw v => runItems regs rest h (.throw ((parseVal regs v).getD .undef))
    | .getRaw o k =>
      let v : Val := match parseVal regs o with
        | some (.obj a) =>
          match h[a]? with
          | some ob => match alGet ob.props k with
            | some ⟨.data v _, _, _⟩ => v
            | _ => .undef
          | none => .undef
        | _ => .undef
      runItems regs rest h (.ret v)

def countCalls (f : Nat) : List Ev → Nat
  | [] => 0
  | .call g _ _ :: r => (if g = f then 1 else 0) + countCalls f r
  | _ :: r => countCalls f r

def scriptWorld (fns : List Script) (regs : List Val) : World where
  host f _ _ s :=
    match fns[f]? with
    | some bs =>
      match bs[countCalls f s.tr % bs.length]? with
      | some items => runItems regs items s.heap (.ret .undef)
      | none => (.ret .undef, s.heap)
    | none => (.ret .undef, s.heap)

-- ---------------------------------------------------------------- printing

/-- objects the helpers made are named Q0, Q1, … in order of first appearance in the answer -/
def showVal (base : Nat) (v : Val) (tbl : List Nat) : String × List Nat :=
  match v with
  | .undef => ("u", tbl)
  | .null => ("n", tbl)
  | .bool true => ("t", tbl)
  | .bool false => ("f", tbl)
  | .num n => (s!"N{n}", tbl)
  | .str s => (s!"S<{s}>", tbl)
  | .sym j => (s!"Y{j}", tbl)
  | .obj a =>
    if a < 6 then (s!"B{a}", tbl)
    else if a < base then (s!"O{a}", tbl)
    else match tbl.idxOf? a with
      | some i => (s!"Q{i}", tbl)
      | none => (s!"Q{tbl.length}", tbl ++ [a])

def showVals (base : Nat) : List Val → List Nat → List String × List Nat
  | [], tbl => ([], tbl)
  | v :: r, tbl =>
    let (a, t1) := showVal base v tbl
    let (b, t2) := showVals base r t1
    (a :: b, t2)

def showExc (base : Nat) (x : Exc) (tbl : List Nat) : String × List Nat :=
  match x with
  | .typeError => ("E:TypeError", tbl)
  | .host v => let (a, t) := showVal base v tbl; ("E:throw:" ++ a, t)
  | .illFormed => ("E:illFormed", tbl)
  | .fuel => ("E:fuel", tbl)

def showRes (base : Nat) (r : Res Val) (tbl : List Nat) : String × List Nat :=
  match r with
  | .ok v => let (a, t) := showVal base v tbl; ("V" ++ a, t)
  | .err x => showExc base x tbl

def showRess (base : Nat) : List (Res Val) → List Nat → List String × List Nat
  | [], tbl => ([], tbl)
  | v :: r, tbl =>
    let (a, t1) := showRes base v tbl
    let (b, t2) := showRess base r t1
    (a :: b, t2)

def showEv (base : Nat) (e : Ev) (tbl : List Nat) : String × List Nat :=
  match e with
  | .call f this args =>
    let (a, t1) := showVal base this tbl
    let (b, t2) := showVals base args t1
    (s!"call:{f}:{a}:{"+".intercalate b}", t2)
  | .reent r => let (a, t) := showRes base r tbl; ("reent:" ++ a, t)

def showEvs (base : Nat) : List Ev → List Nat → List String × List Nat
  | [], tbl => ([], tbl)
  | v :: r, tbl =>
    let (a, t1) := showEv base v tbl
    let (b, t2) := showEvs base r t1
    (a :: b, t2)

def bit (b : Bool) : String := if b then "1" else "0"

def showKey : Key → String
  | .str s => "s" ++ s
  | .sym j => s!"y{j}"

/-- a getter / setter: undefined, a function of the user (an object of the test), or `c`: a closure of the helpers -/
def showFn (h : Heap) (base : Nat) (v : Val) (tbl : List Nat) : String × List Nat :=
  match codeOf h v with
  | some (.fwd _ _) => ("c", tbl)
  | _ => showVal base v tbl

def showProps (h : Heap) (base : Nat) (o : Obj) : List Key → List Nat → List String × List Nat
  | [], tbl => ([], tbl)
  | k :: r, tbl =>
    match alGet o.props k with
    | none => showProps h base o r tbl
    | some p =>
      let (a, t1) : String × List Nat := match p.slot with
        | .data v w => let (x, t) := showFn h base v tbl; (s!"{showKey k}:D{x}:{bit w}{bit p.en}{bit p.cf}", t)
        | .acc g st =>
          let (x, t) := showFn h base g tbl
          let (y, t') := showFn h base st t
          (s!"{showKey k}:A{x},{y}:{bit p.en}{bit p.cf}", t')
      let (b, t2) := showProps h base o r t1
      (a :: b, t2)

def showObj (h : Heap) (base : Nat) (name : String) (a : Nat) (tbl : List Nat) : String × List Nat :=
  match h[a]? with
  | none => (name ++ "=?", tbl)
  | some o =>
    let (p, t1) := showVal base o.proto tbl
    let (ps, t2) := showProps h base o o.ownKeys t1
    (s!"{name}={p}:{bit o.ext}:{bit o.code.isSome}" ++ "{" ++ ",".intercalate ps ++ "}", t2)

def dumpUser (h : Heap) (base : Nat) : Nat → Nat → List Nat → List String × List Nat
  | 0, _, tbl => ([], tbl)
  | n + 1, a, tbl =>
    if a < base then
      let (x, t1) := showObj h base s!"O{a}" a tbl
      let (r, t2) := dumpUser h base n (a + 1) t1
      (x :: r, t2)
    else ([], tbl)

def dumpQ (h : Heap) (base : Nat) : Nat → Nat → List Nat → List String
  | 0, _, _ => ["DUMP-FUEL"]
  | n + 1, i, tbl =>
    match tbl[i]? with
    | none => []
    | some a =>
      let (x, t1) := showObj h base s!"Q{i}" a tbl
      x :: dumpQ h base n (i + 1) t1

def answer (base : Nat) (results : List (Res Val)) (s : St) : String :=
  let (rs, t1) := showRess base results []
  let (es, t2) := showEvs base s.tr t1
  let (us, t3) := dumpUser s.heap base s.heap.length 6 t2
  let qs := dumpQ s.heap base (s.heap.length + 1) 0 t3
  ";".intercalate rs ++ "|" ++ ";".intercalate es ++ "|" ++ ";".intercalate (us ++ qs)

-- ---------------------------------------------------------------- programs (kind A)

def fuelA : Nat := 64

def runStep (fns : List Script) (regs : List Val) (toks : List String) (s : St) : Option (Res Val × St) :=
  let w := scriptWorld fns regs
  match toks with
  | ["toESM", m, i] => do
    let m ← parseVal regs m; let i ← parseVal regs i
    some (toESM w fuelA m i s)
  | ["toCJS", m] => do
    let m ← parseVal regs m
    some (toCommonJS m s)
  | ["export", t, a] => do
    let t ← parseVal regs t; let a ← parseVal regs a
    some (export_ w fuelA t a s)
  | ["reExport", t, m, x] => do
    let t ← parseVal regs t; let m ← parseVal regs m; let x ← parseVal regs x
    some (reExport t m x s)
  | ["get", v, k] => do
    let v ← parseVal regs v; let k ← parseKey k
    some (getV w fuelA v k s)
  | ["set", o, k, v] => do
    let o ← parseVal regs o; let k ← parseKey k; let v ← parseVal regs v
    match o with
    | .obj _ =>
      match setProp w fuelA o o k v s with
      | (.ok b, s') => some (.ok (.bool b), s')
      | (.err x, s') => some (.err x, s')
    | _ => some (.err .typeError, s)          -- Reflect.set on a non-object
  | "eff" :: rest => do
    let it ← parseItem (",".intercalate rest)
    let (_, h') := runItems regs [it] s.heap (.ret .undef)
    some (.ok .undef, { s with heap := h' })
  | _ => none

def runProg (fns : List Script) : List String → List Val → St → Option (List (Res Val) × St)
  | [], _, s => some ([], s)
  | st :: rest, regs, s =>
    match runStep fns regs (st.splitOn ",") s with
    | none => none
    | some (r, s') =>
      let v : Val := match r with
        | .ok v => v
        | .err _ => .undef
      match runProg fns rest (regs ++ [v]) s' with
      | none => none
      | some (rs, s'') => some (r :: rs, s'')

-- ---------------------------------------------------------------- lazy-init wrappers (kind B)

def parseHRes (k v : String) : Option HRes :=
  match k with
  | "R" => (parseVal [] v).map .ret
  | "T" => (parseVal [] v).map .throw
  | _ => none

def parseBody (acts : Bool) : Nat → List String → Option (Body CjsAct × List String)
  | 0, _ => none
  | _ + 1, "d" :: k :: v :: rest => (parseHRes k v).map fun o => (.done o, rest)
  | n + 1, "a" :: "e" :: k :: v :: rest =>
    if !acts then none else do
      let k ← parseKey k; let v ← parseVal [] v
      let (b, r) ← parseBody acts n rest
      some (.act (.setExport k v) b, r)
  | n + 1, "a" :: "m" :: v :: rest =>
    if !acts then none else do
      let v ← parseVal [] v
      let (b, r) ← parseBody acts n rest
      some (.act (.setModuleExports v) b, r)
  | n + 1, "n" :: rest => do
    let (b1, r1) ← parseBody acts n rest
    let (b2, r2) ← parseBody acts n r1
    some (.reenter b1 b2, r2)
  | _, _ => none

def toEsmBody : Body CjsAct → Body Empty
  | .done o => .done o
  | .act _ r => toEsmBody r
  | .reenter a b => .reenter (toEsmBody a) (toEsmBody b)

def parseBodies (acts : Bool) (s : String) : Option (List (Body CjsAct)) :=
  if s = "-" then some [] else
    (s.splitOn ";").mapM fun b =>
      let toks := b.splitOn ","
      match parseBody acts (toks.length + 1) toks with
      | some (x, []) => some x
      | _ => none

def driver (args : List String) : String :=
  match args with
  | ["A", _variant, heap, fns, prog] =>
    match parseHeap heap, parseFns fns with
    | some h, some fs =>
      match runProg fs (if prog = "-" then [] else prog.splitOn ";") [] ⟨h, []⟩ with
      | some (rs, s) => answer h.length rs s
      | none => "bad-op"
    | _, _ => "bad-op"
  | ["B", _variant, kind, heap, fn, calls] =>
    match parseHeap heap, parseVal [] fn with
    | some h, some f =>
      match kind with
      | "esm" | "esmMin" =>
        match parseBodies false calls with
        | some bs =>
          let (rs, _, s) := esmCalls (kind = "esmMin") (bs.map toEsmBody) ⟨f, .undef, none⟩ ⟨h, []⟩
          answer h.length rs s
        | none => "bad-op"
      | "cjs" | "cjsMin" =>
        match parseBodies true calls with
        | some bs =>
          let (rs, _, s) := cjsCalls (kind = "cjsMin") f bs ⟨.undef⟩ ⟨h, []⟩
          answer h.length rs s
        | none => "bad-op"
      | _ => "bad-op"
    | _, _ => "bad-op"
  | _ => "bad-op"

end EsbuildModel.Interop
