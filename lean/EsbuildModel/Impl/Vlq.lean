/-
Model of `internal/sourcemap/sourcemap.go`: `encodeVLQ`, `DecodeVLQ`, `DecodeVLQUTF16`.
Values are modelled at the level of base-64 *digits* (naturals < 64); the map between
digits and bytes is the extracted alphabet `Gen.Base64` (see `Impl/VlqBytes.lean`).
Go's `int` is 64 bit; the model uses unbounded `Int`, so theorems carry an explicit
magnitude hypothesis where Go's arithmetic could wrap.
-/
namespace EsbuildModel.Vlq

/-- `vlq` as computed at the top of `encodeVLQ`. -/
def toVlq (value : Int) : Nat :=
  if value < 0 then ((-value).toNat <<< 1) ||| 1 else value.toNat <<< 1

/-- the `for` loop of `encodeVLQ`: emits little-endian base-32 digits with continuation bit 32 -/
def encodeDigits (vlq : Nat) : List Nat :=
  let digit := vlq &&& 31
  let vlq' := vlq >>> 5
  if h : vlq' = 0 then [digit] else (digit ||| 32) :: encodeDigits vlq'
termination_by vlq
decreasing_by
  simp only [Nat.shiftRight_eq_div_pow] at *
  omega

/-- `encodeVLQ` (the "common case" fast path produces the same digit as the loop). -/
def encode (value : Int) : List Nat :=
  let vlq := toVlq value
  if vlq >>> 5 = 0 then [vlq &&& 31] else encodeDigits vlq

/-- the scan loop shared by `DecodeVLQ`/`DecodeVLQUTF16`: `none` = ran off the end of input
(Go: index-out-of-range panic for `DecodeVLQ`, `false` for the UTF-16 variant). A digit ≥ 64
models `bytes.IndexByte(...) < 0`: `DecodeVLQ` breaks out of the loop there. -/
def scan (shift vlq : Nat) : List Nat → Option (Nat × List Nat)
  | [] => none
  | d :: rest =>
    if d ≥ 64 then some (vlq, d :: rest)
    else
      let vlq := vlq ||| ((d &&& 31) <<< shift)
      if d &&& 32 = 0 then some (vlq, rest) else scan (shift + 5) vlq rest

def fromVlq (vlq : Nat) : Int :=
  let value : Int := (vlq >>> 1 : Nat)
  if vlq &&& 1 ≠ 0 then -value else value

/-- `DecodeVLQ` on digits. -/
def decode (l : List Nat) : Option (Int × List Nat) :=
  match scan 0 0 l with
  | none => none
  | some (vlq, rest) => some (fromVlq vlq, rest)

end EsbuildModel.Vlq
