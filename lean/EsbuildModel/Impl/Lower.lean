/-
Model of esbuild's lowering of optional chaining and nullish coalescing
(internal/js_parser/js_parser_lower.go lowerOptionalChain / lowerNullishCoalescing) on a small expression
language, together with an evaluator for the source and for the lowered form, so that "lowering preserves
behaviour" can be stated and proved: same value or exception, same calls with the same arguments in the same
order.

Source expressions: identifiers, literals, one-argument calls of probe functions (the only side effect: a call
is appended to the trace and its result may depend on everything that happened before), property reads `o.p`,
optional property reads `o?.p`, parentheses (they end an optional chain), `a ?? b`.
A property read of null/undefined throws.

Lowered expressions additionally have temporaries (`_a = e`, `_a`) and the two conditional forms esbuild emits,
`e == null ? a : b` and `e != null ? a : b`.
-/
import EsbuildModel.Util.Wire
namespace EsbuildModel.Lower

inductive Val where
  | undef
  | null
  | num (n : Int)
  | obj (id : Nat)
deriving DecidableEq, Repr

def Val.nullish : Val → Bool
  | .undef => true
  | .null => true
  | _ => false

/-- everything the outside world decides: values of identifiers, properties, results of calls -/
structure World where
  var : Nat → Val
  prop : Val → Nat → Val
  ret : Nat → Val → List (Nat × Val) → Val     -- function, argument, calls made so far

abbrev Trace := List (Nat × Val)

inductive S where
  | id (x : Nat)
  | lit (v : Val)
  | call (f : Nat) (a : S)
  | dot (o : S) (p : Nat)
  | optDot (o : S) (p : Nat)
  | paren (a : S)
  | nullish (a b : S)
deriving Repr

/-- result of evaluating a (piece of an) optional chain -/
inductive CRes where
  | val (v : Val)
  | short            -- the chain was cut short by a nullish `?.` target
  | err              -- TypeError
deriving DecidableEq, Repr

inductive Res where
  | val (v : Val)
  | err
deriving DecidableEq, Repr

def CRes.top : CRes → Res
  | .val v => .val v
  | .short => .val .undef
  | .err => .err

/-- source semantics; `evalC` may report that the chain was cut short, every other context turns that into
`undefined` -/
def evalC (w : World) : S → Trace → CRes × Trace
  | .id x, tr => (.val (w.var x), tr)
  | .lit v, tr => (.val v, tr)
  | .call f a, tr =>
    match evalC w a tr with
    | (.err, tr1) => (.err, tr1)
    | (.short, tr1) => (.val (w.ret f .undef tr1), tr1 ++ [(f, .undef)])
    | (.val v, tr1) => (.val (w.ret f v tr1), tr1 ++ [(f, v)])
  | .dot o p, tr =>
    match evalC w o tr with
    | (.err, tr1) => (.err, tr1)
    | (.short, tr1) => (.short, tr1)
    | (.val v, tr1) => if v.nullish then (.err, tr1) else (.val (w.prop v p), tr1)
  | .optDot o p, tr =>
    match evalC w o tr with
    | (.err, tr1) => (.err, tr1)
    | (.short, tr1) => (.short, tr1)
    | (.val v, tr1) => if v.nullish then (.short, tr1) else (.val (w.prop v p), tr1)
  | .paren a, tr =>
    match evalC w a tr with
    | (.short, tr1) => (.val .undef, tr1)
    | r => r
  | .nullish a b, tr =>
    match evalC w a tr with
    | (.err, tr1) => (.err, tr1)
    | (.short, tr1) =>
      match evalC w b tr1 with
      | (.short, tr2) => (.val .undef, tr2)
      | r => r
    | (.val v, tr1) =>
      if v.nullish then
        match evalC w b tr1 with
        | (.short, tr2) => (.val .undef, tr2)
        | r => r
      else (.val v, tr1)

def evalS (w : World) (e : S) (tr : Trace) : Res × Trace :=
  let r := evalC w e tr
  (r.1.top, r.2)

inductive T where
  | id (x : Nat)
  | lit (v : Val)
  | call (f : Nat) (a : T)
  | dot (o : T) (p : Nat)
  | tmp (k : Nat)
  | assign (k : Nat) (e : T)
  | ifEqNull (c : T) (yes no : T)     -- c == null ? yes : no
  | ifNeNull (c : T) (yes no : T)     -- c != null ? yes : no
deriving Repr

structure TState where
  tr : Trace
  tm : Nat → Val

def evalT (w : World) : T → TState → Res × TState
  | .id x, s => (.val (w.var x), s)
  | .lit v, s => (.val v, s)
  | .call f a, s =>
    match evalT w a s with
    | (.err, s1) => (.err, s1)
    | (.val v, s1) => (.val (w.ret f v s1.tr), { s1 with tr := s1.tr ++ [(f, v)] })
  | .dot o p, s =>
    match evalT w o s with
    | (.err, s1) => (.err, s1)
    | (.val v, s1) => if v.nullish then (.err, s1) else (.val (w.prop v p), s1)
  | .tmp k, s => (.val (s.tm k), s)
  | .assign k e, s =>
    match evalT w e s with
    | (.err, s1) => (.err, s1)
    | (.val v, s1) => (.val v, { s1 with tm := fun j => if j = k then v else s1.tm j })
  | .ifEqNull c yes no, s =>
    match evalT w c s with
    | (.err, s1) => (.err, s1)
    | (.val v, s1) => if v.nullish then evalT w yes s1 else evalT w no s1
  | .ifNeNull c yes no, s =>
    match evalT w c s with
    | (.err, s1) => (.err, s1)
    | (.val v, s1) => if v.nullish then evalT w no s1 else evalT w yes s1

-- ---------------------------------------------------------------- the lowering

/-- a value that is needed twice is read twice if it is an identifier or a literal, otherwise stored in a fresh
temporary (esbuild additionally folds `null`/`undefined` literals away; the generator does not put them there) -/
def capture (full : T) (n : Nat) : T × T × Nat :=
  match full with
  | .id x => (.id x, .id x, n)
  | .lit v => (.lit v, .lit v, n)      -- a primitive literal has no side effects either
  | _ => (.assign n full, .tmp n, n + 1)

def fin (acc : T) : Option T → T
  | none => acc
  | some t => .ifEqNull t (.lit .undef) acc

/-- `lowerC e n = (acc, pending, n')`: the lowered chain so far, the pending null test of the innermost open
optional chain (if any), the next free temporary -/
def lowerC : S → Nat → T × Option T × Nat
  | .id x, n => (.id x, none, n)
  | .lit v, n => (.lit v, none, n)
  | .call f a, n =>
    let r := lowerC a n
    (.call f (fin r.1 r.2.1), none, r.2.2)
  | .dot o p, n =>
    let r := lowerC o n
    (.dot r.1 p, r.2.1, r.2.2)
  | .optDot o p, n =>
    let r := lowerC o n
    let c := capture (fin r.1 r.2.1) r.2.2
    (.dot c.2.1 p, some c.1, c.2.2)
  | .paren a, n =>
    let r := lowerC a n
    (fin r.1 r.2.1, none, r.2.2)
  | .nullish a b, n =>
    let ra := lowerC a n
    let c := capture (fin ra.1 ra.2.1) ra.2.2
    let rb := lowerC b c.2.2
    (.ifNeNull c.1 c.2.1 (fin rb.1 rb.2.1), none, rb.2.2)

def lower (e : S) : T :=
  fin (lowerC e 0).1 (lowerC e 0).2.1

-- ---------------------------------------------------------------- wire: S-expressions

def showVal : Val → String
  | .undef => "undef"
  | .null => "null"
  | .num n => s!"(num {n})"
  | .obj i => s!"(obj {i})"

/-- temporaries are renumbered in order of first appearance so that only the structure is compared -/
def showT : T → List Nat → String × List Nat
  | .id x, m => (s!"(id v{x})", m)
  | .lit v, m => (showVal v, m)
  | .call f a, m => let (sa, m1) := showT a m; (s!"(call (id f{f}) {sa})", m1)
  | .dot o p, m => let (so, m1) := showT o m; (s!"(dot {so} p{p})", m1)
  | .tmp k, m =>
    match m.idxOf? k with
    | some i => (s!"(tmp {i})", m)
    | none => (s!"(tmp {m.length})", m ++ [k])
  | .assign k e, m =>
    let (m0, i) := match m.idxOf? k with
      | some i => (m, i)
      | none => (m ++ [k], m.length)
    let (se, m1) := showT e m0
    (s!"(set {i} {se})", m1)
  | .ifEqNull c y n, m =>
    let (sc, m1) := showT c m; let (sy, m2) := showT y m1; let (sn, m3) := showT n m2
    (s!"(if (eqnull {sc}) {sy} {sn})", m3)
  | .ifNeNull c y n, m =>
    let (sc, m1) := showT c m; let (sy, m2) := showT y m1; let (sn, m3) := showT n m2
    (s!"(if (nenull {sc}) {sy} {sn})", m3)

/-- source expressions arrive in prefix form, tokens separated by spaces -/
def parseS : Nat → List String → Option (S × List String)
  | 0, _ => none
  | fuel + 1, tok :: rest =>
    match tok with
    | "undef" => some (.lit .undef, rest)
    | "null" => some (.lit .null, rest)
    | "paren" => (parseS fuel rest).map (fun (a, r) => (.paren a, r))
    | "nullish" =>
      match parseS fuel rest with
      | some (a, r) => (parseS fuel r).map (fun (b, r2) => (.nullish a b, r2))
      | none => none
    | t =>
      let arg := (t.drop 1).toString
      if t.startsWith "v" then arg.toNat?.map (fun x => (.id x, rest))
      else if t.startsWith "n" then arg.toInt?.map (fun x => (.lit (.num x), rest))
      else if t.startsWith "c" then
        match arg.toNat?, parseS fuel rest with
        | some f, some (a, r) => some (.call f a, r)
        | _, _ => none
      else if t.startsWith "d" then
        match arg.toNat?, parseS fuel rest with
        | some p, some (o, r) => some (.dot o p, r)
        | _, _ => none
      else if t.startsWith "o" then
        match arg.toNat?, parseS fuel rest with
        | some p, some (o, r) => some (.optDot o p, r)
        | _, _ => none
      else none
  | _, [] => none

def driver (args : List String) : String :=
  match args with
  | [src] =>
    match parseS 200 (src.splitOn " ") with
    | some (e, []) => (showT (lower e) []).1
    | _ => "bad-op"
  | _ => "bad-op"

end EsbuildModel.Lower
