/-
Small-step semantics of the lock-level context model: states, one atomic step of one thread (`step`), runs.
See Impl/CtxLock.lean for the overview.
-/
import EsbuildModel.Impl.CtxLockProg
namespace EsbuildModel.CtxLock
open EsbuildModel.Gen.CtxLock (Mu Wg Fld Fn Cnd Tok)

/-- a `buildInProgress` -/
structure Build where
  wg : Nat := 0            -- waitGroup counter
  cancel : Bool := false   -- the cancel flag
  work : Nat := 0          -- steps the build still has to do (chosen when it is created)
  begun : Bool := false    -- rebuildImpl has started (on-start callbacks)
  ended : Bool := false    -- rebuildImpl has returned (on-end callbacks have run)
  written : Bool := false  -- `build.state` has been assigned
  sawCancel : Bool := false -- a step of the build observed the cancel flag
deriving DecidableEq, Repr

structure Watcher where
  wg : Nat := 0            -- stopWaitGroup
  stop : Bool := false     -- shouldStop
deriving DecidableEq, Repr

/-- an `apiHandler` together with the `hackListener`, the `shouldStop` flag and the http.Server created with it -/
structure Handler where
  serveWg : Nat := 0
  hackWg : Nat := 0
  hackDone : Bool := false
  hackErr : Bool := false
  sStop : Bool := false
  closed : Bool := false   -- Server.Close has been called
deriving DecidableEq, Repr

/-- what a call returned -/
inductive Ret where
  | none | empty | err | ok
  | partialOf (b : Nat)  -- `build.state` read before it was assigned (never happens: theorem joiners_get_result)
  | full (b : Nat)       -- the complete state of build b
deriving DecidableEq, Repr

structure Thread where
  pc : Nat := 0
  fin : Bool := false
  lb : Option Nat := none    -- `build`
  lrec : Option Nat := none  -- `recentBuild` (local of rebuild, captured by its goroutine)
  lw : Option Nat := none    -- `watcher` (local of rebuild)
  sw : Option Nat := none    -- receiver `w` / `ctx.watcher` evaluated as a receiver
  lh : Option Nat := none    -- `handler` (local of rebuild)
  sh : Option Nat := none    -- `handler` + `hack` + `server` of Serve and its closures
  err : Bool := false        -- `err != http.ErrServerClosed`
  fuel : Nat := 0            -- bound for the finite `for range` loops
  ret : Ret := .none
  born : Nat := 0            -- ghost: number of builds created before this thread existed
  meth : Option Method := none -- ghost: the API method this thread is a call of (none = a goroutine of the package)
deriving DecidableEq, Repr

inductive MuId where
  | ctx | watcher (i : Nat) | handler (i : Nat) | hack (i : Nat)
deriving DecidableEq, Repr

inductive WgId where
  | build (i : Nat) | stop (i : Nat) | serve (i : Nat) | hack (i : Nat)
deriving DecidableEq, Repr

structure State where
  panic : Bool := false
  mu : MuId → Option Nat := fun _ => none   -- the holder of each mutex
  disposed : Bool := false
  active : Option Nat := none
  recent : Option Nat := none
  watcher : Option Nat := none
  handler : Option Nat := none
  nbuilds : Nat := 0
  nwatchers : Nat := 0
  nhandlers : Nat := 0
  nthreads : Nat := 0
  builds : Nat → Build := fun _ => {}
  watchers : Nat → Watcher := fun _ => {}
  handlers : Nat → Handler := fun _ => {}
  threads : Nat → Thread := fun _ => {}

def init : State := {}

def Thread.wreg (th : Thread) : WReg → Option Nat
  | .sw => th.sw | .lw => th.lw
def Thread.hreg (th : Thread) : HReg → Option Nat
  | .sh => th.sh | .lh => th.lh

/-- the mutex a reference denotes for a thread; none = nil receiver -/
def Thread.muId (th : Thread) : MuRef → Option MuId
  | .ctx => some .ctx
  | .watcher r => (th.wreg r).map .watcher
  | .handler r => (th.hreg r).map .handler
  | .hack r => (th.hreg r).map .hack

def Thread.wgId (th : Thread) : WgRef → Option WgId
  | .build => th.lb.map .build
  | .stop r => (th.wreg r).map .stop
  | .serve r => (th.hreg r).map .serve
  | .hack r => (th.hreg r).map .hack

def State.wg (s : State) : WgId → Nat
  | .build i => (s.builds i).wg
  | .stop i => (s.watchers i).wg
  | .serve i => (s.handlers i).serveWg
  | .hack i => (s.handlers i).hackWg

def State.setWg (s : State) (g : WgId) (v : Nat) : State :=
  match g with
  | .build i => { s with builds := fun j => if j = i then { s.builds i with wg := v } else s.builds j }
  | .stop i => { s with watchers := fun j => if j = i then { s.watchers i with wg := v } else s.watchers j }
  | .serve i => { s with handlers := fun j => if j = i then { s.handlers i with serveWg := v } else s.handlers j }
  | .hack i => { s with handlers := fun j => if j = i then { s.handlers i with hackWg := v } else s.handlers j }

def State.setMu (s : State) (m : MuId) (v : Option Nat) : State :=
  { s with mu := fun k => if k = m then v else s.mu k }

def State.setThread (s : State) (t : Nat) (th : Thread) : State :=
  { s with threads := fun u => if u = t then th else s.threads u }

def State.updBuild (s : State) (b : Nat) (f : Build → Build) : State :=
  { s with builds := fun j => if j = b then f (s.builds b) else s.builds j }
def State.updWatcher (s : State) (w : Nat) (f : Watcher → Watcher) : State :=
  { s with watchers := fun j => if j = w then f (s.watchers w) else s.watchers j }
def State.updHandler (s : State) (h : Nat) (f : Handler → Handler) : State :=
  { s with handlers := fun j => if j = h then f (s.handlers h) else s.handlers j }

/-- value of a condition; none = nil dereference (Go panics). `bit` is the scheduler's choice. -/
def evalCond (s : State) (th : Thread) (bit : Bool) : Cond → Option Bool
  | .gen .didDispose => some s.disposed
  | .gen .buildNonNil => some th.lb.isSome
  | .gen .localWatcherNonNil => some th.lw.isSome
  | .gen .localHandlerNonNil => some th.lh.isSome
  | .gen .ctxWatcherNonNil => some s.watcher.isSome
  | .gen .ctxHandlerNonNil => some s.handler.isSome
  | .gen .recentIsMine => some (s.recent.isSome && s.recent == th.lrec)
  | .gen .wNotStopped => th.sw.map fun w => !(s.watchers w).stop
  | .gen .sStopped => th.sh.map fun h => (s.handlers h).sStop
  | .gen .hackErr => th.sh.map fun h => (s.handlers h).hackErr
  | .gen .hackNotDone => th.sh.map fun h => !(s.handlers h).hackDone
  | .gen .errNotClosed => some th.err
  | .gen .other => some bit
  | .bounded => some (bit && decide (0 < th.fuel))
  | .streams => some false
  | .moreWork => th.lb.map fun b => decide (0 < (s.builds b).work)
  | .srvLoop => th.sh.map fun h => !(s.handlers h).closed && bit

def readStateOf (s : State) (b : Nat) : Ret := if (s.builds b).written then .full b else .partialOf b

/-- effect of a primitive operation on the shared state and on the thread's locals; none = Go panics
(nil dereference). `bit`, `n`: the scheduler's choices. -/
def execAct (s : State) (th : Thread) (bit : Bool) (n : Nat) : Act → Option (State × Thread)
  | .readActive => some (s, { th with lb := s.active })
  | .readState | .retRecent => th.lb.map fun b => (s, { th with ret := readStateOf s b })
  | .newBuild =>
    some ({ s with nbuilds := s.nbuilds + 1, builds := fun j => if j = s.nbuilds then { work := n } else s.builds j },
          { th with lb := some s.nbuilds })
  | .setActive => some ({ s with active := th.lb }, th)
  | .readWatcher => some (s, { th with lw := s.watcher })
  | .readHandler => some (s, { th with lh := s.handler })
  | .writeState => th.lb.map fun b => (s.updBuild b fun x => { x with written := true }, th)
  | .clearActive => some ({ s with active := none }, th)
  | .setRecent => some ({ s with recent := th.lb }, { th with lrec := th.lb })
  | .clearRecent => some ({ s with recent := none }, th)
  | .readRecent => some (s, { th with lb := s.recent })
  | .setDisposed => some ({ s with disposed := true }, th)
  | .newWatcher =>
    some ({ s with nwatchers := s.nwatchers + 1, watcher := some s.nwatchers,
                   watchers := fun j => if j = s.nwatchers then {} else s.watchers j }, th)
  | .setWStop => th.sw.map fun w => (s.updWatcher w fun x => { x with stop := true }, th)
  | .newHandler =>
    some ({ s with nhandlers := s.nhandlers + 1, handlers := fun j => if j = s.nhandlers then {} else s.handlers j },
          { th with sh := some s.nhandlers })
  | .setHandler => some ({ s with handler := th.sh }, th)
  | .setSStop => th.sh.map fun h => (s.updHandler h fun x => { x with sStop := true }, th)
  | .setHackDone => th.sh.map fun h => (s.updHandler h fun x => { x with hackDone := true }, th)
  | .setHackErr => th.sh.map fun h => (s.updHandler h fun x => { x with hackErr := true }, th)
  | .closeServer => th.sh.map fun h => (s.updHandler h fun x => { x with closed := true }, th)
  | .srvResult => th.sh.map fun h => (s, { th with err := !(s.handlers h).closed })
  | .retHackErr | .retErr => some (s, { th with ret := .err })
  | .retEmpty => some (s, { th with ret := .empty })
  | .retOk => some (s, { th with ret := .ok })
  | .tick => some (s, { th with fuel := th.fuel - 1 })
  | .loadCtxWatcher => some (s, { th with sw := s.watcher })
  | .loadCtxHandler => some (s, { th with sh := s.handler })
  | .buildBegin => th.lb.map fun b => (s.updBuild b fun x => { x with begun := true }, th)
  | .buildStep => th.lb.map fun b =>
      (s.updBuild b fun x => if x.cancel && bit then { x with sawCancel := true, work := 0 } else { x with work := x.work - 1 }, th)
  | .buildEnd => th.lb.map fun b => (s.updBuild b fun x => { x with ended := true }, th)
  | .setCancel => th.lb.map fun b => (s.updBuild b fun x => { x with cancel := true }, th)
  | .sleep | .getStreams | .clrStreams | .closeStream | .sendStream | .accept | .external => some (s, th)

def State.panicked (s : State) : State := { s with panic := true }

/-- the thread's next record: at `pc` -/
def Thread.goto (th : Thread) (pc : Nat) : Thread := { th with pc := pc }

/-- ONE atomic step of thread `t` at instruction `i`; none = the thread is blocked. -/
def stepInstr (s : State) (t : Nat) (th : Thread) (bit : Bool) (n : Nat) : Instr → Option State
  | .lock m =>
    match th.muId m with
    | none => some s.panicked
    | some id => if s.mu id = none then some ((s.setMu id (some t)).setThread t (th.goto (th.pc + 1))) else none
  | .unlock m =>
    match th.muId m with
    | none => some s.panicked
    | some id => if s.mu id = some t then some ((s.setMu id none).setThread t (th.goto (th.pc + 1))) else some s.panicked
  | .add g =>
    match th.wgId g with
    | none => some s.panicked
    | some id => some ((s.setWg id (s.wg id + 1)).setThread t (th.goto (th.pc + 1)))
  | .done g =>
    match th.wgId g with
    | none => some s.panicked
    | some id => if s.wg id = 0 then some s.panicked else some ((s.setWg id (s.wg id - 1)).setThread t (th.goto (th.pc + 1)))
  | .wait g =>
    match th.wgId g with
    | none => some s.panicked
    | some id => if s.wg id = 0 then some (s.setThread t (th.goto (th.pc + 1))) else none
  | .act a =>
    match execAct s th bit n a with
    | none => some s.panicked
    | some (s', th') => some (s'.setThread t (th'.goto (th.pc + 1)))
  | .br c target =>
    match evalCond s th bit c with
    | none => some s.panicked
    | some true => some (s.setThread t (th.goto (th.pc + 1)))
    | some false => some (s.setThread t (th.goto target))
  | .goto target => some (s.setThread t (th.goto target))
  | .spawn target =>
    some ({ (s.setThread t (th.goto (th.pc + 1))) with nthreads := s.nthreads + 1 }.setThread s.nthreads
            { th with pc := target, fin := false, ret := .none, meth := none, born := s.nbuilds })
  | .halt => some (s.setThread t { th with fin := true })

/-- a step of thread `t` in program `code` -/
def stepT (code : List Instr) (s : State) (t : Nat) (bit : Bool) (n : Nat) : Option State :=
  if s.panic then none else
  if s.nthreads ≤ t then none else
  let th := s.threads t
  if th.fin then none else
  match code[th.pc]? with
  | none => some s.panicked
  | some i => stepInstr s t th bit n i

inductive Action where
  | call (m : Method) (fuel : Nat)          -- a caller thread enters an API method
  | run (t : Nat) (bit : Bool) (n : Nat)    -- thread t executes its next instruction
deriving DecidableEq, Repr

def step (code : List Instr) (s : State) : Action → Option State
  | .call m fuel =>
    if s.panic then none else
    some ({ s with nthreads := s.nthreads + 1 }.setThread s.nthreads
            { pc := m.entry, fuel := fuel, born := s.nbuilds, meth := some m })
  | .run t bit n => stepT code s t bit n

def run (code : List Instr) : State → List Action → Option State
  | s, [] => some s
  | s, a :: as => match step code s a with | some s' => run code s' as | none => none

end EsbuildModel.CtxLock
