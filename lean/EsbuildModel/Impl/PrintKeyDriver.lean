import EsbuildModel.Impl.PrintKey
import EsbuildModel.Impl.IdentLexDriver
import EsbuildModel.Util.Wire
/-
Line protocol of kernel `printkey` (harness/cmd/hinternal/k_printkey.go); the model `Impl/PrintKey.lean` with the regenerated
identifier tables.

  printkey  obj  <opts>  <indent>  <singleLine 0|1>  <props>   → the printed object literal (bytes, hex) | PANIC
  printkey  cls  <opts>  <indent>  <members>                   → the printed class expression (bytes, hex) | PANIC

  opts    := decimal bit mask: 1 MinifySyntax, 2 MinifyWhitespace, 4 MinifyIdentifiers, 8 ASCIIOnly, 16 no ObjectExtensions,
             32 no UnicodeEscapes, 64 no TemplateLiteral, 128 no InlineScript, 256 inside `with`
  props   := `-` | prop (`;` prop)*
  prop    := <kind f|m|g|s|a|x|d|b> `:` <flags: 1 computed, 2 static, 4 wasShorthand, 8 preferQuoted> `:` key `:` value `:` init
  key     := S<units, 4 hex digits each> | N<num> | B<text> | P<name> | M<name> | I<name> | E<units>.<comment> | F<num>.<comment>
             (text / name / comment: code points, 6 hex digits each; `-` = empty)
  num     := <float64 bits, decimal>/<strconv.FormatFloat(|x|,'g',-1,64) as bytes, hex>
  value   := `-` | I<name> | J<name>.<namespace name|->.<alias|->.<constant|-> | F<async 0|1><generator 0|1> | R<text>
  init    := 0 | 1<digits> | 2<name>
-/
namespace EsbuildModel.PrintKey
open EsbuildModel.Wire

def parseOpts (s : String) : Option Opts :=
  (parseNat s).map fun f =>
    { minifySyntax := f % 2 = 1, minifyWhitespace := f / 2 % 2 = 1, minifyIdentifiers := f / 4 % 2 = 1, asciiOnly := f / 8 % 2 = 1,
      noObjExt := f / 16 % 2 = 1, noUE := f / 32 % 2 = 1, noTemplate := f / 64 % 2 = 1, noInlineScript := f / 128 % 2 = 1,
      inWith := f / 256 % 2 = 1 }

def parseNum (s : String) : Option Num :=
  match s.splitOn "/" with
  | [bits, text] =>
    match parseNat bits, NumText.parseText text with
    | some b, some t =>
      let sign := b / 2 ^ 63 % 2 == 1
      (match F64.ofBits b with
       | .nan => some (.nan sign)
       | .inf neg => some (.inf neg)
       | .fin neg m e => some (.fin neg (if F64.isIntegral m e then some (F64.truncAbs m e) else none) t))
    | _, _ => none
  | _ => none

def tailOf (s : String) : String := String.ofList (s.toList.drop 1)

def parseKey (s : String) : Option KeyE :=
  let body := tailOf s
  match s.toList.head? with
  | some 'S' => (parseHexUnits 4 body).map .str
  | some 'N' => (parseNum body).map .num
  | some 'B' => (parseHexUnits 6 body).map .bigint
  | some 'P' => (parseHexUnits 6 body).map .priv
  | some 'M' => (parseHexUnits 6 body).map .mangled
  | some 'I' => (parseHexUnits 6 body).map .ident
  | some 'E' =>
    (match body.splitOn "." with
     | [u, c] => (match parseHexUnits 4 u, parseHexUnits 6 c with
       | some u, some c => some (.enumStr u c)
       | _, _ => none)
     | _ => none)
  | some 'F' =>
    (match body.splitOn "." with
     | [n, c] => (match parseNum n, parseHexUnits 6 c with
       | some n, some c => some (.enumNum n c)
       | _, _ => none)
     | _ => none)
  | _ => none

def parseBit (s : String) : Option Bool := if s = "0" then some false else if s = "1" then some true else none

def parseVal (s : String) : Option Val :=
  if s = "-" then some .none else
  let body := tailOf s
  match s.toList.head? with
  | some 'I' => (parseHexUnits 6 body).map .ident
  | some 'R' => (parseHexUnits 6 body).map .raw
  | some 'F' =>
    (match body.toList with
     | [a, g] => (match parseBit (String.ofList [a]), parseBit (String.ofList [g]) with
       | some a, some g => some (.fn a g)
       | _, _ => none)
     | _ => none)
  | some 'J' =>
    (match body.splitOn "." with
     | [n, ns, al, c] =>
       (match parseHexUnits 6 n, parseHexUnits 6 ns, parseHexUnits 6 al with
        | some n, some nsn, some aln =>
          let nsAlias := if ns = "-" then none else some (nsn, aln)
          if c = "-" then some (.imp n nsAlias none) else (parseNat c).map fun c => .imp n nsAlias (some c)
        | _, _, _ => none)
     | _ => none)
  | _ => none

def parseKind : String → Option Kind
  | "f" => some .field | "m" => some .method | "g" => some .getter | "s" => some .setter | "a" => some .autoAccessor
  | "x" => some .spread | "d" => some .declareOrAbstract | "b" => some .staticBlock | _ => none

def parseInit (s : String) : Option (Option Atom) :=
  if s = "0" then some none
  else if s.toList.head? = some '1' then (parseHexUnits 6 (tailOf s)).map fun t => some (.num t)
  else if s.toList.head? = some '2' then (parseHexUnits 6 (tailOf s)).map fun t => some (.ident t)
  else none

def parseProp (s : String) : Option Property :=
  match s.splitOn ":" with
  | [k, f, key, v, i] =>
    match parseKind k, parseNat f, parseKey key, parseVal v, parseInit i with
    | some k, some f, some key, some v, some i =>
      if f < 16 then
        some { kind := k, computed := f % 2 = 1, isStatic := f / 2 % 2 = 1, wasShorthand := f / 4 % 2 = 1,
               preferQuoted := f / 8 % 2 = 1, key := key, value := v, init := i }
      else none
    | _, _, _, _, _ => none
  | _ => none

def parseProps (s : String) : Option (List Property) :=
  if s = "-" then some [] else (s.splitOn ";").mapM parseProp

def showOut : Option (List Nat) → String
  | none => "PANIC"
  | some t => hexUnits 2 (Quote.utf8Encode t)

def driver (args : List String) : String :=
  let T := IdentLex.genTables
  match args with
  | ["obj", o, k, single, props] =>
    (match parseOpts o, parseNat k, parseBit single, parseProps props with
     | some o, some k, some single, some props => showOut (objectText T o k single props)
     | _, _, _, _ => "bad-op")
  | ["cls", o, k, members] =>
    (match parseOpts o, parseNat k, parseProps members with
     | some o, some k, some members => showOut (classText T o k members)
     | _, _, _ => "bad-op")
  | _ => "bad-op"

end EsbuildModel.PrintKey
