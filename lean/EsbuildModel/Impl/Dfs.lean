/-
Generic depth-first traversal with mark-on-entry and post-order output: the shape shared by
ECMAScript's InnerModuleEvaluation (the order in which module bodies run), the linker's
`findImportedPartsInJSOrder` and `appendIsolatedHashesForImportedChunks`.
`succ i = none` stands for "the implementation would index out of range at node i".
-/
namespace EsbuildModel.Dfs

structure St where
  visited : List Nat   -- nodes entered so far
  order : List Nat     -- nodes finished so far, in finishing order
deriving Repr, DecidableEq

/-- `for _, j := range js { f(j) }` over a partial step function -/
def visitList (f : Nat → St → Option St) : List Nat → St → Option St
  | [], st => some st
  | j :: js, st =>
    match f j st with
    | none => none
    | some st' => visitList f js st'

def visit (succ : Nat → Option (List Nat)) : Nat → Nat → St → Option St
  | 0, _, _ => none
  | fuel + 1, i, st =>
    if st.visited.contains i then some st
    else
      match succ i with
      | none => none
      | some js =>
        match visitList (visit succ fuel) js { st with visited := i :: st.visited } with
        | none => none
        | some st' => some { st' with order := st'.order ++ [i] }

/-- post-order from a list of roots over a graph with `n` nodes -/
def run (succ : Nat → Option (List Nat)) (n : Nat) (roots : List Nat) : Option (List Nat) :=
  (visitList (visit succ (n + 1)) roots ⟨[], []⟩).map (·.order)

end EsbuildModel.Dfs
