/-
Reviewed expectations for the regenerated C14 facts (Gen/OverrideCalls.lean, Gen/FeatureGates.lean,
Gen/RuntimeGuards.lean). Written against the pinned tree by reading the source; `Props/C14Facts.lean` proves that
what the extractor finds NOW agrees with these lists, so that a gate that disappears, changes kind, or an implication
that is dropped / reordered makes the proof fail and has to be looked at.
-/
namespace EsbuildModel.C14FactsReview

/-- The `fixInvalidUnsupportedJSFeatureOverrides` calls of `applyOptionDefaults` as reviewed, IN SOURCE ORDER.
(The list is transitively closed — `Class` lists what `ClassField` and `ClassStaticField` imply — so its order is
semantically irrelevant; `C14Facts.overrides_closed_in_any_order` proves that. The order is pinned anyway.) -/
def expectedCalls : List (String × List String) := [
  ("AsyncAwait", ["AsyncGenerator", "ForAwait", "TopLevelAwait"]),
  ("Generator", ["AsyncGenerator"]),
  ("ObjectAccessors", ["ClassPrivateAccessor", "ClassPrivateStaticAccessor"]),
  ("ClassField", ["ClassPrivateField"]),
  ("ClassStaticField", ["ClassPrivateStaticField"]),
  ("Class", ["ClassField", "ClassPrivateAccessor", "ClassPrivateBrandCheck", "ClassPrivateField", "ClassPrivateMethod",
             "ClassPrivateStaticAccessor", "ClassPrivateStaticField", "ClassPrivateStaticMethod", "ClassStaticBlocks",
             "ClassStaticField"])
]

/-- The intended dependency relation, stated the other way round and from the LANGUAGE, not from bundler.go:
(dependent syntax, the syntax it cannot exist without). esbuild's source states this relation nowhere else (the compat
table generator compat-table/src/js_table.ts and internal/compat have no dependency data), so this is a reviewed list,
not a second extracted source. -/
def requires : List (String × List String) := [
  ("AsyncGenerator", ["AsyncAwait", "Generator"]),            -- `async function*`
  ("ForAwait", ["AsyncAwait"]),                               -- `for await` needs an async context
  ("TopLevelAwait", ["AsyncAwait"]),
  ("ClassField", ["Class"]),
  ("ClassStaticField", ["Class"]),
  ("ClassStaticBlocks", ["Class"]),
  ("ClassPrivateBrandCheck", ["Class"]),                      -- `#x in o` only inside a class body
  ("ClassPrivateMethod", ["Class"]),
  ("ClassPrivateStaticMethod", ["Class"]),
  ("ClassPrivateField", ["Class", "ClassField"]),             -- `#x = 1` is a field
  ("ClassPrivateStaticField", ["Class", "ClassStaticField"]),
  ("ClassPrivateAccessor", ["Class", "ObjectAccessors"]),     -- `get #x() {}` is an accessor
  ("ClassPrivateStaticAccessor", ["Class", "ObjectAccessors"])
]

/-- features of the compat table that NO code path tests (see the finding in the work-package report): the hashbang
line is copied to the output whatever the target says, also under `--supported:hashbang=false`. -/
def ungated : List String := ["Hashbang"]

/-- per feature: number of test sites, number of markSyntaxFeature sites, handling kind, and what that means.
kinds: "branch" = the code only asks `Has(F)` and transforms / picks other output; "error-not-lowered" = parse error
"Transforming … is not supported yet"; "error" = a specific parse error; "warn" = warning, syntax kept;
"branch+X" = both. -/
def expectedGates : List (String × Nat × Nat × String × String) := [
  ("ArbitraryModuleNamespaceNames", 7, 0, "branch", "linker avoids string export/import names"),
  ("ArraySpread", 0, 2, "error-not-lowered", "parser"),
  ("Arrow", 13, 0, "branch", "parser lowers to function expressions; printer/linker emit function() for generated code"),
  ("AsyncAwait", 10, 1, "branch+error-not-lowered", "lowered to generators via __async; error only when generators are unsupported too"),
  ("AsyncGenerator", 6, 1, "branch+error-not-lowered", "lowered via __asyncGenerator; error only without generators"),
  ("Bigint", 3, 1, "branch+warn", "literal kept (or BigInt(\"…\") call), warning"),
  ("Class", 0, 2, "error-not-lowered", "parser"),
  ("ClassField", 3, 0, "branch", "lowered to __publicField"),
  ("ClassPrivateAccessor", 1, 0, "branch", "through compat.SymbolFeature in privateSymbolNeedsToBeLowered"),
  ("ClassPrivateBrandCheck", 1, 0, "branch", "lowered to __privateIn"),
  ("ClassPrivateField", 2, 0, "branch", "WeakMap lowering; also through SymbolFeature"),
  ("ClassPrivateMethod", 1, 0, "branch", "through SymbolFeature"),
  ("ClassPrivateStaticAccessor", 1, 0, "branch", "through SymbolFeature"),
  ("ClassPrivateStaticField", 2, 0, "branch", "also through SymbolFeature"),
  ("ClassPrivateStaticMethod", 1, 0, "branch", "through SymbolFeature"),
  ("ClassStaticBlocks", 3, 0, "branch", "lowered to an IIFE after the class"),
  ("ClassStaticField", 1, 0, "branch", "lowered to __publicField after the class"),
  ("ConstAndLet", 4, 3, "branch+error-not-lowered", "generated declarations use var (incl. the variable of a nested TypeScript namespace / enum); user const/let is an error"),
  ("Decorators", 3, 0, "branch", "lowered to __decorateElement & co."),
  ("DefaultArgument", 0, 2, "error-not-lowered", "one direct, one deferred through invalidLog.syntaxFeatures"),
  ("Destructuring", 0, 6, "error-not-lowered", "four direct, two deferred"),
  ("DynamicImport", 5, 0, "branch", "import() → Promise.resolve().then(() => require())"),
  ("ExponentOperator", 2, 0, "branch", "→ __pow / Math.pow"),
  ("ExportStarAs", 1, 0, "branch", "→ import * as ns + export {ns}"),
  ("ForAwait", 1, 1, "branch+error-not-lowered", "lowered via __forAwait; error only without generators"),
  ("ForOf", 3, 1, "branch+error-not-lowered", "the three tests are in runtime.go (helper text variants)"),
  ("FromBase64", 1, 0, "branch", "binary loader picks __toBinary variant"),
  ("FunctionNameConfigurable", 1, 0, "branch", "pkg/api: keep-names is an error for such targets"),
  ("FunctionOrClassPropertyAccess", 2, 0, "branch", "printer parenthesises"),
  ("Generator", 2, 3, "branch+error-not-lowered", "never lowered; the tests decide how async is handled"),
  ("Hashbang", 0, 0, "none", "NO GATE: see `ungated`"),
  ("ImportAssertions", 6, 0, "branch", "printer drops / rewrites assert ↔ with"),
  ("ImportAttributes", 6, 1, "branch+error", "error for a non-literal second argument of import()"),
  ("ImportDefer", 0, 2, "error", "parser"),
  ("ImportMeta", 2, 1, "branch+warn", "replaced by an empty object, warning"),
  ("ImportSource", 0, 3, "error", "parser"),
  ("InlineScript", 6, 0, "branch", "escapes </script> in strings, templates, regexps, comments"),
  ("LogicalAssignment", 4, 0, "branch", "lowered to || && ?? with assignment"),
  ("NestedRestBinding", 0, 2, "error-not-lowered", "parser"),
  ("NewTarget", 0, 1, "error-not-lowered", "parser"),
  ("NodeColonPrefixImport", 1, 0, "branch", "resolver strips node:"),
  ("NodeColonPrefixRequire", 1, 0, "branch", "resolver strips node:"),
  ("NullishCoalescing", 4, 0, "branch", "lowered to != null conditionals"),
  ("ObjectAccessors", 3, 2, "branch+error-not-lowered", "the three tests are in runtime.go"),
  ("ObjectExtensions", 8, 2, "branch+error-not-lowered", "shorthand expanded by the printer; computed keys / methods are errors"),
  ("ObjectRestSpread", 6, 0, "branch", "lowered to __spreadValues / __objRest"),
  ("OptionalCatchBinding", 2, 0, "branch", "a binding is generated"),
  ("OptionalChain", 4, 0, "branch", "lowered to conditionals"),
  ("RegexpDotAllFlag", 1, 0, "branch", "→ new RegExp(…) (run-time feature detection by the engine)"),
  ("RegexpLookbehindAssertions", 1, 0, "branch", "→ new RegExp(…)"),
  ("RegexpMatchIndices", 1, 0, "branch", "→ new RegExp(…)"),
  ("RegexpNamedCaptureGroups", 1, 0, "branch", "→ new RegExp(…)"),
  ("RegexpSetNotation", 1, 0, "branch", "→ new RegExp(…)"),
  ("RegexpStickyAndUnicodeFlags", 1, 0, "branch", "→ new RegExp(…)"),
  ("RegexpUnicodePropertyEscapes", 1, 0, "branch", "→ new RegExp(…)"),
  ("RestArgument", 0, 4, "error-not-lowered", "parser"),
  ("TemplateLiteral", 3, 0, "branch", "lowered to concatenation / __template"),
  ("TopLevelAwait", 4, 4, "branch+error", "error (also when the output format cannot keep it)"),
  ("TypeofExoticObjectIsObject", 1, 0, "branch", "minifier rule switched off"),
  ("UnicodeEscapes", 7, 0, "branch", "identifiers escaped differently / ascii-only restrictions"),
  ("Using", 5, 0, "branch", "lowered to __using / __callDispose")
]

def gateKey (r : String × Nat × Nat × String × String) : String × Nat × Nat × String := (r.1, r.2.1, r.2.2.1, r.2.2.2.1)

/-- `markSyntaxFeature`'s early exit as reviewed -/
def expectedMarkGuard : String := "!p.options.unsupportedJSFeatures.Has(feature)"

end EsbuildModel.C14FactsReview
