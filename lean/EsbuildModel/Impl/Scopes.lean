/-
Model of the scope analysis of internal/js_parser/js_parser.go that feeds the renamers:

* parse pass: `pushScopeForParsePass`, `popScope`, `newSymbol`, `canMergeSymbols`, `declareSymbol`, the "use strict"
  directive step of `parseStmtsUpTo`, the strict-mode step of `parseClass`;
* between the passes (`prepareForVisitPass`): `RecursiveSetStrictMode(ImplicitStrictModeESM)`, `hoistSymbols`
  (duplicate function check, catch-parameter collisions, Annex B.3.3 block-level functions, the walk to the
  closest scope that stops hoisting), the three symbols `require` / `exports` / `module` (pass-through mode);
* visit pass: `pushScopeForVisitPass`, `findSymbol` (walk over `scope.Parent`, unbound symbols, `with` pinning),
  the label symbol of `SLabel`, the inner class name of `visitClass` (+ `RecursiveSetStrictMode`), direct `eval`
  (`ContainsDirectEval` on all enclosing scopes, `popScope` pins the members), and the step of `visitStmts` that merges
  the hoisted variable of a sloppy block-level function back into the function when its name is pinned.

What is transcribed and how:
* the INPUT is the sequence of scope pushes / pops, declarations and references the parser makes for a file, as a
  tree of `Item`s (a scope item = push, its items, pop).  For source text this sequence is produced by the harness
  next to the text and checked against the real parser (kernel `scope`, op `src`: whole scope tree, symbol
  table, references, errors); op `ops` runs arbitrary item trees directly on the real unexported routines.
* `js_ast.Scope` is `Frame` (the fields the modelled code reads or writes) + children; `Parent` pointers are the
  stack of frames of the enclosing scopes (`hoistSymbols` and `findSymbol` walk that stack); `Members` (a Go map)
  is an association list, the code's own sort by symbol index is transcribed;
* `p.symbols` is a list, a ref is its inner index; `Loc`s are dropped (they only feed messages);
* a Go panic (nil `Parent`, symbol index out of range, "Internal error" of a function body scope outside an
  argument scope, scope mismatch between the passes) is `none`;
* options: JavaScript (no TypeScript), pass-through mode, no minify-syntax (the two flags
  `RemoveOverwrittenFunctionDeclaration` / `CouldPotentiallyBeMutated` are not modelled);
* the log is reduced to the names of the "The symbol %q has already been declared" errors, in order.
-/
import EsbuildModel.Util.Wire
namespace EsbuildModel.Scopes

abbrev Name := Nat
/-- "arguments" -/
def argumentsName : Name := 0
/-- "eval" -/
def evalName : Name := 1
/-- "_this" -/
def nameThis : Name := 53
/-- `"_" + name` (the inner class name symbol) -/
def innerName (n : Name) : Name := 1000 + n

/-- ast.SymbolKind -/
inductive SK where
  | unbound | hoisted | hoistedFunction | catchIdentifier | generatorOrAsyncFunction | arguments | class_
  | classInComputedPropertyKey | privateField | privateMethod | privateGet | privateSet | privateGetSetPair
  | privateStaticField | privateStaticMethod | privateStaticGet | privateStaticSet | privateStaticGetSetPair
  | label | tsEnum | tsNamespace | import_ | const_ | injected | mangledProp | globalCSS | localCSS | other
deriving DecidableEq, Repr

def SK.code : SK → Nat
  | .unbound => 0 | .hoisted => 1 | .hoistedFunction => 2 | .catchIdentifier => 3
  | .generatorOrAsyncFunction => 4 | .arguments => 5 | .class_ => 6 | .classInComputedPropertyKey => 7
  | .privateField => 8 | .privateMethod => 9 | .privateGet => 10 | .privateSet => 11 | .privateGetSetPair => 12
  | .privateStaticField => 13 | .privateStaticMethod => 14 | .privateStaticGet => 15 | .privateStaticSet => 16
  | .privateStaticGetSetPair => 17 | .label => 18 | .tsEnum => 19 | .tsNamespace => 20 | .import_ => 21
  | .const_ => 22 | .injected => 23 | .mangledProp => 24 | .globalCSS => 25 | .localCSS => 26 | .other => 27

def SK.ofCode : Nat → Option SK
  | 0 => some .unbound | 1 => some .hoisted | 2 => some .hoistedFunction | 3 => some .catchIdentifier
  | 4 => some .generatorOrAsyncFunction | 5 => some .arguments | 6 => some .class_
  | 7 => some .classInComputedPropertyKey | 8 => some .privateField | 9 => some .privateMethod
  | 10 => some .privateGet | 11 => some .privateSet | 12 => some .privateGetSetPair
  | 13 => some .privateStaticField | 14 => some .privateStaticMethod | 15 => some .privateStaticGet
  | 16 => some .privateStaticSet | 17 => some .privateStaticGetSetPair | 18 => some .label | 19 => some .tsEnum
  | 20 => some .tsNamespace | 21 => some .import_ | 22 => some .const_ | 23 => some .injected
  | 24 => some .mangledProp | 25 => some .globalCSS | 26 => some .localCSS | 27 => some .other
  | _ => none

/-- SymbolKind.IsHoisted -/
def SK.isHoisted (k : SK) : Bool := k == .hoisted || k == .hoistedFunction
/-- SymbolKind.IsHoistedOrFunction -/
def SK.isHoistedOrFunction (k : SK) : Bool := k.isHoisted || k == .generatorOrAsyncFunction
/-- SymbolKind.IsFunction -/
def SK.isFunction (k : SK) : Bool := k == .hoistedFunction || k == .generatorOrAsyncFunction

/-- js_ast.ScopeKind -/
inductive ScK where
  | block | with_ | label | className | classBody | catchBinding | entry | fnArgs | fnBody | classStaticInit
deriving DecidableEq, Repr

def ScK.code : ScK → Nat
  | .block => 0 | .with_ => 1 | .label => 2 | .className => 3 | .classBody => 4 | .catchBinding => 5
  | .entry => 6 | .fnArgs => 7 | .fnBody => 8 | .classStaticInit => 9

def ScK.ofCode : Nat → Option ScK
  | 0 => some .block | 1 => some .with_ | 2 => some .label | 3 => some .className | 4 => some .classBody
  | 5 => some .catchBinding | 6 => some .entry | 7 => some .fnArgs | 8 => some .fnBody | 9 => some .classStaticInit
  | _ => none

/-- ScopeKind.StopsHoisting -/
def ScK.stopsHoisting : ScK → Bool
  | .entry | .fnArgs | .fnBody | .classStaticInit => true
  | _ => false

/-- js_ast.StrictModeKind: 0 SloppyMode, 1 ExplicitStrictMode, 2 ImplicitStrictModeClass, 3 ImplicitStrictModeESM -/
abbrev Strict := Nat

/-- ast.Symbol: Kind, OriginalName, Link (none = InvalidRef), the flag MustNotBeRenamed -/
structure Sym where
  kind : SK
  name : Name
  link : Option Nat
  pinned : Bool
deriving DecidableEq, Repr

/-- the Go map `Members` (name → ref) -/
abbrev Members := List (Name × Nat)

def lookup (n : Name) : Members → Option Nat
  | [] => none
  | (k, v) :: rest => if k = n then some v else lookup n rest

/-- `m[n] = r` -/
def insert (n : Name) (r : Nat) : Members → Members
  | [] => [(n, r)]
  | (k, v) :: rest => if k = n then (k, r) :: rest else (k, v) :: insert n r rest

/-- js_ast.Scope without Parent / Children -/
structure Frame where
  kind : ScK
  strict : Strict
  members : Members
  generated : List Nat
  replaced : List Nat
  label : Option Nat
  eval : Bool
deriving DecidableEq, Repr

/-- a scope with its children -/
inductive Sc where
  | node (f : Frame) (children : List Sc)
deriving Repr

def Sc.frame : Sc → Frame
  | .node f _ => f
def Sc.children : Sc → List Sc
  | .node _ c => c

/-- what the parser does, in order -/
inductive Item where
  /-- `declareSymbol(kind, name)` -/
  | decl (k : SK) (n : Name)
  /-- parseFn: `if _, ok := Members["arguments"]; !ok { declareSymbol(SymbolArguments, "arguments"); MustNotBeRenamed }` -/
  | declArgs
  /-- `newSymbol(SymbolOther, name)` (class expression name, `#x_get` …) -/
  | rawSym (n : Name)
  /-- `ref = newSymbol(SymbolOther, name); p.currentScope.Generated = append(…, ref)` (the namespace symbol of an
  import statement without `* as`) -/
  | genSym (n : Name)
  /-- visitClass: `innerClassNameRef = newSymbol(SymbolConst, "_"+name); Members[name] = innerClassNameRef`
  (`none`: a class without a name, the symbol is called `_this` and is not a member) -/
  | classInner (n : Option Name)
  /-- an identifier expression (`findSymbol` in the visit pass) -/
  | ref (n : Name)
  /-- a direct `eval(...)` call -/
  | eval
  /-- end of a statement list inside a scope (between the case bodies of a switch) -/
  | cut
  /-- push the scope, (the "use strict" directive), the items, pop; `lbl` = the label of an SLabel -/
  | scope (k : ScK) (useStrict : Bool) (lbl : Option Name) (body : List Item)
deriving Repr

abbrev Syms := List Sym

/-- newSymbol -/
def newSymbol (syms : Syms) (k : SK) (n : Name) : Syms × Nat :=
  (syms ++ [⟨k, n, none, false⟩], syms.length)

def kindOf? (syms : Syms) (r : Nat) : Option SK := (syms[r]?).map (·.kind)

inductive Merge where
  | forbidden | replaceWithNew | overwriteWithNew | keepExisting | becomePrivateGetSetPair | becomePrivateStaticGetSetPair
deriving DecidableEq, Repr

def Merge.code : Merge → Nat
  | .forbidden => 0 | .replaceWithNew => 1 | .overwriteWithNew => 2 | .keepExisting => 3
  | .becomePrivateGetSetPair => 4 | .becomePrivateStaticGetSetPair => 5

/-- canMergeSymbols (`p.options.ts.Parse` = false) -/
def canMergeSymbols (scopeKind : ScK) (existing new : SK) : Merge :=
  if existing = .unbound then .replaceWithNew
  else if new = .tsEnum ∧ existing = .tsEnum then .keepExisting
  else if new = .tsEnum ∧ existing = .tsNamespace then .replaceWithNew
  else if new = .tsNamespace ∧ (existing = .tsNamespace ∨ existing = .hoistedFunction ∨ existing = .generatorOrAsyncFunction
      ∨ existing = .tsEnum ∨ existing = .class_) then .keepExisting
  else if new.isHoistedOrFunction ∧ existing.isHoistedOrFunction ∧
      (scopeKind = .entry ∨ scopeKind = .fnBody ∨ scopeKind = .fnArgs ∨ (new = existing ∧ new.isHoisted)) then .replaceWithNew
  else if (existing = .privateGet ∧ new = .privateSet) ∨ (existing = .privateSet ∧ new = .privateGet) then .becomePrivateGetSetPair
  else if (existing = .privateStaticGet ∧ new = .privateStaticSet) ∨ (existing = .privateStaticSet ∧ new = .privateStaticGet) then
    .becomePrivateStaticGetSetPair
  else if existing = .catchIdentifier ∧ new = .hoisted then .replaceWithNew
  else if existing = .arguments ∧ new = .hoisted then .keepExisting
  else if existing = .arguments ∧ new ≠ .hoisted then .overwriteWithNew
  else .forbidden

def setLink (syms : Syms) (i : Nat) (l : Option Nat) : Syms := syms.modify i (fun s => { s with link := l })
def setKind (syms : Syms) (i : Nat) (k : SK) : Syms := syms.modify i (fun s => { s with kind := k })
def pin (syms : Syms) (i : Nat) : Syms := syms.modify i (fun s => { s with pinned := true })

/-- the state of the parse pass below the current scope: symbols, errors, refs returned by declareSymbol (in order) -/
structure PSt where
  syms : Syms
  errs : List Name
  declRefs : List Nat
deriving Repr

/-- declareSymbol on the current scope `cur`; returns the scope, the state and the ref -/
def declareSymbol (cur : Frame) (st : PSt) (kind : SK) (name : Name) : Option (Frame × PSt × Nat) :=
  let (syms1, ref) := newSymbol st.syms kind name
  match lookup name cur.members with
  | none => some ({ cur with members := insert name ref cur.members }, { st with syms := syms1 }, ref)
  | some existing =>
    match kindOf? syms1 existing with
    | none => none
    | some ek =>
      match canMergeSymbols cur.kind ek kind with
      | .forbidden => some (cur, { st with syms := syms1, errs := st.errs ++ [name] }, existing)
      | .keepExisting => some ({ cur with members := insert name existing cur.members }, { st with syms := syms1 }, existing)
      | .replaceWithNew =>
        some ({ cur with members := insert name ref cur.members, replaced := cur.replaced ++ [existing] },
          { st with syms := setLink syms1 existing (some ref) }, ref)
      | .becomePrivateGetSetPair =>
        some ({ cur with members := insert name existing cur.members },
          { st with syms := setKind syms1 existing .privateGetSetPair }, existing)
      | .becomePrivateStaticGetSetPair =>
        some ({ cur with members := insert name existing cur.members },
          { st with syms := setKind syms1 existing .privateStaticGetSetPair }, existing)
      | .overwriteWithNew => some ({ cur with members := insert name ref cur.members }, { st with syms := syms1 }, ref)

-- ------------------------------------------------------------------------------------------------
-- the parse pass

/-- the copy loop of pushScopeForParsePass for a function body scope: every member of the argument scope except
the function expression's own name -/
def copyArgs (syms : Syms) : Members → Option Members
  | [] => some []
  | (n, r) :: rest =>
    match kindOf? syms r, copyArgs syms rest with
    | some k, some m => if k = .hoistedFunction then some m else some ((n, r) :: m)
    | _, _ => none

/-- pushScopeForParsePass: the new scope (`parent` = p.currentScope) -/
def pushFrame (parent : Frame) (k : ScK) (syms : Syms) : Option Frame :=
  if k = .fnBody then
    if parent.kind ≠ .fnArgs then none   -- panic("Internal error")
    else match copyArgs syms parent.members with
      | none => none
      | some m => some ⟨k, parent.strict, m, [], [], none, false⟩
  else some ⟨k, parent.strict, [], [], [], none, false⟩

/-- parseClass: `if p.currentScope.StrictMode == SloppyMode { … = ImplicitStrictModeClass }` -/
def classStrict (f : Frame) : Frame :=
  if f.kind = .classBody ∧ f.strict = 0 then { f with strict := 2 } else f

/-- the "use strict" step of parseStmtsUpTo -/
def applyUseStrict (parent child : Frame) : Frame × Frame :=
  let child' := { child with strict := 1 }
  if child.kind = .fnBody ∧ parent.kind = .fnArgs ∧ parent.strict = 0 then ({ parent with strict := 1 }, child')
  else (parent, child')

/-- the current scope, the children it has so far, the rest of the parser state -/
structure PCtx where
  cur : Frame
  kids : List Sc
  st : PSt
deriving Repr

mutual
def parseItem : Item → PCtx → Option PCtx
  | .decl k n, c =>
    match declareSymbol c.cur c.st k n with
    | none => none
    | some (cur, st, r) => some ⟨cur, c.kids, { st with declRefs := st.declRefs ++ [r] }⟩
  | .declArgs, c =>
    match lookup argumentsName c.cur.members with
    | some _ => some c
    | none =>
      match declareSymbol c.cur c.st .arguments argumentsName with
      | none => none
      | some (cur, st, r) => some ⟨cur, c.kids, { st with syms := pin st.syms r }⟩
  | .rawSym n, c =>
    let (syms1, r) := newSymbol c.st.syms .other n
    some { c with st := { c.st with syms := syms1, declRefs := c.st.declRefs ++ [r] } }
  | .genSym n, c =>
    let (syms1, r) := newSymbol c.st.syms .other n
    some { c with cur := { c.cur with generated := c.cur.generated ++ [r] }, st := { c.st with syms := syms1 } }
  | .classInner _, c => some c
  | .ref _, c => some c
  | .eval, c => some c
  | .cut, c => some c
  | .scope k us _ body, c =>
    match pushFrame c.cur k c.st.syms with
    | none => none
    | some child0 =>
      let pc := if us then applyUseStrict c.cur (classStrict child0) else (c.cur, classStrict child0)
      match parseItems body ⟨pc.2, [], c.st⟩ with
      | none => none
      | some r => some ⟨pc.1, c.kids ++ [.node r.cur r.kids], r.st⟩   -- popScope (ContainsDirectEval is not set in this pass)
def parseItems : List Item → PCtx → Option PCtx
  | [], c => some c
  | i :: is, c =>
    match parseItem i c with
    | none => none
    | some c' => parseItems is c'
end

-- ------------------------------------------------------------------------------------------------
-- hoistSymbols

/-- `hmap` = p.hoistedRefForSloppyModeBlockFn -/
structure HSt where
  syms : Syms
  errs : List Name
  hmap : List (Nat × Nat)
deriving Repr

def erase (k : Nat) : List (Nat × Nat) → List (Nat × Nat)
  | [] => []
  | (a, b) :: rest => if a = k then erase k rest else (a, b) :: erase k rest

def insertNat (a : Nat) : List Nat → List Nat
  | [] => [a]
  | b :: bs => if a ≤ b then a :: b :: bs else b :: insertNat a bs
/-- sort.Sort(sortedMembers): by inner index (all of one file) -/
def sortRefs (l : List Nat) : List Nat := l.foldr insertNat []

/-- the duplicate function check at the top of hoistSymbols, over `scope.Replaced` -/
def dupFnErrs (f : Frame) (syms : Syms) : List Nat → Option (List Name)
  | [] => some []
  | r :: rest =>
    match syms[r]?, dupFnErrs f syms rest with
    | some sym, some es =>
      if sym.kind.isFunction then
        match lookup sym.name f.members with
        | none => some es
        | some m =>
          match kindOf? syms m with
          | none => none
          | some mk => if mk.isFunction then some (sym.name :: es) else some es
      else some es
    | _, _ => none

/-- "A block-level function declaration in sloppy mode is not hoisted if it has the same name as one of the
function's parameters": `s.Kind == ScopeFunctionBody` and `s.Parent.Members[name]` is the same member -/
def argBlocks (isSloppyFn : Bool) (name : Name) (ex : Nat) (s : Frame) (rest : List Frame) : Option Bool :=
  if isSloppyFn ∧ s.kind = .fnBody then
    match rest with
    | [] => none
    | p :: _ => some (lookup name p.members == some ex)
  else some false

/-- `symbol.Flags.Has(MustNotBeRenamed)` -/
def isPinned (syms : Syms) (r : Nat) : Bool :=
  match syms[r]? with
  | some s => s.pinned
  | none => false

/-- `for target := r; target != InvalidRef; target = symbols[target].Link { symbols[target].Flags |= MustNotBeRenamed }`.
The fuel is the table size + 1: enough for every chain without a cycle; on a cycle the real loop does not terminate, the
model stops (cycles do not arise: every link is set on a symbol that has none and points to a symbol declared in an
enclosing or earlier scope). -/
def pinLinks : Nat → Syms → Nat → Syms
  | 0, syms, _ => syms
  | fuel + 1, syms, t =>
    match syms[t]? with
    | none => syms
    | some s =>
      match s.link with
      | none => pin syms t
      | some l => pinLinks fuel (pin syms t) l

/-- hoistSymbols: `if scope.Kind == ScopeWith { symbol.Flags |= MustNotBeRenamed }` (a `var` declared directly in the body
of a `with` statement) -/
def pinIfWith (f : Frame) (syms : Syms) (r : Nat) : Syms := if f.kind = .with_ then pin syms r else syms

/-- the inner `for` loop of hoistSymbols: `s` runs over the enclosing scopes, closest first.
`mref` = member.Ref (the hoisted symbol), `orig` = originalMemberRef, `first` = `s == scope.Parent`. -/
def hoistUp (name : Name) (mref orig : Nat) (isSloppyFn : Bool) : Bool → List Frame → HSt → Option (List Frame × HSt)
  | _, [], _ => none
  | first, s :: rest, st =>
    let st1 := if s.kind = .with_ then { st with syms := pin st.syms mref } else st
    let cont (s : Frame) (st : HSt) : Option (List Frame × HSt) :=
      if s.kind.stopsHoisting then some ({ s with members := insert name mref s.members } :: rest, st)
      else match hoistUp name mref orig isSloppyFn false rest st with
        | none => none
        | some (rest', st') => some (s :: rest', st')
    match lookup name s.members with
    | none => cont s st1
    | some ex =>
      match kindOf? st1.syms ex, argBlocks isSloppyFn name ex s rest, kindOf? st1.syms mref with
      | some ek, some blocked, some mk =>
        if blocked then some (s :: rest, { st1 with hmap := erase orig st1.hmap })
        else if ek = .unbound ∨ ek = .hoisted ∨ (ek.isFunction ∧ (s.kind = .entry ∨ s.kind = .fnBody)) then
          -- `if symbol.Flags.Has(MustNotBeRenamed) {
          --   for target := existingMember.Ref; target != InvalidRef; target = symbols[target].Link { … } }`
          let syms2 := if isPinned st1.syms mref then pinLinks (st1.syms.length + 1) st1.syms ex else st1.syms
          some ({ s with members := insert name ex s.members } :: rest, { st1 with syms := setLink syms2 mref (some ex) })
        else if ek ≠ .catchIdentifier ∧ ek ≠ .arguments then
          if mk ≠ .catchIdentifier ∧ mk ≠ .hoistedFunction then
            if !isSloppyFn then some (s :: rest, { st1 with errs := st1.errs ++ [name] })
            else if first then some (s :: rest, { st1 with hmap := erase orig st1.hmap })
            else some (s :: rest, st1)
          else some (s :: rest, st1)
        else
          -- `if existingSymbol.Kind == SymbolArguments { symbol.Flags |= MustNotBeRenamed }`
          let syms2 := if ek = .arguments then pin st1.syms mref else st1.syms
          cont { s with members := insert name mref s.members } { st1 with syms := setLink syms2 ex (some mref) }
      | _, _, _ => none

/-- one iteration of the `nextMember` loop (`f` = the scope whose members are hoisted, `anc` = its ancestors) -/
def hoistMember (anc : List Frame) (f : Frame) (st : HSt) (mref : Nat) : Option (List Frame × Frame × HSt) :=
  match st.syms[mref]?, anc with
  | some sym, p :: _ =>
    if p.kind = .catchBinding ∧ sym.kind ≠ .hoisted ∧ (lookup sym.name p.members).isSome then
      some (anc, f, { st with errs := st.errs ++ [sym.name] })
    else if !sym.kind.isHoisted then some (anc, f, st)
    else if sym.kind = .hoistedFunction then
      if f.strict ≠ 0 then some (anc, f, st)
      else
        let (syms1, h) := newSymbol st.syms .hoisted sym.name
        let syms1 := pinIfWith f syms1 h
        match hoistUp sym.name h mref true true anc { st with syms := syms1, hmap := insert mref h st.hmap } with
        | none => none
        | some (anc', st') => some (anc', { f with generated := f.generated ++ [h] }, st')
    else
      match hoistUp sym.name mref mref false true anc { st with syms := pinIfWith f st.syms mref } with
      | none => none
      | some (anc', st') => some (anc', f, st')
  | _, _ => none

def hoistMembers (anc : List Frame) (f : Frame) (st : HSt) : List Nat → Option (List Frame × Frame × HSt)
  | [] => some (anc, f, st)
  | m :: ms =>
    match hoistMember anc f st m with
    | none => none
    | some (anc', f', st') => hoistMembers anc' f' st' ms

mutual
/-- hoistSymbols(scope); `anc` = the chain scope.Parent, scope.Parent.Parent, … -/
def hoistSc (esm : Bool) (anc : List Frame) : Sc → HSt → Option (List Frame × Sc × HSt)
  | .node f kids, st =>
    let dup : Option (List Name) :=
      if (f.strict ≠ 0 ∧ f.kind = .block) ∨ (anc = [] ∧ esm) then dupFnErrs f st.syms f.replaced else some []
    match dup with
    | none => none
    | some es =>
      let st1 := { st with errs := st.errs ++ es }
      let r := if f.kind.stopsHoisting then some (anc, f, st1)
               else hoistMembers anc f st1 (sortRefs (f.members.map (·.2)))
      match r with
      | none => none
      | some (anc1, f1, st2) =>
        match hoistKids esm (f1 :: anc1) kids st2 with
        | some (f2 :: anc2, kids', st3) => some (anc2, .node f2 kids', st3)
        | _ => none
def hoistKids (esm : Bool) (anc : List Frame) : List Sc → HSt → Option (List Frame × List Sc × HSt)
  | [], st => some (anc, [], st)
  | k :: ks, st =>
    match hoistSc esm anc k st with
    | none => none
    | some (anc1, k', st1) =>
      match hoistKids esm anc1 ks st1 with
      | none => none
      | some (anc2, ks', st2) => some (anc2, k' :: ks', st2)
end

mutual
/-- Scope.RecursiveSetStrictMode -/
def setStrictRec (m : Strict) : Sc → Sc
  | .node f kids => if f.strict = 0 then .node { f with strict := m } (setStrictRecList m kids) else .node f kids
def setStrictRecList (m : Strict) : List Sc → List Sc
  | [] => []
  | k :: ks => setStrictRec m k :: setStrictRecList m ks
end

-- ------------------------------------------------------------------------------------------------
-- the visit pass

/-- `refs` = the result of findSymbol for every reference, in order; `declRefs` = what is left of the refs
declareSymbol returned in the parse pass (the visit pass meets the declarations in the same order) -/
structure VSt where
  syms : Syms
  refs : List Nat
  hmap : List (Nat × Nat)
  declRefs : List Nat
deriving Repr

inductive Found where
  | member (r : Nat) (inWith : Bool)
  | notFound (inWith : Bool)

/-- the loop of findSymbol over `s = p.currentScope; s = s.Parent` -/
def findLoop (name : Name) : Bool → List Frame → Found
  | w, [] => .notFound w
  | w, s :: rest =>
    let w' := w || (s.kind == .with_)
    match lookup name s.members with
    | some r => .member r w'
    | none => findLoop name w' rest

/-- apply `g` to the module scope (the last element of the chain) -/
def updLast (g : Frame → Frame) : List Frame → List Frame
  | [] => []
  | [x] => [g x]
  | x :: y :: rest => x :: updLast g (y :: rest)

/-- findSymbol on the chain of scopes (current scope first, module scope last): the chain, the symbols, the ref -/
def findSymbol (chain : List Frame) (syms : Syms) (name : Name) : List Frame × Syms × Nat :=
  match findLoop name false chain with
  | .member r w => (chain, if w then pinLinks (syms.length + 1) syms r else syms, r)
  | .notFound w =>
    let (syms1, r) := newSymbol syms .unbound name
    (updLast (fun m => { m with members := insert name r m.members }) chain, if w then pin syms1 r else syms1, r)

/-- `for target := link; target != InvalidRef; target = symbols[target].Link { MustNotBeRenamed }` -/
def pinChain : Nat → Syms → Option Nat → Option Syms
  | _, syms, none => some syms
  | 0, _, some _ => none
  | fuel + 1, syms, some t =>
    match syms[t]? with
    | none => none
    | some s => pinChain fuel (pin syms t) s.link

/-- the step of visitStmts over the block-level function declarations of a statement list (`evalFlag` =
p.currentScope.ContainsDirectEval): when the function's name or the hoisted variable's name must be kept, the rewrite into
`let f2 = function(){}; var f = f2` is given up: the function keeps its name and the hoisted variable is merged back -/
def relinkFns (evalFlag : Bool) : List Nat → VSt → Option VSt
  | [], st => some st
  | r :: rest, st =>
    match st.syms[r]? with
    | none => none
    | some sym =>
      match lookup r st.hmap with
      | none => relinkFns evalFlag rest st
      | some h =>
        match st.syms[h]? with
        | none => none
        | some hs =>
          -- "give up": direct eval, the function must keep its name, or the hoisted variable must keep its name (its
          -- hoisting went past a `with` statement or reached the implicit `arguments`)
          if evalFlag || sym.pinned || hs.pinned then
            -- `p.symbols[s.Fn.Name.Ref].Flags |= MustNotBeRenamed`
            let syms0 := pin st.syms r
            match pinChain (syms0.length + 1) syms0 hs.link with
            | none => none
            | some syms1 => relinkFns evalFlag rest { st with syms := setLink syms1 h (some r) }
          else relinkFns evalFlag rest st

/-- popScope: `if ContainsDirectEval { for member in Members { MustNotBeRenamed } }` -/
def pinMembers (f : Frame) (syms : Syms) : Syms :=
  if f.eval then f.members.foldl (fun s m => pin s m.2) syms else syms

/-- parser.mergeSymbols (the recursion follows `Link` chains: fuel) with Symbol.MergeContentsWith -/
def mergeSymbols : Nat → Syms → Nat → Nat → Option (Syms × Nat)
  | 0, _, _, _ => none
  | fuel + 1, syms, old, new =>
    if old = new then some (syms, new)
    else
      match syms[old]?, syms[new]? with
      | some os, some ns =>
        match os.link with
        | some l =>
          match mergeSymbols fuel syms l new with
          | none => none
          | some (syms', r) => some (setLink syms' old (some r), r)
        | none =>
          match ns.link with
          | some l =>
            match mergeSymbols fuel syms old l with
            | none => none
            | some (syms', r) => some (setLink syms' new (some r), r)
          | none =>
            let syms1 := setLink syms old (some new)
            if os.pinned ∧ !ns.pinned then
              some (syms1.modify new (fun s => { s with name := os.name, pinned := true }), new)
            else some (syms1, new)
      | _, _ => none

/-- what visitClass / lowerClass still do with the inner class name after the class name scope is popped:
`inner` = innerClassNameRef, `nameRef` = class.Name.Ref, `isExpr` = class expression -/
structure ClsInfo where
  inner : Nat
  nameRef : Nat
  isExpr : Bool
deriving Repr

/-- the current scope, the children not yet visited / already visited, the enclosing scopes, the block-level function
declarations of the current statement list, the ref of the latest declaration (with "is a raw symbol"), the class
whose name scope this is -/
structure VCtx where
  cur : Frame
  todo : List Sc
  done : List Sc
  below : List Frame
  pending : List Nat
  lastDecl : Option (Nat × Bool)
  cls : Option ClsInfo
  st : VSt
deriving Repr

/-- lowerClass: "The inner class name inside the class should be the same as the class name itself"; `outerEval` =
p.currentScope.ContainsDirectEval after the class name scope has been popped -/
def classEpilogue (outerEval : Bool) (cls : Option ClsInfo) (st : VSt) : Option VSt :=
  match cls with
  | none => some st
  | some ci =>
    if st.refs.count ci.inner = 0 then some st   -- UseCountEstimate == 0: "Don't generate a shadowing name"
    else
      match st.syms[ci.inner]? with
      | none => none
      | some isym =>
        let syms1 := if !ci.isExpr ∧ outerEval ∧ isym.pinned then pin st.syms ci.nameRef else st.syms
        match mergeSymbols (syms1.length + 1) syms1 ci.inner ci.nameRef with
        | none => none
        | some (syms2, _) => some { st with syms := syms2 }

/-- end of a statement list -/
def endList (c : VCtx) : Option VCtx :=
  match relinkFns c.cur.eval c.pending c.st with
  | none => none
  | some st => some { c with pending := [], st := st }

/-- `full` = false: only pushScopeForVisitPass / findSymbol / popScope (op `ops`) -/
def setChain (c : VCtx) (chain : List Frame) : Option VCtx :=
  match chain with
  | [] => none
  | cur :: below => some { c with cur := cur, below := below }

/-- the SLabel step of the visit pass: `ref := newSymbol(SymbolLabel, name); p.currentScope.Label = ref` -/
def labelStep (full : Bool) (lbl : Option Name) (f : Frame) (syms : Syms) : Frame × Syms :=
  match full, lbl with
  | true, some l => ({ f with label := some syms.length }, (newSymbol syms .label l).1)
  | _, _ => (f, syms)

/-- visitClass: `p.currentScope.RecursiveSetStrictMode(ImplicitStrictModeClass)` on the class name scope -/
def classNameStrict (full : Bool) (k : ScK) (sc : Sc) : Sc :=
  if full ∧ k = .className then setStrictRec 2 sc else sc

/-- the end of the statement list of a scope that does not stop hoisting -/
def closeList (full : Bool) (r : VCtx) : Option VCtx :=
  if full ∧ !r.cur.kind.stopsHoisting then endList r else some { r with pending := [] }

/-- popScope in the visit pass (`c` = the context in which the scope was pushed, `r` = the context at the end of the
scope's items), then what lowerClass does with the inner class name -/
def popVisit (c : VCtx) (todo' : List Sc) (r : VCtx) : Option VCtx :=
  match r.below with
  | [] => none
  | cur' :: below' =>
    match classEpilogue cur'.eval r.cls { r.st with syms := pinMembers r.cur r.st.syms } with
    | none => none
    | some st' => some ⟨cur', todo', c.done ++ [.node r.cur r.done], below', c.pending, none, c.cls, st'⟩

/-- visitClass: `name := p.symbols[class.Name.Ref].OriginalName` (it differs from the name `n` in the source only when the
declaration was a redeclaration error and mergeSymbols has renamed the existing symbol in the meantime) -/
def classNameOf (c : VCtx) (n : Name) : Name :=
  match c.lastDecl with
  | some (d, _) =>
    match c.st.syms[d]? with
    | some s => s.name
    | none => n
  | none => n

mutual
def visitItem (full : Bool) : Item → VCtx → Option VCtx
  | .decl k _, c =>
    match c.st.declRefs with
    | [] => none
    | r :: rs =>
      let st := { c.st with declRefs := rs }
      if full ∧ (k = .hoistedFunction ∨ k = .generatorOrAsyncFunction) ∧ !c.cur.kind.stopsHoisting
          ∧ kindOf? st.syms r = some .hoistedFunction then
        some { c with st := st, pending := c.pending ++ [r], lastDecl := some (r, false) }
      else some { c with st := st, lastDecl := some (r, false) }
  | .declArgs, c => some c
  | .genSym _, c => some c
  | .rawSym _, c =>
    match c.st.declRefs with
    | [] => none
    | r :: rs => some { c with st := { c.st with declRefs := rs }, lastDecl := some (r, true) }
  | .classInner on, c =>
    if full then
      match on with
      | some n =>
        let nm := classNameOf c n
        let (syms1, r) := newSymbol c.st.syms .const_ (innerName nm)
        some { c with cur := { c.cur with members := insert nm r c.cur.members }, st := { c.st with syms := syms1 },
                      cls := c.lastDecl.map (fun d => ⟨r, d.1, d.2⟩) }
      | none => some { c with st := { c.st with syms := (newSymbol c.st.syms .const_ nameThis).1 } }
    else some c
  | .ref n, c =>
    let (chain, syms1, r) := findSymbol (c.cur :: c.below) c.st.syms n
    setChain { c with st := { c.st with syms := syms1, refs := c.st.refs ++ [r] } } chain
  | .eval, c =>
    let (chain, syms1, r) := findSymbol (c.cur :: c.below) c.st.syms evalName
    setChain { c with st := { c.st with syms := syms1, refs := c.st.refs ++ [r] } }
      (chain.map (fun f => { f with eval := true }))
  | .cut, c => if full then endList c else some c
  | .scope k _ lbl body, c =>
    match c.todo with
    | [] => none
    | .node f kids :: todo' =>
      if f.kind ≠ k then none
      else
        let fs := labelStep full lbl f c.st.syms
        let sub := classNameStrict full k (.node fs.1 kids)
        match visitItems full body ⟨sub.frame, sub.children, [], c.cur :: c.below, [], c.lastDecl, none,
            { c.st with syms := fs.2 }⟩ with
        | none => none
        | some r =>
          match closeList full r with
          | none => none
          | some r => popVisit c todo' r
def visitItems (full : Bool) : List Item → VCtx → Option VCtx
  | [], c => some c
  | i :: is, c =>
    match visitItem full i c with
    | none => none
    | some c' => visitItems full is c'
end

-- ------------------------------------------------------------------------------------------------
-- a whole file

structure Result where
  tree : Sc
  syms : Syms
  refs : List Nat
  errs : List Name
  /-- the refs declareSymbol returned, one per `decl` item in order -/
  declRefs : List Nat
  /-- p.hoistedRefForSloppyModeBlockFn after hoistSymbols: block-level function symbol ↦ the variable it is hoisted into -/
  hmap : List (Nat × Nat)
deriving Repr

def nameRequire : Name := 50
def nameExports : Name := 51
def nameModule : Name := 52

/-- Parse for the scope analysis: parse pass, prepareForVisitPass (strict mode of ES modules, hoistSymbols, the three
CommonJS symbols in pass-through mode), visit pass, the final popScope of the module scope -/
def run (full : Bool) (esm : Bool) (useStrict : Bool) (items : List Item) : Option Result :=
  let module0 : Frame := ⟨.entry, if useStrict then 1 else 0, [], [], [], none, false⟩
  match parseItems items ⟨module0, [], ⟨[], [], []⟩⟩ with
  | none => none
  | some p =>
    let tree0 : Sc := .node p.cur p.kids
    let tree1 := if esm then setStrictRec 3 tree0 else tree0
    match hoistSc esm [] tree1 ⟨p.st.syms, p.st.errs, []⟩ with
    | none => none
    | some (_, tree2, h) =>
      let syms3 := h.syms ++ [⟨.unbound, nameRequire, none, false⟩, ⟨.hoisted, nameExports, none, false⟩,
          ⟨.hoisted, nameModule, none, false⟩]
      match visitItems full items ⟨tree2.frame, tree2.children, [], [], [], none, none, ⟨syms3, [], h.hmap, p.st.declRefs⟩⟩ with
      | none => none
      | some v =>
        some ⟨.node v.cur v.done, pinMembers v.cur v.st.syms, v.st.refs, h.errs, p.st.declRefs, h.hmap⟩

-- ------------------------------------------------------------------------------------------------
-- line protocol

def declLetter : Char → Option SK
  | 'v' => some .hoisted | 'p' => some .hoisted | 'l' => some .other | 'q' => some .other | 'c' => some .const_
  | 'C' => some .class_ | 'f' => some .hoistedFunction | 'F' => some .hoistedFunction
  | 'g' => some .generatorOrAsyncFunction | 'k' => some .catchIdentifier | 'i' => some .import_
  | 'h' => some .privateField | 'j' => some .privateMethod | 'G' => some .privateGet | 'S' => some .privateSet
  | 'H' => some .privateStaticField | 'J' => some .privateStaticMethod | 'T' => some .privateStaticGet
  | 'U' => some .privateStaticSet
  | _ => none

def scopeLetter : Char → Option ScK
  | 'B' => some .block | 'W' => some .with_ | 'L' => some .label | 'N' => some .className | 'C' => some .classBody
  | 'K' => some .catchBinding | 'E' => some .entry | 'A' => some .fnArgs | 'F' => some .fnBody
  | 'S' => some .classStaticInit
  | _ => none

def natOfChars (cs : List Char) : Option Nat := (String.ofList cs).toNat?

/-- one token that is not a parenthesis -/
def leafItem (t : String) : Option Item :=
  match t.toList with
  | ['e'] => some .eval
  | [';'] => some .cut
  | 'r' :: cs => (natOfChars cs).map .ref
  | 'n' :: cs => (natOfChars cs).map .rawSym
  | 'g' :: cs => (natOfChars cs).map .genSym
  | 'd' :: 'a' :: cs => (natOfChars cs).map (fun _ => .declArgs)
  | 'd' :: 'I' :: cs => (natOfChars cs).map (fun n => .classInner (some n))
  | ['d', 'J'] => some (.classInner none)
  | 'd' :: l :: cs =>
    match declLetter l, natOfChars cs with
    | some k, some n => some (.decl k n)
    | _, _ => none
  | 'D' :: cs =>
    match (String.ofList cs).splitOn "." with
    | [a, b] =>
      match a.toNat?, b.toNat? with
      | some k, some n => (SK.ofCode k).map (fun k => .decl k n)
      | _, _ => none
    | _ => none
  | _ => none

/-- `(K`, `(K!`, `(L5` -/
def openTok (t : String) : Option (ScK × Bool × Option Name) :=
  match t.toList with
  | '(' :: l :: cs =>
    match scopeLetter l with
    | none => none
    | some k =>
      let (us, cs) := match cs.reverse with
        | '!' :: r => (true, r.reverse)
        | _ => (false, cs)
      if cs = [] then some (k, us, none)
      else if k = .label then (natOfChars cs).map (fun n => (k, us, some n))
      else none
  | _ => none

/-- items up to the matching `)` (or the end when `top`) -/
def parseToks : Nat → Bool → List String → Option (List Item × List String)
  | 0, _, _ => none
  | _, top, [] => if top then some ([], []) else none
  | fuel + 1, top, t :: ts =>
    if t = ")" then (if top then none else some ([], ts))
    else
      match openTok t with
      | some (k, us, lbl) =>
        match parseToks fuel false ts with
        | none => none
        | some (body, ts1) =>
          match parseToks fuel top ts1 with
          | none => none
          | some (rest, ts2) => some (.scope k us lbl body :: rest, ts2)
      | none =>
        match leafItem t with
        | none => none
        | some it =>
          match parseToks fuel top ts with
          | none => none
          | some (rest, ts2) => some (it :: rest, ts2)

def insertKV (a : Name × Nat) : Members → Members
  | [] => [a]
  | b :: bs => if a.1 ≤ b.1 then a :: b :: bs else b :: insertKV a bs
def sortMembers (m : Members) : Members := m.foldr insertKV []

def showList (l : List String) : String := ",".intercalate l
def showNats (l : List Nat) : String := showList (l.map toString)

mutual
def showSc : Sc → String
  | .node f kids =>
    "(" ++ toString f.kind.code ++ " " ++ toString f.strict ++ " " ++ (if f.eval then "1" else "0") ++ " m"
      ++ showList ((sortMembers f.members).map (fun kv => toString kv.1 ++ "=" ++ toString kv.2))
      ++ " g" ++ showNats f.generated ++ " l" ++ (match f.label with | some l => toString l | none => "")
      ++ showScs kids ++ ")"
def showScs : List Sc → String
  | [] => ""
  | k :: ks => " " ++ showSc k ++ showScs ks
end

def showSym (s : Sym) : String :=
  toString s.kind.code ++ "." ++ toString s.name ++ "." ++ (match s.link with | some l => toString l | none => "-")
    ++ "." ++ (if s.pinned then "1" else "0")

def dash (s : String) : String := if s.isEmpty then "-" else s

def showResult (r : Result) (withRefs : Bool := true) : String :=
  "E:" ++ dash (showNats (sortRefs r.errs)) ++ "|R:" ++ (if withRefs then dash (showNats r.refs) else "*") ++ "|T:" ++ showSc r.tree ++ "|S:"
    ++ showList (r.syms.map showSym)

def driver (args : List String) : String :=
  match args with
  | [op, esm, items] =>
    let toks := if items = "-" then [] else items.splitOn " "
    let (us, toks) := match toks with
      | "!" :: rest => (true, rest)
      | _ => (false, toks)
    match op, esm.toNat?, parseToks (toks.length + 1) true toks with
    | "src", some e, some (its, []) =>
      if e ≤ 1 then
        match run true (e == 1) us its with
        | none => "PANIC"
        | some r => showResult r
      else "bad-op"
    | "srcnr", some e, some (its, []) =>
      if e ≤ 1 then
        match run true (e == 1) us its with
        | none => "PANIC"
        | some r => showResult r false
      else "bad-op"
    | "merge", _, _ => "bad-op"
    | "ops", some e, some (its, []) =>
      if e ≤ 1 then
        match run false (e == 1) us its with
        | none => "PANIC"
        | some r => showResult r ++ "|D:" ++ dash (showNats r.declRefs)
      else "bad-op"
    | _, _, _ => "bad-op"
  | ["merge", a, b, c] =>
    match a.toNat?, b.toNat?, c.toNat? with
    | some a, some b, some c =>
      match ScK.ofCode a, SK.ofCode b, SK.ofCode c with
      | some sk, some ex, some nw => toString (canMergeSymbols sk ex nw).code
      | _, _, _ => "bad-op"
    | _, _, _ => "bad-op"
  | [op, esm, items, _src] => driver [op, esm, items]
  | _ => "bad-op"

end EsbuildModel.Scopes
