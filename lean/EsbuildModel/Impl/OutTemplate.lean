import EsbuildModel.Impl.OutPathsRel
/-
Model of how esbuild computes the PATH of an output file (property C17), part 3: path templates.

  * `pkg/api/api_impl.go` `validatePathTemplate` (the parser of `--entry-names` / `--chunk-names` /
    `--asset-names`),
  * `internal/config/config.go` `TemplateToString`, `HasPlaceholder`, `SubstituteTemplate`,
  * `internal/linker/linker.go`: the assembly of `chunk.finalTemplate` (end of `computeChunks`) and of
    `chunk.finalRelPath` / `AbsPath` (`generateChunksInParallel`),
  * `internal/bundler/bundler.go` (`Compile`): the refusal to overwrite an input file and the detection of
    two output files with one path.
-/
namespace EsbuildModel.OutPaths

inductive Placeholder where
  | none | dir | name | hash | ext
  deriving DecidableEq, Repr

structure Part where
  data : Str
  ph : Placeholder
  deriving DecidableEq, Repr

/-- `config.PathPlaceholders` (a nil pointer is `none`) -/
structure Placeholders where
  dir : Option Str := .none
  name : Option Str := .none
  hash : Option Str := .none
  ext : Option Str := .none

def Placeholders.get (p : Placeholders) : Placeholder → Option Str
  | .dir => p.dir
  | .name => p.name
  | .hash => p.hash
  | .ext => p.ext
  | .none => .none

def phText : Placeholder → Str
  | .none => []
  | .dir => lit "[dir]"
  | .name => lit "[name]"
  | .hash => lit "[hash]"
  | .ext => lit "[ext]"

/-- `TemplateToString` (the one-part fast path returns the same string as the loop) -/
def templateToString (t : List Part) : Str := (t.map fun p => p.data ++ phText p.ph).flatten

/-- `HasPlaceholder` -/
def hasPlaceholder (t : List Part) (ph : Placeholder) : Bool := t.any (fun p => p.ph = ph)

/-- the first loop of `SubstituteTemplate`: is there anything to substitute or to merge -/
def shouldSubstitute (phs : Placeholders) : List Part → Bool
  | [] => false
  | p :: rest =>
    (phs.get p.ph).isSome || (p.ph = .none && !rest.isEmpty) || shouldSubstitute phs rest

/-- the second loop of `SubstituteTemplate`; `res` is the result so far, LAST part first -/
def substituteLoop (phs : Placeholders) : List Part → List Part → List Part
  | [], res => res
  | part :: rest, res =>
    let part : Part :=
      match phs.get part.ph with
      | some sub => ⟨part.data ++ sub, .none⟩
      | .none => part
    match res with
    | last :: before =>
      if last.ph = .none then substituteLoop phs rest (⟨last.data ++ part.data, part.ph⟩ :: before)
      else substituteLoop phs rest (part :: res)
    | [] => substituteLoop phs rest [part]

/-- `SubstituteTemplate` -/
def substituteTemplate (t : List Part) (phs : Placeholders) : List Part :=
  if shouldSubstitute phs t then (substituteLoop phs t []).reverse else t

/-- the `switch` of `validatePathTemplate`: which placeholder starts here, and its length -/
def matchPlaceholder (tail : Str) : Option (Placeholder × Nat) :=
  if (lit "[dir]").isPrefixOf tail then some (.dir, 5)
  else if (lit "[name]").isPrefixOf tail then some (.name, 6)
  else if (lit "[hash]").isPrefixOf tail then some (.hash, 6)
  else if (lit "[ext]").isPrefixOf tail then some (.ext, 5)
  else .none

/-- the loop of `validatePathTemplate`, one byte at a time.  State: `template = head ++ rest`,
`search = len(head)`; `skip` bytes of an accepted placeholder are still to be passed over (they belong to
neither head nor data).  The Go loop jumps with `IndexByte` to the next '['; passing over the bytes in
between one by one is the same because "no '[' further on" (the `break`) does not depend on them.
The loop ends WITHOUT the final part when `search` runs into the end (`search < len(template)` fails):
that happens after a placeholder at the very end – and after a final '[' that starts no placeholder. -/
def parseLoop : Nat → Str → Str → List Part
  | _, _, [] => []
  | skip + 1, h, _ :: cs => parseLoop skip h cs
  | 0, h, c :: cs =>
    if c = '[' then
      match matchPlaceholder (c :: cs) with
      | some (ph, n) => ⟨h.reverse, ph⟩ :: parseLoop (n - 1) [] cs
      | .none => parseLoop 0 (c :: h) cs
    else if cs.contains '[' then parseLoop 0 (c :: h) cs
    else [⟨h.reverse ++ c :: cs, .none⟩]

/-- `validatePathTemplate` -/
def validatePathTemplate (template : Str) : List Part :=
  if template = [] then [] else parseLoop 0 [] (lit "./" ++ replaceBackslash template)

/-- `strings.TrimPrefix(ext, ".")` -/
def trimDot (ext : Str) : Str :=
  match ext with
  | '.' :: r => r
  | e => e

/-- end of `computeChunks`: the template with the extension appended and dir / name / ext substituted -/
def finalTemplate (template : List Part) (dir name ext : Str) : List Part :=
  substituteTemplate (template ++ [⟨ext, .none⟩])
    { dir := some dir, name := some name, ext := some (trimDot ext) }

/-- `chunk.finalRelPath`: the hash is substituted only when the template asks for it -/
def finalRelPath (ft : List Part) (hash : Str) : Str :=
  templateToString (substituteTemplate ft
    { hash := if hasPlaceholder ft .hash then some hash else .none })

/-- `AbsPath: c.fs.Join(c.options.AbsOutputDir, chunk.finalRelPath)` -/
def finalAbsPath (outdir rel : Str) : Str := join [outdir, rel]

/-- everything after `PathRelativeToOutbase` for one chunk -/
def outputPath (outdir : Str) (template : List Part) (dir name ext hash : Str) : Str :=
  finalAbsPath outdir (finalRelPath (finalTemplate template dir name ext) hash)

/-- `scanner.processScannedFiles`: the path of the additional file of a "copy" / "file" loader input
(`ext` is the original extension of the input, all four placeholders are substituted at once) -/
def assetOutputPath (outdir : Str) (template : List Part) (dir name hash ext : Str) : Str :=
  join [outdir, templateToString (substituteTemplate template
    { dir := some dir, name := some name, hash := some hash, ext := some (trimDot ext) }) ++ ext]

structure OutFile where
  absPath : Str
  contents : List Nat
  canBeMerged : Bool
  deriving DecidableEq, Repr

/-- the "Make sure an output file never overwrites another output file" loop of `Compile`;
`key` is `canonicalFileSystemPathForWindows`.  Result: the files kept (in order) and, for every error
"Two output files share the same path but have different contents", the `AbsPath` it names. -/
def dedupeLoop (key : Str → Str) : List OutFile → List OutFile → List Str → List OutFile × List Str
  | [], kept, errs => (kept.reverse, errs.reverse)
  | f :: rest, kept, errs =>
    match kept.reverse.find? (fun g => key g.absPath = key f.absPath) with
    | .none => dedupeLoop key rest (f :: kept) errs
    | some existing =>
      if existing.canBeMerged ∧ f.canBeMerged ∧ existing.contents = f.contents then
        dedupeLoop key rest kept errs
      else dedupeLoop key rest kept (f.absPath :: errs)

def dedupe (key : Str → Str) (files : List OutFile) : List OutFile × List Str := dedupeLoop key files [] []

/-- the "Make sure an output file never overwrites an input file" check of `Compile` (when
`AllowOverwrite` is off): `realPath` resolves symbolic links in the directory part.  For every output file:
the index of the input file the error "Refusing to overwrite input file" names, if any.  The Go map is
filled in source order, so for equal keys the LAST source wins. -/
def clobberCheck (key realPath : Str → Str) (sources : List Str) (outputs : List Str) : List (Option Nat) :=
  let table : List (Str × Nat) :=
    (sources.zipIdx.map fun (p, i) => [(key p, i), (key (realPath p), i)]).flatten
  let lookup (k : Str) : Option Nat := (table.reverse.find? (fun e => e.1 = k)).map (·.2)
  outputs.map fun o =>
    match lookup (key o) with
    | some i => some i
    | .none => lookup (key (realPath o))

/-- `canonicalFileSystemPathForWindows` on ASCII -/
def canonicalKey (p : Str) : Str := replaceBackslash (p.map asciiLower)

end EsbuildModel.OutPaths
