/-
Line protocol of the kernels `tsclass` (structure of what esbuild emits) and `tsclasssem` (run-time traces, Node as
reference).  Terms are written as space separated tokens in prefix form:

  Expr    n<k> | u | p<k> | a<i> | A | g<x> | =<x> E | D<x> E | d<x> | S E | H<i> E | , E E | ? E E E | w E | N Class E
  Stmt    e E | r | R E | t E | i E Stmts Stmts | h<i> Stmts          Stmts  [ Stmt* ]
  Class   C Base s<x,y,…|-> Ctor { Member* } < After* >
  Base    - | B E Class          Ctor  - | K ( Param* ) Stmts         Param  P<isProp><hasD> [E]
  Member  f<x> | F<x> E | c<x> | sf<x> | sF<x> E | sb E | sa<x> E     After  D<x> E | d<x> | =<x> E | e E

The shim numbers of an answer are renumbered in order of first appearance so that they can be compared with the
identifiers esbuild printed.
-/
import EsbuildModel.Impl.TsClass
import EsbuildModel.Util.Wire
namespace EsbuildModel.TsClass

-- ---------------------------------------------------------------- printing

def natList (l : List Nat) : String := if l.isEmpty then "-" else ",".intercalate (l.map toString)

mutual
def showE : Expr → List String
  | .num k => [s!"n{k}"]
  | .undef => ["u"]
  | .probe k => [s!"p{k}"]
  | .param i => [s!"a{i}"]
  | .allArgs => ["A"]
  | .thisGet x => [s!"g{x}"]
  | .assignThis x e => s!"={x}" :: showE e
  | .defineThis x true e => s!"D{x}" :: showE e
  | .defineThis x false _ => [s!"d{x}"]
  | .superCall a => "S" :: showE a
  | .shimCall i a => s!"H{i}" :: showE a
  | .seq a b => "," :: (showE a ++ showE b)
  | .cond c a b => "?" :: (showE c ++ showE a ++ showE b)
  | .arrow b => "w" :: showE b
  | .newC c a => "N" :: (showC c ++ showE a)
def showS : Stmt → List String
  | .expr e => "e" :: showE e
  | .retVoid => ["r"]
  | .retVal e => "R" :: showE e
  | .throw_ e => "t" :: showE e
  | .ifS c t f => "i" :: (showE c ++ showSs t ++ showSs f)
  | .shimDecl i ins => s!"h{i}" :: showSs ins
def showSl : Stmts → List String
  | .nil => []
  | .cons s r => showS s ++ showSl r
def showSs : Stmts → List String
  | ss => "[" :: (showSl ss ++ ["]"])
def showPs : Params → List String
  | .nil => []
  | .cons isProp hasD d r =>
    (s!"P{if isProp then 1 else 0}{if hasD then 1 else 0}" :: (if hasD then showE d else [])) ++ showPs r
def showK : Ctor → List String
  | .none => ["-"]
  | .some ps body => "K" :: "(" :: (showPs ps ++ [")"] ++ showSs body)
def showB : Base → List String
  | .none => ["-"]
  | .some pre c => "B" :: (showE pre ++ showC c)
def showMs : Members → List String
  | .nil => []
  | .field x true init false r => s!"F{x}" :: (showE init ++ showMs r)
  | .field x false _ false r => s!"f{x}" :: showMs r
  | .field x _ _ true r => s!"c{x}" :: showMs r
  | .sfield x true init r => s!"sF{x}" :: (showE init ++ showMs r)
  | .sfield x false _ r => s!"sf{x}" :: showMs r
  | .sblock e r => "sb" :: (showE e ++ showMs r)
  | .sassign x e r => s!"sa{x}" :: (showE e ++ showMs r)
def showAs : Afters → List String
  | .nil => []
  | .define x true e r => s!"D{x}" :: (showE e ++ showAs r)
  | .define x false _ r => s!"d{x}" :: showAs r
  | .assign x e r => s!"={x}" :: (showE e ++ showAs r)
  | .expr e r => "e" :: (showE e ++ showAs r)
def showC : Class → List String
  | .mk base ss ctor ms after =>
    "C" :: (showB base ++ [s!"s{natList ss}"] ++ showK ctor ++ ["{"] ++ showMs ms ++ ["}", "<"] ++ showAs after ++ [">"])
end


-- ---------------------------------------------------------------- canonical form of comma chains

/-- esbuild's printer does not keep the nesting of comma chains (`a, (b, c)` is printed `a, b, c`), so answers are
compared with every chain nested to the left; a comma chain that was moved behind a class expression is split into
its elements for the same reason -/
def mkSeq (a : Expr) : Expr → Expr
  | .seq b1 b2 => mkSeq (mkSeq a b1) b2
  | b => .seq a b

def exprAfters : Expr → Afters → Afters
  | .seq a b, r => exprAfters a (exprAfters b r)
  | e, r => .expr e r

mutual
def normE : Expr → Expr
  | .assignThis x e => .assignThis x (normE e)
  | .defineThis x h e => .defineThis x h (normE e)
  | .superCall a => .superCall (normE a)
  | .shimCall i a => .shimCall i (normE a)
  | .seq a b => mkSeq (normE a) (normE b)
  | .cond c a b => .cond (normE c) (normE a) (normE b)
  | .arrow b => .arrow (normE b)
  | .newC c a => .newC (normC c) (normE a)
  | e => e
def normS : Stmt → Stmt
  | .expr e => .expr (normE e)
  | .retVoid => .retVoid
  | .retVal e => .retVal (normE e)
  | .throw_ e => .throw_ (normE e)
  | .ifS c t f => .ifS (normE c) (normSs t) (normSs f)
  | .shimDecl i ins => .shimDecl i (normSs ins)
def normSs : Stmts → Stmts
  | .nil => .nil
  | .cons s r => .cons (normS s) (normSs r)
def normPs : Params → Params
  | .nil => .nil
  | .cons p h d r => .cons p h (normE d) (normPs r)
def normK : Ctor → Ctor
  | .none => .none
  | .some ps b => .some (normPs ps) (normSs b)
def normB : Base → Base
  | .none => .none
  | .some pre c => .some (normE pre) (normC c)
def normMs : Members → Members
  | .nil => .nil
  | .field x h e d r => .field x h (normE e) d (normMs r)
  | .sfield x h e r => .sfield x h (normE e) (normMs r)
  | .sblock e r => .sblock (normE e) (normMs r)
  | .sassign x e r => .sassign x (normE e) (normMs r)
def normAs : Afters → Afters
  | .nil => .nil
  | .define x h e r => .define x h (normE e) (normAs r)
  | .assign x e r => .assign x (normE e) (normAs r)
  | .expr e r => exprAfters (normE e) (normAs r)
def normC : Class → Class
  | .mk b ss k ms as => .mk (normB b) ss (normK k) (normMs ms) (normAs as)
end

/-- renumber `H<i>` / `h<i>` by first appearance -/
def renumber : List String → List (String × Nat) → List String
  | [], _ => []
  | tok :: r, seen =>
    if tok.startsWith "H" || tok.startsWith "h" then
      let key := (tok.drop 1).toString
      match seen.lookup key with
      | some j => s!"{tok.take 1}{j}" :: renumber r seen
      | none => s!"{tok.take 1}{seen.length}" :: renumber r (seen ++ [(key, seen.length)])
    else tok :: renumber r seen

def showProgram (e : Expr) : String := " ".intercalate (renumber (showE (normE e)) [])

-- ---------------------------------------------------------------- parsing

def tokNat (pre : String) (tok : String) : Option Nat :=
  if tok.startsWith pre then ((tok.drop pre.length).toString).toNat? else none

abbrev P (α : Type) := Option (α × List String)

mutual
def parseE : Nat → List String → P Expr
  | 0, _ => none
  | _, [] => none
  | f + 1, tok :: r =>
    if tok == "u" then some (.undef, r)
    else if tok == "A" then some (.allArgs, r)
    else if tok == "S" then (parseE f r).bind fun (a, r) => some (.superCall a, r)
    else if tok == "," then (parseE f r).bind fun (a, r) => (parseE f r).bind fun (b, r) => some (.seq a b, r)
    else if tok == "?" then
      (parseE f r).bind fun (c, r) => (parseE f r).bind fun (a, r) => (parseE f r).bind fun (b, r) => some (.cond c a b, r)
    else if tok == "w" then (parseE f r).bind fun (a, r) => some (.arrow a, r)
    else if tok == "N" then (parseC f r).bind fun (c, r) => (parseE f r).bind fun (a, r) => some (.newC c a, r)
    else match tokNat "n" tok with
    | some k => some (.num k, r)
    | none => match tokNat "p" tok with
    | some k => some (.probe k, r)
    | none => match tokNat "a" tok with
    | some k => some (.param k, r)
    | none => match tokNat "g" tok with
    | some k => some (.thisGet k, r)
    | none => match tokNat "=" tok with
    | some x => (parseE f r).bind fun (a, r) => some (.assignThis x a, r)
    | none => match tokNat "D" tok with
    | some x => (parseE f r).bind fun (a, r) => some (.defineThis x true a, r)
    | none => match tokNat "d" tok with
    | some x => some (.defineThis x false .undef, r)
    | none => match tokNat "H" tok with
    | some i => (parseE f r).bind fun (a, r) => some (.shimCall i a, r)
    | none => none
def parseS : Nat → List String → P Stmt
  | 0, _ => none
  | _, [] => none
  | f + 1, tok :: r =>
    if tok == "e" then (parseE f r).bind fun (a, r) => some (.expr a, r)
    else if tok == "r" then some (.retVoid, r)
    else if tok == "R" then (parseE f r).bind fun (a, r) => some (.retVal a, r)
    else if tok == "t" then (parseE f r).bind fun (a, r) => some (.throw_ a, r)
    else if tok == "i" then
      (parseE f r).bind fun (c, r) => (parseSs f r).bind fun (t, r) => (parseSs f r).bind fun (e, r) => some (.ifS c t e, r)
    else match tokNat "h" tok with
    | some i => (parseSs f r).bind fun (ins, r) => some (.shimDecl i ins, r)
    | none => none
def parseSl : Nat → List String → P Stmts
  | 0, _ => none
  | _, [] => none
  | f + 1, tok :: r =>
    if tok == "]" then some (.nil, r)
    else (parseS f (tok :: r)).bind fun (s, r) => (parseSl f r).bind fun (ss, r) => some (.cons s ss, r)
def parseSs : Nat → List String → P Stmts
  | 0, _ => none
  | _, [] => none
  | f + 1, tok :: r => if tok == "[" then parseSl f r else none
def parsePs : Nat → List String → P Params
  | 0, _ => none
  | _, [] => none
  | f + 1, tok :: r =>
    if tok == ")" then some (.nil, r)
    else if tok == "P00" then (parsePs f r).bind fun (ps, r) => some (.cons false false .undef ps, r)
    else if tok == "P10" then (parsePs f r).bind fun (ps, r) => some (.cons true false .undef ps, r)
    else if tok == "P01" then (parseE f r).bind fun (d, r) => (parsePs f r).bind fun (ps, r) => some (.cons false true d ps, r)
    else if tok == "P11" then (parseE f r).bind fun (d, r) => (parsePs f r).bind fun (ps, r) => some (.cons true true d ps, r)
    else none
def parseK : Nat → List String → P Ctor
  | 0, _ => none
  | _, [] => none
  | f + 1, tok :: r =>
    if tok == "-" then some (.none, r)
    else if tok == "K" then
      match r with
      | "(" :: r => (parsePs f r).bind fun (ps, r) => (parseSs f r).bind fun (b, r) => some (.some ps b, r)
      | _ => none
    else none
def parseB : Nat → List String → P Base
  | 0, _ => none
  | _, [] => none
  | f + 1, tok :: r =>
    if tok == "-" then some (.none, r)
    else if tok == "B" then (parseE f r).bind fun (pre, r) => (parseC f r).bind fun (c, r) => some (.some pre c, r)
    else none
def parseMs : Nat → List String → P Members
  | 0, _ => none
  | _, [] => none
  | f + 1, tok :: r =>
    if tok == "}" then some (.nil, r)
    else if tok == "sb" then (parseE f r).bind fun (e, r) => (parseMs f r).bind fun (ms, r) => some (.sblock e ms, r)
    else match tokNat "sF" tok with
    | some x => (parseE f r).bind fun (e, r) => (parseMs f r).bind fun (ms, r) => some (.sfield x true e ms, r)
    | none => match tokNat "sf" tok with
    | some x => (parseMs f r).bind fun (ms, r) => some (.sfield x false .undef ms, r)
    | none => match tokNat "sa" tok with
    | some x => (parseE f r).bind fun (e, r) => (parseMs f r).bind fun (ms, r) => some (.sassign x e ms, r)
    | none => match tokNat "F" tok with
    | some x => (parseE f r).bind fun (e, r) => (parseMs f r).bind fun (ms, r) => some (.field x true e false ms, r)
    | none => match tokNat "f" tok with
    | some x => (parseMs f r).bind fun (ms, r) => some (.field x false .undef false ms, r)
    | none => match tokNat "c" tok with
    | some x => (parseMs f r).bind fun (ms, r) => some (.field x false .undef true ms, r)
    | none => none
def parseAs : Nat → List String → P Afters
  | 0, _ => none
  | _, [] => none
  | f + 1, tok :: r =>
    if tok == ">" then some (.nil, r)
    else if tok == "e" then (parseE f r).bind fun (e, r) => (parseAs f r).bind fun (as, r) => some (.expr e as, r)
    else match tokNat "D" tok with
    | some x => (parseE f r).bind fun (e, r) => (parseAs f r).bind fun (as, r) => some (.define x true e as, r)
    | none => match tokNat "d" tok with
    | some x => (parseAs f r).bind fun (as, r) => some (.define x false .undef as, r)
    | none => match tokNat "=" tok with
    | some x => (parseE f r).bind fun (e, r) => (parseAs f r).bind fun (as, r) => some (.assign x e as, r)
    | none => none
def parseC : Nat → List String → P Class
  | 0, _ => none
  | _, [] => none
  | f + 1, tok :: r =>
    if tok != "C" then none else
    (parseB f r).bind fun (b, r) =>
    match r with
    | stok :: r =>
      if !stok.startsWith "s" then none else
      match Wire.parseNatList (stok.drop 1).toString with
      | none => none
      | some ss =>
        (parseK f r).bind fun (k, r) =>
        match r with
        | "{" :: r =>
          (parseMs f r).bind fun (ms, r) =>
          match r with
          | "<" :: r => (parseAs f r).bind fun (as, r) => some (.mk b ss k ms as, r)
          | _ => none
        | _ => none
    | [] => none
end

def parseProgram (s : String) : Option Expr :=
  let toks := (s.splitOn " ").filter (· != "")
  match parseE (toks.length + 1) toks with
  | some (e, []) => some e
  | _ => none

def parseMode (s : String) : Option Mode :=
  if s == "00" then some ⟨false, false⟩
  else if s == "01" then some ⟨false, true⟩
  else if s == "10" then some ⟨true, false⟩
  else if s == "11" then some ⟨true, true⟩
  else none

-- ---------------------------------------------------------------- traces

def showVal : Val → String
  | .undef => "u"
  | .num n => toString n
  | .obj _ => "o"

def showProps (ps : Props) : String := ",".intercalate (ps.map fun (x, v) => s!"{x}={showVal v}")

def showEvent : Event → String
  | .probe k => s!"p{k}"
  | .setter x v => s!"s{x}={showVal v}"
  | .cls ps => s!"c[{showProps ps}]"
  | .made _ ps => s!"m[{showProps ps}]"

def showRes : Res (Val × Option Nat) → String
  | .ok _ s => "ok|" ++ ";".intercalate (s.trace.map showEvent)
  | .threw s => "threw|" ++ ";".intercalate (s.trace.map showEvent)

/-- kernel `tsclass`: `<mode>\t<program>` ↦ what esbuild emits -/
def driver (args : List String) : String :=
  match args with
  | [m, w] =>
    match parseMode m, parseProgram w with
    | some o, some e => showProgram (lowerProgram o e)
    | _, _ => "bad-op"
  | _ => "bad-op"

/-- kernel `tsclasssem`: `src\t<mode>\t<program>` ↦ the trace of the program under the TypeScript meaning of the mode;
`out\t<mode>\t<program>` ↦ the trace of what esbuild emits, read as plain JavaScript -/
def semDriver (args : List String) : String :=
  match args with
  | [which, m, w] =>
    match parseMode m, parseProgram w with
    | some o, some e =>
      if which == "src" then showRes (run o e)
      else if which == "out" then showRes (run Mode.js (lowerProgram o e))
      else "bad-op"
    | _, _ => "bad-op"
  | _ => "bad-op"

end EsbuildModel.TsClass
