import EsbuildModel.Impl.CssLex
/-
Second part of the model of `internal/css_lexer/css_lexer.go`: `Tokenize` (the loop around `next()`), which needs
the fact that every token except the end-of-file token consumes input (`next_progress`; the lemmas are here
because the definition of `lexAll` needs them to be accepted by Lean — there is no fuel anywhere),
`decodeEscapesInToken`, `Token.DecodedText`, and the `lex` operation of the line protocol.
-/
namespace EsbuildModel.CssLex

/-! ### every consumer returns a suffix that is not longer; the ones `next()` relies on return a shorter one -/

theorem skipWhile_length (p : Nat → Bool) (s : List Ch) : (skipWhile p s).length ≤ s.length := by
  induction s with
  | nil => simp [skipWhile]
  | cons c t ih => simp only [skipWhile]; split <;> simp <;> omega

theorem step_length (s : List Ch) : (step s).length ≤ s.length := by cases s <;> simp [step]

theorem nameLoop_length (acc : List Nat) (s : List Ch) : (nameLoop acc s).2.length ≤ s.length := by
  fun_induction nameLoop acc s with
  | case1 => simp
  | case2 acc c t h ih => simp only [List.length_cons]; omega
  | case3 acc c t h1 h2 ih =>
    have := consumeEscape_length c t
    simp only [List.length_cons]; omega
  | case4 => simp

theorem consumeName_length (s : List Ch) : (consumeName s).2.length ≤ s.length := by
  unfold consumeName
  have h1 := skipWhile_length isNameContinue s
  split
  · next h =>
    have h2 := nameLoop_length (rawOf (takeWhileCh isNameContinue s) ++ encRune (consumeEscape (skipWhile isNameContinue s)).1)
      (consumeEscape (skipWhile isNameContinue s)).2
    cases hs : skipWhile isNameContinue s with
    | nil => rw [hs] at h; simp [isValidEscape] at h
    | cons c t =>
      rw [hs] at h2 h1
      have := consumeEscape_length c t
      simp only [List.length_cons] at h1
      omega
  · exact h1

/-- a name that starts with a name rune or with a valid escape is not empty -/
theorem consumeName_progress (c : Ch) (t : List Ch) (h : isNameContinue c.cp = true ∨ isValidEscape (c :: t) = true) :
    (consumeName (c :: t)).2.length ≤ t.length := by
  by_cases hc : isNameContinue c.cp = true
  · unfold consumeName
    have e1 : skipWhile isNameContinue (c :: t) = skipWhile isNameContinue t := by simp [skipWhile, hc]
    have h1 := skipWhile_length isNameContinue t
    rw [e1]
    split
    · next h =>
      have h2 := nameLoop_length (rawOf (takeWhileCh isNameContinue (c :: t)) ++ encRune (consumeEscape (skipWhile isNameContinue t)).1)
        (consumeEscape (skipWhile isNameContinue t)).2
      cases hs : skipWhile isNameContinue t with
      | nil => rw [hs] at h; simp [isValidEscape] at h
      | cons d u =>
        rw [hs] at h2 h1
        have := consumeEscape_length d u
        simp only [List.length_cons] at h1
        omega
    · exact h1
  · have hv : isValidEscape (c :: t) = true := by cases h with | inl h => exact absurd h hc | inr h => exact h
    unfold consumeName
    have e1 : skipWhile isNameContinue (c :: t) = c :: t := by simp [skipWhile, hc]
    rw [e1]
    simp only [hv, if_true]
    have h2 := nameLoop_length (rawOf (takeWhileCh isNameContinue (c :: t)) ++ encRune (consumeEscape (c :: t)).1)
      (consumeEscape (c :: t)).2
    have := consumeEscape_length c t
    omega

theorem badUrl_length (s : List Ch) : (badUrl s).2.length ≤ s.length := by
  fun_induction badUrl s with
  | case1 => simp
  | case2 c t h => simp
  | case3 c t h1 h2 h3 ih =>
    have := consumeEscape_length c t
    have := step_length (consumeEscape (c :: t)).2
    simp only [List.length_cons]; omega
  | case4 c t h1 h2 h3 ih => simp only [List.length_cons]; omega
  | case5 c t h1 h2 ih => simp only [List.length_cons]; omega

theorem consumeURL_length (s : List Ch) : (consumeURL s).2.length ≤ s.length := by
  fun_induction consumeURL s with
  | case1 => simp
  | case2 c t h => simp
  | case3 c t h1 h2 ht => simp
  | case4 c t h1 h2 d u ht hd =>
    have := skipWhile_length isWhitespace t
    rw [ht] at this
    simp only [List.length_cons] at this ⊢; omega
  | case5 c t h1 h2 d u ht hd =>
    have := skipWhile_length isWhitespace t
    rw [ht] at this
    have := badUrl_length (d :: u)
    simp only [List.length_cons] at *; omega
  | case6 c t h1 h2 h3 => exact badUrl_length _
  | case7 c t h1 h2 h3 h4 h5 => exact badUrl_length _
  | case8 c t h1 h2 h3 h4 h5 ih =>
    have := consumeEscape_length c t
    simp only [List.length_cons]; omega
  | case9 c t h1 h2 h3 h4 h5 => exact badUrl_length _
  | case10 c t h1 h2 h3 h4 h5 ih => simp only [List.length_cons]; omega

theorem consumeIdentLike_le_name (s : List Ch) : (consumeIdentLike s).2.length ≤ (consumeName s).2.length := by
  unfold consumeIdentLike
  split
  · simp
  · next c t h =>
    rw [h]
    have hw := skipWhile_length isWhitespace t
    have hu := consumeURL_length (skipWhile isWhitespace t)
    split
    · split
      · split
        · simp only [List.length_cons]; omega
        · simp
      · simp
    · simp

theorem consumeIdentLike_progress (c : Ch) (t : List Ch) (h : isNameContinue c.cp = true ∨ isValidEscape (c :: t) = true) :
    (consumeIdentLike (c :: t)).2.length ≤ t.length :=
  Nat.le_trans (consumeIdentLike_le_name _) (consumeName_progress c t h)

theorem stringLoop_length (q : Nat) (s : List Ch) : (stringLoop q s).2.length ≤ s.length := by
  fun_induction stringLoop q s <;> simp only [List.length_cons, List.length_nil] at * <;> omega

theorem consumeString_progress (c : Ch) (t : List Ch) : (consumeString (c :: t)).2.length ≤ t.length := by
  simp only [consumeString]; exact stringLoop_length _ _

theorem skipSign_length (s : List Ch) : (skipSign s).length ≤ s.length := by
  cases s with
  | nil => simp [skipSign]
  | cons c t => simp only [skipSign]; split <;> simp

theorem skipFraction_length (s : List Ch) : (skipFraction s).length ≤ s.length := by
  cases s with
  | nil => simp [skipFraction]
  | cons c t =>
    simp only [skipFraction]; split
    · have := skipWhile_length isDigit t; simp only [List.length_cons]; omega
    · simp

theorem skipExponent_length (s : List Ch) : (skipExponent s).length ≤ s.length := by
  cases s with
  | nil => simp [skipExponent]
  | cons c t =>
    simp only [skipExponent]
    split
    · split
      · simp
      · split
        · rename_i d u _
          have := skipWhile_length isDigit (skipSign (d :: u))
          have := skipSign_length (d :: u)
          simp only [List.length_cons] at *; omega
        · simp
    · simp

theorem skipNumber_length (s : List Ch) : (skipNumber s).length ≤ s.length := by
  unfold skipNumber
  have h1 := skipSign_length s
  have h2 := skipWhile_length isDigit (skipSign s)
  have h3 := skipFraction_length (skipWhile isDigit (skipSign s))
  have h4 := skipExponent_length (skipFraction (skipWhile isDigit (skipSign s)))
  omega

/-- a text that "would start a number" has a non-empty number part -/
theorem skipNumber_progress (c : Ch) (t : List Ch) (h : wouldStartNumber (c :: t) = true) :
    (skipNumber (c :: t)).length ≤ t.length := by
  unfold skipNumber
  have h3 := fun x => skipFraction_length x
  have h4 := fun x => skipExponent_length x
  have hd := fun x => skipWhile_length isDigit x
  simp only [wouldStartNumber] at h
  by_cases hdig : isDigit c.cp = true
  · -- a digit: the digit loop passes it
    have hs : skipSign (c :: t) = c :: t := by
      have : ¬ (c.cp = 43 ∨ c.cp = 45) := by
        simp only [isDigit, Bool.and_eq_true, decide_eq_true_eq] at hdig; omega
      simp [skipSign, this]
    rw [hs]
    have : skipWhile isDigit (c :: t) = skipWhile isDigit t := by simp [skipWhile, hdig]
    rw [this]
    have := h4 (skipFraction (skipWhile isDigit t)); have := h3 (skipWhile isDigit t); have := hd t
    omega
  · simp only [hdig, Bool.false_eq_true, if_false] at h
    by_cases hdot : (c.cp == 46) = true
    · have hs : skipSign (c :: t) = c :: t := by
        have : ¬ (c.cp = 43 ∨ c.cp = 45) := by simp only [beq_iff_eq] at hdot; omega
        simp [skipSign, this]
      rw [hs]
      have : skipWhile isDigit (c :: t) = c :: t := by simp [skipWhile, hdig]
      rw [this]
      have : skipFraction (c :: t) = skipWhile isDigit t := by simp only [skipFraction, hdot, if_true]
      rw [this]
      have := h4 (skipWhile isDigit t); have := hd t
      omega
    · simp only [hdot, Bool.false_eq_true, if_false] at h
      split at h
      · next hsg =>
        have hs : skipSign (c :: t) = t := by simp only [skipSign, hsg, if_true]
        rw [hs]
        have := h4 (skipFraction (skipWhile isDigit t)); have := h3 (skipWhile isDigit t); have := hd t
        omega
      · simp at h

theorem consumeNumeric_progress (c : Ch) (t : List Ch) (h : wouldStartNumber (c :: t) = true) :
    (consumeNumeric (c :: t)).2.1.length ≤ t.length := by
  have hp := skipNumber_progress c t h
  unfold consumeNumeric
  split
  · have := consumeName_length (skipNumber (c :: t)); simp only; omega
  · split
    · simp
    · next d u hs => rw [hs] at hp; split <;> simp only [List.length_cons] at * <;> omega

theorem wsLoop_length (s : List Ch) : (wsLoop s).1.length ≤ s.length := by
  fun_induction wsLoop s with
  | case1 => simp
  | case2 c t h ih => simp only [List.length_cons]; omega
  | case3 c t h1 h2 ih =>
    have := consumeComment_length (c :: t) (step t)
    have := step_length t
    simp only [List.length_cons]; omega
  | case4 => simp

theorem wouldStartIdentifier_imp (c : Ch) (t : List Ch) (h : wouldStartIdentifier (c :: t) = true) :
    isNameContinue c.cp = true ∨ isValidEscape (c :: t) = true := by
  simp only [wouldStartIdentifier] at h
  split at h
  · next hs => left; simp [isNameContinue, hs]
  · split at h
    · next hm => left; simp only [beq_iff_eq] at hm; simp [isNameContinue, hm]
    · right; exact h

/-- every case of the `switch` other than `eof`, `/` and whitespace consumes at least the rune it looked at -/
theorem lexOther_progress (c : Ch) (t : List Ch) : (lexOther c t).rest.length ≤ t.length := by
  have hnum : wouldStartNumber (c :: t) = true → (Lexed.ofNumeric (consumeNumeric (c :: t))).rest.length ≤ t.length :=
    fun h => consumeNumeric_progress c t h
  have hid : (isNameContinue c.cp = true ∨ isValidEscape (c :: t) = true) →
      (Lexed.ofPair (consumeIdentLike (c :: t))).rest.length ≤ t.length :=
    fun h => consumeIdentLike_progress c t h
  have hwid : wouldStartIdentifier (c :: t) = true → (Lexed.ofPair (consumeIdentLike (c :: t))).rest.length ≤ t.length :=
    fun h => hid (wouldStartIdentifier_imp c t h)
  unfold lexOther
  split
  · exact consumeString_progress c t
  split
  · split
    · exact consumeName_length t
    · simp [Lexed.simple]
  split
  · split
    · next h => exact hnum h
    · simp [Lexed.simple]
  split
  · split
    · next h => exact hnum h
    · simp [Lexed.simple]
  split
  · split
    · next h => exact hnum h
    · split
      · split
        · simp only [Lexed.simple, List.length_cons]; omega
        · split
          · next h => exact hwid h
          · simp [Lexed.simple]
      · split
        · next h => exact hwid h
        · simp [Lexed.simple]
  split
  · split
    · split
      · simp only [Lexed.simple, List.length_cons]; omega
      · simp [Lexed.simple]
    · simp [Lexed.simple]
  split
  · split
    · exact consumeName_length t
    · simp [Lexed.simple]
  split
  · split
    · next h => exact hid (Or.inr h)
    · simp [Lexed.simple]
  split
  · next hd =>
    apply hnum
    simp [wouldStartNumber, hd]
  · split
    · simp [Lexed.simple]
    · split
      · next hs => apply hid; left; simp [isNameContinue, hs]
      · simp [Lexed.simple]

theorem stringLoop_kind (q : Nat) (s : List Ch) :
    (stringLoop q s).1 = .TString ∨ (stringLoop q s).1 = .TUnterminatedString := by
  fun_induction stringLoop q s <;> simp_all

theorem badUrl_kind (s : List Ch) : (badUrl s).1 = .TBadURL := by
  fun_induction badUrl s <;> simp_all

theorem consumeURL_kind (s : List Ch) : (consumeURL s).1 = .TURL ∨ (consumeURL s).1 = .TBadURL := by
  fun_induction consumeURL s <;> simp_all [badUrl_kind]

theorem consumeIdentLike_kind (s : List Ch) :
    (consumeIdentLike s).1 = .TIdent ∨ (consumeIdentLike s).1 = .TFunction ∨ (consumeIdentLike s).1 = .TURL ∨
    (consumeIdentLike s).1 = .TBadURL := by
  unfold consumeIdentLike
  split
  · simp
  · split
    · split
      · split
        · have := consumeURL_kind (skipWhile isWhitespace ‹List Ch›)
          rcases this with h | h <;> simp [h]
        · simp
      · simp
    · simp

theorem consumeNumeric_kind (s : List Ch) :
    (consumeNumeric s).1 = .TDimension ∨ (consumeNumeric s).1 = .TPercentage ∨ (consumeNumeric s).1 = .TNumber := by
  unfold consumeNumeric
  split
  · simp
  · split
    · simp
    · split <;> simp

theorem lookupT_mem (c : Nat) (k : T) : ∀ (l : List (Nat × T)), lookupT c l = some k → (c, k) ∈ l
  | [], h => by simp [lookupT] at h
  | (a, k') :: r, h => by
    simp only [lookupT] at h
    split at h
    · next hc => simp only [beq_iff_eq] at hc; cases h; simp [hc]
    · exact List.mem_cons_of_mem _ (lookupT_mem c k r h)

theorem singleCharKind_ne_eof (c : Nat) (k : T) (h : singleCharKind c = some k) : k ≠ .TEndOfFile := by
  have hm := lookupT_mem c k _ h
  have : ∀ p ∈ singleCharTable, p.2 ≠ T.TEndOfFile := by decide
  exact this _ hm

theorem lexOther_kind_ne_eof (c : Ch) (t : List Ch) : (lexOther c t).kind ≠ .TEndOfFile := by
  have hnum : (Lexed.ofNumeric (consumeNumeric (c :: t))).kind ≠ .TEndOfFile := by
    have := consumeNumeric_kind (c :: t)
    simp only [Lexed.ofNumeric]; rcases this with h | h | h <;> simp [h]
  have hid : (Lexed.ofPair (consumeIdentLike (c :: t))).kind ≠ .TEndOfFile := by
    have := consumeIdentLike_kind (c :: t)
    simp only [Lexed.ofPair]; rcases this with h | h | h | h <;> simp [h]
  have hstr : (Lexed.ofPair (consumeString (c :: t))).kind ≠ .TEndOfFile := by
    have := stringLoop_kind c.cp t
    simp only [Lexed.ofPair, consumeString]; rcases this with h | h <;> simp [h]
  unfold lexOther
  repeat' split
  all_goals first | exact hnum | exact hid | exact hstr | (simp [Lexed.simple]; done) | skip
  all_goals (next k hk => simp only [Lexed.simple]; exact singleCharKind_ne_eof _ _ hk)

/-- `next()` returns the end-of-file token only at the end of the input, and every other token is not empty -/
theorem next_progress (oldRem : Nat) (s : List Ch) :
    ((next oldRem s).kind = .TEndOfFile ∧ (next oldRem s).rest = []) ∨
    ((next oldRem s).kind ≠ .TEndOfFile ∧ (next oldRem s).rest.length < s.length) := by
  fun_induction next oldRem s with
  | case1 => left; simp
  | case2 c h => right; simp
  | case3 c h d u hd ih =>
    have := consumeComment_length (c :: d :: u) u
    simp only [NextOut.withComment]
    rcases ih with ih | ih
    · left; exact ih
    · right; refine ⟨ih.1, ?_⟩
      have := ih.2
      simp only [List.length_cons] at *; omega
  | case4 => right; simp
  | case5 => right; simp
  | case6 => right; simp
  | case7 c t h hw =>
    right
    have := wsLoop_length t
    simp only [List.length_cons]
    exact ⟨by simp, by omega⟩
  | case8 c t h hw =>
    have hp := lexOther_progress c t
    right; simp only [List.length_cons]; exact ⟨lexOther_kind_ne_eof c t, by omega⟩

/-! ### `Tokenize` -/

/-- the calls of `lexer.next()` made by `Tokenize`, the last one being the one that returned `TEndOfFile` -/
def lexAll (oldRem : Nat) (s : List Ch) : List NextOut :=
  if (next oldRem s).kind = .TEndOfFile then [next oldRem s]
  else next oldRem s :: lexAll (next oldRem s).oldRem (next oldRem s).rest
termination_by s.length
decreasing_by
  rcases next_progress oldRem s with h | h
  · simp_all
  · exact h.2

/-- "Skip over the BOM if it is present" -/
def skipBOM : List Ch → List Ch
  | [] => []
  | c :: t => if c.cp == 0xFEFF then t else c :: t

/-- `css_lexer.Token` -/
structure Tok where
  kind : T
  start : Nat
  len : Nat
  unitOffset : Nat
  isID : Bool
  didWarn : Bool
deriving DecidableEq, Repr

/-- the `Token` that `next()` left in `lexer.Token`; `total = len(source.Contents)`.
`UnitOffset = uint16(lexer.Token.Range.Len)` is only assigned for a dimension. -/
def NextOut.toTok (total : Nat) (o : NextOut) : Tok :=
  ⟨o.kind, total - rawLen o.startS, rawLen o.startS - rawLen o.rest,
   if o.kind = .TDimension then (rawLen o.startS - rawLen o.unitS) % 65536 else 0, o.isID, o.didWarn⟩

/-- the runes of the token (`contents[token.Range.Loc.Start:token.Range.End()]` is `rawOf` of them) -/
def NextOut.chars (o : NextOut) : List Ch := o.startS.take (o.startS.length - o.rest.length)

structure LegalComment where
  start : Nat
  tokenIndexAfter : Nat
deriving DecidableEq, Repr

/-- `TokenizeResult` without `ApproximateLineCount` and without the comment texts -/
structure Result where
  tokens : List Tok
  /-- `AllComments` (ranges `start, len`); empty unless `RecordAllComments` -/
  allComments : List (Nat × Nat)
  legalComments : List LegalComment
  /-- `SourceMapComment.Range` (`start, len`); `none` = the zero `Span` -/
  sourceMapComment : Option (Nat × Nat)
deriving DecidableEq, Repr

/-- legal comments of the `i`-th call of `next()` get `TokenIndexAfter = i` (the calls before it each appended
one token; the comments of the final end-of-file call get `len(tokens)`) -/
def legalOf (total : Nat) : Nat → List NextOut → List LegalComment
  | _, [] => []
  | i, o :: os =>
    ((o.comments.filter (·.legal)).map fun c => ⟨total - rawLen c.startS, i⟩) ++ legalOf total (i + 1) os

def lastSm : List NextOut → Option SmUrl
  | [] => none
  | o :: os => laterSm (lastSm os) o.sm

/-- the decoded input with which `lexer.next()` is first called -/
def startState (input : List Nat) : List Ch := skipBOM (decodeAll input)

/-- all calls of `next()` for an input -/
def runs (input : List Nat) : List NextOut := lexAll input.length (startState input)

/-- `css_lexer.Tokenize(log, source, options)` with `source.Contents = input` -/
def tokenize (recordAllComments : Bool) (input : List Nat) : Result :=
  let total := input.length
  let outs := runs input
  { tokens := (outs.filter (·.kind ≠ .TEndOfFile)).map (·.toTok total)
    allComments :=
      if recordAllComments then
        (outs.flatMap (·.comments)).map fun c => (total - rawLen c.startS, rawLen c.startS - rawLen c.restS)
      else []
    legalComments := legalOf total 0 outs
    sourceMapComment := (lastSm outs).map fun u => (total - rawLen u.urlS, u.len) }

/-! ### `decodeEscapesInToken` and `Token.DecodedText` -/

/-- the slow loop of `decodeEscapesInToken` over the runes of `inner[i:]` -/
def decLoop (s : List Ch) : List Nat :=
  match s with
  | [] => []
  | c :: t =>
    if c.cp != 92 then encRune (if c.cp == 0 then runeError else c.cp) ++ decLoop t
    else
      match t with
      | [] => encRune runeError -- `if len(inner) == 0 { sb.WriteRune(utf8.RuneError) }`
      | d :: u =>
        match isHex d.cp with
        | none =>
          if d.cp == 10 || d.cp == 12 then decLoop u
          else if d.cp == 13 then -- "Handle Windows CRLF"
            match u with
            | [] => []
            | e :: v => if e.cp == 10 then decLoop v else decLoop (e :: v)
          else encRune d.cp ++ decLoop u -- "the backslash is just ignored"
        | some h => encRune (fixHex (hexLoop 5 h u).1) ++ decLoop (skipOneWs (hexLoop 5 h u).2)
termination_by s.length
decreasing_by
  all_goals simp only [List.length_cons]
  all_goals try omega
  have := skipOneWs_length (hexLoop 5 h u).2
  have := hexLoop_length 5 h u
  omega

/-- `decodeEscapesInToken(inner)` on bytes: the prefix before the first `\` or NUL byte is copied as it is
(ill-formed bytes included), the rest is decoded rune by rune and re-encoded -/
def decodeEscapes (inner : List Nat) : List Nat :=
  let pre := inner.takeWhile (fun b => b != 92 && b != 0)
  let rest := inner.dropWhile (fun b => b != 92 && b != 0)
  if rest.isEmpty then inner else pre ++ decLoop (decodeAll rest)

def isWsByte (b : Nat) : Bool := b == 32 || b == 9 || b == 10 || b == 13 || b == 12

/-- `raw[a:b]`; `none` = slice bounds out of range -/
def slice (raw : List Nat) (a b : Nat) : Option (List Nat) :=
  if a ≤ b ∧ b ≤ raw.length then some ((raw.take b).drop a) else none

/-- `token.DecodedText(contents)` for a token of kind `k` whose text is `raw`; `none` = Go panics -/
def decodedText (k : T) (raw : List Nat) : Option (List Nat) :=
  match k with
  | .TIdent | .TDimension => some (decodeEscapes raw)
  | .TAtKeyword | .THash => (slice raw 1 raw.length).map decodeEscapes
  | .TFunction => if raw.length < 1 then none else (slice raw 0 (raw.length - 1)).map decodeEscapes
  | .TString => if raw.length < 1 then none else (slice raw 1 (raw.length - 1)).map decodeEscapes
  | .TURL =>
    match raw.getLast? with
    | none => none -- `raw[end-1]` with `end == 0`
    | some last =>
      let end0 := if last == 41 then raw.length - 1 else raw.length
      -- "Trim leading and trailing whitespace": both loops only run while `start < end`
      let inner0 := (raw.take end0).drop 4
      let inner1 := inner0.dropWhile isWsByte
      let inner2 := (inner1.reverse.dropWhile isWsByte).reverse
      -- `raw[start:end]` panics when `start = 4 > end`
      if 4 ≤ end0 then some (decodeEscapes inner2) else none
  | _ => some raw

/-! ### line protocol: `csslex lex <recordAllComments 0|1> <hex bytes>` -/

def showOptBytes : Option (List Nat) → String
  | none => "PANIC"
  | some b => Wire.hexUnits 2 b

/-- one token: `kind:start:len:unitOffset:flags:decodedText` -/
def showTok (total : Nat) (o : NextOut) : String :=
  let t := o.toTok total
  let flags := (if t.isID then 1 else 0) + (if t.didWarn then 2 else 0)
  s!"{t.kind.toNat}:{t.start}:{t.len}:{t.unitOffset}:{flags}:{showOptBytes (decodedText t.kind (rawOf o.chars))}"

def showList (l : List String) : String := if l.isEmpty then "-" else " ".intercalate l

def lexAnswer (recordAll : Bool) (input : List Nat) : String :=
  let total := input.length
  let outs := runs input
  let r := tokenize recordAll input
  let toks := (outs.filter (·.kind ≠ .TEndOfFile)).map (showTok total)
  let allC := r.allComments.map fun p => s!"{p.1}:{p.2}"
  let legal := r.legalComments.map fun c => s!"{c.start}:{c.tokenIndexAfter}"
  let sm := match r.sourceMapComment with | none => "-" | some p => s!"{p.1}:{p.2}"
  s!"{showList toks} | {showList allC} | {showList legal} | {sm}"

def lexDriver (args : List String) : String :=
  match args with
  | [ra, hex] =>
    match Wire.parseHexUnits 2 hex with
    | some bytes => if ra = "1" then lexAnswer true bytes else if ra = "0" then lexAnswer false bytes else "bad-op"
    | none => "bad-op"
  | _ => "bad-op"

end EsbuildModel.CssLex
