/-
Model of esbuild's lowering of logical assignment (`||=`, `&&=`, `??=`), exponentiation assignment (`**=`) and
untagged template literals, together with the lowering of optional property chains and `??` that Impl/Lower.lean
already models (internal/js_parser/js_parser_lower.go: lowerAssignmentOperator, lowerLogicalAssignmentOperator,
lowerNullishCoalescingAssignmentOperator, lowerExponentiationAssignmentOperator, lowerNullishCoalescing,
lowerOptionalChain (property links only), lowerTemplateLiteral (no tag); js_parser.go:
captureValueWithPossibleSideEffects), all features unsupported at once.

The source language `S` and the language `T` of what esbuild emits each get an evaluator, so that "lowering
preserves behaviour" can be stated and proved (Props/C05Assign.lean).

What the outside world decides (structure `World`): every call of a probe function, every property read
(getters), every property write (setters), every ToPrimitive of an object (its toString/valueOf) is an EVENT.
The world answers an event with a value or by throwing, it may look at the whole history of events and at the
current values of the user's variables, and it may REASSIGN the user's variables (a called function or a getter
can do that).  Events are appended to the trace.  The heap is therefore not modelled separately: it is whatever
the world makes of the history of `set` events.

User variables live in `H.env`; the temporaries esbuild generates (`_a`, `_b`, …) live in a separate component
`TState.tm` that the world cannot see or change (they are fresh symbols local to the enclosing function or
module).

Values: undefined, null, numbers (integers stand for all numbers other than NaN; arithmetic is abstract), NaN, BigInt, strings,
symbols, objects.  `**` / Math.pow on a BigInt operand is the point where the model stops (`Exc.bigint`): that is
the recorded finding c05-bigint-pow, and everything proved is about evaluations that do not reach that point.

Property keys are converted (ToPropertyKey, an event when the key is an object) at every property read and
write, as V8 does (Node 20: `o[k] ||= 1` calls `k.toString()` twice, natively and lowered alike).

Calls, `this`, tagged templates, delete (work package taggedlower; lowerOptionalChain in full except `super` and
private names, lowerParenthesizedOptionalChain, lowerTemplateLiteral with a tag, and the parts of the ECall / EDot /
EIndex / EUnary(delete) / ETemplate visitors that pass `storeThisArgForParentOptionalChain` down and
`thisArgFunc` / `thisArgWrapFunc` up):
* function objects are values `fn i`; calling one is the event `callf i this args` (the world runs the body), calling
  anything else is a TypeError AFTER the arguments have been evaluated (EvaluateCall);
* `S.vcall` is a call / optional call / tagged template whose callee is not a property access (`this` undefined),
  `S.mcall` one whose callee is `o.p`, `o?.p`, `o[k]`, `o?.[k]` in the three ways esbuild tells apart: plain
  (`o?.p(a)`: the call continues the chain and stays a method call), optional (`o.p?.(a)`: the base is captured and
  the call becomes `_b.call(_a, a)`), parenthesised (`(o?.p)(a)` / `(o?.p)`x``: the parentheses end the chain, the
  base is captured for `.call(_a, a)`); at most two arguments / substitutions;
* `f.call(t, …)` (`T.callCall`) throws on a null / undefined `f` BEFORE `t` and the arguments are evaluated, is
  Function.prototype.call for a function, and (assumption of the model) is absent, unobservably, on anything else;
* `delete` of a property is the event `del o k`; `delete` of a chain that is cut short gives `true`;
* a tagged-template site has a strings array `tpl site gen`; natively GetTemplateObject creates it on first use and
  caches it (`H.tcell`, `H.tgen`: invisible to the world), esbuild emits `_t || (_t = __template([…]))` with a
  top-level temporary per site (`T.tcell`, `T.setCell`, `T.mkTpl`: `__template` makes a NEW array on every call).
-/
import EsbuildModel.Util.Wire
namespace EsbuildModel.Lower2

inductive Val where
  | undef
  | null
  | num (n : Int)
  | nan
  | big (n : Int)
  | str (s : String)
  | sym (id : Nat)
  | obj (id : Nat)
  | bool (b : Bool)
  | fn (id : Nat)                  -- an ordinary function object (callable; its `call` is Function.prototype.call)
  | tpl (site : Nat) (gen : Nat)   -- the `gen`-th strings array created for the tagged template `site`
deriving DecidableEq, Repr

def Val.nullish : Val → Bool
  | .undef => true
  | .null => true
  | _ => false

/-- ToBoolean -/
def Val.truthy : Val → Bool
  | .undef => false
  | .null => false
  | .num n => n != 0
  | .nan => false
  | .big n => n != 0
  | .str s => s != ""
  | .sym _ => true
  | .obj _ => true
  | .bool b => b
  | .fn _ => true
  | .tpl _ _ => true

/-- objects: ToPrimitive asks the world -/
def Val.isObj : Val → Bool
  | .obj _ => true
  | .fn _ => true
  | .tpl _ _ => true
  | _ => false

inductive Exc where
  | typeError          -- thrown by the language itself
  | host (v : Val)     -- thrown by the world (a function, getter, setter, toString …)
  | bigint             -- `**` met a BigInt: outside the model (known finding c05-bigint-pow)
  | illFormed          -- a template prefix that is not a string: unreachable for parsed terms
deriving DecidableEq, Repr

inductive Ev where
  | call (f : Nat) (arg : Val)
  | get (o : Val) (k : Val)
  | set (o : Val) (k : Val) (v : Val)
  | toPrimS (o : Val)     -- ToPrimitive, hint string: property keys, template substitutions, String.prototype.concat
  | toPrimN (o : Val)     -- ToPrimitive, hint number: operands of `**` and Math.pow
  | callf (f : Nat) (this : Val) (args : List Val)   -- the function object `fn f` is called
  | del (o : Val) (k : Val)                          -- `delete o[k]` (deleteProperty)
deriving DecidableEq, Repr

abbrev Trace := List Ev
abbrev Env := Nat → Val

inductive HRes where
  | ret (v : Val)
  | throw (v : Val)
deriving DecidableEq, Repr

structure World where
  /-- answer to an event given the events so far and the user's variables; also the user's variables afterwards -/
  host : Ev → Trace → Env → HRes × Env
  /-- ToNumber of undefined / null / a string; none: NaN -/
  primNum : Val → Option Int
  /-- Number::exponentiate; none: NaN -/
  numPow : Option Int → Option Int → Option Int
  /-- the value of `this` in the function the expression is part of -/
  thisVal : Val

structure H where
  tr : Trace
  env : Env
  /-- the strings array cached for a tagged-template site: the realm's [[TemplateMap]] in the source semantics, the
  top-level temporary `_t` of the site in the emitted code (`none`: still undefined); invisible to the world -/
  tcell : Nat → Option Nat := fun _ => none
  /-- how many strings arrays have been created for a site so far (object identity: a new array each time) -/
  tgen : Nat → Nat := fun _ => 0

inductive Res where
  | val (v : Val)
  | err (x : Exc)
deriving DecidableEq, Repr

/-- sequencing: stop at the first exception -/
def bindR {σ : Type} (r : Res × σ) (f : Val → σ → Res × σ) : Res × σ :=
  match r with
  | (.err x, s) => (.err x, s)
  | (.val v, s) => f v s

def upd (f : Nat → Val) (k : Nat) (v : Val) : Nat → Val := fun j => if j = k then v else f j

def doEv (w : World) (ev : Ev) (h : H) : Res × H :=
  match w.host ev h.tr h.env with
  | (.ret v, env') => (.val v, { h with tr := h.tr ++ [ev], env := env' })
  | (.throw v, env') => (.err (.host v), { h with tr := h.tr ++ [ev], env := env' })

/-- ToPrimitive: an event for objects (a result that is again an object is a TypeError), nothing otherwise -/
def toPrim (w : World) (hintString : Bool) (v : Val) (h : H) : Res × H :=
  if v.isObj then
    bindR (doEv w (if hintString then .toPrimS v else .toPrimN v) h) fun p h1 =>
      if p.isObj then (.err .typeError, h1) else (.val p, h1)
  else (.val v, h)

/-- property read `ov[kv]` once both are values -/
def getProp (w : World) (ov kv : Val) (h : H) : Res × H :=
  if ov.nullish then (.err .typeError, h)
  else bindR (toPrim w true kv h) fun key h1 => doEv w (.get ov key) h1

/-- property write `ov[kv] = v`; the value of the assignment is `v` -/
def setProp (w : World) (ov kv v : Val) (h : H) : Res × H :=
  if ov.nullish then (.err .typeError, h)
  else bindR (toPrim w true kv h) fun key h1 => bindR (doEv w (.set ov key v) h1) fun _ h2 => (.val v, h2)

def setVar (x : Nat) (v : Val) (h : H) : Res × H := (.val v, { h with env := upd h.env x v })

/-- the key of `o.pN` -/
def pkey (p : Nat) : Val := .str ("p" ++ toString p)

/-- ToString of a primitive; none: TypeError (symbols) -/
def primStr : Val → Option String
  | .undef => some "undefined"
  | .null => some "null"
  | .num n => some (toString n)
  | .nan => some "NaN"
  | .big n => some (toString n)
  | .str s => some s
  | .sym _ => none
  | .obj _ => none
  | .bool b => some (if b then "true" else "false")
  | .fn _ => none
  | .tpl _ _ => none

/-- ToString -/
def toStr (w : World) (v : Val) (h : H) : Res × H :=
  bindR (toPrim w true v h) fun p h1 =>
    match primStr p with
    | some s => (.val (.str s), h1)
    | none => (.err .typeError, h1)

/-- a Number value: an integer or NaN -/
def Val.asNum : Val → Option (Option Int)
  | .num a => some (some a)
  | .nan => some none
  | _ => none

def Val.ofNum : Option Int → Val
  | some a => .num a
  | none => .nan

/-- ToNumeric -/
def toNumeric (w : World) (v : Val) (h : H) : Res × H :=
  bindR (toPrim w false v h) fun p h1 =>
    match p with
    | .num n => (.val (.num n), h1)
    | .nan => (.val .nan, h1)
    | .big n => (.val (.big n), h1)
    | .sym _ => (.err .typeError, h1)
    | .obj _ => (.err .typeError, h1)
    | .fn _ => (.err .typeError, h1)
    | .tpl _ _ => (.err .typeError, h1)
    | p => (.val (Val.ofNum (w.primNum p)), h1)

/-- `l ** r` and `Math.pow(l, r)` as far as the model goes: both convert the left operand, then the right one,
and apply Number::exponentiate; as soon as a BigInt shows up the model stops -/
def powOp (w : World) (l r : Val) (h : H) : Res × H :=
  bindR (toNumeric w l h) fun ln h1 =>
    match ln.asNum with
    | some a =>
      bindR (toNumeric w r h1) fun rn h2 =>
        match rn.asNum with
        | some b => (.val (Val.ofNum (w.numPow a b)), h2)
        | none => (.err .bigint, h2)
    | none => (.err .bigint, h1)

/-- what really happens from that point on (not used by the evaluators; see `powOp_faithful` and the example
in Props/C05Assign.lean): `**` accepts two BigInts and rejects a mixture after converting both operands … -/
def expoFull (w : World) (bigPow : Int → Int → Int) (l r : Val) (h : H) : Res × H :=
  bindR (toNumeric w l h) fun ln h1 =>
    bindR (toNumeric w r h1) fun rn h2 =>
      match ln.asNum, rn.asNum, ln, rn with
      | some a, some b, _, _ => (.val (Val.ofNum (w.numPow a b)), h2)
      | _, _, .big a, .big b => (.val (.big (bigPow a b)), h2)
      | _, _, _, _ => (.err .typeError, h2)

/-- … while Math.pow (ToNumber) rejects a BigInt as soon as it sees one -/
def mathPowFull (w : World) (l r : Val) (h : H) : Res × H :=
  bindR (toNumeric w l h) fun ln h1 =>
    match ln.asNum with
    | some a =>
      bindR (toNumeric w r h1) fun rn h2 =>
        match rn.asNum with
        | some b => (.val (Val.ofNum (w.numPow a b)), h2)
        | none => (.err .typeError, h2)
    | none => (.err .typeError, h1)

-- ---------------------------------------------------------------- calls, delete, template objects

/-- argument lists: at most three arguments are modelled -/
inductive ARes where
  | vals (vs : List Val)
  | err (x : Exc)
deriving DecidableEq, Repr

/-- evaluate the first `n` (at most 3) of three argument expressions, left to right -/
def args3 {σ : Type} (n : Nat) (fa fb fc : σ → Res × σ) (s : σ) : ARes × σ :=
  match n with
  | 0 => (.vals [], s)
  | n + 1 =>
    match fa s with
    | (.err x, s1) => (.err x, s1)
    | (.val a, s1) =>
      match n with
      | 0 => (.vals [a], s1)
      | n + 1 =>
        match fb s1 with
        | (.err x, s2) => (.err x, s2)
        | (.val b, s2) =>
          match n with
          | 0 => (.vals [a, b], s2)
          | _ + 1 =>
            match fc s2 with
            | (.err x, s3) => (.err x, s3)
            | (.val c, s3) => (.vals [a, b, c], s3)

/-- [[Call]]: function objects are called (an event: the world runs the body), everything else is a TypeError -/
def invoke (w : World) (fv thisv : Val) (args : List Val) (h : H) : Res × H :=
  match fv with
  | .fn i => doEv w (.callf i thisv args) h
  | _ => (.err .typeError, h)

/-- EvaluateCall once the callee and the `this` value are known: the arguments are evaluated first, then the
callee is checked -/
def callWith (w : World) (fv thisv : Val) (fargs : H → ARes × H) (h : H) : Res × H :=
  match fargs h with
  | (.err x, h1) => (.err x, h1)
  | (.vals vs, h1) => invoke w fv thisv vs h1

/-- `delete ov[kv]` once both are values -/
def delProp (w : World) (ov kv : Val) (h : H) : Res × H :=
  if ov.nullish then (.err .typeError, h)
  else bindR (toPrim w true kv h) fun key h1 => bindR (doEv w (.del ov key) h1) fun r h2 => (.val (.bool r.truthy), h2)

/-- GetTemplateObject(site): the array cached for the site, created on first use -/
def getTpl (site : Nat) (h : H) : Res × H :=
  match h.tcell site with
  | some g => (.val (.tpl site g), h)
  | none =>
    (.val (.tpl site (h.tgen site)),
      { h with tcell := fun j => if j = site then some (h.tgen site) else h.tcell j,
               tgen := fun j => if j = site then h.tgen site + 1 else h.tgen j })

/-- `__template([...])`: a new array -/
def mkTplObj (site : Nat) (h : H) : Res × H :=
  (.val (.tpl site (h.tgen site)), { h with tgen := fun j => if j = site then h.tgen site + 1 else h.tgen j })

/-- a property link: `.pN` or `[k]` -/
inductive Link where
  | dot (p : Nat)
  | idx
deriving DecidableEq, Repr

/-- how a member expression is called: `o.p(a)`, `o.p?.(a)`, `(o.p)(a)` (the parentheses end an optional chain
inside, the call still gets `this = o`) -/
inductive CMode where
  | plain | opt | paren
deriving DecidableEq, Repr

/-- a tagged-template site: its number and its (cooked = raw) strings -/
structure TplSite where
  site : Nat
  strs : List String
deriving DecidableEq, Repr

-- ---------------------------------------------------------------- source language

inductive AOp where
  | or | and | nul | pow
deriving DecidableEq, Repr

inductive S where
  | id (x : Nat)
  | lit (v : Val)
  | call (f : Nat) (a : S)
  | dot (o : S) (p : Nat)
  | optDot (o : S) (p : Nat)
  | idx (o k : S)
  | paren (a : S)
  | nullish (a b : S)
  | tstr (s : String)                      -- a template without substitutions, or the head of one
  | tcat (prev sub : S) (tail : String)    -- prev `${sub}tail`   (prev: `tstr` or `tcat`)
  | asgVar (x : Nat) (op : AOp) (r : S)
  | asgDot (o : S) (p : Nat) (op : AOp) (r : S)
  | asgIdx (o k : S) (op : AOp) (r : S)
  | this
  | optIdx (o k : S)                       -- o?.[k]
  /-- `f(a, b)` / `f?.(a, b)` / f`…${a}…${b}…` where `f` is not a member expression (`this` is undefined);
  `n ≤ 2` arguments are used -/
  | vcall (opt : Bool) (tpl : Option TplSite) (f : S) (n : Nat) (a b : S)
  /-- a call (or tagged template) whose callee is the member expression `o.p` / `o?.p` / `o[k]` / `o?.[k]`
  (`k` is only used by `Link.idx`) -/
  | mcall (mode : CMode) (tpl : Option TplSite) (optLink : Bool) (lk : Link) (o k : S) (n : Nat) (a b : S)
  | del (optLink : Bool) (lk : Link) (o k : S)   -- delete o.p / o?.p / o[k] / o?.[k]
  | delVal (a : S)                          -- delete of something that is not a property reference (a call)
deriving Repr

/-- result of evaluating a (piece of an) optional chain -/
inductive CRes where
  | val (v : Val)
  | short            -- the chain was cut short by a nullish `?.` target
  | err (x : Exc)
deriving DecidableEq, Repr

def CRes.top : CRes → Res
  | .val v => .val v
  | .short => .val .undef
  | .err x => .err x

def Res.toC : Res → CRes
  | .val v => .val v
  | .err x => .err x

/-- an ordinary context turns "cut short" into undefined -/
def topP (r : CRes × H) : Res × H := (r.1.top, r.2)
def toCP (r : Res × H) : CRes × H := (r.1.toC, r.2)

/-- `lval op= rhs` once the left value has been read: `rhs` evaluates the right operand, `put` stores -/
def assignOp (w : World) (op : AOp) (lval : Val) (rhs : H → Res × H) (put : Val → H → Res × H) (h : H) : Res × H :=
  match op with
  | .or => if lval.truthy then (.val lval, h) else bindR (rhs h) put
  | .and => if lval.truthy then bindR (rhs h) put else (.val lval, h)
  | .nul => if lval.nullish then bindR (rhs h) put else (.val lval, h)
  | .pow => bindR (rhs h) fun rv h1 => bindR (powOp w lval rv h1) put

/-- the property read of a link on the base `ov` -/
def linkGet (w : World) (lk : Link) (fk : H → Res × H) (ov : Val) (h : H) : Res × H :=
  match lk with
  | .dot p => getProp w ov (pkey p) h
  | .idx => bindR (fk h) fun kv h1 => getProp w ov kv h1

def linkDel (w : World) (lk : Link) (fk : H → Res × H) (ov : Val) (h : H) : Res × H :=
  match lk with
  | .dot p => delProp w ov (pkey p) h
  | .idx => bindR (fk h) fun kv h1 => delProp w ov kv h1

/-- the arguments of a call: the template object first if this is a tagged template -/
def argsS (tpl : Option TplSite) (n : Nat) (fa fb : H → Res × H) : H → ARes × H :=
  match tpl with
  | none => args3 (min n 2) fa fb fb
  | some t => args3 (min n 2 + 1) (getTpl t.site) fa fb

/-- a callee that is a member expression: the function and the base object (the `this` of the call) -/
inductive MRes where
  | val (f base : Val)
  | short
  | err (x : Exc)
deriving DecidableEq, Repr

def memSem (optLink : Bool) (ro : CRes × H) (get : Val → H → Res × H) : MRes × H :=
  match ro with
  | (.err x, h1) => (.err x, h1)
  | (.short, h1) => (.short, h1)
  | (.val ov, h1) =>
    if optLink && ov.nullish then (.short, h1)
    else
      match get ov h1 with
      | (.err x, h2) => (.err x, h2)
      | (.val fv, h2) => (.val fv ov, h2)

/-- a call of a member expression.  Cut short: the whole call is cut short, except that parentheses end the chain
(the callee is then undefined, which is a TypeError after the arguments have been evaluated). -/
def mcallSem (w : World) (mode : CMode) (m : MRes × H) (fargs : H → ARes × H) : CRes × H :=
  match m with
  | (.err x, h1) => (.err x, h1)
  | (.short, h1) =>
    match mode with
    | .paren => toCP (callWith w .undef .undef fargs h1)
    | _ => (.short, h1)
  | (.val fv ov, h1) =>
    match mode with
    | .opt => if fv.nullish then (.short, h1) else toCP (callWith w fv ov fargs h1)
    | _ => toCP (callWith w fv ov fargs h1)

def vcallSem (w : World) (opt : Bool) (rf : CRes × H) (fargs : H → ARes × H) : CRes × H :=
  match rf with
  | (.err x, h1) => (.err x, h1)
  | (.short, h1) => (.short, h1)
  | (.val fv, h1) => if opt && fv.nullish then (.short, h1) else toCP (callWith w fv .undef fargs h1)

/-- `delete` of a property reference: `true` when the chain is cut short -/
def delSem (optLink : Bool) (ro : CRes × H) (del : Val → H → Res × H) : CRes × H :=
  match ro with
  | (.err x, h1) => (.err x, h1)
  | (.short, h1) => (.val (.bool true), h1)
  | (.val ov, h1) => if optLink && ov.nullish then (.val (.bool true), h1) else toCP (del ov h1)

def delValSem (r : CRes × H) : CRes × H :=
  match r with
  | (.err x, h1) => (.err x, h1)
  | (_, h1) => (.val (.bool true), h1)

/-- source semantics; `evalC` may report that the chain was cut short, every other context turns that into
`undefined` -/
def evalC (w : World) : S → H → CRes × H
  | .id x, h => (.val (h.env x), h)
  | .lit v, h => (.val v, h)
  | .call f a, h => toCP (bindR (topP (evalC w a h)) fun v h1 => doEv w (.call f v) h1)
  | .dot o p, h =>
    match evalC w o h with
    | (.err x, h1) => (.err x, h1)
    | (.short, h1) => (.short, h1)
    | (.val v, h1) => toCP (getProp w v (pkey p) h1)
  | .optDot o p, h =>
    match evalC w o h with
    | (.err x, h1) => (.err x, h1)
    | (.short, h1) => (.short, h1)
    | (.val v, h1) => if v.nullish then (.short, h1) else toCP (getProp w v (pkey p) h1)
  | .idx o k, h =>
    match evalC w o h with
    | (.err x, h1) => (.err x, h1)
    | (.short, h1) => (.short, h1)
    | (.val v, h1) => toCP (bindR (topP (evalC w k h1)) fun kv h2 => getProp w v kv h2)
  | .paren a, h => toCP (topP (evalC w a h))
  | .nullish a b, h =>
    toCP (bindR (topP (evalC w a h)) fun v h1 => if v.nullish then topP (evalC w b h1) else (.val v, h1))
  | .tstr s, h => (.val (.str s), h)
  | .tcat prev sub tail, h =>
    toCP (bindR (topP (evalC w prev h)) fun pv h1 =>
      match pv with
      | .str s =>
        bindR (topP (evalC w sub h1)) fun v h2 =>
          bindR (toStr w v h2) fun t h3 =>
            match t with
            | .str ts => (.val (.str (s ++ ts ++ tail)), h3)
            | _ => (.err .illFormed, h3)
      | _ => (.err .illFormed, h1))
  | .asgVar x op r, h =>
    toCP (assignOp w op (h.env x) (fun h1 => topP (evalC w r h1)) (setVar x) h)
  | .asgDot o p op r, h =>
    toCP (bindR (topP (evalC w o h)) fun ov h1 =>
      bindR (getProp w ov (pkey p) h1) fun lval h2 =>
        assignOp w op lval (fun h3 => topP (evalC w r h3)) (setProp w ov (pkey p)) h2)
  | .asgIdx o k op r, h =>
    toCP (bindR (topP (evalC w o h)) fun ov h1 =>
      bindR (topP (evalC w k h1)) fun kv h2 =>
        bindR (getProp w ov kv h2) fun lval h3 =>
          assignOp w op lval (fun h4 => topP (evalC w r h4)) (setProp w ov kv) h3)
  | .this, h => (.val w.thisVal, h)
  | .optIdx o k, h =>
    match evalC w o h with
    | (.err x, h1) => (.err x, h1)
    | (.short, h1) => (.short, h1)
    | (.val v, h1) =>
      if v.nullish then (.short, h1) else toCP (bindR (topP (evalC w k h1)) fun kv h2 => getProp w v kv h2)
  | .vcall opt tpl f n a b, h =>
    vcallSem w opt (evalC w f h) (argsS tpl n (fun h1 => topP (evalC w a h1)) (fun h1 => topP (evalC w b h1)))
  | .mcall mode tpl optLink lk o k n a b, h =>
    mcallSem w mode (memSem optLink (evalC w o h) (linkGet w lk (fun h1 => topP (evalC w k h1))))
      (argsS tpl n (fun h1 => topP (evalC w a h1)) (fun h1 => topP (evalC w b h1)))
  | .del optLink lk o k, h => delSem optLink (evalC w o h) (linkDel w lk (fun h1 => topP (evalC w k h1)))
  | .delVal a, h => delValSem (evalC w a h)

def evalS (w : World) (e : S) (h : H) : Res × H := topP (evalC w e h)

-- ---------------------------------------------------------------- the language esbuild emits

inductive T where
  | id (x : Nat)
  | lit (v : Val)
  | call (f : Nat) (a : T)
  | dot (o : T) (p : Nat)
  | idx (o k : T)
  | tmp (k : Nat)
  | assign (k : Nat) (e : T)          -- `_k = e`
  | ifEqNull (c : T) (yes no : T)     -- c == null ? yes : no
  | ifNeNull (c : T) (yes no : T)     -- c != null ? yes : no
  | or (a b : T)                      -- a || b
  | and (a b : T)                     -- a && b
  | setVar (x : Nat) (e : T)          -- x = e
  | setDot (o : T) (p : Nat) (e : T)  -- o.p = e
  | setIdx (o k : T) (e : T)          -- o[k] = e
  | pow (a b : T)                     -- __pow(a, b), __pow = Math.pow captured when the file starts
  | concat (base sub : T) (tail : Option String)   -- base.concat(sub) / base.concat(sub, "tail")
  | this
  | callV (f : T) (n : Nat) (a b c : T)             -- f(a, b, c): the first n ≤ 3 arguments; `this` is undefined
  | callDot (o : T) (p : Nat) (n : Nat) (a b c : T) -- o.p(a, b, c): `this` is o
  | callIdx (o k : T) (n : Nat) (a b c : T)         -- o[k](a, b, c)
  | callCall (f t : T) (n : Nat) (a b c : T)        -- f.call(t, a, b, c)
  | delDot (o : T) (p : Nat)                        -- delete o.p
  | delIdx (o k : T)                                -- delete o[k]
  | delV (e : T)                                    -- delete e, e not a property reference
  | tcell (site : Nat)                              -- the top-level temporary of a tagged-template site
  | setCell (site : Nat) (e : T)                    -- … = e
  | mkTpl (site : Nat) (strs : List String)         -- __template([strs])
deriving Repr

structure TState where
  h : H
  tm : Nat → Val

/-- an operation on the user-visible state, run in a state with temporaries -/
def liftH (f : H → Res × H) (s : TState) : Res × TState :=
  ((f s.h).1, { s with h := (f s.h).2 })

def callWithT (w : World) (fv thisv : Val) (fargs : TState → ARes × TState) (s : TState) : Res × TState :=
  match fargs s with
  | (.err x, s1) => (.err x, s1)
  | (.vals vs, s1) => liftH (invoke w fv thisv vs) s1

def evalT (w : World) : T → TState → Res × TState
  | .id x, s => (.val (s.h.env x), s)
  | .lit v, s => (.val v, s)
  | .call f a, s => bindR (evalT w a s) fun v s1 => liftH (doEv w (.call f v)) s1
  | .dot o p, s => bindR (evalT w o s) fun v s1 => liftH (getProp w v (pkey p)) s1
  | .idx o k, s => bindR (evalT w o s) fun v s1 => bindR (evalT w k s1) fun kv s2 => liftH (getProp w v kv) s2
  | .tmp k, s => (.val (s.tm k), s)
  | .assign k e, s => bindR (evalT w e s) fun v s1 => (.val v, { s1 with tm := upd s1.tm k v })
  | .ifEqNull c yes no, s => bindR (evalT w c s) fun v s1 => if v.nullish then evalT w yes s1 else evalT w no s1
  | .ifNeNull c yes no, s => bindR (evalT w c s) fun v s1 => if v.nullish then evalT w no s1 else evalT w yes s1
  | .or a b, s => bindR (evalT w a s) fun v s1 => if v.truthy then (.val v, s1) else evalT w b s1
  | .and a b, s => bindR (evalT w a s) fun v s1 => if v.truthy then evalT w b s1 else (.val v, s1)
  | .setVar x e, s => bindR (evalT w e s) fun v s1 => liftH (setVar x v) s1
  | .setDot o p e, s =>
    bindR (evalT w o s) fun ov s1 => bindR (evalT w e s1) fun v s2 => liftH (setProp w ov (pkey p) v) s2
  | .setIdx o k e, s =>
    bindR (evalT w o s) fun ov s1 => bindR (evalT w k s1) fun kv s2 => bindR (evalT w e s2) fun v s3 =>
      liftH (setProp w ov kv v) s3
  | .pow a b, s => bindR (evalT w a s) fun l s1 => bindR (evalT w b s1) fun r s2 => liftH (powOp w l r) s2
  | .concat base sub tail, s =>
    bindR (evalT w base s) fun bv s1 =>
      match bv with
      | .str bs =>
        bindR (evalT w sub s1) fun v s2 =>
          bindR (liftH (toStr w v) s2) fun t s3 =>
            match t, tail with
            | .str ts, none => (.val (.str (bs ++ ts)), s3)
            | .str ts, some tl => (.val (.str (bs ++ ts ++ tl)), s3)
            | _, _ => (.err .illFormed, s3)
      | _ => (.err .illFormed, s1)      -- esbuild only emits `.concat` on what started as a string literal
  | .this, s => (.val w.thisVal, s)
  | .callV f n a b c, s =>
    bindR (evalT w f s) fun fv s1 => callWithT w fv .undef (args3 n (evalT w a) (evalT w b) (evalT w c)) s1
  | .callDot o p n a b c, s =>
    bindR (evalT w o s) fun ov s1 => bindR (liftH (getProp w ov (pkey p)) s1) fun fv s2 =>
      callWithT w fv ov (args3 n (evalT w a) (evalT w b) (evalT w c)) s2
  | .callIdx o k n a b c, s =>
    bindR (evalT w o s) fun ov s1 => bindR (evalT w k s1) fun kv s2 => bindR (liftH (getProp w ov kv) s2) fun fv s3 =>
      callWithT w fv ov (args3 n (evalT w a) (evalT w b) (evalT w c)) s3
  | .callCall f t n a b c, s =>
    -- `f.call`: a TypeError on null / undefined; Function.prototype.call for a function; undefined (and so a
    -- TypeError once the arguments have been evaluated) for everything else
    bindR (evalT w f s) fun fv s1 =>
      if fv.nullish then (.err .typeError, s1)
      else bindR (evalT w t s1) fun tv s2 => callWithT w fv tv (args3 n (evalT w a) (evalT w b) (evalT w c)) s2
  | .delDot o p, s => bindR (evalT w o s) fun ov s1 => liftH (delProp w ov (pkey p)) s1
  | .delIdx o k, s => bindR (evalT w o s) fun ov s1 => bindR (evalT w k s1) fun kv s2 => liftH (delProp w ov kv) s2
  | .delV e, s => bindR (evalT w e s) fun _ s1 => (.val (.bool true), s1)
  | .tcell site, s => (.val (match s.h.tcell site with | some g => .tpl site g | none => .undef), s)
  | .setCell site e, s =>
    bindR (evalT w e s) fun v s1 =>
      match v with
      | .tpl st g =>
        if st = site then
          (.val v, { s1 with h := { s1.h with tcell := fun j => if j = site then some g else s1.h.tcell j } })
        else (.err .illFormed, s1)
      | _ => (.err .illFormed, s1)    -- esbuild only stores what `__template` returned for this site
  | .mkTpl site _, s => liftH (mkTplObj site) s

-- ---------------------------------------------------------------- the lowering

/-- captureValueWithPossibleSideEffects (count 2, valueDefinitelyNotMutated): a value that is needed twice is
written twice if it is an identifier or a primitive literal, otherwise stored in a fresh temporary on first use.
Returns (first use, later uses, next free temporary). -/
def capture (full : T) (n : Nat) : T × T × Nat :=
  match full with
  | .id x => (.id x, .id x, n)
  | .lit v => (.lit v, .lit v, n)
  | .this => (.this, .this, n)
  | _ => (.assign n full, .tmp n, n + 1)

def fin (acc : T) : Option T → T
  | none => acc
  | some t => .ifEqNull t (.lit .undef) acc

/-- the same with `true` as the value when the chain is cut short: a chain that ends in `delete` -/
def finD (acc : T) : Option T → T
  | none => acc
  | some t => .ifEqNull t (.lit (.bool true)) acc

/-- `_t || (_t = __template([strs]))` -/
def tplExpr (t : TplSite) : T := .or (.tcell t.site) (.setCell t.site (.mkTpl t.site t.strs))

/-- the argument list of an emitted call: number of arguments and three slots -/
def targs (tpl : Option TplSite) (n : Nat) (A B : T) : Nat × T × T × T :=
  match tpl with
  | none => (min n 2, A, B, B)
  | some t => (min n 2 + 1, tplExpr t, A, B)

/-- the property read of a link -/
def linkT (lk : Link) (o K : T) : T :=
  match lk with
  | .dot p => .dot o p
  | .idx => .idx o K

/-- a method call through a link -/
def callM (lk : Link) (o K : T) (g : Nat × T × T × T) : T :=
  match lk with
  | .dot p => .callDot o p g.1 g.2.1 g.2.2.1 g.2.2.2
  | .idx => .callIdx o K g.1 g.2.1 g.2.2.1 g.2.2.2

def delT (lk : Link) (o K : T) : T :=
  match lk with
  | .dot p => .delDot o p
  | .idx => .delIdx o K

/-- lowerOptionalChain for a member expression that somebody is going to call with `.call(this, …)`
(`storeThisArgForParentOptionalChain`, or the EDot / EIndex case of "Step 2" when the member expression is not
part of a chain): the base of the last link is captured.  Returns (the member expression, its pending test, the
expression for `this`, next free temporary). -/
def memStore (optLink : Bool) (lk : Link) (oacc : T) (opend : Option T) (K : T) (m : Nat) : T × Option T × T × Nat :=
  match optLink with
  | false =>
    let c := capture oacc m
    (linkT lk c.1 K, opend, c.2.1, c.2.2)
  | true =>
    let c := capture (fin oacc opend) m
    (linkT lk c.2.1 K, some c.1, c.2.1, c.2.2)

/-- the call of a member expression (ECall visitor + lowerOptionalChain + lowerParenthesizedOptionalChain +
lowerTemplateLiteral with a tag) -/
def mcallLower (mode : CMode) (optLink : Bool) (lk : Link) (oacc : T) (opend : Option T) (K : T)
    (g : Nat × T × T × T) (m : Nat) : T × Option T × Nat :=
  match mode with
  | .plain =>
    match optLink with
    | false => (callM lk oacc K g, opend, m)
    | true =>
      let c := capture (fin oacc opend) m
      (callM lk c.2.1 K g, some c.1, c.2.2)
  | .opt =>
    let ms := memStore optLink lk oacc opend K m
    let c2 := capture (fin ms.1 ms.2.1) ms.2.2.2
    (.callCall c2.2.1 ms.2.2.1 g.1 g.2.1 g.2.2.1 g.2.2.2, some c2.1, c2.2.2)
  | .paren =>
    let ms := memStore optLink lk oacc opend K m
    (.callCall (fin ms.1 ms.2.1) ms.2.2.1 g.1 g.2.1 g.2.2.1 g.2.2.2, none, ms.2.2.2)

/-- an assignment target in the emitted language -/
inductive TT where
  | var (x : Nat)
  | dot (o : T) (p : Nat)
  | idx (o k : T)

def TT.read : TT → T
  | .var x => .id x
  | .dot o p => .dot o p
  | .idx o k => .idx o k

/-- js_ast.Assign(target, e) -/
def TT.write : TT → T → T
  | .var x, e => .setVar x e
  | .dot o p, e => .setDot o p e
  | .idx o k, e => .setIdx o k e

/-- the callbacks of lowerLogicalAssignmentOperator, lowerNullishCoalescingAssignmentOperator (which goes through
lowerNullishCoalescing) and lowerExponentiationAssignmentOperator: `a` is the reference built first, `b` the one
built second -/
def opCallback (op : AOp) (a b : TT) (r : T) (n : Nat) : T × Nat :=
  match op with
  | .or => (.or a.read (b.write r), n)
  | .and => (.and a.read (b.write r), n)
  | .nul =>
    let c := capture a.read n
    (.ifNeNull c.1 c.2.1 (b.write r), c.2.2)
  | .pow => (a.write (.pow b.read r), n)

/-- `lowerC e n = (acc, pending, n')`: the lowered chain so far, the pending null test of the innermost open
optional chain (if any), the next free temporary.  Children are visited (and get their temporaries) before the
node itself is lowered, left to right. -/
def lowerC : S → Nat → T × Option T × Nat
  | .id x, n => (.id x, none, n)
  | .lit v, n => (.lit v, none, n)
  | .call f a, n =>
    let r := lowerC a n
    (.call f (fin r.1 r.2.1), none, r.2.2)
  | .dot o p, n =>
    let r := lowerC o n
    (.dot r.1 p, r.2.1, r.2.2)
  | .optDot o p, n =>
    let r := lowerC o n
    let c := capture (fin r.1 r.2.1) r.2.2
    (.dot c.2.1 p, some c.1, c.2.2)
  | .idx o k, n =>
    let r := lowerC o n
    let rk := lowerC k r.2.2
    (.idx r.1 (fin rk.1 rk.2.1), r.2.1, rk.2.2)
  | .paren a, n =>
    let r := lowerC a n
    (fin r.1 r.2.1, none, r.2.2)
  | .nullish a b, n =>
    let ra := lowerC a n
    let rb := lowerC b ra.2.2
    let c := capture (fin ra.1 ra.2.1) rb.2.2
    (.ifNeNull c.1 c.2.1 (fin rb.1 rb.2.1), none, c.2.2)
  | .tstr s, n => (.lit (.str s), none, n)
  | .tcat prev sub tail, n =>
    let rp := lowerC prev n
    let rs := lowerC sub rp.2.2
    (.concat (fin rp.1 rp.2.1) (fin rs.1 rs.2.1) (if tail.isEmpty then none else some tail), none, rs.2.2)
  | .asgVar x op r, n =>
    let rr := lowerC r n
    let res := opCallback op (.var x) (.var x) (fin rr.1 rr.2.1) rr.2.2
    (res.1, none, res.2)
  | .asgDot o p op r, n =>
    let ro := lowerC o n
    let rr := lowerC r ro.2.2
    let c := capture (fin ro.1 ro.2.1) rr.2.2
    let res := opCallback op (.dot c.1 p) (.dot c.2.1 p) (fin rr.1 rr.2.1) c.2.2
    (res.1, none, res.2)
  | .asgIdx o k op r, n =>
    let ro := lowerC o n
    let rk := lowerC k ro.2.2
    let rr := lowerC r rk.2.2
    let co := capture (fin ro.1 ro.2.1) rr.2.2
    let ck := capture (fin rk.1 rk.2.1) co.2.2
    let res := opCallback op (.idx co.1 ck.1) (.idx co.2.1 ck.2.1) (fin rr.1 rr.2.1) ck.2.2
    (res.1, none, res.2)
  | .this, n => (.this, none, n)
  | .optIdx o k, n =>
    let r := lowerC o n
    let rk := lowerC k r.2.2
    let c := capture (fin r.1 r.2.1) rk.2.2
    (.idx c.2.1 (fin rk.1 rk.2.1), some c.1, c.2.2)
  | .vcall opt tpl f nn a b, n =>
    -- the target is visited first, then the arguments, then the chain is lowered
    let rf := lowerC f n
    let ra := lowerC a rf.2.2
    let rb := lowerC b ra.2.2
    let g := targs tpl nn (fin ra.1 ra.2.1) (fin rb.1 rb.2.1)
    match opt with
    | false => (.callV rf.1 g.1 g.2.1 g.2.2.1 g.2.2.2, rf.2.1, rb.2.2)
    | true =>
      let c := capture (fin rf.1 rf.2.1) rb.2.2
      (.callV c.2.1 g.1 g.2.1 g.2.2.1 g.2.2.2, some c.1, c.2.2)
  | .mcall mode tpl optLink lk o k nn a b, n =>
    let ro := lowerC o n
    let rk := lowerC k ro.2.2
    let ra := lowerC a rk.2.2
    let rb := lowerC b ra.2.2
    mcallLower mode optLink lk ro.1 ro.2.1 (fin rk.1 rk.2.1) (targs tpl nn (fin ra.1 ra.2.1) (fin rb.1 rb.2.1)) rb.2.2
  | .del optLink lk o k, n =>
    let ro := lowerC o n
    let rk := lowerC k ro.2.2
    match optLink with
    | false => (finD (delT lk ro.1 (fin rk.1 rk.2.1)) ro.2.1, none, rk.2.2)
    | true =>
      let c := capture (fin ro.1 ro.2.1) rk.2.2
      (.ifEqNull c.1 (.lit (.bool true)) (delT lk c.2.1 (fin rk.1 rk.2.1)), none, c.2.2)
  | .delVal a, n =>
    let r := lowerC a n
    (finD (.delV r.1) r.2.1, none, r.2.2)

def lower (e : S) : T :=
  fin (lowerC e 0).1 (lowerC e 0).2.1

-- ---------------------------------------------------------------- wire: S-expressions

def showVal : Val → String
  | .undef => "undef"
  | .null => "null"
  | .num n => s!"(num {n})"
  | .nan => "nan"
  | .big n => s!"(big {n})"
  | .str s => s!"(str {s})"
  | .sym i => s!"(sym {i})"
  | .obj i => s!"(obj {i})"
  | .bool b => if b then "true" else "false"
  | .fn i => s!"(fn {i})"
  | .tpl st g => s!"(tpl {st} {g})"

def tmpIndex (k : Nat) (m : List Nat) : Nat × List Nat :=
  match m.idxOf? k with
  | some i => (i, m)
  | none => (m.length, m ++ [k])

/-- the first n of three arguments, each preceded by a space -/
def showArgs (n : Nat) (fa fb fc : List Nat → String × List Nat) (m : List Nat) : String × List Nat :=
  match n with
  | 0 => ("", m)
  | 1 => let (sa, m1) := fa m; (" " ++ sa, m1)
  | 2 => let (sa, m1) := fa m; let (sb, m2) := fb m1; (" " ++ sa ++ " " ++ sb, m2)
  | _ => let (sa, m1) := fa m; let (sb, m2) := fb m1; let (sc, m3) := fc m2; (" " ++ sa ++ " " ++ sb ++ " " ++ sc, m3)

/-- temporaries are renumbered in order of first appearance so that only the structure is compared -/
def showT : T → List Nat → String × List Nat
  | .id x, m => (s!"(id v{x})", m)
  | .lit v, m => (showVal v, m)
  | .call f a, m => let (sa, m1) := showT a m; (s!"(call (id f{f}) {sa})", m1)
  | .dot o p, m => let (so, m1) := showT o m; (s!"(dot {so} p{p})", m1)
  | .idx o k, m => let (so, m1) := showT o m; let (sk, m2) := showT k m1; (s!"(idx {so} {sk})", m2)
  | .tmp k, m => let (i, m1) := tmpIndex (2 * k) m; (s!"(tmp {i})", m1)
  | .assign k e, m =>
    let (i, m0) := tmpIndex (2 * k) m
    let (se, m1) := showT e m0
    (s!"(set {i} {se})", m1)
  | .ifEqNull c y n, m =>
    let (sc, m1) := showT c m; let (sy, m2) := showT y m1; let (sn, m3) := showT n m2
    (s!"(if (eqnull {sc}) {sy} {sn})", m3)
  | .ifNeNull c y n, m =>
    let (sc, m1) := showT c m; let (sy, m2) := showT y m1; let (sn, m3) := showT n m2
    (s!"(if (nenull {sc}) {sy} {sn})", m3)
  | .or a b, m => let (sa, m1) := showT a m; let (sb, m2) := showT b m1; (s!"(or {sa} {sb})", m2)
  | .and a b, m => let (sa, m1) := showT a m; let (sb, m2) := showT b m1; (s!"(and {sa} {sb})", m2)
  | .setVar x e, m => let (se, m1) := showT e m; (s!"(assign (id v{x}) {se})", m1)
  | .setDot o p e, m =>
    let (so, m1) := showT o m; let (se, m2) := showT e m1
    (s!"(assign (dot {so} p{p}) {se})", m2)
  | .setIdx o k e, m =>
    let (so, m1) := showT o m; let (sk, m2) := showT k m1; let (se, m3) := showT e m2
    (s!"(assign (idx {so} {sk}) {se})", m3)
  | .pow a b, m => let (sa, m1) := showT a m; let (sb, m2) := showT b m1; (s!"(pow {sa} {sb})", m2)
  | .concat base sub tail, m =>
    let (sb, m1) := showT base m; let (ss, m2) := showT sub m1
    match tail with
    | none => (s!"(call (dot {sb} concat) {ss})", m2)
    | some tl => (s!"(call (dot {sb} concat) {ss} (str {tl}))", m2)
  | .this, m => ("this", m)
  | .callV f n a b c, m =>
    let (sf, m1) := showT f m
    let (sa, m2) := showArgs n (showT a) (showT b) (showT c) m1
    (s!"(call {sf}{sa})", m2)
  | .callDot o p n a b c, m =>
    let (so, m1) := showT o m
    let (sa, m2) := showArgs n (showT a) (showT b) (showT c) m1
    (s!"(call (dot {so} p{p}){sa})", m2)
  | .callIdx o k n a b c, m =>
    let (so, m1) := showT o m
    let (sk, m2) := showT k m1
    let (sa, m3) := showArgs n (showT a) (showT b) (showT c) m2
    (s!"(call (idx {so} {sk}){sa})", m3)
  | .callCall f t n a b c, m =>
    let (sf, m1) := showT f m
    let (st, m2) := showT t m1
    let (sa, m3) := showArgs n (showT a) (showT b) (showT c) m2
    (s!"(call (dot {sf} call) {st}{sa})", m3)
  | .delDot o p, m => let (so, m1) := showT o m; (s!"(delete (dot {so} p{p}))", m1)
  | .delIdx o k, m => let (so, m1) := showT o m; let (sk, m2) := showT k m1; (s!"(delete (idx {so} {sk}))", m2)
  | .delV e, m => let (se, m1) := showT e m; (s!"(delete {se})", m1)
  | .tcell site, m => let (i, m1) := tmpIndex (2 * site + 1) m; (s!"(tmp {i})", m1)
  | .setCell site e, m =>
    let (i, m0) := tmpIndex (2 * site + 1) m
    let (se, m1) := showT e m0
    (s!"(set {i} {se})", m1)
  | .mkTpl _ strs, m => ("(call (id __template) (array" ++ String.join (strs.map fun x => s!" (str {x})") ++ "))", m)

def parseTpl (spec : List Char) : Option (Option TplSite) :=
  match spec with
  | [] => some none
  | ':' :: cs =>
    match (String.ofList cs).splitOn "," with
    | st :: strs => st.toNat?.map fun site => some ⟨site, strs⟩
    | [] => none
  | _ => none

def parseLink (cs : List Char) : Option (Link × List Char) :=
  match cs with
  | 'i' :: rest => some (.idx, rest)
  | 'd' :: rest =>
    let ds := rest.takeWhile Char.isDigit
    (String.ofList ds).toNat?.map fun p => (.dot p, rest.dropWhile Char.isDigit)
  | _ => none

def parseCount : Char → Option Nat
  | '0' => some 0
  | '1' => some 1
  | '2' => some 2
  | _ => none

def parseOp : Char → Option AOp
  | 'o' => some .or
  | 'a' => some .and
  | 'n' => some .nul
  | 'p' => some .pow
  | _ => none

/-- n ≤ 2 arguments; the unused slots are `undefined` literals -/
def parseTail (_fuel : Nat) (n : Nat) (toks : List String) (p : List String → Option (S × List String)) :
    Option (S × S × List String) :=
  match n with
  | 0 => some (.lit .undef, .lit .undef, toks)
  | 1 => (p toks).map fun (a, r) => (a, .lit .undef, r)
  | _ =>
    match p toks with
    | some (a, r) => (p r).map fun (b, r2) => (a, b, r2)
    | none => none

/-- source expressions arrive in prefix form, tokens separated by spaces:
`undef` `null` `n5` `B5` (5n) `S:abc` ("abc") `v1` `c2 A` (f2(A)) `d3 O` (O.p3) `o3 O` (O?.p3) `I O K` (O[K]) `paren A`
`nullish A B` `H:abc` (template without substitution / head) `T:tail PREV SUB` (PREV `${SUB}tail`)
`Aov1 R` (v1 ||= R; o a n p = || && ?? **) `Aod3 O R` (O.p3 ||= R) `Aoi O K R` (O[K] ||= R) -/
def parseS : Nat → List String → Option (S × List String)
  | 0, _ => none
  | fuel + 1, tok :: rest =>
    match tok with
    | "undef" => some (.lit .undef, rest)
    | "true" => some (.lit (.bool true), rest)
    | "false" => some (.lit (.bool false), rest)
    | "this" => some (.this, rest)
    | "DV" => (parseS fuel rest).map (fun (a, r) => (.delVal a, r))
    | "J" =>
      match parseS fuel rest with
      | some (o, r) => (parseS fuel r).map (fun (k, r2) => (.optIdx o k, r2))
      | none => none
    | "null" => some (.lit .null, rest)
    | "paren" => (parseS fuel rest).map (fun (a, r) => (.paren a, r))
    | "nullish" =>
      match parseS fuel rest with
      | some (a, r) => (parseS fuel r).map (fun (b, r2) => (.nullish a b, r2))
      | none => none
    | "I" =>
      match parseS fuel rest with
      | some (o, r) => (parseS fuel r).map (fun (k, r2) => (.idx o k, r2))
      | none => none
    | t =>
      match t.toList with
      | 'S' :: ':' :: cs => some (.lit (.str (String.ofList cs)), rest)
      | 'H' :: ':' :: cs => some (.tstr (String.ofList cs), rest)
      | 'T' :: ':' :: cs =>
        match parseS fuel rest with
        | some (p, r) => (parseS fuel r).map (fun (s, r2) => (.tcat p s (String.ofList cs), r2))
        | none => none
      | 'B' :: cs => (String.ofList cs).toInt?.map (fun x => (.lit (.big x), rest))
      | 'v' :: cs => (String.ofList cs).toNat?.map (fun x => (.id x, rest))
      | 'n' :: cs => (String.ofList cs).toInt?.map (fun x => (.lit (.num x), rest))
      | 'c' :: cs =>
        match (String.ofList cs).toNat?, parseS fuel rest with
        | some f, some (a, r) => some (.call f a, r)
        | _, _ => none
      | 'd' :: cs =>
        match (String.ofList cs).toNat?, parseS fuel rest with
        | some p, some (o, r) => some (.dot o p, r)
        | _, _ => none
      | 'o' :: cs =>
        match (String.ofList cs).toNat?, parseS fuel rest with
        | some p, some (o, r) => some (.optDot o p, r)
        | _, _ => none
      | 'C' :: oc :: nc :: spec =>
        match (if oc == 'o' then some true else if oc == 'n' then some false else none), parseCount nc, parseTpl spec,
            parseS fuel rest with
        | some opt, some n, some tpl, some (f, r1) =>
          match parseTail fuel n r1 (parseS fuel) with
          | some (a, b, r3) => some (.vcall opt tpl f n a b, r3)
          | none => none
        | _, _, _, _ => none
      | 'M' :: mc :: lc :: nc :: cs =>
        match (match mc with | 'p' => some CMode.plain | 'o' => some CMode.opt | 'r' => some CMode.paren | _ => none),
            (if lc == 'q' then some true else if lc == 'd' then some false else none), parseCount nc, parseLink cs with
        | some mode, some optLink, some n, some (lk, spec) =>
          match parseTpl spec, parseS fuel rest with
          | some tpl, some (o, r1) =>
            match (match lk with | .idx => parseS fuel r1 | .dot _ => some (.lit .undef, r1)) with
            | some (k, r2) =>
              match parseTail fuel n r2 (parseS fuel) with
              | some (a, b, r4) => some (.mcall mode tpl optLink lk o k n a b, r4)
              | none => none
            | none => none
          | _, _ => none
        | _, _, _, _ => none
      | 'D' :: lc :: cs =>
        match (if lc == 'q' then some true else if lc == 'd' then some false else none), parseLink cs with
        | some optLink, some (lk, []) =>
          match parseS fuel rest with
          | some (o, r1) =>
            match (match lk with | .idx => parseS fuel r1 | .dot _ => some (.lit .undef, r1)) with
            | some (k, r2) => some (.del optLink lk o k, r2)
            | none => none
          | none => none
        | _, _ => none
      | 'A' :: oc :: 'v' :: cs =>
        match parseOp oc, (String.ofList cs).toNat?, parseS fuel rest with
        | some op, some x, some (r, r1) => some (.asgVar x op r, r1)
        | _, _, _ => none
      | 'A' :: oc :: 'd' :: cs =>
        match parseOp oc, (String.ofList cs).toNat?, parseS fuel rest with
        | some op, some p, some (o, r1) => (parseS fuel r1).map (fun (r, r2) => (.asgDot o p op r, r2))
        | _, _, _ => none
      | ['A', oc, 'i'] =>
        match parseOp oc, parseS fuel rest with
        | some op, some (o, r1) =>
          match parseS fuel r1 with
          | some (k, r2) => (parseS fuel r2).map (fun (r, r3) => (.asgIdx o k op r, r3))
          | none => none
        | _, _ => none
      | _ => none
  | _, [] => none

def driver (args : List String) : String :=
  match args with
  | [src] =>
    match parseS 400 (src.splitOn " ") with
    | some (e, []) => (showT (lower e) []).1
    | _ => "bad-op"
  | _ => "bad-op"

-- ---------------------------------------------------------------- a concrete world for testing the two evaluators against Node
/-
Kernel `lower2sem`: the source expression is evaluated with `evalS` and its lowering with `evalT` in a
deterministic pseudo-random world that the harness re-implements in JavaScript (Proxy objects whose traps log
events; functions f0..f2; `Symbol.toPrimitive`), and the results, traces and final variables are compared with
what Node 20 reports for the source text and for the text esbuild emits.  This checks that `evalC` / `evalT` say
what JavaScript says (the theorems are about these evaluators).  No BigInt here (the model stops there).
-/

def mix (a b : Nat) : Nat := (a * 1000003 + b * 7919 + 12345) % 1000000007

def pickVal (c : Nat) : Val :=
  match c % 16 with
  | 0 => .undef
  | 1 => .null
  | 2 => .num 0
  | 3 => .num 2
  | 4 => .fn ((c / 16) % 3)
  | 5 => .str ""
  | 6 => .str "ab"
  | 7 => .str "1"
  | 8 => .obj (10 + (c / 16) % 3)
  | 9 => .fn ((c / 16) % 3)
  | 10 => .obj (15 + (c / 16) % 2)
  | 11 => .nan
  | 12 => .fn ((c / 16) % 3)
  | 13 => .num 3
  | 14 => .obj (13 + (c / 16) % 2)
  | _ => .fn ((c / 16) % 3)

/-- events that JavaScript code can observe: everything except property access on a primitive -/
def isReal : Ev → Bool
  | .get (.obj _) _ => true
  | .get _ _ => false
  | .set (.obj _) _ _ => true
  | .set _ _ _ => false
  | .del (.obj _) _ => true
  | .del _ _ => false
  | _ => true

/-- property read on a primitive: characters of a string, otherwise undefined (no prototype property has one
of the names the generator can produce) -/
def primGet (o key : Val) : Val :=
  match o, primStr key with
  | .str s, some ks =>
    match ks.toNat? with
    | some i => if toString i == ks && i < s.length then .str (String.ofList [s.toList.getD i ' ']) else .undef
    | none => .undef
  | _, _ => .undef

/-- `delete` on a primitive (or a frozen function): false for the own properties of a string -/
def primDel (o key : Val) : Val :=
  match o, primStr key with
  | .str s, some ks =>
    match ks.toNat? with
    | some i => .bool (!(toString i == ks && i < s.length))
    | none => .bool (ks != "length")
  | _, _ => .bool true

def testDecide (c : Nat) (env : Env) : HRes × Env :=
  (if c % 13 == 0 then .throw (.num 99) else .ret (pickVal (c / 13)),
   if (c / 3) % 6 == 0 then upd env ((c / 18) % 4) (pickVal (c / 72)) else env)

/-- ToNumber of a string: decimal digits, hexadecimal with 0x, empty; otherwise NaN -/
def strToNum (s : String) : Option Int :=
  if s.isEmpty then some 0
  else if s.toList.all Char.isDigit then s.toNat?.map Int.ofNat
  else
    match s.toList with
    | '0' :: 'x' :: ds =>
      if !ds.isEmpty && ds.all (fun c => c.isDigit || ('a' ≤ c && c ≤ 'f')) then
        some (Int.ofNat (ds.foldl (fun acc c => acc * 16 + (if c.isDigit then c.toNat - 48 else c.toNat - 87)) 0))
      else none
    | _ => none

/-- beyond 2^53 the integers of the model are not JavaScript numbers any more -/
def tooBig (n : Int) : Bool := n.natAbs ≥ 9007199254740992

def testWorld (seed : Nat) : World :=
  { host := fun ev tr env =>
      let n := (tr.filter isReal).length
      match ev with
      | .call f _ => testDecide (mix seed (mix n (100 + f))) env
      | .get (.obj i) _ => testDecide (mix seed (mix n (1 + i))) env
      | .get o k => (.ret (primGet o k), env)
      | .set (.obj i) _ _ => testDecide (mix seed (mix n (40 + i))) env
      | .set _ _ _ => (.ret .undef, env)
      | .toPrimS (.obj i) => testDecide (mix seed (mix n (200 + i))) env
      | .toPrimS (.fn i) => testDecide (mix seed (mix n (250 + i))) env
      | .toPrimS _ => (.ret .undef, env)
      | .toPrimN (.obj i) => testDecide (mix seed (mix n (300 + i))) env
      | .toPrimN (.fn i) => testDecide (mix seed (mix n (350 + i))) env
      | .toPrimN _ => (.ret .undef, env)
      | .callf f _ _ => testDecide (mix seed (mix n (400 + f))) env
      | .del (.obj i) _ => testDecide (mix seed (mix n (500 + i))) env
      | .del o k => (.ret (primDel o k), env),
    primNum := fun v =>
      match v with
      | .null => some 0
      | .str s => strToNum s
      | .bool b => some (if b then 1 else 0)
      | _ => none,
    numPow := fun a b =>
      match a, b with
      | _, some 0 => some 1
      | some a, some b =>
        if b < 0 then none
        else if a == 0 || a == 1 then some a
        else if b > 64 || tooBig a then some (2 ^ 60)    -- out of range either way: reported as SKIP
        else some (a ^ b.toNat)
      | _, _ => none,
    thisVal := .obj 17 }

/-- v1 and v3 start as objects, v0 as a function, v2 as anything -/
def testEnv (seed : Nat) : Env := fun x =>
  if x % 2 == 1 then .obj (10 + (mix seed (900 + x)) % 7)
  else if x == 0 then .fn ((mix seed 900) % 3)
  else pickVal (mix seed (900 + x))

/-- the string contains 16 or more digits in a row (it may spell a number beyond 2^53) -/
def longDigitRun (s : String) : Bool :=
  (s.toList.foldl (fun (acc : Nat × Nat) c => if c.isDigit then (acc.1 + 1, max acc.2 (acc.1 + 1)) else (0, acc.2)) (0, 0)).2 ≥ 16

def semVal : Val → String × Bool
  | .undef => ("u", false)
  | .null => ("n", false)
  | .num n => (s!"N{n}", tooBig n)
  | .nan => ("NaN", false)
  | .big n => (s!"B{n}", true)
  | .str s => ("S<" ++ s ++ ">", longDigitRun s)
  | .sym i => (s!"Y{i}", true)
  | .obj i => (s!"O{i}", false)
  | .bool b => (if b then "b1" else "b0", false)
  | .fn i => (s!"F{i}", false)
  | .tpl st g => (s!"T{st}#{g}", false)

def semEv : Ev → String × Bool
  | .call f a => let (sa, b) := semVal a; (s!"call:{f}:{sa}", b)
  | .get o k => let (so, b1) := semVal o; (s!"get:{so}:{(primStr k).getD "?"}", b1)
  | .set o k v => let (so, b1) := semVal o; let (sv, b2) := semVal v; (s!"set:{so}:{(primStr k).getD "?"}:{sv}", b1 || b2)
  | .toPrimS o => let (so, b) := semVal o; (s!"prims:{so}", b)
  | .toPrimN o => let (so, b) := semVal o; (s!"primn:{so}", b)
  | .callf f t args =>
    let (st, b) := semVal t
    let sa := args.map semVal
    (s!"callf:{f}:{st}:" ++ ",".intercalate (sa.map (·.1)), b || sa.any (·.2))
  | .del o k => let (so, b1) := semVal o; (s!"del:{so}:{(primStr k).getD "?"}", b1)

def semRes : Res → String × Bool
  | .val v => let (sv, b) := semVal v; ("V:" ++ sv, b)
  | .err .typeError => ("E:TypeError", false)
  | .err (.host v) => let (sv, b) := semVal v; ("E:throw:" ++ sv, b)
  | .err .bigint => ("E:BIGINT", true)
  | .err .illFormed => ("E:ILLFORMED", true)

/-- result | observable trace | final v0..v3 ; "SKIP" when a number left the range in which integers are numbers
(or a string got long enough to contain such a number) -/
def semShow (r1 r : Res) (h : H) : String :=
  let (sr1, b1) := semRes r1
  let (sr2, b2) := semRes r
  let sr := sr1 ++ "," ++ sr2
  let b0 := b1 || b2
  let evs := (h.tr.filter isReal).map semEv
  let vars := (List.range 4).map (fun x => semVal (h.env x))
  if b0 || evs.any (·.2) || vars.any (·.2) then "SKIP"
  else sr ++ "|" ++ ";".intercalate (evs.map (·.1)) ++ "|" ++ ",".intercalate (vars.map (·.1))

def semDriver (args : List String) : String :=
  match args with
  | [seedS, src] =>
    match seedS.toNat?, parseS 400 (src.splitOn " ") with
    | some seed, some (e, []) =>
      let w := testWorld seed
      let h0 : H := { tr := [], env := testEnv seed }
      -- the expression is evaluated twice in a row (the second time from the state the first one left)
      let rs1 := evalS w e h0
      let rs := evalS w e rs1.2
      let rt1 := evalT w (lower e) ⟨h0, fun _ => .undef⟩
      let rt := evalT w (lower e) rt1.2
      semShow rs1.1 rs.1 rs.2 ++ " ## " ++ semShow rt1.1 rt.1 rt.2.h
    | _, _ => "bad-op"
  | _ => "bad-op"

end EsbuildModel.Lower2
