/-
Line protocol of kernel `tsns` (and `tsnsrun`): wire format of programs, canonical text of the emitted
structure, canonical text of a run (probe trace, outcome, object graph).

  tsns  compile <opts> <program>     → ok <structure> | error | unsupported
  tsns  run     <opts> <program>     → result of running the COMPILED program (JavaScript semantics)
  tsns  spec    <opts> <program>     → result of running the program by the TypeScript specification

<opts>: four digits ms arrow letConst logAssign.  <program>: space separated prefix tokens
  members := [ member* ]
  member  := L kind exp name init | F exp name expr | N exp dotted name members | E exp name [ (name init)* ]
           | X expr | I name head [ name* ] | T exp | D        kind := v|l|c   exp,dotted := 0|1   init := - | expr
  expr    := n int | s str | i name | d expr name | a expr expr | p str expr | c expr       str := 'chars
-/
import EsbuildModel.Impl.TsNs
import EsbuildModel.Spec.TsNamespaces
namespace EsbuildModel.TsNs.Driver
open EsbuildModel.TsNs EsbuildModel.TsNs.Impl

/-! ### wire parser (fuel = number of tokens) -/

def parseExpr : Nat → List String → Option (Expr × List String)
  | 0, _ => none
  | _ + 1, "n" :: v :: rest => v.toInt?.map (fun n => (.num n, rest))
  | _ + 1, "s" :: v :: rest => if v.startsWith "'" then some (.str (String.ofList (v.toList.drop 1)), rest) else none
  | _ + 1, "i" :: v :: rest => some (.id v, rest)
  | f + 1, "d" :: rest =>
    match parseExpr f rest with
    | some (e, name :: rest') => some (.dot e name, rest')
    | _ => none
  | f + 1, "a" :: rest =>
    match parseExpr f rest with
    | some (a, rest') =>
      match parseExpr f rest' with
      | some (b, rest'') => some (.add a b, rest'')
      | none => none
    | none => none
  | f + 1, "p" :: tag :: rest =>
    if tag.startsWith "'" then
      match parseExpr f rest with
      | some (e, rest') => some (.probe (String.ofList (tag.toList.drop 1)) e, rest')
      | none => none
    else none
  | f + 1, "c" :: rest =>
    match parseExpr f rest with
    | some (e, rest') => some (.call e, rest')
    | none => none
  | _, _ => none

def parseBool : String → Option Bool
  | "0" => some false
  | "1" => some true
  | _ => none

def parseInit (f : Nat) : List String → Option (Option Expr × List String)
  | "-" :: rest => some (none, rest)
  | toks => (parseExpr f toks).map (fun (e, r) => (some e, r))

def parseNames : Nat → List String → Option (List String × List String)
  | 0, _ => none
  | _ + 1, "]" :: rest => some ([], rest)
  | f + 1, n :: rest => (parseNames f rest).map (fun (ns, r) => (n :: ns, r))
  | _, [] => none

def parseEnumVals : Nat → List String → Option (List (String × Option Expr) × List String)
  | 0, _ => none
  | _ + 1, "]" :: rest => some ([], rest)
  | f + 1, name :: rest =>
    match parseInit f rest with
    | some (init, rest') => (parseEnumVals f rest').map (fun (vs, r) => ((name, init) :: vs, r))
    | none => none
  | _, [] => none

mutual
def parseMember : Nat → List String → Option (Member × List String)
  | 0, _ => none
  | f + 1, "L" :: k :: ex :: name :: rest =>
    let kind : Option VarKind := match k with | "v" => some .var | "l" => some .let_ | "c" => some .const_ | _ => none
    match kind, parseBool ex, parseInit f rest with
    | some kind, some ex, some (init, rest') => some (.local_ kind ex name init, rest')
    | _, _, _ => none
  | f + 1, "F" :: ex :: name :: rest =>
    match parseBool ex, parseExpr f rest with
    | some ex, some (e, rest') => some (.func ex name e, rest')
    | _, _ => none
  | f + 1, "N" :: ex :: dotted :: name :: "[" :: rest =>
    match parseBool ex, parseBool dotted, parseMembers f rest with
    | some ex, some dotted, some (ms, rest') => some (.ns ex dotted name ms, rest')
    | _, _, _ => none
  | f + 1, "E" :: ex :: name :: "[" :: rest =>
    match parseBool ex, parseEnumVals f rest with
    | some ex, some (vs, rest') => some (.enum_ ex name vs, rest')
    | _, _ => none
  | f + 1, "X" :: rest => (parseExpr f rest).map (fun (e, r) => (.expr e, r))
  | f + 1, "I" :: name :: head :: "[" :: rest => (parseNames f rest).map (fun (ns, r) => (.importEq name head ns, r))
  | _ + 1, "T" :: ex :: rest => (parseBool ex).map (fun ex => (.typeOnly ex, rest))
  | _ + 1, "D" :: rest => some (.declareFn, rest)
  | _, _ => none
def parseMembers : Nat → List String → Option (List Member × List String)
  | 0, _ => none
  | _ + 1, "]" :: rest => some ([], rest)
  | f + 1, toks =>
    match parseMember f toks with
    | some (m, rest) => (parseMembers f rest).map (fun (ms, r) => (m :: ms, r))
    | none => none
end

def parseProgram (s : String) : Option Program :=
  let toks := (s.splitOn " ").filter (· ≠ "")
  match toks with
  | "[" :: rest =>
    match parseMembers (toks.length + 1) rest with
    | some (ms, []) => some ms
    | _ => none
  | _ => none

def parseOpts (s : String) : Option Opts :=
  match s.toList with
  | [a, b, c, d] =>
    match parseBool a.toString, parseBool b.toString, parseBool c.toString, parseBool d.toString with
    | some a, some b, some c, some d => some ⟨a, b, c, d⟩
    | _, _, _, _ => none
  | _ => none

/-! ### canonical text of the emitted structure -/

structure SerSt where
  seen : List Loc
  names : List (Path × String)
  merge : Bool

def locIndex (l : Loc) : List Loc → Nat → Option Nat
  | [], _ => none
  | l' :: rest, i => if l' = l then some i else locIndex l rest (i + 1)

def lookupArgName (names : List (Path × String)) (π : Path) : String :=
  match names with
  | [] => "?"
  | (π', n) :: rest => if π' = π then n else lookupArgName rest π

def serLoc (st : SerSt) (l : Loc) : String × SerSt :=
  match l with
  | .global n => (n, st)
  | _ =>
    let name := match l with
      | .var _ n => n
      | .inst π => lookupArgName st.names π
      | .global n => n
    match locIndex l st.seen 0 with
    | some i => (name ++ "#" ++ toString i, st)
    | none => (name ++ "#" ++ toString st.seen.length, { st with seen := st.seen ++ [l] })

def kindText : VarKind → String
  | .var => "var" | .let_ => "let" | .const_ => "const"

mutual
/-- token lists (joined by single spaces) -/
def serE (st : SerSt) : JExpr → List String × SerSt
  | .num n => ([toString n], st)
  | .str s => (["\"" ++ s ++ "\""], st)
  | .undef => (["undef"], st)
  | .var l => let (n, st) := serLoc st l; ([n], st)
  | .dot e name => let (a, st) := serE st e; (["(."] ++ a ++ [name, ")"], st)
  | .index e i => let (a, st) := serE st e; let (b, st) := serE st i; (["([]"] ++ a ++ b ++ [")"], st)
  | .assign a b => let (x, st) := serE st a; let (y, st) := serE st b; (["(="] ++ x ++ y ++ [")"], st)
  | .or a b => let (x, st) := serE st a; let (y, st) := serE st b; (["(||"] ++ x ++ y ++ [")"], st)
  | .orAssign a b => let (x, st) := serE st a; let (y, st) := serE st b; (["(||="] ++ x ++ y ++ [")"], st)
  | .add a b => let (x, st) := serE st a; let (y, st) := serE st b; (["(+"] ++ x ++ y ++ [")"], st)
  | .comma a b => let (x, st) := serE st a; let (y, st) := serE st b; (["(,"] ++ x ++ y ++ [")"], st)
  | .emptyObj => (["{}"], st)
  | .probe tag e => let (x, st) := serE st e; (["(call", "p", "\"" ++ tag ++ "\""] ++ x ++ [")"], st)
  | .call0 f => let (x, st) := serE st f; (["(call"] ++ x ++ [")"], st)
  | .iife arrow param body pe arg pure_ =>
    let (p, st) := serLoc st param
    let (b, st) := serL st false body none
    let (a, st) := serE st arg
    let fn := if arrow then ["(arrow", p, (if pe then "1" else "0"), "["] ++ b ++ ["]", ")"] else ["(fn", p, "["] ++ b ++ ["]", ")"]
    ([if pure_ then "(call!" else "(call"] ++ fn ++ a ++ [")"], st)
  | .inlined e c => let (x, st) := serE st e; (["(inl"] ++ x ++ [c, ")"], st)

/-- `open_`: kind/export of the declaration statement the previous declarators belong to (mangleStmts merges
    adjacent declarations of the same kind; the AST keeps them apart, the text shows them merged when `merge`).
    The `merge` flag of nested bodies is the same as the outer one: it is passed through `SerSt`. -/
def serL (st : SerSt) (dummy : Bool) : List JStmt → Option (VarKind × Bool) → List String × SerSt
  | [], open_ => ((if open_.isSome then ["]", ")"] else []), st)
  | .local_ kind exported l hasInit init :: rest, open_ =>
    let (n, st) := serLoc st l
    let (d, st) := if hasInit then (let (v, st) := serE st init; (["(", n, "="] ++ v ++ [")"], st)) else (["(", n, ")"], st)
    let same := st.merge && open_ == some (kind, exported)
    let head := if same then d
      else (if open_.isSome then ["]", ")"] else []) ++ ["(local", kindText kind, (if exported then "1" else "0"), "["] ++ d
    let (r, st) := serL st dummy rest (some (kind, exported))
    (head ++ r, st)
  | .expr e :: rest, open_ =>
    let (x, st) := serE st e
    let (r, st) := serL st dummy rest none
    ((if open_.isSome then ["]", ")"] else []) ++ ["(expr"] ++ x ++ [")"] ++ r, st)
  | .ret e :: rest, open_ =>
    let (x, st) := serE st e
    let (r, st) := serL st dummy rest none
    ((if open_.isSome then ["]", ")"] else []) ++ ["(ret"] ++ x ++ [")"] ++ r, st)
  | .func l body :: rest, open_ =>
    let (n, st) := serLoc st l
    let (x, st) := serE st body
    let (r, st) := serL st dummy rest none
    ((if open_.isSome then ["]", ")"] else []) ++ ["(func", n] ++ x ++ [")"] ++ r, st)
end

def serialize (o : Opts) (out : Output) : String :=
  " ".intercalate (serL { seen := [], names := out.argNames, merge := o.ms } false out.stmts none).1

/-! ### canonical text of a run -/

def showValue : Value → String
  | .undef => "u"
  | .num n => toString n
  | .str s => "'" ++ s
  | .obj id => "#" ++ toString id
  | .fn _ name => "fn:" ++ name

def showErr : Err → String
  | .reference => "ReferenceError"
  | .type_ => "TypeError"
  | .stuck => "stuck"
  | .fuel => "fuel"
  | .early => "early"

/-- array-index keys ascending first, then the others in insertion order (OrdinaryOwnPropertyKeys) -/
def isArrayIndex (k : String) : Option Nat :=
  match k.toNat? with
  | some n => if toString n = k ∧ n < 4294967295 then some n else none
  | none => none

def insertSorted (kv : Nat × String × Value) : List (Nat × String × Value) → List (Nat × String × Value)
  | [] => [kv]
  | x :: rest => if kv.1 < x.1 then kv :: x :: rest else x :: insertSorted kv rest

def orderedKeys (o : Obj) : List (String × Value) :=
  let idx := o.filterMap (fun (k, v) => (isArrayIndex k).map (fun n => (n, k, v)))
  let others := o.filter (fun (k, _) => (isArrayIndex k).isNone)
  (idx.foldl (fun acc x => insertSorted x acc) []).map (fun (_, k, v) => (k, v)) ++ others

/-- dump of the value graph below a value: objects numbered by first visit (`fuel` bounds the depth) -/
def dumpValue (heap : List Obj) : Nat → Value → List Nat → String × List Nat
  | 0, _, seen => ("…", seen)
  | fuel + 1, .obj id, seen =>
    match locIndexNat id seen 0 with
    | some i => ("@" ++ toString i, seen)
    | none =>
      let seen := seen ++ [id]
      let me := seen.length - 1
      let props := orderedKeys (heap[id]?.getD [])
      let (txt, seen) := props.foldl (fun (acc : String × List Nat) (kv : String × Value) =>
        let (t, s) := dumpValue heap fuel kv.2 acc.2
        (acc.1 ++ (if acc.1 = "" then "" else ",") ++ kv.1 ++ ":" ++ t, s)) ("", seen)
      ("@" ++ toString me ++ "{" ++ txt ++ "}", seen)
  | _ + 1, v, seen => (showValue v, seen)
where
  locIndexNat (id : Nat) : List Nat → Nat → Option Nat
    | [], _ => none
    | x :: rest, i => if x = id then some i else locIndexNat id rest (i + 1)

def topNames : Program → List String
  | [] => []
  | .ns _ _ name _ :: rest => name :: topNames rest
  | .enum_ _ name _ :: rest => name :: topNames rest
  | _ :: rest => topNames rest

def dedup : List String → List String → List String
  | [], acc => acc
  | x :: rest, acc => if acc.contains x then dedup rest acc else dedup rest (acc ++ [x])

def showRun {α} (P : Program) (r : Res α) : String :=
  let (s, outcome) := match r with
    | .ok _ s => (s, "ok")
    | .err e s => (s, showErr e)
  let trace := ";".intercalate (s.trace.map (fun (t, v) =>
    t ++ "=" ++ (match v with | .obj _ => (dumpValue s.heap 20 v []).1 | v => showValue v)))
  let graph :=
    if outcome = "ok" then
      ((dedup (topNames P) []).foldl (fun (acc : String × List Nat) n =>
        match s.store (.var [] n) with
        | some (.val v) => let (t, seen) := dumpValue s.heap 20 v acc.2; (acc.1 ++ " " ++ n ++ "=" ++ t, seen)
        | _ => (acc.1 ++ " " ++ n ++ "=u", acc.2)) ("", [])).1
    else ""
  "trace[" ++ trace ++ "] " ++ outcome ++ graph

def driver (args : List String) : String :=
  match args with
  | [op, opts, prog] =>
    match parseOpts opts, parseProgram prog with
    | some o, some P =>
      match op with
      | "compile" =>
        match compile o P with
        | .ok out => "ok " ++ serialize o out
        | .error .error => "error"
        | .error .unsupported => "unsupported"
      | "run" =>
        match compile o P with
        | .ok out => showRun P (runJs 64 out.stmts)
        | .error .error => "error"
        | .error .unsupported => "unsupported"
      | "spec" =>
        -- a run that leaves the specification's domain (Err.early) is shown as the compiled program's run
        match Spec.run o.letConst 64 P with
        | .err .early _ =>
          (match compile o P with
           | .ok out => showRun P (runJs 64 out.stmts)
           | .error _ => "error")
        | r => showRun P r
      | _ => "bad-op"
    | _, _ => "bad-op"
  | _ => "bad-op"

end EsbuildModel.TsNs.Driver
