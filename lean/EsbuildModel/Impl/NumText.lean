import EsbuildModel.Util.Wire
/-
Byte-text helpers shared by the models of the JS number printer (`Impl/NumPrint.lean`) and of the CSS number
mangler (`Impl/CssNumber.lean`).  A Go `[]byte`/`string` holding ASCII is a `List Char`.
-/
namespace EsbuildModel.NumText

/-- `bytes.IndexByte`; `none` = -1 -/
def indexOf (c : Char) : List Char → Option Nat
  | [] => none
  | x :: xs => if x = c then some 0 else (indexOf c xs).map (· + 1)

/-- `bytes.LastIndexByte`; `none` = -1 -/
def lastIndexOf (c : Char) : List Char → Option Nat
  | [] => none
  | x :: xs =>
    match lastIndexOf c xs with
    | some i => some (i + 1)
    | none => if x = c then some 0 else none

/-- number of leading '0' bytes (the loops `for … result[i] == '0' { i++ }`) -/
def countZeros : List Char → Nat
  | [] => 0
  | c :: r => if c = '0' then countZeros r + 1 else 0

/-- `c >= '0' && c <= '9'` on a byte -/
def isDig (c : Char) : Bool := 48 ≤ c.toNat && c.toNat ≤ 57

open Wire in
def showText (l : List Char) : String := hexUnits 2 (l.map Char.toNat)

open Wire in
def parseText (s : String) : Option (List Char) :=
  (parseHexUnits 2 s).map fun l => l.map Char.ofNat

end EsbuildModel.NumText
