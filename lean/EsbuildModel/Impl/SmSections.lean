/-
Model of the length bookkeeping in js_parser.ParseSourceMap (internal/js_parser/sourcemap_parser.go) when an
index source map ("sections") is flattened: the aggregated `sources` and `sourcesContent` arrays share one
index, sections may have a shorter, longer or missing `sourcesContent`, sections without version 3, without
mappings or without sources are skipped.  The padding `make([]SourceContent, sourceOffset-len(sourcesContent))`
panics if its length is negative; lengths are modelled as integers so that this shows up as `pad < 0`.
-/
import EsbuildModel.Util.Wire
namespace EsbuildModel.SmSections

structure Section where
  hasVersion : Bool
  hasMappings : Bool
  sources : Nat          -- length of the section's "sources"
  content : Nat          -- length of its "sourcesContent" (0 = absent or empty)
deriving Repr

structure St where
  s : Int                -- len(sources)
  c : Int                -- len(sourcesContent)
  panicked : Bool
deriving Repr, DecidableEq

def step (st : St) (x : Section) : St :=
  if st.panicked then st else
  if !x.hasVersion || !x.hasMappings || x.sources == 0 then st else
  let offset := st.s
  let s' := st.s + x.sources
  if x.content == 0 then { st with s := s' } else
  let pad := offset - st.c
  if pad < 0 then { st with s := s', panicked := true } else
  { s := s', c := offset + min x.content x.sources, panicked := false }

def run (xs : List Section) : St := xs.foldl step { s := 0, c := 0, panicked := false }

def driver (args : List String) : String :=
  match args with
  | [secs] =>
    let parse (s : String) : Option Section :=
      match s.splitOn ":" with
      | [v, m, a, b] => do
        let a ← a.toNat?; let b ← b.toNat?
        pure { hasVersion := v == "1", hasMappings := m == "1", sources := a, content := b }
      | _ => none
    match (if secs = "-" then some [] else (secs.splitOn ",").mapM parse) with
    | some xs =>
      let st := run xs
      if st.panicked then "PANIC"
      else if st.s == 0 then "nil"
      else s!"{st.s} {st.c}"
    | none => "bad-op"
  | _ => "bad-op"

end EsbuildModel.SmSections
