import EsbuildModel.Impl.Dfs
import EsbuildModel.Spec.CssImportCascade
import EsbuildModel.Util.Wire
/-!
# Model of the CSS import order of the linker (`internal/linker/linker.go`)

Transcribes, phase by phase, what `findImportedFilesInCSSOrder` DOES:

* phase 0 `visit`: depth-first post-order over the top-level `@import` rules; the chain of files being visited
  is the cycle check (`visited`), conditions of nested imports are appended to the wrapping list, pre-import
  `@layer` statements become an entry of their own, external imports become entries of their own;
* phase 1 `hoist`: when there is an external import, leading `@layer` entries and all external entries first;
* phase 2 `dedupe` (backward loop): an earlier copy of a file / external path is replaced by its layer names when a
  later kept copy makes it redundant (`isConditionalImportRedundant`);
* phase 3 `layerPass` (forward loop): simplification and removal of redundant `@layer` entries;
* phase 4 `mergeLayers`: adjacent `@layer` entries with equal conditions are merged;

and `findImportedCSSFilesInJSOrder` (`jsOrder`, the generic mark-on-entry post-order `Dfs.run`), and the text the
linker produces from the final list (`wrapRulesWithConditions`, rendered in a canonical bracket syntax that the
harness also derives from the real output).

The syntax of the inputs (`File`, `Import`, `Cond`, `Stmt`: what the CSS parser hands to the linker — `LayersPreImport`,
the top-level `@import` rules with `ImportConditions` (`cond = none` ⇔ `atImport.ImportConditions == nil`), the other
rules) is shared with the specification `Spec/CssImportCascade.lean`.

Not modelled: `composes` edges (local-css), imports loaded with the `empty` loader, the contents of rules.
Go's `[]int` indices into `order`/`wipOrder`: phase 2 reads `order[j].conditions` of later kept entries (never
mutated by the loop), so the model keeps the condition lists themselves; phase 3 keeps real indices into `wipOrder`
and an out-of-range index is `none` (= Go panic).
-/
namespace EsbuildModel.CssImport

open EsbuildModel.Spec.CssCascade (LayerName LayerTok Cond Target Import Stmt File Graph)

/-- `AST.LayersPostImport` as the parser's `recordAtLayerRule` collects it from the body -/
def postLayers (f : File) : List LayerName :=
  f.body.flatMap fun
    | .layers ns => ns
    | .rule _ own => if own.isEmpty then [] else [own]

inductive Kind
  | layers | ext | file
  deriving DecidableEq, Repr

/-- `cssImportOrder` -/
structure Entry where
  kind : Kind
  conds : List Cond
  layers : List LayerName := []
  ext : Nat := 0
  src : Nat := 0
  deriving DecidableEq, Repr

-- ------------------------------------------------------------------ phase 0: the traversal

/-- the loop over the top-level `@import` rules of one file; `rec` is the recursive `visit` -/
def visitImports (rec : Nat → List Cond → Option (List Entry)) (wrap : List Cond) :
    List Import → Option (List Entry)
  | [] => some []
  | im :: rest =>
    let conds := match im.cond with
      | none => wrap
      | some c => wrap ++ [c]
    match im.target with
    | .file j =>
      match rec j conds with
      | none => none
      | some a =>
        match visitImports rec wrap rest with
        | none => none
        | some b => some (a ++ b)
    | .ext p =>
      match visitImports rec wrap rest with
      | none => none
      | some b => some ({ kind := .ext, conds := conds, ext := p } :: b)

/-- `visit(sourceIndex, visited, wrappingConditions, …)`: the entries appended by this call.
`none`: index out of range (Go panic) or fuel exhausted (impossible with fuel > number of files). -/
def visit (g : Graph) : Nat → Nat → List Nat → List Cond → Option (List Entry)
  | 0, _, _, _ => none
  | fuel + 1, src, visited, wrap =>
    if visited.contains src then some []
    else
      match g[src]? with
      | none => none
      | some f =>
        let pre : List Entry :=
          if f.pre.isEmpty then [] else [{ kind := .layers, conds := wrap, layers := f.pre }]
        match visitImports (fun j c => visit g fuel j (visited ++ [src]) c) wrap f.imports with
        | none => none
        | some mid => some (pre ++ mid ++ [{ kind := .file, conds := wrap, src := src }])

/-- `for _, sourceIndex := range entryPoints { visit(sourceIndex, visited[:], nil, nil) }` -/
def visitAll (g : Graph) : List Nat → Option (List Entry)
  | [] => some []
  | e :: es =>
    match visit g (g.length + 1) e [] [] with
    | none => none
    | some a =>
      match visitAll g es with
      | none => none
      | some b => some (a ++ b)

-- ------------------------------------------------------------------ phase 1: external imports first

/-- pass 1: leading `@layer` entries and every external import -/
def pass1 : Bool → List Entry → List Entry
  | _, [] => []
  | isAtLayerPrefix, e :: es =>
    let keep := (e.kind == .layers && isAtLayerPrefix) || e.kind == .ext
    let p := if e.kind != .layers then false else isAtLayerPrefix
    if keep then e :: pass1 p es else pass1 p es

/-- pass 2: everything else -/
def pass2 : Bool → List Entry → List Entry
  | _, [] => []
  | isAtLayerPrefix, e :: es =>
    let keep := (e.kind != .layers || !isAtLayerPrefix) && e.kind != .ext
    let p := if e.kind != .layers then false else isAtLayerPrefix
    if keep then e :: pass2 p es else pass2 p es

def hoist (order : List Entry) : List Entry :=
  -- `hasExternalImport` is set exactly when an external entry is appended
  if order.any (fun e => e.kind == .ext) then pass1 true order ++ pass2 true order else order

-- ------------------------------------------------------------------ isConditionalImportRedundant

/-- loop body for one index: `a = earlier[i]`, `b = later[i]` -/
def condRedundant (a b : Cond) : Bool :=
  if a.layer = b.layer then
    let sameSupports := a.supports = b.supports
    let sameMedia := a.media = b.media
    (sameSupports && sameMedia) || (sameMedia && b.supports.isNone) || (sameSupports && b.media.isNone)
  else false

def isRedundant : List Cond → List Cond → Bool
  | _, [] => true
  | [], _ :: _ => false                       -- len(later) > len(earlier)
  | a :: as, b :: bs => condRedundant a b && isRedundant as bs

-- ------------------------------------------------------------------ phase 2: backward de-duplication

/-- a Go `map[key][]int`, with the conditions of the indexed (later, kept) entries instead of the indices -/
abbrev DupMap := List (Nat × List (List Cond))

def DupMap.get (m : DupMap) (k : Nat) : List (List Cond) :=
  match m.find? (fun kv => kv.1 == k) with
  | some kv => kv.2
  | none => []

def DupMap.set (m : DupMap) (k : Nat) (v : List (List Cond)) : DupMap :=
  (k, v) :: m.filter (fun kv => kv.1 != k)

/-- `LayersPostImport` of a source index that occurs in an entry (always in range: the entry was produced by a
successful `visit`, see `Lemmas.CssImport.visit_src_lt`) -/
def postOf (g : Graph) (src : Nat) : List LayerName :=
  match g[src]? with
  | some f => postLayers f
  | none => []

/-- the backward loop `for i := len(order) - 1; i >= 0; i--`: result for the suffix, and the two maps -/
def dedupe (g : Graph) : List Entry → List Entry × DupMap × DupMap
  | [] => ([], [], [])
  | e :: es =>
    let (es', files, exts) := dedupe g es
    match e.kind with
    | .file =>
      let duplicates := files.get e.src
      if duplicates.any (fun later => isRedundant e.conds later) then
        ({ e with kind := .layers, layers := postOf g e.src } :: es', files, exts)
      else (e :: es', files.set e.src (duplicates ++ [e.conds]), exts)
    | .ext =>
      let duplicates := exts.get e.ext
      if duplicates.any (fun later => isRedundant e.conds later) then
        ({ e with kind := .layers } :: es', files, exts)
      else (e :: es', files, exts.set e.ext (duplicates ++ [e.conds]))
    | .layers => (e :: es', files, exts)

-- ------------------------------------------------------------------ phase 3: forward pass over `@layer` entries

def isAnonLayer (c : Cond) : Bool := c.layer == some .anon

/-- "Truncate the conditions at the first anonymous layer" (and forget the layer names) -/
def truncateAnon (e : Entry) : Entry :=
  match e.conds.findIdx? isAnonLayer with
  | some i => { e with conds := e.conds.take i, layers := [] }
  | none => e

/-- "trim all conditions without layers" from the end -/
def trimNoLayer : List Cond → List Cond
  | [] => []
  | c :: cs =>
    match trimNoLayer cs with
    | [] => if c.layer.isSome then [c] else []
    | r => c :: r

/-- the simplification of an entry of kind `layers`; `none` = "Remove unnecessary entries entirely" -/
def simplifyLayers (e : Entry) : Option Entry :=
  let e := truncateAnon e
  let e := if e.layers.isEmpty then { e with conds := trimNoLayer e.conds } else e
  if e.conds.isEmpty && e.layers.isEmpty then none else some e

/-- `layerDuplicates []duplicateEntry` -/
abbrev LayerDups := List (List LayerName × List Nat)

/-- index of the key, appending a fresh record when absent -/
def findKey (d : LayerDups) (key : List LayerName) : Nat × LayerDups :=
  match d.findIdx? (fun r => r.1 == key) with
  | some i => (i, d)
  | none => (d.length, d ++ [(key, [])])

inductive Scan
  | miss
  | hit (first : Bool) (index : Nat)   -- `first`: j == len(duplicates)-1
  | panic
  deriving DecidableEq, Repr

/-- `for j := len(duplicates) - 1; j >= 0; j--` looking for the first redundancy hit; argument: the indices reversed -/
def scanDups (conds : List Cond) (wip : List Entry) : List Nat → Bool → Scan
  | [], _ => .miss
  | index :: rest, first =>
    match wip[index]? with
    | none => .panic
    | some o => if isRedundant conds o.conds then .hit first index else scanDups conds wip rest false

def setIndices (d : LayerDups) (i : Nat) (v : List Nat) : LayerDups :=
  d.mapIdx (fun k r => if k = i then (r.1, v) else r)

/-- one iteration of `nextForward` for an entry that survived the simplification -/
def layerStep (g : Graph) (entry : Entry) (wip : List Entry) (d : LayerDups) : Option (List Entry × LayerDups) :=
  let layersKey := if entry.kind == .file then postOf g entry.src else entry.layers
  let (index, d) := findKey d layersKey
  match d[index]? with
  | none => none
  | some rec =>
    let duplicates := rec.2
    match scanDups entry.conds wip duplicates.reverse true with
    | .panic => none
    | .miss => some (wip ++ [entry], setIndices d index (duplicates ++ [wip.length]))
    | .hit first idx =>
      if entry.kind != .layers then
        if first && idx + 1 == wip.length then
          match wip[idx]? with
          | none => none
          | some other =>
            if other.kind == .layers && entry.conds == other.conds then
              -- remove the previous entry, then fall through to the append below
              let duplicates := duplicates.dropLast
              let wip := wip.take idx
              some (wip ++ [entry], setIndices d index (duplicates ++ [wip.length]))
            else some (wip ++ [entry], d)
        else some (wip ++ [entry], d)
      else some (wip, d)

def layerLoop (g : Graph) : List Entry → List Entry → LayerDups → Option (List Entry)
  | [], wip, _ => some wip
  | e :: es, wip, d =>
    let e' := if e.kind == .layers then simplifyLayers e else some e
    match e' with
    | none => layerLoop g es wip d
    | some entry =>
      match layerStep g entry wip d with
      | none => none
      | some (wip, d) => layerLoop g es wip d

def layerPass (g : Graph) (order : List Entry) : Option (List Entry) := layerLoop g order [] []

-- ------------------------------------------------------------------ phase 4: merge adjacent `@layer` entries

def mergeStep (wip : List Entry) (entry : Entry) : List Entry :=
  match wip.getLast? with
  | some prev =>
    if entry.kind == .layers && prev.kind == .layers && prev.conds == entry.conds then
      wip.dropLast ++ [{ prev with layers := prev.layers ++ entry.layers }]
    else wip ++ [entry]
  | none => wip ++ [entry]

def mergeLayers (order : List Entry) : List Entry := order.foldl mergeStep []

-- ------------------------------------------------------------------ the whole function

def findOrder (g : Graph) (entryPoints : List Nat) : Option (List Entry) :=
  match visitAll g entryPoints with
  | none => none
  | some order =>
    match layerPass g (dedupe g (hoist order)).1 with
    | none => none
    | some order => some (mergeLayers order)

-- ------------------------------------------------------------------ findImportedCSSFilesInJSOrder

/-- an import record of a JavaScript file with a valid source index: another JavaScript file, or the stub of a
CSS file (`repr.CSSSourceIndex`) -/
inductive JsImport
  | js (k : Nat)
  | css (i : Nat)
  deriving DecidableEq, Repr

/-- nodes `0 … m-1` are the JavaScript files, node `m + i` is the JavaScript stub of CSS file `i` -/
def jsSucc (js : List (List JsImport)) (nCss : Nat) (node : Nat) : Option (List Nat) :=
  match js[node]? with
  | some ims => some (ims.map fun | .js k => k | .css i => js.length + i)
  | none => if node < js.length + nCss then some [] else none

/-- post-order with mark-on-entry from the entry point; only nodes with a `CSSSourceIndex` are appended -/
def jsOrder (js : List (List JsImport)) (nCss : Nat) (entry : Nat) : Option (List Nat) :=
  (Dfs.run (jsSucc js nCss) (js.length + nCss) [entry]).map
    (fun o => o.filterMap (fun node => if node < js.length then none else some (node - js.length)))

-- ------------------------------------------------------------------ the output text (canonical bracket syntax)

def showName (n : LayerName) : String := ".".intercalate n

def showNames (ns : List LayerName) : String := "+".intercalate (ns.map showName)

/-- one iteration of the loop of `wrapRulesWithConditions` (layer, then supports, then media) -/
def wrapOne (c : Cond) (rules : List String) : List String :=
  let rules := match c.layer with
    | none => rules
    | some .anon => if rules.isEmpty then rules else ["L*{" ++ String.join rules ++ "}"]
    | some (.named n) =>
      if rules.isEmpty then ["Y" ++ showName n ++ ";"] else ["L" ++ showName n ++ "{" ++ String.join rules ++ "}"]
  let rules := match c.supports with
    | some s => if rules.isEmpty then rules else ["S" ++ toString s ++ "{" ++ String.join rules ++ "}"]
    | none => rules
  match c.media with
  | some m => if rules.isEmpty then rules else ["M" ++ toString m ++ "{" ++ String.join rules ++ "}"]
  | none => rules

/-- `for i := len(conditions) - 1; i >= 0; i--` -/
def wrapRules (conds : List Cond) (rules : List String) : List String := conds.foldr wrapOne rules

def showStmt : Stmt → String
  | .layers ns => "Y" ++ showNames ns ++ ";"
  | .rule id own => if own.isEmpty then "R" ++ toString id ++ ";" else "L" ++ showName own ++ "{R" ++ toString id ++ ";}"

def showCond (c : Cond) : String :=
  (match c.layer with | none => "" | some .anon => ":L*" | some (.named n) => ":L" ++ showName n) ++
  (match c.supports with | none => "" | some s => ":S" ++ toString s) ++
  (match c.media with | none => "" | some m => ":M" ++ toString m)

/-- what `generateChunkCSS` prints for one entry -/
def renderEntry (g : Graph) (e : Entry) : String :=
  match e.kind with
  | .layers =>
    String.join (wrapRules e.conds (if e.layers.isEmpty then [] else ["Y" ++ showNames e.layers ++ ";"]))
  | .ext => "X" ++ toString e.ext ++ String.join (e.conds.map (fun c => "|" ++ showCond c)) ++ ";"
  | .file =>
    match g[e.src]? with
    | none => "PANIC"
    | some f => String.join (wrapRules e.conds (f.body.map showStmt))

def render (g : Graph) (order : List Entry) : String :=
  let s := String.join (order.map (renderEntry g))
  if s.isEmpty then "-" else s

-- ------------------------------------------------------------------ line protocol

def parseName (s : String) : Option LayerName :=
  let parts := s.splitOn "."
  if parts.any (·.isEmpty) then none else some parts

def parseNames (sep : String) (s : String) : Option (List LayerName) :=
  if s = "-" then some [] else (s.splitOn sep).mapM parseName

def parseCondPart (c : Cond) (p : String) : Option Cond :=
  match p.toList with
  | 'L' :: '*' :: [] => if c.layer.isSome then none else some { c with layer := some .anon }
  | 'L' :: rest => if c.layer.isSome then none else (parseName (String.ofList rest)).map fun n => { c with layer := some (.named n) }
  | 'S' :: rest => if c.supports.isSome then none else (String.ofList rest).toNat?.map fun n => { c with supports := some n }
  | 'M' :: rest => if c.media.isSome then none else (String.ofList rest).toNat?.map fun n => { c with media := some n }
  | _ => none

def parseImport (s : String) : Option Import :=
  match s.splitOn ":" with
  | [] => none
  | t :: parts =>
    let target : Option Target := match t.toList with
      | 'F' :: rest => (String.ofList rest).toNat?.map Target.file
      | 'X' :: rest => (String.ofList rest).toNat?.map Target.ext
      | _ => none
    match target with
    | none => none
    | some target =>
      if parts.isEmpty then some ⟨target, none⟩
      else (parts.foldlM parseCondPart ⟨none, none, none⟩).map fun c => ⟨target, some c⟩

def parseStmt (s : String) : Option Stmt :=
  match s.toList with
  | 'Y' :: rest => (parseNames "+" (String.ofList rest)).bind fun ns => if ns.isEmpty then none else some (.layers ns)
  | 'R' :: rest =>
    match (String.ofList rest).splitOn "@" with
    | [id] => id.toNat?.map fun n => .rule n []
    | [id, own] => id.toNat?.bind fun n => (parseName own).map fun o => .rule n o
    | _ => none
  | _ => none

def parseList {α : Type} (f : String → Option α) (s : String) : Option (List α) :=
  if s = "-" then some [] else (s.splitOn ",").mapM f

def parseFile (s : String) : Option File :=
  match s.splitOn "/" with
  | [pre, ims, body] =>
    match parseNames "," pre, parseList parseImport ims, parseList parseStmt body with
    | some pre, some ims, some body => some ⟨pre, ims, body⟩
    | _, _, _ => none
  | _ => none

def parseGraph (s : String) : Option Graph := (s.splitOn ";").mapM parseFile

def parseJsImport (s : String) : Option JsImport :=
  match s.toList with
  | 'J' :: rest => (String.ofList rest).toNat?.map JsImport.js
  | 'C' :: rest => (String.ofList rest).toNat?.map JsImport.css
  | _ => none

def parseJs (s : String) : Option (List (List JsImport)) := (s.splitOn ";").mapM (parseList parseJsImport)

-- ------------------------------------------------------------------ branch trace (evidence only; no theorem uses it)

/-- which branch one iteration of the forward pass takes -/
def stepTag (g : Graph) (entry : Entry) (wip : List Entry) (d : LayerDups) : String :=
  let layersKey := if entry.kind == .file then postOf g entry.src else entry.layers
  let isNew := (d.findIdx? (fun r => r.1 == layersKey)).isNone
  let (index, d) := findKey d layersKey
  match d[index]? with
  | none => "l3-panic"
  | some rec =>
    match scanDups entry.conds wip rec.2.reverse true with
    | .panic => "l3-panic"
    | .miss => if isNew then "l3-miss-new-key" else "l3-miss-old-key"
    | .hit first idx =>
      if entry.kind != .layers then
        if first && idx + 1 == wip.length then
          match wip[idx]? with
          | some other =>
            if other.kind == .layers && entry.conds == other.conds then "l3-hit-replace-previous-layer-entry"
            else "l3-hit-keep(previous-not-equal)"
          | none => "l3-panic"
        else "l3-hit-keep(not-adjacent)"
      else if first then "l3-hit-drop-layers(last-duplicate)" else "l3-hit-drop-layers(older-duplicate)"

def layerTrace (g : Graph) : List Entry → List Entry → LayerDups → List String → List String
  | [], _, _, acc => acc
  | e :: es, wip, d, acc =>
    let e' := if e.kind == .layers then simplifyLayers e else some e
    match e' with
    | none => layerTrace g es wip d ("l3-simplify-removed" :: acc)
    | some entry =>
      let acc :=
        if entry.conds.length < e.conds.length then
          (if e.conds.any isAnonLayer then "l3-simplify-anon-truncated" else "l3-simplify-trimmed") :: acc
        else acc
      match layerStep g entry wip d with
      | none => "l3-panic" :: acc
      | some (wip', d') => layerTrace g es wip' d' (stepTag g entry wip d :: acc)

/-- number of `@import`s that are cut because the target is in its own import chain -/
def cycleCuts (g : Graph) : Nat → Nat → List Nat → Nat
  | 0, _, _ => 0
  | fuel + 1, src, visited =>
    if visited.contains src then 1
    else match g[src]? with
      | none => 0
      | some f => (f.imports.map fun im => match im.target with
          | .file j => cycleCuts g fuel j (visited ++ [src])
          | .ext _ => 0).sum

/-- which alternative of `isConditionalImportRedundant` decides for a pair of condition lists -/
def redTags : List Cond → List Cond → List String
  | _, [] => ["red-yes"]
  | [], _ :: _ => ["red-no(later-is-longer)"]
  | a :: as, b :: bs =>
    if a.layer = b.layer then
      if a.supports = b.supports && a.media = b.media then "red-cond-equal" :: redTags as bs
      else if a.media = b.media && b.supports.isNone then "red-cond-later-has-no-supports" :: redTags as bs
      else if a.supports = b.supports && b.media.isNone then "red-cond-later-has-no-media" :: redTags as bs
      else ["red-no(supports-or-media-differ)"]
    else ["red-no(layers-differ)"]

def pairTags : List Entry → List String
  | [] => []
  | a :: rest =>
    (rest.flatMap fun b =>
      if (a.kind == .file && b.kind == .file && a.src == b.src) || (a.kind == .ext && b.kind == .ext && a.ext == b.ext)
      then redTags a.conds b.conds else []) ++ pairTags rest

def insertTag (t : String) : List String → List String
  | [] => [t]
  | x :: xs => if t < x then t :: x :: xs else if t = x then x :: xs else x :: insertTag t xs

def traceOrder (g : Graph) (entryPoints : List Nat) : String :=
  match visitAll g entryPoints with
  | none => "visit-panic"
  | some o0 =>
    let h := hoist o0
    let d := (dedupe g h).1
    let tags : List String :=
      (if (entryPoints.map fun e => cycleCuts g (g.length + 1) e []).sum > 0 then ["p0-cycle-cut"] else []) ++
      (if o0.any (fun e => e.kind == .layers) then ["p0-pre-import-layers-entry"] else []) ++
      (if o0.any (fun e => e.kind == .ext) then ["p1-hoist"] else ["p1-no-external"]) ++
      (if h != o0 then ["p1-order-changed"] else []) ++
      (if (pass1 true o0).any (fun e => e.kind == .layers) then ["p1-leading-layers-kept-first"] else []) ++
      (if (List.zip h d).any (fun p => p.1.kind == .file && p.2.kind == .layers) then ["p2-file-copy-dropped"] else []) ++
      (if (List.zip h d).any (fun p => p.1.kind == .ext && p.2.kind == .layers) then ["p2-external-copy-dropped"] else []) ++
      (if (h.filter (fun e => e.kind == .file)).length >
          ((h.filter (fun e => e.kind == .file)).map (·.src)).eraseDups.length &&
          d.filter (fun e => e.kind == .file) == h.filter (fun e => e.kind == .file)
        then ["p2-duplicates-all-kept"] else []) ++
      layerTrace g d [] [] [] ++ pairTags h ++
      (match layerPass g d with
        | some o3 => if (mergeLayers o3).length < o3.length then ["p4-merged"] else ["p4-nothing-to-merge"]
        | none => [])
    ",".intercalate (tags.foldr insertTag [])

def showOrder (g : Graph) : Option (List Entry) → String
  | none => "PANIC"
  | some order => render g order

def driver (args : List String) : String :=
  match args with
  | ["css", entry, files] =>
    match entry.toNat?, parseGraph files with
    | some e, some g => showOrder g (findOrder g [e])
    | _, _ => "bad-op"
  | ["js", js, files] =>
    match parseJs js, parseGraph files with
    | some j, some g =>
      match jsOrder j g.length 0 with
      | none => "PANIC"
      | some [] => "nochunk"
      | some roots => showOrder g (findOrder g roots)
    | _, _ => "bad-op"
  | ["trace-css", entry, files] =>
    match entry.toNat?, parseGraph files with
    | some e, some g => traceOrder g [e]
    | _, _ => "bad-op"
  | ["trace-js", js, files] =>
    match parseJs js, parseGraph files with
    | some j, some g =>
      match jsOrder j g.length 0 with
      | none => "PANIC"
      | some [] => "nochunk"
      | some roots => (if roots.length > 1 then "js-several-roots," else "js-one-root,") ++ traceOrder g roots
    | _, _ => "bad-op"
  | _ => "bad-op"

end EsbuildModel.CssImport
