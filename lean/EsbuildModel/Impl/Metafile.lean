import EsbuildModel.Impl.Pieces
/-
Model of how the linker accounts, in the metafile, for the bytes of one output file
(internal/linker/linker.go):

* `generateChunkJS` / `generateChunkCSS`, the part that joins the compile results into the chunk text
  ("Concatenate the generated JavaScript chunks together", "Concatenate the generated CSS chunks together"):
  the `// path` / `/* path */` comments, the newline in front of them, `prevFileNameComment`,
  `OmitFromSourceMapsAndMetafile`, `metaOrder` / `metaBytes` (JS) and `metaOrder` / `metaCounts` (CSS);
* `breakJoinerIntoPieces` (with its "no placeholder" shortcut over the parts of the joiner),
  `breakOutputIntoPieces` on the whole chunk and on every slice of every input;
* the lazily finished metadata (`jsonMetadataChunkCallback`): `accurateFinalByteCount` summed per input, the
  text of the `"inputs"` object and of `"bytes"`, incl. `MetafileFormat.MaybeRemoveWhitespace`;
* what `generateChunksInParallel` appends after `substituteFinalPaths`: the link to the legal comments file and
  the source map comment (each after `EnsureNewlineAtEnd`), and `len(outputContents)` handed to the callback.

* the JSON of one output entry (`imports`, `exports`, `entryPoint`, `cssBundle`, `inputs`, `bytes`) and its own
  path substitution (`breakJoinerIntoPieces` + `substituteFinalPaths` with pretty paths);
* internal/bundler/bundler.go: the metadata chunk of an input file (`bytes`, `imports`, `format`) and
  `generateMetadataJSON` (without import attributes and without the filter for duplicate output paths).

Everything in front of the first compile result (hashbang, banner, directives, IIFE opener, cross-chunk
imports) and behind the last one (entry-point tail, cross-chunk exports, IIFE closer, final newline, legal
comments, footer) is a given byte string here (`head`, `tail`): text nobody owns.
Placeholders are told apart by `Kind` (asset / chunk) AND index, as in `outputPiece`.
Bytes are `Nat`s < 256.
-/
namespace EsbuildModel.Metafile
open EsbuildModel.Pieces

abbrev Bytes := List Nat

/-- ASCII text of a Go string literal -/
def str (s : String) : Bytes := s.toList.map (·.toNat)

/-- `fmt.Sprintf("%d", n)` for n ≥ 0 -/
def dec (n : Nat) : Bytes := str (toString n)

/-- the linker context as far as the piece scanner reads it -/
structure Cfg where
  pre : Bytes
  nFiles : Nat
  nChunks : Nat
  deriving Repr

/-- `breakOutputIntoPieces` (the loop runs at most once per 9 bytes of input) -/
def brk (c : Cfg) (out : Bytes) : List Piece :=
  breakOutput c.pre c.nFiles c.nChunks (out.length + 1) out

/-- `strings.Contains` / `bytes.Contains` -/
def contains (pre s : Bytes) : Bool := (indexOf pre s).isSome

/-- `breakJoinerIntoPieces`: `none` = the joiner is kept (`pieces == nil`), else the pieces of `j.Done()`.
`Joiner.Contains` looks at every added part on its own. -/
def breakJoiner (c : Cfg) (parts : List Bytes) : Option (List Piece) :=
  if parts.any (contains c.pre) then some (brk c parts.flatten) else none

/-- `substituteFinalPaths(...).Done()` on the result of `breakJoiner` -/
def substJoiner (f : Kind → Nat → Bytes) (parts : List Bytes) : Option (List Piece) → Bytes
  | none => parts.flatten
  | some ps => substitute f ps

/-- `Joiner.EnsureNewlineAtEnd` seen on the joined bytes -/
def ensureNewline (b : Bytes) : Bytes :=
  match b.getLast? with
  | none => b
  | some c => if c = 10 then b else b ++ [10]

-- ---------------------------------------------------------------- segments

/-- a stretch of the chunk text and the input it is accounted to (`none`: nobody) -/
structure Seg where
  owner : Option Nat
  text : Bytes
  deriving Repr, DecidableEq

/-- the slices of one input, in order of appearance -/
def owned (segs : List Seg) (s : Nat) : List Bytes :=
  (segs.filter (fun g => g.owner == some s)).map (·.text)

/-- the text nobody owns, in order of appearance -/
def unowned (segs : List Seg) : List Bytes :=
  (segs.filter (fun g => g.owner == none)).map (·.text)

-- ---------------------------------------------------------------- counting

/-- `accurateFinalByteCount(c.breakOutputIntoPieces(slice), finalRelDir)` -/
def sliceCount (c : Cfg) (f : Kind → Nat → Bytes) (slice : Bytes) : Nat := byteCount f (brk c slice)

/-- the `count` of one entry of `"inputs"`: the sum over the slices of the input -/
def inputCount (c : Cfg) (f : Kind → Nat → Bytes) (slices : List Bytes) : Nat :=
  (slices.map (sliceCount c f)).sum

/-- what one slice becomes when the final paths are put in -/
def sliceFinal (c : Cfg) (f : Kind → Nat → Bytes) (slice : Bytes) : Bytes := substitute f (brk c slice)

-- ---------------------------------------------------------------- metaOrder / metaBytes

/-- `metaOrder` and `metaBytes` in one association list (keys in order of first appearance) -/
abbrev MetaMap := List (Nat × List Bytes)

/-- `bytes, ok := metaBytes[s]; if !ok { metaOrder = append(metaOrder, s) }; metaBytes[s] = append(bytes, js)` -/
def metaAdd : MetaMap → Nat → Bytes → MetaMap
  | [], s, b => [(s, [b])]
  | (k, v) :: m, s, b => if k = s then (k, v ++ [b]) :: m else (k, v) :: metaAdd m s b

def metaLookup : MetaMap → Nat → Option (List Bytes)
  | [], _ => none
  | (k, v) :: m, s => if k = s then some v else metaLookup m s

-- ---------------------------------------------------------------- the JavaScript loop

/-- one `compileResultJS` -/
structure CR where
  src : Nat
  /-- `InputFile.OmitFromSourceMapsAndMetafile` (the runtime) -/
  omitted : Bool
  code : Bytes
  /-- `PrettyPaths.Select(CodePathStyle)` -/
  path : Bytes
  deriving Repr

/-- `strings.ReplaceAll` of CR, LF, U+2028 and U+2029 in the path of the comment -/
def escapePath : Bytes → Bytes
  | [] => []
  | 13 :: r => str "\\r" ++ escapePath r
  | 10 :: r => str "\\n" ++ escapePath r
  | 226 :: 128 :: 168 :: r => str "\\u2028" ++ escapePath r
  | 226 :: 128 :: 169 :: r => str "\\u2029" ++ escapePath r
  | c :: r => c :: escapePath r

structure JSOpts where
  /-- `Mode == ModeBundle && !MinifyWhitespace` -/
  comments : Bool
  /-- "  " inside an IIFE -/
  indent : Bytes
  deriving Repr

/-- "Add a comment with the file path before the file contents": is it added for this compile result? -/
def jsWithComment (o : JSOpts) (prev : Nat) (cr : CR) : Bool :=
  o.comments && prev != cr.src && !cr.code.isEmpty

/-- the newline and the `// path` comment in front of a compile result -/
def jsFront (o : JSOpts) (nbc : Bool) (prev : Nat) (cr : CR) : List Seg :=
  if jsWithComment o prev cr then
    (if nbc then [⟨none, [10]⟩] else []) ++ [⟨none, o.indent ++ str "// " ++ escapePath cr.path ++ [10]⟩]
  else []

/-- the `for _, compileResult := range compileResults` loop of `generateChunkJS` (with `NeedsMetafile`):
state = `newlineBeforeComment`, `prevFileNameComment`, `metaOrder`/`metaBytes`; result = what was added to
the joiner, with the owner of every addition, and the final map. -/
def jsLoop (o : JSOpts) : Bool → Nat → MetaMap → List CR → List Seg × MetaMap
  | _, _, m, [] => ([], m)
  | nbc, prev, m, cr :: rest =>
    let prev' := if jsWithComment o prev cr then cr.src else prev
    let own : Option Nat := if cr.omitted then none else some cr.src
    let m' := if cr.omitted then m else metaAdd m cr.src cr.code
    let r := jsLoop o (nbc || !cr.code.isEmpty) prev' m' rest
    (jsFront o nbc prev cr ++ ⟨own, cr.code⟩ :: r.1, r.2)

/-- all additions to the joiner of a JavaScript chunk. `prevFileNameComment` starts at 0 (the source index of the
runtime). `newlineBeforeComment` is taken to be false at the start of the loop: in `generateChunkJS` it is set by
the hashbang / banner / directives / cross-chunk imports, a comment is only printed together with non-empty code
(which sets the flag for good), so the start value decides nothing but a newline in front of the FIRST comment,
and that newline is counted to `head` here. -/
def jsSegs (o : JSOpts) (head tail : Bytes) (crs : List CR) : List Seg :=
  ⟨none, head⟩ :: (jsLoop o false 0 [] crs).1 ++ [⟨none, tail⟩]

def jsMeta (o : JSOpts) (crs : List CR) : MetaMap := (jsLoop o false 0 [] crs).2

-- ---------------------------------------------------------------- the CSS loop

/-- one `compileResultCSS` (`src = none`: `sourceIndex` invalid) -/
structure CRC where
  src : Option Nat
  code : Bytes
  path : Bytes
  deriving Repr

/-- the `/* path */` comment (with the newline in front of it) of a compile result that has a source -/
def cssFront (comments nbc : Bool) (cr : CRC) : List Seg :=
  if comments && cr.src.isSome then
    [⟨none, (if nbc then [10] else []) ++ str "/* " ++ cr.path ++ str " */\n"⟩]
  else []

/-- the `for _, compileResult := range compileResults` loop of `generateChunkCSS` -/
def cssLoop (comments : Bool) : Bool → List CRC → List Seg
  | _, [] => []
  | nbc, cr :: rest =>
    cssFront comments nbc cr ++ ⟨cr.src, cr.code⟩ :: cssLoop comments (nbc || !cr.code.isEmpty) rest

/-- all additions to the joiner of a CSS chunk; `nbc0`: an `@charset` rule was printed in front
(`newlineBeforeComment = true` before the loop) -/
def cssSegs (comments nbc0 : Bool) (head tail : Bytes) (crs : List CRC) : List Seg :=
  ⟨none, head⟩ :: cssLoop comments nbc0 crs ++ [⟨none, tail⟩]

-- ---------------------------------------------------------------- after the substitution

/-- what `generateChunksInParallel` appends to the substituted chunk -/
structure Post where
  isCSS : Bool
  /-- `LegalCommentsLinkedWithComment` and the chunk has external legal comments: the import path -/
  legalLink : Option Bytes
  /-- the URL of the trailing source map comment (linked: escaped path, inline: the `data:` URL) -/
  smURL : Option Bytes
  deriving Repr

def legalLinkText (l : Bytes) : Bytes := str "/*! For license information please see " ++ l ++ str " */\n"

def smCommentText (isCSS : Bool) (u : Bytes) : Bytes :=
  (if isCSS then str "/*" else str "//") ++ str "# sourceMappingURL=" ++ u ++ (if isCSS then str " */" else []) ++ [10]

/-- `outputContents` given the substituted chunk -/
def finish (p : Post) (b : Bytes) : Bytes :=
  let b1 := match p.legalLink with
    | none => b
    | some l => ensureNewline b ++ legalLinkText l
  match p.smURL with
  | none => b1
  | some u => ensureNewline b1 ++ smCommentText p.isCSS u

/-- the bytes of one output file: the chunk text broken into pieces as a whole, paths put in, comments appended -/
def outputContents (c : Cfg) (f : Kind → Nat → Bytes) (p : Post) (segs : List Seg) : Bytes :=
  let parts := segs.map (·.text)
  finish p (substJoiner f parts (breakJoiner c parts))

-- ---------------------------------------------------------------- the JSON of one output

/-- `MetafileFormat.MaybeRemoveWhitespace` of a format string (given in the pieces between its verbs) -/
def mrw (min : Bool) (s : String) : Bytes :=
  if min then (str s).filter (fun c => c != 32 && c != 10) else str s

/-- `"\n        %s: {\n          \"bytesInOutput\": %d\n        %s}"` with an empty third argument -/
def jsonEntry (min : Bool) (e : Bytes × Nat) : Bytes :=
  mrw min "\n        " ++ e.1 ++ mrw min ": {\n          \"bytesInOutput\": " ++ dec e.2 ++ mrw min "\n        " ++ mrw min "}"

/-- items separated by "," (`if i > 0 { AddString(",") }`) -/
def commaJoin : List Bytes → Bytes
  | [] => []
  | [x] => x
  | x :: xs => x ++ [44] ++ commaJoin xs

/-- `"},\n      \"bytes\": %d\n    }"` -/
def jsonBytes (min : Bool) (size : Nat) : Bytes :=
  mrw min "},\n      \"bytes\": " ++ dec size ++ mrw min "\n    }"

/-- JavaScript: what the callback adds to `jMeta`: one entry per key of `metaOrder` -/
def jsonTailJS (min : Bool) (c : Cfg) (f : Kind → Nat → Bytes) (nameOf : Nat → Bytes) (m : MetaMap) (size : Nat) : Bytes :=
  commaJoin (m.map fun kv => jsonEntry min (nameOf kv.1, inputCount c f kv.2))
    ++ (if m.isEmpty then [] else mrw min "\n      ") ++ jsonBytes min size

/-- `metaOrder` and `metaCounts` of the CSS callback in one association list (keys in order of first appearance) -/
abbrev CountMap := List (Nat × Nat)

/-- `if _, ok := metaCounts[s]; !ok { metaOrder = append(metaOrder, s) }; metaCounts[s] += n` -/
def countAdd : CountMap → Nat → Nat → CountMap
  | [], s, n => [(s, n)]
  | (k, v) :: m, s, n => if k = s then (k, v + n) :: m else (k, v) :: countAdd m s n

/-- the first loop of the CSS `jsonMetadataChunkCallback`: compile results without a source index are skipped,
the counts of the others are summed per source index -/
def cssCounts (c : Cfg) (f : Kind → Nat → Bytes) : CountMap → List CRC → CountMap
  | m, [] => m
  | m, cr :: rest =>
    match cr.src with
    | none => cssCounts c f m rest
    | some s => cssCounts c f (countAdd m s (sliceCount c f cr.code)) rest

/-- the (source, bytesInOutput) pairs of a CSS output, in the order of the JSON text: one per source index
(a file that is in the chunk more than once has a single entry) -/
def entriesCSS (c : Cfg) (f : Kind → Nat → Bytes) (crs : List CRC) : List (Nat × Nat) := cssCounts c f [] crs

/-- CSS: one entry per source index in `metaOrder`; the closing indentation depends on `len(compileResults)` -/
def jsonTailCSS (min : Bool) (c : Cfg) (f : Kind → Nat → Bytes) (nameOf : Nat → Bytes) (crs : List CRC) (size : Nat) : Bytes :=
  commaJoin ((entriesCSS c f crs).map fun e => jsonEntry min (nameOf e.1, e.2))
    ++ (if crs.isEmpty then [] else mrw min "\n      ") ++ jsonBytes min size

/-- one import of the output as the printers record it -/
structure JImport where
  /-- `QuoteForJSON(record.Path.Text)`: may hold a unique key -/
  path : Bytes
  /-- `QuoteForJSON(kind.StringForMetafile())` -/
  kind : Bytes
  external : Bool
  deriving Repr

/-- `"\n        {\n          \"path\": %s,\n          \"kind\": %s%s\n        }"` -/
def jsonImport (min : Bool) (i : JImport) : Bytes :=
  mrw min "\n        {\n          \"path\": " ++ i.path ++ mrw min ",\n          \"kind\": " ++ i.kind
    ++ (if i.external then mrw min ",\n          \"external\": true" else []) ++ mrw min "\n        }"

structure JHead where
  imports : List JImport
  /-- quoted aliases, sorted (JS only) -/
  exports : List Bytes
  /-- quoted pretty path of the entry point -/
  entryPoint : Option Bytes
  /-- quoted unique key of the CSS chunk (JS only) -/
  cssBundle : Option Bytes
  deriving Repr

/-- "Start the metadata" of `generateChunkJS` -/
def jsonHeadJS (min : Bool) (h : JHead) : Bytes :=
  mrw min "{\n      \"imports\": [" ++ commaJoin (h.imports.map (jsonImport min))
    ++ (if h.imports.isEmpty then [] else mrw min "\n      ")
    ++ mrw min "],\n      \"exports\": [" ++ commaJoin (h.exports.map fun a => mrw min "\n        " ++ a)
    ++ (if h.exports.isEmpty then [] else mrw min "\n      ")
    ++ mrw min "],\n"
    ++ (match h.entryPoint with | none => [] | some e => mrw min "      \"entryPoint\": " ++ e ++ mrw min ",\n")
    ++ (match h.cssBundle with | none => [] | some k => mrw min "      \"cssBundle\": " ++ k ++ mrw min ",\n")
    ++ mrw min "      \"inputs\": {"

/-- "Start the metadata" of `generateChunkCSS` -/
def jsonHeadCSS (min : Bool) (h : JHead) : Bytes :=
  mrw min "{\n      \"imports\": [" ++ commaJoin (h.imports.map (jsonImport min))
    ++ (if h.imports.isEmpty then [] else mrw min "\n      ")
    ++ (match h.entryPoint with
        | none => mrw min "],\n      \"inputs\": {"
        | some e => mrw min "],\n      \"entryPoint\": " ++ e ++ mrw min ",\n      \"inputs\": {")

/-- `JSONMetadataChunk`: the joined metadata goes through `breakJoinerIntoPieces` and `substituteFinalPaths`
with the pretty-path function `fj` -/
def jsonChunk (c : Cfg) (fj : Kind → Nat → Bytes) (head tail : Bytes) : Bytes :=
  substJoiner fj [head, tail] (breakJoiner c [head, tail])

/-- the numbers a reader of the JSON object gets: for a duplicate key the LAST value wins
(ECMA-262 `JSON.parse`, Go `encoding/json` into a map) -/
def jsonRead (entries : List (Nat × Nat)) (s : Nat) : Option Nat :=
  ((entries.filter (fun e => e.1 == s)).getLast?).map (·.2)

/-- the (source, bytesInOutput) pairs of a JavaScript output, in the order of the JSON text -/
def entriesJS (c : Cfg) (f : Kind → Nat → Bytes) (m : MetaMap) : List (Nat × Nat) :=
  m.map fun kv => (kv.1, inputCount c f kv.2)

-- ---------------------------------------------------------------- the whole metafile (internal/bundler/bundler.go)

/-- one import of an input file as `ScanBundle` records it: resolved inside the bundle (`original` = the
specifier as written) or left external (`original = none`) -/
structure InImport where
  path : Bytes
  kind : Bytes
  original : Option Bytes
  deriving Repr

/-- one input file: quoted pretty path, `len(Source.Contents)`, imports, module format (`"cjs"`/`"esm"`) -/
structure InputEntry where
  name : Bytes
  bytes : Nat
  imports : List InImport
  format : Option Bytes
  deriving Repr

def inputImport (min : Bool) (i : InImport) : Bytes :=
  mrw min "{\n          \"path\": " ++ i.path ++ mrw min ",\n          \"kind\": " ++ i.kind ++
    (match i.original with
     | some o => mrw min ",\n          \"original\": " ++ o
     | none => mrw min ",\n          \"external\": true") ++ mrw min "\n        }"

/-- items with a first and a following separator in front (`if isFirst { … } else { … }`) -/
def sepJoin (first next : Bytes) : List Bytes → Bytes
  | [] => []
  | x :: xs => first ++ x ++ (xs.map (next ++ ·)).flatten

/-- `file.jsonMetadataChunk` of an input (import attributes are not modelled) -/
def inputChunk (min : Bool) (e : InputEntry) : Bytes :=
  e.name ++ mrw min ": {\n      \"bytes\": " ++ dec e.bytes ++ mrw min ",\n      \"imports\": ["
    ++ sepJoin (mrw min "\n        ") (mrw min ",\n        ") (e.imports.map (inputImport min))
    ++ (if e.imports.isEmpty then [] else mrw min "\n      ")
    ++ (match e.format with
        | some f => mrw min "],\n      \"format\": " ++ [34] ++ f ++ [34]
        | none => str "]")
    ++ mrw min "\n    }"

/-- `generateMetadataJSON`: the chunks of the inputs, then the chunks of the output files that have one, each
behind its quoted path (the filter for an output path that occurs twice is not modelled: the caller passes every
path once) -/
def metafileJSON (min : Bool) (inputs : List Bytes) (outputs : List (Bytes × Bytes)) : Bytes :=
  mrw min "{\n  \"inputs\": {"
    ++ sepJoin (mrw min "\n    ") (mrw min ",\n    ") (inputs.filter (!·.isEmpty))
    ++ mrw min "\n  },\n  \"outputs\": {"
    ++ sepJoin (mrw min "\n    ") (mrw min ",\n    ")
        ((outputs.filter (!·.2.isEmpty)).map fun o => o.1 ++ mrw min ": " ++ o.2)
    ++ mrw min "\n  }\n}" ++ [10]

-- ---------------------------------------------------------------- path tables (the PANIC cases)

/-- per index: the path a placeholder is replaced with; `none`: the real code panics when it gets there
(index beyond `c.chunks` / `c.graph.Files`, or a file that does not have exactly one additional file) -/
abbrev Table := List (Option Bytes)

def tableGet (t : Table) (i : Nat) : Option Bytes :=
  match t[i]? with
  | some (some p) => some p
  | _ => none

/-- every placeholder of the pieces has a path -/
def defined (assets chunks : Table) : List Piece → Bool
  | [] => true
  | p :: ps =>
    (match p.kind with
      | .none => true
      | .asset => (tableGet assets p.index).isSome
      | .chunk => (tableGet chunks p.index).isSome) && defined assets chunks ps

/-- the path function of two tables; the `[]` is never used on `defined` pieces -/
def pathOfTables (assets chunks : Table) : Kind → Nat → Bytes
  | .none, _ => []
  | .asset, i => match tableGet assets i with | some p => p | none => []
  | .chunk, i => match tableGet chunks i with | some p => p | none => []

/-- `substituteFinalPaths` + `accurateFinalByteCount` on given pieces; `none` = panic -/
def countChecked (assets chunks : Table) (ps : List Piece) : Option (Bytes × Nat) :=
  if defined assets chunks ps then
    some (substitute (pathOfTables assets chunks) ps, byteCount (pathOfTables assets chunks) ps)
  else none

-- ---------------------------------------------------------------- driver
open Wire

def parseOptHex (s : String) : Option (Option Bytes) :=
  if s = "~" then some none else (parseHexUnits 2 s).map some

def parseTable (s : String) : Option Table :=
  if s = "." then some [] else (s.splitOn " ").mapM parseOptHex

def parseList {α} (f : String → Option α) (s : String) : Option (List α) :=
  if s = "." then some [] else (s.splitOn " ").mapM f

def parseBool (s : String) : Option Bool :=
  if s = "1" then some true else if s = "0" then some false else none

def parseCR (s : String) : Option (CR × Bytes) :=
  match s.splitOn ":" with
  | [src, om, code, path, name] => do
    let src ← parseNat src
    let om ← parseBool om
    let code ← parseHexUnits 2 code
    let path ← parseHexUnits 2 path
    let name ← parseHexUnits 2 name
    pure ({ src := src, omitted := om, code := code, path := path }, name)
  | _ => none

def parseCRC (s : String) : Option (CRC × Bytes) :=
  match s.splitOn ":" with
  | [src, code, path, name] => do
    let src ← (if src = "~" then some none else (parseNat src).map some)
    let code ← parseHexUnits 2 code
    let path ← parseHexUnits 2 path
    let name ← parseHexUnits 2 name
    pure ({ src := src, code := code, path := path }, name)
  | _ => none

def parseInImport (s : String) : Option InImport :=
  match s.splitOn "," with
  | [p, k, o] => do
    let p ← parseHexUnits 2 p
    let k ← parseHexUnits 2 k
    let o ← parseOptHex o
    pure { path := p, kind := k, original := o }
  | _ => none

def parseInput (s : String) : Option InputEntry :=
  match s.splitOn ":" with
  | [n, b, f, imps] => do
    let n ← parseHexUnits 2 n
    let b ← parseNat b
    let f ← parseOptHex f
    let imps ← (if imps = "." then some [] else (imps.splitOn "+").mapM parseInImport)
    pure { name := n, bytes := b, imports := imps, format := f }
  | _ => none

def parseOutput (s : String) : Option (Bytes × Bytes) :=
  match s.splitOn ":" with
  | [p, c] => do
    let p ← parseHexUnits 2 p
    let c ← parseHexUnits 2 c
    pure (p, c)
  | _ => none

def parseImport (s : String) : Option JImport :=
  match s.splitOn ":" with
  | [p, k, e] => do
    let p ← parseHexUnits 2 p
    let k ← parseHexUnits 2 k
    let e ← parseBool e
    pure { path := p, kind := k, external := e }
  | _ => none

/-- first name recorded for a source index -/
def nameTable : List (Nat × Bytes) → Nat → Bytes
  | [], _ => []
  | (k, v) :: r, s => if k = s then v else nameTable r s

structure Common where
  cfg : Cfg
  min : Bool
  assets : Table
  chunks : Table
  assetsJ : Table
  chunksJ : Table
  post : Post
  head : JHead

def parseCommon (isCSS : Bool) (pre nf nc min assets chunks assetsJ chunksJ legal sm imports exports entry css : String) : Option Common := do
  let pre ← parseHexUnits 2 pre
  let nf ← parseNat nf
  let nc ← parseNat nc
  let min ← parseBool min
  let assets ← parseTable assets
  let chunks ← parseTable chunks
  let assetsJ ← parseTable assetsJ
  let chunksJ ← parseTable chunksJ
  let legal ← parseOptHex legal
  let sm ← parseOptHex sm
  let imports ← parseList parseImport imports
  let exports ← parseList (parseHexUnits 2) exports
  let entry ← parseOptHex entry
  let css ← parseOptHex css
  pure { cfg := { pre := pre, nFiles := nf, nChunks := nc }, min := min, assets := assets, chunks := chunks,
         assetsJ := assetsJ, chunksJ := chunksJ, post := { isCSS := isCSS, legalLink := legal, smURL := sm },
         head := { imports := imports, exports := exports, entryPoint := entry, cssBundle := css } }

/-- the bytes of a JavaScript output file and the `"inputs"` / `"bytes"` part of its metadata:
`chunk.jsonMetadataChunkCallback(len(outputContents))` -/
def emitJS (min : Bool) (c : Cfg) (f : Kind → Nat → Bytes) (nameOf : Nat → Bytes) (p : Post) (o : JSOpts)
    (head tail : Bytes) (crs : List CR) : Bytes × Bytes :=
  let out := outputContents c f p (jsSegs o head tail crs)
  (out, jsonTailJS min c f nameOf (jsMeta o crs) out.length)

/-- the same for a CSS output file -/
def emitCSS (min : Bool) (c : Cfg) (f : Kind → Nat → Bytes) (nameOf : Nat → Bytes) (p : Post) (comments nbc0 : Bool)
    (head tail : Bytes) (crs : List CRC) : Bytes × Bytes :=
  let out := outputContents c f p (cssSegs comments nbc0 head tail crs)
  (out, jsonTailCSS min c f nameOf crs out.length)

/-- the value of a decimal numeral (how a JSON reader takes the digits of `"bytes"` / `"bytesInOutput"`) -/
def decValue (b : Bytes) : Nat := b.foldl (fun sofar d => 10 * sofar + (d - 48)) 0

-- ---------------------------------------------------------------- the assumption about unique keys, executable

/-- `pre` is a prefix of `s ++ rest` (without building the concatenation) -/
def prefixOf2 : Bytes → Bytes → Bytes → Bool
  | [], _, _ => true
  | p :: ps, x :: xs, rest => p == x && prefixOf2 ps xs rest
  | p :: ps, [], rest => (p :: ps).isPrefixOf rest

/-- the text `s` starts with a complete key that has a valid kind and index -/
def keyHere (c : Cfg) (s : Bytes) : Bool :=
  decide (c.pre.length + 9 ≤ s.length) && (parseKey c.nFiles c.nChunks ((s.drop c.pre.length).take 9)).isSome

/-- every occurrence of the key prefix that starts in `t` (followed by `rest`) is a key inside `t` -/
def wkSeg (c : Cfg) : Bytes → Bytes → Bool
  | [], _ => true
  | x :: xs, rest => (if prefixOf2 c.pre (x :: xs) rest then keyHere c (x :: xs) else true) && wkSeg c xs rest

/-- the executable form of the assumption `WellKeyed` (Lemmas/Metafile.lean) under which per-slice counting and
whole-chunk substitution agree; the driver reports it for every real chunk -/
def wellKeyedB (c : Cfg) : List Bytes → Bool
  | [] => true
  | t :: ts => wkSeg c t ts.flatten && wellKeyedB c ts

/-- answer of a chunk operation: whether the joined parts meet the unique-key assumption, the text before
substitution, whether the shortcut was taken, the output bytes and the JSON metadata of the output -/
def answer (k : Common) (segs : List Seg) (jhead : Bytes) (emit : Bytes × Bytes) : String :=
  let parts := segs.map (·.text)
  let pieces := breakJoiner k.cfg parts
  let okCode := match pieces with | none => true | some ps => defined k.assets k.chunks ps
  if !okCode then "PANIC" else
  let jOK := match breakJoiner k.cfg [jhead, emit.2] with | none => true | some ps => defined k.assetsJ k.chunksJ ps
  if !jOK then "PANIC" else
  let json := jsonChunk k.cfg (pathOfTables k.assetsJ k.chunksJ) jhead emit.2
  s!"wk={if wellKeyedB k.cfg parts then 1 else 0} short={if pieces.isNone then 1 else 0} text={hexUnits 2 parts.flatten} final={hexUnits 2 emit.1} json={hexUnits 2 json}"

def driver (args : List String) : String :=
  match args with
  | ["count", assets, chunks, pieces] =>
    match parseTable assets, parseTable chunks, parsePieces pieces with
    | some a, some c, some ps =>
      match countChecked a c ps with
      | some (j, n) => s!"{hexUnits 2 j} {n}"
      | none => "PANIC"
    | _, _, _ => "bad-op"
  | ["subst", assets, chunks, pieces] =>
    match parseTable assets, parseTable chunks, parsePieces pieces with
    | some a, some c, some ps =>
      match countChecked a c ps with
      | some (j, _) => hexUnits 2 j
      | none => "PANIC"
    | _, _, _ => "bad-op"
  | ["top", min, inputs, outputs] =>
    match parseBool min, parseList parseInput inputs, parseList parseOutput outputs with
    | some min, some ins, some outs => hexUnits 2 (metafileJSON min (ins.map (inputChunk min)) outs)
    | _, _, _ => "bad-op"
  | ["breakjoiner", pre, nf, nc, parts] =>
    match parseHexUnits 2 pre, parseNat nf, parseNat nc, parseList (parseHexUnits 2) parts with
    | some pre, some nf, some nc, some parts =>
      match breakJoiner { pre := pre, nFiles := nf, nChunks := nc } parts with
      | none => "short"
      | some ps => showPieces ps
    | _, _, _, _ => "bad-op"
  | ["js", pre, nf, nc, comments, min, indent, head, tail, crs, assets, chunks, assetsJ, chunksJ, legal, sm, imports, exports, entry, css] =>
    match parseCommon false pre nf nc min assets chunks assetsJ chunksJ legal sm imports exports entry css,
          parseBool comments, parseHexUnits 2 indent, parseHexUnits 2 head, parseHexUnits 2 tail, parseList parseCR crs with
    | some k, some comments, some indent, some head, some tail, some crs =>
      let o : JSOpts := { comments := comments, indent := indent }
      let cs := crs.map (·.1)
      let names := nameTable (crs.map fun x => (x.1.src, x.2))
      answer k (jsSegs o head tail cs) (jsonHeadJS k.min k.head)
        (emitJS k.min k.cfg (pathOfTables k.assets k.chunks) names k.post o head tail cs)
    | _, _, _, _, _, _ => "bad-op"
  | ["css", pre, nf, nc, comments, nbc0, min, head, tail, crs, assets, chunks, assetsJ, chunksJ, legal, sm, imports, entry] =>
    match parseCommon true pre nf nc min assets chunks assetsJ chunksJ legal sm imports "." entry "~",
          parseBool comments, parseBool nbc0, parseHexUnits 2 head, parseHexUnits 2 tail, parseList parseCRC crs with
    | some k, some comments, some nbc0, some head, some tail, some crs =>
      let cs := crs.map (·.1)
      let names := nameTable (crs.filterMap fun x => x.1.src.map fun s => (s, x.2))
      answer k (cssSegs comments nbc0 head tail cs) (jsonHeadCSS k.min k.head)
        (emitCSS k.min k.cfg (pathOfTables k.assets k.chunks) names k.post comments nbc0 head tail cs)
    | _, _, _, _, _, _ => "bad-op"
  | _ => "bad-op"

end EsbuildModel.Metafile
