import EsbuildModel.Gen.CompatTable
import EsbuildModel.Gen.FeatureGates
import EsbuildModel.Gen.RuntimeGuards
/-
Summaries computed from the regenerated gate sites (Gen/FeatureGates.lean) and runtime segments
(Gen/RuntimeGuards.lean). Nothing here is esbuild behaviour by itself: these are the functions the C14Facts theorems
evaluate over the generated tables.
-/
namespace EsbuildModel.FeatureGates
open Gen.FeatureGates

/-- the reference asks "is the feature unsupported?" and branches (lowering, alternative output, or a decision) -/
def testKinds : List String := ["has", "has-var", "has-symbol"]
/-- the reference hands the feature to `parser.markSyntaxFeature` (error / warning when unsupported) -/
def markKinds : List String := ["mark", "mark-var", "mark-deferred"]
/-- references that are not gates: the switch inside markSyntaxFeature, the override-implication calls, … -/
def otherKinds : List String := ["case", "compare", "implies", "implied", "set", "return"]

/-- all reviewed kinds, in the order the extractor numbers them (`Site.ki` indexes this list) -/
def knownKinds : List String := testKinds ++ markKinds ++ otherKinds

/-- the numeric columns of a site agree with its readable columns -/
def siteConsistent (s : Site) : Bool := Gen.compatFeatures[s.fi]? == some s.feature && kindNames[s.ki]? == some s.kind

def isTest (s : Site) : Bool := Nat.blt s.ki testKinds.length
def isMark (s : Site) : Bool := Nat.ble testKinds.length s.ki && Nat.blt s.ki (testKinds.length + markKinds.length)

/-- count the test / mark sites at the head of the list that belong to feature index `i`; returns the rest -/
def countGroup (i : Nat) : List Site → Nat → Nat → Nat × Nat × List Site
  | [], t, m => (t, m, [])
  | s :: r, t, m =>
    if Nat.beq s.fi i then countGroup i r (if isTest s then t + 1 else t) (if isMark s then m + 1 else m)
    else (t, m, s :: r)

/-- what `markSyntaxFeature`'s switch does for `f`: its `case`, else the `default:` clause -/
def switchHandling (sw : List (String × String)) (dflt : String) (f : String) : String :=
  match sw.lookup f with
  | some h => h
  | none => dflt

/-- handling kind of a feature: "branch" (only tests), the switch handling (only marks), "branch+<handling>", "none" -/
def handlingKind (sw : List (String × String)) (dflt : String) (f : String) (t m : Nat) : String :=
  match t, m with
  | 0, 0 => "none"
  | _ + 1, 0 => "branch"
  | 0, _ + 1 => switchHandling sw dflt f
  | _ + 1, _ + 1 => "branch+" ++ switchHandling sw dflt f

abbrev Row := String × Nat × Nat × String

/-- one row per feature, in the order of `features`; the sites must be grouped in that order (the extractor sorts
them): sites that are out of order are returned as left over -/
def summaryRows (sw : List (String × String)) (dflt : String) : List (String × Nat) → List Site → List Row × List Site
  | [], rest => ([], rest)
  | (f, i) :: fs, sites =>
    match countGroup i sites 0 0 with
    | (t, m, rest) =>
      match summaryRows sw dflt fs rest with
      | (rows, left) => ((f, t, m, handlingKind sw dflt f t m) :: rows, left)

/-- one row per feature constant, in bit order: (feature, test sites, mark sites, handling kind) -/
def genSummary : List Row := (summaryRows markSwitch markDefault Gen.compatFeatures.zipIdx sites).1
/-- sites the one-pass count did not consume (must be empty) -/
def genLeftover : List Site := (summaryRows markSwitch markDefault Gen.compatFeatures.zipIdx sites).2

/-- the handlings of `markSyntaxFeature` that tell the user (never silent) -/
def reportingHandlings : List String := ["error", "error-not-lowered", "warn"]

/-- a feature the compiler only ever branches on and never reports as untransformable (by the summary table) -/
def onlyBranches (tbl : List Row) (f : String) : Bool :=
  match tbl.lookup f with
  | some (t, m, _) => t > 0 && m == 0
  | none => false

/-- a feature `markSyntaxFeature` is called for somewhere (unknown features count as marked) -/
def marked (tbl : List Row) (f : String) : Bool :=
  match tbl.lookup f with
  | some (_, m, _) => m > 0
  | none => true

open Gen.RuntimeGuards in
/-- the features known to be supported inside a segment: those of the enclosing then-branches -/
def guardsOf (seg : Segment) : List String := (seg.conds.filter (·.1)).flatMap (·.2)

open Gen.RuntimeGuards in
/-- runtime text: every scanned syntax feature of the segment is under a guard for it, or is one the compiler lowers -/
def segmentOK (tbl : List Row) (seg : Segment) : Bool :=
  seg.features.all fun f => (guardsOf seg).contains f || onlyBranches tbl f

open Gen.RuntimeGuards in
/-- is the segment part of `runtime.Source(unsupported)`? every enclosing `if !Has(F₁) && …` takes the recorded branch -/
def selected (unsupported : List String) (seg : Segment) : Bool :=
  seg.conds.all fun c => (c.2.all fun f => !unsupported.contains f) == c.1

open Gen.RuntimeGuards in
/-- the scanned features of `runtime.Source(unsupported)` that are unsupported and that the parser reports instead of
lowering — what makes `parseRuntime` panic with "Internal error: failed to parse runtime" -/
def predictedErrors (tbl : List Row) (unsupported : List String) (segs : List Segment) : List String :=
  (segs.filter (selected unsupported)).flatMap fun seg =>
    seg.features.filter fun f => unsupported.contains f && marked tbl f

end EsbuildModel.FeatureGates
