import EsbuildModel.Gen.CompatTable
import EsbuildModel.Util.Wire
/-
Model of internal/compat: `compareVersions`, `isVersionSupported`, `UnsupportedJSFeatures`,
`JSFeature.ApplyOverrides`, evaluated over the table extracted from js_table.go on this run.
-/
namespace EsbuildModel.Compat

abbrev V := Nat × Nat × Nat
abbrev Range := V × V

/-- a user-supplied version: up to three numeric parts and whether a pre-release suffix is present -/
structure Semver where
  parts : List Nat
  pre : Bool
  deriving Repr, DecidableEq

/-- `compareVersions(a v, b Semver)`: sign of a − b -/
def compareVersions (a : V) (b : Semver) : Int :=
  let d0 : Int := (a.1 : Int) - (b.parts.getD 0 0 : Nat)
  let d1 : Int := if d0 = 0 then (a.2.1 : Int) - (b.parts.getD 1 0 : Nat) else d0
  let d2 : Int := if d1 = 0 then (a.2.2 : Int) - (b.parts.getD 2 0 : Nat) else d1
  if d2 = 0 ∧ b.pre then 1 else d2

/-- `isVersionSupported` -/
def isVersionSupported (ranges : List Range) (v : Semver) : Bool :=
  ranges.any fun r => compareVersions r.1 v ≤ 0 && (r.2 == (0, 0, 0) || compareVersions r.2 v > 0)

abbrev Table := List (String × List (String × List Range))

/-- is `feature` unsupported under the constraints (engine ↦ version)? mirrors the loop body of
`UnsupportedJSFeatures` (InlineScript is skipped: purely user-specified). -/
def featureUnsupported (engines : List (String × List Range)) (constraints : List (String × Semver)) : Bool :=
  constraints.any fun (engine, version) =>
    match engines.lookup engine with
    | none => true
    | some ranges => !isVersionSupported ranges version

/-- `UnsupportedJSFeatures`: the list of unsupported feature names, in `features` (bit) order -/
def unsupported (table : Table) (features : List String) (constraints : List (String × Semver)) : List String :=
  features.filter fun f =>
    f != "InlineScript" &&
    match table.lookup f with
    | none => false          -- not in the table: the Go loop never sees it
    | some engines => featureUnsupported engines constraints

/-- bit mask of a list of feature names (feature i ↦ 2^i) -/
def maskOf (features : List String) (names : List String) : Nat :=
  (features.zipIdx.filter fun (f, _) => names.contains f).foldl (fun acc (_, i) => acc + 2 ^ i) 0

/-- `JSFeature.ApplyOverrides` on 64-bit masks -/
def applyOverrides (features overrides mask : BitVec 64) : BitVec 64 :=
  (features &&& ~~~mask) ||| (overrides &&& mask)

open Wire in
/-- constraints wire format: `Engine:1.2.3[-pre]` separated by spaces -/
def parseConstraints (s : String) : Option (List (String × Semver)) :=
  if s = "." then some [] else
  (s.splitOn " ").mapM fun item =>
    match item.splitOn ":" with
    | [e, v] =>
      let pre := v.endsWith "-pre"
      let v := if pre then (v.dropEnd 4).toString else v
      match (v.splitOn ".").mapM (·.toNat?) with
      | some parts => some (e, { parts := parts, pre := pre })
      | none => none
    | _ => none

def driver (args : List String) : String :=
  match args with
  | ["unsupported", cs] =>
    match parseConstraints cs with
    | some cs => toString (maskOf Gen.compatFeatures (unsupported Gen.compatTable Gen.compatFeatures cs))
    | none => "bad-op"
  | ["overrides", f, o, m] =>
    match f.toNat?, o.toNat?, m.toNat? with
    | some f, some o, some m => toString (applyOverrides (BitVec.ofNat 64 f) (BitVec.ofNat 64 o) (BitVec.ofNat 64 m)).toNat
    | _, _, _ => "bad-op"
  | _ => "bad-op"

end EsbuildModel.Compat
