/-
Line protocol of kernel `stmtprint` (see harness/cmd/hinternal/k_stmtprint.go):
  stmtprint  print  <minify 0/1>  <stmts>   → the model's pieces, blank separated, `NL` = line break
  stmtprint  round  <minify 0/1>  <stmts>   → S-expression of what the reference parser reads from the model's tokens, or `reject`
Statement lists travel in prefix form, blank separated (expressions as in kernel `prec`):
  stmts := <count> stmt…
  stmt  := E e | Z | B stmts | I e stmt | J e stmt stmt | L head stmt | D stmt e | A <n> stmt | R0 | R e | T e | K0 | K <n>
         | C0 | C <n> | V decls | X e
  decls := <kind v/l/c> <count> (<n> 0 | <n> 1 e)…
  head  := F init opt opt | G fh e | O <aw 0/1> fh e | W e ;  init := N | E e | V decls ;  fh := E e | V <kind> <n> ;  opt := 0 | 1 e
-/
import EsbuildModel.Impl.StmtPrint
import EsbuildModel.Impl.PrecDriver

namespace EsbuildModel.StmtPrintDriver
open EsbuildModel.JsExpr EsbuildModel.JsStmt EsbuildModel.StmtPrint EsbuildModel.Prec

def readKind : String → Option DeclKind
  | "v" => some .var | "l" => some .let_ | "c" => some .const | _ => none

def exprOf (ws : List String) : Option (Expr × List String) := readExpr (ws.length + 1) ws

def readDeclList : Nat → Nat → List String → Option (List Decl × List String)
  | 0, _, _ => none
  | _ + 1, 0, ws => some ([], ws)
  | f + 1, c + 1, n :: "0" :: ws =>
    match n.toNat?, readDeclList f c ws with
    | some n, some (ds, ws) => some ((n, none) :: ds, ws)
    | _, _ => none
  | f + 1, c + 1, n :: "1" :: ws =>
    match n.toNat?, exprOf ws with
    | some n, some (e, ws) =>
      match readDeclList f c ws with
      | some (ds, ws) => some ((n, some e) :: ds, ws)
      | none => none
    | _, _ => none
  | _ + 1, _ + 1, _ => none

def readDecls : List String → Option (DeclKind × List Decl × List String)
  | k :: c :: ws =>
    match readKind k, c.toNat? with
    | some k, some c => (readDeclList (ws.length + 1) c ws).map fun (ds, ws) => (k, ds, ws)
    | _, _ => none
  | _ => none

def readOpt : List String → Option (Option Expr × List String)
  | "0" :: ws => some (none, ws)
  | "1" :: ws => (exprOf ws).map fun (e, ws) => (some e, ws)
  | _ => none

def readForHead : List String → Option (ForHead × List String)
  | "E" :: ws => (exprOf ws).map fun (e, ws) => (.expr e, ws)
  | "V" :: k :: n :: ws =>
    match readKind k, n.toNat? with
    | some k, some n => some (.decl k n, ws)
    | _, _ => none
  | _ => none

def readHead : List String → Option (LoopHead × List String)
  | "F" :: ws =>
    let init : Option (ForInit × List String) :=
      match ws with
      | "N" :: ws => some (.none, ws)
      | "E" :: ws => (exprOf ws).map fun (e, ws) => (.expr e, ws)
      | "V" :: ws => (readDecls ws).map fun (k, ds, ws) => (.decl k ds, ws)
      | _ => none
    match init with
    | some (i, ws) =>
      match readOpt ws with
      | some (t, ws) => (readOpt ws).map fun (u, ws) => (.for_ i t u, ws)
      | none => none
    | none => none
  | "G" :: ws =>
    match readForHead ws with
    | some (h, ws) => (exprOf ws).map fun (v, ws) => (.forIn h v, ws)
    | none => none
  | "O" :: aw :: ws =>
    if aw ≠ "0" ∧ aw ≠ "1" then none else
    match readForHead ws with
    | some (h, ws) => (exprOf ws).map fun (v, ws) => (.forOf (aw = "1") h v, ws)
    | none => none
  | "W" :: ws => (exprOf ws).map fun (t, ws) => (.while_ t, ws)
  | _ => none

mutual
def readStmt : Nat → List String → Option (Stmt × List String)
  | 0, _ => none
  | _ + 1, [] => none
  | f + 1, c :: ws =>
    match c with
    | "E" => (exprOf ws).map fun (e, ws) => (.expr e, ws)
    | "Z" => some (.empty, ws)
    | "B" => (readStmts f ws).map fun (ss, ws) => (.block ss, ws)
    | "I" =>
      match exprOf ws with
      | some (t, ws) => (readStmt f ws).map fun (y, ws) => (.ifThen t y, ws)
      | none => none
    | "J" =>
      match exprOf ws with
      | some (t, ws) =>
        match readStmt f ws with
        | some (y, ws) => (readStmt f ws).map fun (n, ws) => (.ifElse t y n, ws)
        | none => none
      | none => none
    | "L" =>
      match readHead ws with
      | some (h, ws) => (readStmt f ws).map fun (b, ws) => (.loop h b, ws)
      | none => none
    | "D" =>
      match readStmt f ws with
      | some (b, ws) => (exprOf ws).map fun (t, ws) => (.doWhile b t, ws)
      | none => none
    | "A" =>
      match ws with
      | n :: ws =>
        match n.toNat? with
        | some n => (readStmt f ws).map fun (b, ws) => (.label n b, ws)
        | none => none
      | [] => none
    | "R0" => some (.ret none, ws)
    | "R" => (exprOf ws).map fun (e, ws) => (.ret (some e), ws)
    | "T" => (exprOf ws).map fun (e, ws) => (.throw_ e, ws)
    | "K0" => some (.brk none, ws)
    | "C0" => some (.cont none, ws)
    | "K" => match ws with
      | n :: ws => n.toNat?.map fun n => (.brk (some n), ws)
      | [] => none
    | "C" => match ws with
      | n :: ws => n.toNat?.map fun n => (.cont (some n), ws)
      | [] => none
    | "V" => (readDecls ws).map fun (k, ds, ws) => (.local_ k ds, ws)
    | "X" => (exprOf ws).map fun (e, ws) => (.exportDefault e, ws)
    | _ => none
def readStmts : Nat → List String → Option (Stmts × List String)
  | 0, _ => none
  | _ + 1, [] => none
  | f + 1, c :: ws =>
    match c.toNat? with
    | some c => readN f c ws
    | none => none
def readN : Nat → Nat → List String → Option (Stmts × List String)
  | 0, _, _ => none
  | _ + 1, 0, ws => some (.nil, ws)
  | f + 1, c + 1, ws =>
    match readStmt f ws with
    | some (s, ws) => (readN f c ws).map fun (ss, ws) => (.cons s ss, ws)
    | none => none
end

/-! ### rendering -/

def showAtomTok (m : Bool) : Tok → String
  | .ident 0 => "let"
  | .ident 1 => "async"
  | .ident 2 => "{ }"
  | .ident 3 => if m then "function ( ) { }" else "function ( ) { NL }"
  | .ident 4 => if m then "class { }" else "class { NL }"
  | .ident 5 => if m then "async function ( ) { }" else "async function ( ) { NL }"
  | t => showTok t

def showPiece (m : Bool) : Piece → String
  | .t a => showAtomTok m a
  | .nl => "NL"

def showKind : DeclKind → String
  | .var => "v" | .let_ => "l" | .const => "c"

def showOpt : Option Expr → String
  | none => "-"
  | some e => showExpr e

def showDecl : Decl → String
  | (n, none) => "(" ++ toString n ++ ")"
  | (n, some e) => "(" ++ toString n ++ " " ++ showExpr e ++ ")"

def showDecls (k : DeclKind) (ds : List Decl) : String :=
  "(V " ++ showKind k ++ String.join (ds.map fun d => " " ++ showDecl d) ++ ")"

def showForHead : ForHead → String
  | .expr e => "(E " ++ showExpr e ++ ")"
  | .decl k n => "(V " ++ showKind k ++ " " ++ toString n ++ ")"

def showHead : LoopHead → String
  | .for_ i t u =>
    let si := match i with
      | .none => "N"
      | .expr e => "(E " ++ showExpr e ++ ")"
      | .decl k ds => showDecls k ds
    "(F " ++ si ++ " " ++ showOpt t ++ " " ++ showOpt u ++ ")"
  | .forIn h v => "(G " ++ showForHead h ++ " " ++ showExpr v ++ ")"
  | .forOf aw h v => "(O " ++ (if aw then "1" else "0") ++ " " ++ showForHead h ++ " " ++ showExpr v ++ ")"
  | .while_ t => "(W " ++ showExpr t ++ ")"

mutual
def showStmt : Stmt → String
  | .expr e => "(E " ++ showExpr e ++ ")"
  | .empty => "Z"
  | .block b => "(B" ++ showStmts b ++ ")"
  | .ifThen t y => "(I " ++ showExpr t ++ " " ++ showStmt y ++ ")"
  | .ifElse t y n => "(J " ++ showExpr t ++ " " ++ showStmt y ++ " " ++ showStmt n ++ ")"
  | .loop h b => "(L " ++ showHead h ++ " " ++ showStmt b ++ ")"
  | .doWhile b t => "(D " ++ showStmt b ++ " " ++ showExpr t ++ ")"
  | .label n b => "(A " ++ toString n ++ " " ++ showStmt b ++ ")"
  | .ret none => "R0"
  | .ret (some e) => "(R " ++ showExpr e ++ ")"
  | .throw_ e => "(T " ++ showExpr e ++ ")"
  | .brk none => "K0"
  | .brk (some n) => "(K " ++ toString n ++ ")"
  | .cont none => "C0"
  | .cont (some n) => "(C " ++ toString n ++ ")"
  | .local_ k ds => showDecls k ds
  | .exportDefault e => "(X " ++ showExpr e ++ ")"
def showStmts : Stmts → String
  | .nil => ""
  | .cons s r => " " ++ showStmt s ++ showStmts r
end

def driver (args : List String) : String :=
  match args with
  | [op, mn, tree] =>
    let ws := words tree
    if (mn ≠ "0" ∧ mn ≠ "1") then "bad-op" else
    match readStmts (3 * ws.length + 5) ws with
    | some (ss, []) =>
      let m := mn = "1"
      if op = "print" then " ".intercalate ((program m ss).map (showPiece m))
      else if op = "round" then
        match parseProgram (toks (program m ss)) with
        | some ss' => "(P" ++ showStmts ss' ++ ")"
        | none => "reject"
      else "bad-op"
    | _ => "bad-op"
  | _ => "bad-op"

end EsbuildModel.StmtPrintDriver
