import EsbuildModel.Util.F64Arith
import EsbuildModel.Util.Wire
import EsbuildModel.Spec.CssCalc
/-
Model of internal/css_parser/css_reduce_calc.go (esbuild): `tryToReduceCalcExpression` =
`tryToParseCalcTerm` (token list → calculation tree) ; `partiallySimplify` (CSS Values 4, 10.10.1) ;
`convertToToken` (10.12 serialisation with esbuild's two deviations) ; `floatToStringForCalc`.

Numbers are float64 in the Go code.  The tree rewriting (`simp`) is written once, generic in the number type
and its operations (`Ops`): the compiled driver and every statement about printing instantiate it with the
exact IEEE operations of Util/F64Arith (`f64Ops`), the algebraic theorems instantiate it with a field.
Source locations are not modelled (they only feed source maps).  Texts are byte lists (Go strings).
Go's `strings.EqualFold` is modelled by ASCII case folding (exact for the keywords `var calc infinity nan`,
whose letters have no non-ASCII simple folds; for units it is exact unless a unit contains U+212A or U+017F).
`strconv.ParseFloat` is modelled for texts over the alphabet `0-9 + - . e E` (what the CSS tokenizer produces
in numeric tokens) and for the special texts `inf infinity nan`: syntax as in `readFloat`, value correctly rounded, range error on overflow, no error on
underflow; mantissas of more than 800 significant digits and the `e < 10000` exponent clamp are not modelled.
-/
namespace EsbuildModel.Calc
open EsbuildModel.Spec.CssCalc

/-- the token kinds the routine distinguishes; `other n` carries Go's numeric `css_lexer.T` -/
inductive Kind
  | func | paren | num | pct | dim | ident | plus | minus | star | slash
  | other (n : Nat)
  deriving DecidableEq, Repr

/-- css_ast.Token without Loc / PayloadIndex. `hasCh = false` is a nil `Children` pointer. -/
inductive Token where
  | mk (kind : Kind) (text : List Nat) (ws : Nat) (unitOff : Nat) (hasCh : Bool) (ch : List Token)
  deriving Repr

namespace Token
def kind : Token → Kind | .mk k _ _ _ _ _ => k
def text : Token → List Nat | .mk _ t _ _ _ _ => t
def ws : Token → Nat | .mk _ _ w _ _ _ => w
def unitOff : Token → Nat | .mk _ _ _ u _ _ => u
def hasCh : Token → Bool | .mk _ _ _ _ h _ => h
def ch : Token → List Token | .mk _ _ _ _ _ c => c
def setWs (w : Nat) : Token → Token | .mk k t _ u h c => .mk k t w u h c
def wsBefore (t : Token) : Bool := t.ws % 2 == 1
def wsAfter (t : Token) : Bool := t.ws / 2 % 2 == 1
end Token

def bytes (s : String) : List Nat := s.toUTF8.toList.map (·.toNat)

/-- `strings.EqualFold` restricted to ASCII folding -/
def equalFold (a b : List Nat) : Bool := foldUnit a == foldUnit b

/-- three-valued result: Go panic / `nil` resp. `ok = false` / a value -/
inductive Res (α : Type) where
  | panic | fail | ok (a : α)
  deriving Repr

-- ------------------------------------------------------------------ strconv.ParseFloat (see header)

def isDigit (b : Nat) : Bool := 48 ≤ b && b ≤ 57

def takeDigits : List Nat → List Nat × List Nat
  | [] => ([], [])
  | b :: r => if isDigit b then let (d, r') := takeDigits r; (b :: d, r') else ([], b :: r)

def digitsVal (ds : List Nat) : Nat := ds.foldl (fun a d => a * 10 + (d - 48)) 0

def dropZeros : List Nat → List Nat
  | 48 :: r => dropZeros r
  | l => l

/-- exponent part: `none` = syntax error; the whole rest of the text must be consumed -/
def parseExp : List Nat → Option Int
  | [] => some 0
  | c :: r =>
    if c = 101 ∨ c = 69 then
      let (eneg, r) : Bool × List Nat := match r with
        | 43 :: r' => (false, r')
        | 45 :: r' => (true, r')
        | _ => (false, r)
      let (ds, rest) := takeDigits r
      if ds.isEmpty || !rest.isEmpty then none
      else some (if eneg then -(digitsVal ds : Int) else (digitsVal ds : Int))
    else none

/-- correctly rounded value of (−1)^neg · d · 10^e, d ≠ 0, |e + digits| ≤ 400 -/
def decToF64 (neg : Bool) (d : Nat) (e : Int) : F64 :=
  if e ≥ 0 then F64.round neg (d * 10 ^ e.toNat) 0
  else F64.exactDiv (.fin neg d 0) (.fin false (10 ^ (-e).toNat) 0)

def parseFloat (s0 : List Nat) : Option F64 :=
  let s := s0
  let (neg, s) : Bool × List Nat := match s with
    | 43 :: r => (false, r)
    | 45 :: r => (true, r)
    | _ => (false, s)
  -- `special`: [+-]?inf, [+-]?infinity, nan (no sign), ASCII case-insensitive, whole text
  if equalFold s (bytes "inf") || equalFold s (bytes "infinity") then some (.inf neg) else
  if equalFold s0 (bytes "nan") then some .nan else
  let (ip, s) := takeDigits s
  let (fp, s) : List Nat × List Nat := match s with
    | 46 :: r => takeDigits r
    | _ => ([], s)
  if ip.isEmpty && fp.isEmpty then none else
  match parseExp s with
  | none => none
  | some ex =>
    let d := digitsVal (ip ++ fp)
    if d = 0 then some (.fin neg 0 0) else
    let e : Int := ex - (fp.length : Int)
    let mag : Int := e + ((dropZeros (ip ++ fp)).length : Int)
    if mag > 400 then none                      -- ErrRange
    else if mag < -400 then some (.fin neg 0 0)  -- underflow: ±0, no error
    else
      let v := decToF64 neg d e
      if v.isInf then none else some v

-- ------------------------------------------------------------------ floatToStringForCalc

def natDigits (n : Nat) : List Nat := (Nat.toDigits 10 n).map (·.toNat)

def pad5 (l : List Nat) : List Nat := List.replicate (5 - l.length) 48 ++ l

/-- round-half-even of a / b (b > 0) -/
def divRoundHalfEven (a b : Nat) : Nat :=
  let q := a / b
  let r := a % b
  if 2 * r < b then q else if 2 * r = b then (if q % 2 = 0 then q else q + 1) else q + 1

/-- |x| · 10^5 rounded to an integer the way `%.5f` does (exact decimal expansion, ties to even) -/
def scaled5 (m : Nat) (e : Int) : Nat :=
  if e ≥ 0 then m * 2 ^ e.toNat * 100000 else divRoundHalfEven (m * 100000) (2 ^ (-e).toNat)

def dropTrailingZeros (l : List Nat) : List Nat := (l.reverse.dropWhile (· == 48)).reverse

def dropTrailingDot (l : List Nat) : List Nat :=
  match l.reverse with
  | 46 :: r => r.reverse
  | _ => l

/-- the text before the exactness test -/
def fixed5Text (neg : Bool) (m : Nat) (e : Int) : List Nat :=
  let n := scaled5 m e
  let t := (if neg then [45] else []) ++ natDigits (n / 100000) ++ [46] ++ pad5 (natDigits (n % 100000))
  let t := dropTrailingDot (dropTrailingZeros t)
  match t with
  | 48 :: 46 :: r => 46 :: r
  | 45 :: 48 :: 46 :: r => 45 :: 46 :: r
  | _ => t

def floatToString : F64 → Option (List Nat)
  | .fin neg m e =>
    let t := fixed5Text neg m e
    match parseFloat t with
    | some v => if F64.ieeeEq v (.fin neg m e) then some t else none
    | none => none
  | _ => none

-- ------------------------------------------------------------------ partiallySimplify (generic in the numbers)

/-- the arithmetic `partiallySimplify` uses: `+=`, `*=`, unary minus, `1 / x`, and the test of the
"divide instead of multiply if the reciprocal is shorter" deviation -/
structure Ops (α : Type) where
  add : α → α → α
  mul : α → α → α
  neg : α → α
  inv : α → α
  /-- asked about plain numbers only -/
  preferDiv : α → Bool

abbrev Term (α : Type) := Calc α (Token × Bool)

variable {α : Type}

/-- "For each of root's children that are Sum nodes, replace them with their children." -/
def flattenSum : List (Term α) → List (Term α)
  | [] => []
  | .sum ts :: r => ts ++ flattenSum r
  | t :: r => t :: flattenSum r

def flattenProd : List (Term α) → List (Term α)
  | [] => []
  | .prod ts :: r => ts ++ flattenProd r
  | t :: r => t :: flattenProd r

/-- inner loop of the sum merge: fold every later numeric with a unit equal (EqualFold) to `u` into `n` -/
def absorbSum (o : Ops α) (u : List Nat) (n : α) : List (Term α) → α × List (Term α)
  | [] => (n, [])
  | .num u2 n2 :: r =>
    if equalFold u2 u then absorbSum o u (o.add n n2) r
    else let (n', r') := absorbSum o u n r; (n', .num u2 n2 :: r')
  | t :: r => let (n', r') := absorbSum o u n r; (n', t :: r')

theorem absorbSum_length (o : Ops α) (u : List Nat) (n : α) (l : List (Term α)) :
    (absorbSum o u n l).2.length ≤ l.length := by
  induction l generalizing n with
  | nil => simp [absorbSum]
  | cons t r ih =>
    cases t <;> simp only [absorbSum, List.length_cons] <;> try (have := ih n; omega)
    split
    · have := ih (o.add n ‹_›); omega
    · have := ih n; simp only [List.length_cons]; omega

/-- outer loop of the sum merge -/
def mergeSum (o : Ops α) : List (Term α) → List (Term α)
  | [] => []
  | .num u n :: r =>
    have := absorbSum_length o u n r
    .num u (absorbSum o u n r).1 :: mergeSum o (absorbSum o u n r).2
  | t :: r => t :: mergeSum o r
termination_by l => l.length
decreasing_by all_goals simp_wf; all_goals omega

/-- inner loop of the product merge: multiply every later plain number into `n` -/
def absorbProd (o : Ops α) (n : α) : List (Term α) → α × List (Term α)
  | [] => (n, [])
  | .num u2 n2 :: r =>
    if u2 = [] then absorbProd o (o.mul n n2) r
    else let (n', r') := absorbProd o n r; (n', .num u2 n2 :: r')
  | t :: r => let (n', r') := absorbProd o n r; (n', t :: r')

/-- the product merge: only the FIRST plain number absorbs (`break`) -/
def mergeProd (o : Ops α) : List (Term α) → List (Term α)
  | [] => []
  | .num u n :: r =>
    if u = [] then .num u (absorbProd o n r).1 :: (absorbProd o n r).2
    else .num u n :: mergeProd o r
  | t :: r => t :: mergeProd o r

/-- ALGORITHM DEVIATION on one child at index ≥ 1: plain numbers only (`numeric.unit == ""`) -/
def recipOne (o : Ops α) : Term α → Term α
  | .num u n => if u = [] ∧ o.preferDiv n = true then .inv (.num u (o.inv n)) else .num u n
  | t => t

def recipTail (o : Ops α) : List (Term α) → List (Term α)
  | [] => []
  | t :: r => t :: r.map (recipOne o)

/-- "only handle the case of two numbers, one of which has no unit" -/
def twoNumbers (o : Ops α) : List (Term α) → Option (Term α)
  | [.num u1 n1, .num u2 n2] =>
    if u1 = [] then some (.num u2 (o.mul n2 n1))
    else if u2 = [] then some (.num u1 (o.mul n1 n2))
    else none
  | _ => none

def single (mk : List (Term α) → Term α) : List (Term α) → Term α
  | [t] => t
  | ts => mk ts

def finishProd (o : Ops α) (ts : List (Term α)) : Term α :=
  let ts := mergeProd o ts
  match twoNumbers o ts with
  | some t => t
  | none => single .prod (recipTail o ts)

def simpNeg (o : Ops α) : Term α → Term α
  | .num u n => .num u (o.neg n)
  | .neg t => t
  | t => .neg t

def simpInv (o : Ops α) : Term α → Term α
  | .num u n => if u = [] then .num u (o.inv n) else .inv (.num u n)
  | .inv t => t
  | t => .inv t

mutual
/-- `partiallySimplify` -/
def simp (o : Ops α) : Term α → Term α
  | .sum ts => single .sum (mergeSum o (flattenSum (simpList o ts)))
  | .prod ts => finishProd o (flattenProd (simpList o ts))
  | .neg t => simpNeg o (simp o t)
  | .inv t => simpInv o (simp o t)
  | .num u n => .num u n
  | .leaf x => .leaf x
def simpList (o : Ops α) : List (Term α) → List (Term α)
  | [] => []
  | t :: r => simp o t :: simpList o r
end

/-- the float64 instance: Go's `+ * - 1/x`, and `len(divide) < len(multiply)` of the two printable texts -/
def f64Ops : Ops F64 where
  add := F64.exactAdd
  mul := F64.exactMul
  neg := F64.neg
  inv := fun x => F64.exactDiv F64.one x
  preferDiv := fun n =>
    match floatToString n, floatToString (F64.exactDiv F64.one n) with
    | some m, some d => d.length < m.length
    | _, _ => false

-- ------------------------------------------------------------------ tryToParseCalcTerm

abbrev T := Term F64

def kwVar := bytes "var"
def kwCalc := bytes "calc"
def kwInf := bytes "infinity"
def kwNegInf := bytes "-infinity"
def kwNaN := bytes "nan"

def isMulOp : T → Bool
  | .leaf (tok, _) => tok.kind == .star || tok.kind == .slash
  | _ => false

def isSlash : T → Bool
  | .leaf (tok, _) => tok.kind == .slash
  | _ => false

def isAddOp : T → Bool
  | .leaf (tok, bad) => !bad && (tok.kind == .plus || tok.kind == .minus)
  | _ => false

def isMinus : T → Bool
  | .leaf (tok, _) => tok.kind == .minus
  | _ => false

/-- "Generate a node for the run": `prev op₁ x₁ op₂ x₂ …` -/
def mkRun (mk : List T → T) (wrap : T → T) (isInvOp : T → Bool) (prev : T) (run : List (T × T)) : T :=
  match run with
  | [] => prev
  | _ => mk (prev :: run.map (fun p => if isInvOp p.1 then wrap p.2 else p.2))

/-- One of the two "Collect children into … nodes" loops.  `prev` is `terms[first-1]`, `run` the operator /
operand pairs of the run being scanned, the list is `terms[first:]` (resp. `terms[last+2:]` inside a run).
The Go loop needs `terms[first+1]` (resp. `terms[last+3]`) to exist, tests the operator at `first`
(resp. `last+2`), otherwise closes the run and advances by ONE element. -/
def collect (isOp : T → Bool) (flush : T → List (T × T) → T) (prev : T) (run : List (T × T)) :
    List T → List T
  | op :: x :: rest =>
    if isOp op then collect isOp flush prev (run ++ [(op, x)]) rest
    else flush prev run :: collect isOp flush op [] (x :: rest)
  | rest => flush prev run :: rest
termination_by l => l.length

def collectAll (isOp : T → Bool) (flush : T → List (T × T) → T) : List T → List T
  | [] => []
  | t :: rest => collect isOp flush t [] rest

/-- the part of `tryToParseCalcTerm` after the first loop -/
def build (terms : List T) : Res T :=
  let terms := collectAll isMulOp (mkRun .prod .inv isSlash) terms
  let terms := collectAll isAddOp (mkRun .sum .neg isMinus) terms
  match terms with
  | [t] => .ok t
  | _ => .fail

def numericLeaf (tok : Token) (unit : List Nat) (valueText : List Nat) : T :=
  match parseFloat valueText with
  | some v => .num unit v
  | none => .leaf (tok, false)

mutual
/-- the term of one token; `prev` / `next` are the neighbours (for `isInvalidPlusOrMinus`) -/
def leafOf (prev : Option Token) (next : Option Token) : Token → Res T
  | .mk kind text ws uo hasCh ch =>
    let tok := Token.mk kind text ws uo hasCh ch
    if kind == .func && equalFold text kwVar then .fail
    else if kind == .paren || (kind == .func && equalFold text kwCalc) then
      if !hasCh then .panic else
      match leaves none ch with
      | .ok terms => build terms
      | .fail => .fail
      | .panic => .panic
    else if kind == .num then .ok (numericLeaf tok [] text)
    else if kind == .pct then
      if text.isEmpty then .panic else .ok (numericLeaf tok [37] text.dropLast)
    else if kind == .dim then
      if uo > text.length then .panic else .ok (numericLeaf tok (text.drop uo) (text.take uo))
    else if kind == .ident && equalFold text kwInf then .ok (.num [] (.inf false))
    else if kind == .ident && equalFold text kwNegInf then .ok (.num [] (.inf true))
    else if kind == .ident && equalFold text kwNaN then .ok (.num [] .nan)
    else
      let bad := match prev, next with
        | some p, some n =>
          (kind == .plus || kind == .minus) &&
          ((!tok.wsBefore && !p.wsAfter) || (!tok.wsAfter && !n.wsBefore))
        | _, _ => false
      .ok (.leaf (tok, bad))
/-- the first loop of `tryToParseCalcTerm` -/
def leaves (prev : Option Token) : List Token → Res (List T)
  | [] => .ok []
  | t :: rest =>
    match leafOf prev rest.head? t with
    | .ok x =>
      match leaves (some t) rest with
      | .ok xs => .ok (x :: xs)
      | .fail => .fail
      | .panic => .panic
    | .fail => .fail
    | .panic => .panic
end

/-- `tryToParseCalcTerm` -/
def parseTokens (ts : List Token) : Res T :=
  match leaves none ts with
  | .ok terms => build terms
  | .fail => .fail
  | .panic => .panic

-- ------------------------------------------------------------------ convertToToken

def mkTok (k : Kind) (text : List Nat) (ws : Nat) : Token := .mk k text ws 0 false []
def mkParen (ch : List Token) : Token := .mk .paren [40] 0 0 true ch

/-- calcNumeric.convertToToken -/
def printNum (unit : List Nat) (n : F64) : Res Token :=
  match floatToString n with
  | none => .fail
  | some text =>
    if unit = [] then .ok (mkTok .num text 0)
    else if unit = [37] then .ok (mkTok .pct (text ++ [37]) 0)
    else .ok (.mk .dim (text ++ unit) 0 (text.length % 65536) false [])

def isProd : T → Bool
  | .prod _ => true
  | _ => false

/-- a product child of a sum is spliced in without parentheses (ALGORITHM DEVIATION) -/
def splice (t : T) (tok : Token) : List Token := if isProd t then tok.ch else [tok]

mutual
/-- `convertToToken(whitespace)`; `w` is the flag value given to `*` and `/` -/
def print (w : Nat) : T → Res Token
  | .sum [] => .panic
  | .sum (t0 :: rest) =>
    match print w t0 with
    | .ok tok0 =>
      match printSumRest w rest with
      | .ok toks => .ok (mkParen (splice t0 tok0 ++ toks))
      | .fail => .fail
      | .panic => .panic
    | .fail => .fail
    | .panic => .panic
  | .prod [] => .panic
  | .prod (t0 :: rest) =>
    match print w t0 with
    | .ok tok0 =>
      match printProdRest w rest with
      | .ok toks => .ok (mkParen (tok0 :: toks))
      | .fail => .fail
      | .panic => .panic
    | .fail => .fail
    | .panic => .panic
  | .neg t =>
    match print w t with
    -- the operator token really has Kind TDelimSlash and Text "*" in the Go code
    | .ok tok => .ok (mkParen [mkTok .num (bytes "-1") 0, mkTok .slash [42] 3, tok])
    | .fail => .fail
    | .panic => .panic
  | .inv t =>
    match print w t with
    | .ok tok => .ok (mkParen [mkTok .num [49] 0, mkTok .slash [47] 3, tok])
    | .fail => .fail
    | .panic => .panic
  | .num u n => printNum u n
  | .leaf (tok, _) => .ok (tok.setWs 0)
def printSumRest (w : Nat) : List T → Res (List Token)
  | [] => .ok []
  | t :: rest =>
    let here : Res (List Token) :=
      match t with
      | .neg x =>
        match print w x with
        | .ok tok => .ok [mkTok .minus [45] 3, tok]
        | .fail => .fail
        | .panic => .panic
      | .num u n =>
        if F64.ieeeLt n F64.zero then
          match printNum u (F64.neg n) with
          | .ok tok => .ok [mkTok .minus [45] 3, tok]
          | .fail => .fail
          | .panic => .panic
        else
          match printNum u n with
          | .ok tok => .ok [mkTok .plus [43] 3, tok]
          | .fail => .fail
          | .panic => .panic
      | t =>
        match print w t with
        | .ok tok => .ok (mkTok .plus [43] 3 :: splice t tok)
        | .fail => .fail
        | .panic => .panic
    match here with
    | .ok a =>
      match printSumRest w rest with
      | .ok b => .ok (a ++ b)
      | .fail => .fail
      | .panic => .panic
    | .fail => .fail
    | .panic => .panic
def printProdRest (w : Nat) : List T → Res (List Token)
  | [] => .ok []
  | t :: rest =>
    let here : Res (List Token) :=
      match t with
      | .inv x =>
        match print w x with
        | .ok tok => .ok [mkTok .slash [47] w, tok]
        | .fail => .fail
        | .panic => .panic
      | t =>
        match print w t with
        | .ok tok => .ok [mkTok .star [42] w, tok]
        | .fail => .fail
        | .panic => .panic
    match here with
    | .ok a =>
      match printProdRest w rest with
      | .ok b => .ok (a ++ b)
      | .fail => .fail
      | .panic => .panic
    | .fail => .fail
    | .panic => .panic
end

-- ------------------------------------------------------------------ tryToReduceCalcExpression

/-- the token that replaces `calc(children)`; `.fail` = the original token is kept -/
def reduce (minifyWhitespace : Bool) (children : List Token) : Res Token :=
  match parseTokens children with
  | .ok term =>
    match print (if minifyWhitespace then 0 else 3) (simp f64Ops term) with
    | .ok (.mk k t _ u h c) =>
      if k == .paren then .ok (.mk .func kwCalc 3 u h c) else .ok (.mk k t 3 u h c)
    | .fail => .fail
    | .panic => .panic
  | .fail => .fail
  | .panic => .panic

-- ------------------------------------------------------------------ line protocol
/-
`calc\treduce\t<minifyWhitespace 0|1>\t<n>\t<tokens>`: the n children of the `calc(` token, preorder, separated by
one space ("-" = no tokens); one token = `kind,ws,unitOffset,hex(text),n` with n the number of children that
follow or "-" for a nil Children pointer.  Kinds: F ( N % D I + - * / or k<number>.
Answer: `keep` (the original token stays), `PANIC`, or the replacing token in the same syntax.
`calc\tfmt\t<bits>`: floatToStringForCalc of the float64 with these bits → hex text or `none`.
`calc\tparsef\t<hex>`: strconv.ParseFloat → bits or `err`.
`calc\tassert\t<hex source>`: a check made by the harness alone (independent evaluation); the answer is `ok`.
-/
open Wire

def kindOfString (s : String) : Option Kind :=
  match s with
  | "F" => some .func | "(" => some .paren | "N" => some .num | "%" => some .pct | "D" => some .dim
  | "I" => some .ident | "+" => some .plus | "-" => some .minus | "*" => some .star | "/" => some .slash
  | _ =>
    match s.toList with
    | 'k' :: r => (String.ofList r).toNat?.map Kind.other
    | _ => none

def kindToString : Kind → String
  | .func => "F" | .paren => "(" | .num => "N" | .pct => "%" | .dim => "D" | .ident => "I"
  | .plus => "+" | .minus => "-" | .star => "*" | .slash => "/" | .other n => s!"k{n}"

/-- read `count` tokens (with their descendants) from the word list -/
def readTokens : Nat → Nat → List String → Option (List Token × List String)
  | 0, _, _ => none
  | _, 0, ws => some ([], ws)
  | fuel + 1, count + 1, w :: ws =>
    match w.splitOn "," with
    | [k, wsf, uo, hx, n] =>
      match kindOfString k, wsf.toNat?, uo.toNat?, parseHexUnits 2 hx with
      | some kind, some wsv, some uov, some text =>
        let kids : Option (Bool × List Token × List String) :=
          if n = "-" then some (false, [], ws) else
          match n.toNat? with
          | some c => (readTokens fuel c ws).map (fun (ts, r) => (true, ts, r))
          | none => none
        match kids with
        | some (h, ch, r) =>
          match readTokens fuel count r with
          | some (ts, r') => some (Token.mk kind text wsv uov h ch :: ts, r')
          | none => none
        | none => none
      | _, _, _, _ => none
    | _ => none
  | _ + 1, _ + 1, [] => none

mutual
def showToken : Token → List String
  | .mk k t w u h ch =>
    s!"{kindToString k},{w},{u},{hexUnits 2 t},{if h then toString ch.length else "-"}" :: showTokens ch
def showTokens : List Token → List String
  | [] => []
  | t :: r => showToken t ++ showTokens r
end

def parseBits (s : String) : Option Nat := s.toNat?

def driver (args : List String) : String :=
  match args with
  | ["reduce", mw, ntop, toks] =>
    let words := if toks = "-" then [] else toks.splitOn " "
    if mw ≠ "0" ∧ mw ≠ "1" then "bad-op" else
    match ntop.toNat? with
    | none => "bad-op"
    | some n =>
      match readTokens (words.length + 1) n words with
      | some (ts, []) =>
        match reduce (mw == "1") ts with
        | .ok tok => " ".intercalate (showToken tok)
        | .fail => "keep"
        | .panic => "PANIC"
      | _ => "bad-op"
  | ["assert", _] => "ok"   -- harness-side numeric check, see k_calc.go
  | ["fmt", b] =>
    match parseBits b with
    | some bits => match floatToString (F64.ofBits bits) with
      | some t => hexUnits 2 t
      | none => "none"
    | none => "bad-op"
  | ["parsef", hx] =>
    match parseHexUnits 2 hx with
    | some t => match parseFloat t with
      | some v => toString (F64.toBits v)
      | none => "err"
    | none => "bad-op"
  | _ => "bad-op"
