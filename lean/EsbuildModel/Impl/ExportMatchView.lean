/-
The linker's tables seen as ECMAScript Source Text Module Records (16.2.1.7.1 ParseModule, steps 9–10), and the
translation of a linker result into the specification's vocabulary.  Used by the statements in Props/C02ExportMatch.lean
and by the driver's `thm` operation (which evaluates those statements on concrete tables).

An export whose symbol is one of the file's named imports is an *indirect* export entry (`export {x as y} from`,
`import {x} from; export {x as y}`, `export * as ns from`), every other export is a *local* export entry.  The linker's
tables do not distinguish `export * as ns from "m"` from `import * as ns from "m"; export {ns}` (the parser produces the
same `NamedImports` / `NamedExports` entries for both); the view treats both as the former.
-/
import EsbuildModel.Impl.ExportMatch
import EsbuildModel.Spec.EsModules
namespace EsbuildModel.ExportMatch
open EsbuildModel.Spec

def importNameOf (ni : NamedImport) : EsModules.ImportName := if ni.isStar then .all else .name ni.alias

/-- the local export entry of a `NamedExports` entry, if its symbol is not an import -/
def localOf (f : File) (e : NamedExport) : Option EsModules.LocalExport :=
  match findImport f e.ref with
  | some _ => none
  | none => some ⟨e.alias, e.ref⟩

/-- the indirect export entry of a `NamedExports` entry, if its symbol is an import -/
def indirectOf (f : File) (e : NamedExport) : Option EsModules.IndirectExport :=
  match findImport f e.ref with
  | some ni => ni.target.map (fun tg => ⟨e.alias, tg, importNameOf ni⟩)
  | none => none

def toRecord (f : File) : EsModules.ModuleRecord where
  importEntries := f.imports.filterMap (fun ni => ni.target.map (fun tg => ⟨tg, importNameOf ni, ni.ref⟩))
  localExportEntries := f.exports.filterMap (localOf f)
  indirectExportEntries := f.exports.filterMap (indirectOf f)
  starExportEntries := f.stars.filterMap id

def toSpec (t : Table) : EsModules.Table := t.map toRecord

/-- the linker's answer in the specification's vocabulary: a `normal` result is a binding (the namespace object if the
symbol is the target's `ExportsRef`), `ambiguous` is ambiguous; no match / cycle are null -/
def resolutionOf (t : Table) (r : MResult) : EsModules.Resolution :=
  match r.kind with
  | .normal =>
    match t[r.src]? with
    | some f => if r.ref = f.exportsRef then .binding ⟨r.src, .namespace⟩ else .binding ⟨r.src, .name r.ref⟩
    | none => .null
  | .ambiguous => .ambiguous
  | _ => .null

/-- the same for a symbol (file, ref) -/
def bindingOf (t : Table) (p : Nat × Nat) : EsModules.ResolvedBinding :=
  match t[p.1]? with
  | some f => if p.2 = f.exportsRef then ⟨p.1, .namespace⟩ else ⟨p.1, .name p.2⟩
  | none => ⟨p.1, .name p.2⟩

/-- what the parser guarantees about the tables: import records point to files of the graph, `NamedExports` is a map
(one entry per alias), and a file's `ExportsRef` is a symbol of its own, neither imported nor exported by name -/
structure WF (t : Table) : Prop where
  stars : ∀ f ∈ t, ∀ o, some o ∈ f.stars → o < t.length
  targets : ∀ f ∈ t, ∀ ni ∈ f.imports, ∀ o, ni.target = some o → o < t.length
  aliases : ∀ f ∈ t, (f.exports.map (·.alias)).Nodup
  exportsRefImport : ∀ f ∈ t, ∀ ni ∈ f.imports, ni.ref ≠ f.exportsRef
  exportsRefExport : ∀ f ∈ t, ∀ e ∈ f.exports, e.ref ≠ f.exportsRef

/-- every file is an ES module with at least one `export`, nothing is external, no TypeScript "maybe a type" rule -/
structure EsmOnly (t : Table) : Prop where
  kind : ∀ f ∈ t, f.kind = .esm
  noExports : ∀ f ∈ t, f.noExports = false
  notTS : ∀ f ∈ t, f.isTS = false
  stars : ∀ f ∈ t, ∀ s ∈ f.stars, s ≠ none
  targets : ∀ f ∈ t, ∀ ni ∈ f.imports, ni.target ≠ none

end EsbuildModel.ExportMatch
