/-
Model of esbuild's cross-chunk dependency computation under code splitting
(internal/linker/linker.go: computeCrossChunkDependencies, sortedCrossChunkImports, sortedCrossChunkExportItems;
internal/renamer/renamer.go: ExportRenamer.NextRenamedName / NextMinifiedName; and the ESM branch of
generateEntryPointTailJS as far as WHICH symbols the tail of an entry chunk mentions and exports).

Inputs are what the Go routine reads: the chunks (files, entry-point data, entry bits), per JS file its wrap kind,
wrapper/exports refs, ImportsToBind, the parts with liveness, top-level declared symbols, symbol uses and the
entry points named by rewritten `import()` records, per entry point the resolved export table, and per symbol
its kind flags, namespace alias and original name.  A symbol or file that is looked up but absent makes the Go
code index out of range: the model answers `none` (printed PANIC).

Go maps are modelled as duplicate-free lists; where Go iterates a map in random order and sorts afterwards the
model sorts too (the sort keys are pairwise different: see Props/C10CrossChunk.lean), so the order is defined.
The per-chunk goroutines of the first phase are modelled sequentially in chunk order; they only interfere
through `Symbol.ChunkIndex` (last writer wins here; the theorems assume a symbol is declared in one chunk only,
and the driver reports when that is not the case).
-/
import EsbuildModel.Util.Wire
import EsbuildModel.Impl.Rename
namespace EsbuildModel.CrossChunk

abbrev Ref := Nat × Nat          -- (SourceIndex, InnerIndex)
abbrev Name := List Nat          -- code points

structure Sym where
  ref : Ref
  unbound : Bool                 -- Kind == SymbolUnbound
  missing : Bool                 -- ImportItemStatus == ImportItemMissing
  ns : Option Ref                -- NamespaceAlias.NamespaceRef
  name : Name                    -- OriginalName
  link : Option Ref              -- Link (NOT read by the modelled routine; reported by the driver only)
deriving Repr, DecidableEq

structure Part where
  live : Bool
  declared : List Ref            -- DeclaredSymbols with IsTopLevel
  uses : List Ref                -- keys of SymbolUses
  dyn : List Nat                 -- source indices of entry points named by external dynamic import records
deriving Repr, DecidableEq

structure File where
  src : Nat
  stable : Nat                   -- StableSourceIndices[src]
  isJS : Bool
  wrap : Nat                     -- 0 WrapNone, 1 WrapCJS, 2 WrapESM
  wrapperRef : Ref
  exportsRef : Ref
  force : Bool                   -- ForceIncludeExportsForEntryPoint
  entryChunk : Nat               -- EntryPointChunkIndex
  binds : List (Ref × Ref)       -- ImportsToBind: import ref ↦ importData.Ref
  exports : List (Name × Nat × Ref) -- SortedAndFilteredExportAliases with ResolvedExports[alias].(SourceIndex, Ref)
  copies : List Ref              -- CJSExportCopies
  parts : List Part
deriving Repr, DecidableEq

structure Chunk where
  js : Bool                      -- chunkRepr is *chunkReprJS
  files : List Nat               -- filesWithPartsInChunk
  isEntry : Bool
  entrySrc : Nat
  entryBit : Nat
  bits : List Nat                -- the set bits of entryBits
deriving Repr, DecidableEq

structure G where
  minify : Bool
  syms : List Sym
  files : List File
  chunks : List Chunk
deriving Repr, DecidableEq

def G.sym? (g : G) (r : Ref) : Option Sym := g.syms.find? (fun s => s.ref == r)
def G.file? (g : G) (s : Nat) : Option File := g.files.find? (fun f => f.src == s)

-- ---------------------------------------------------------------- generic helpers

/-- all results, or `none` as soon as one step panics -/
def allSome {α : Type} : List (Option α) → Option (List α)
  | [] => some []
  | none :: _ => none
  | some a :: rest => (allSome rest).map (a :: ·)

/-- insertion sort (structural, so that examples evaluate in the kernel); `le` plays the role of Go's `!Less(b, a)` -/
def insertBy {α : Type} (le : α → α → Bool) (a : α) : List α → List α
  | [] => [a]
  | b :: l => if le a b then a :: b :: l else b :: insertBy le a l

def sortBy {α : Type} (le : α → α → Bool) (l : List α) : List α := l.foldr (insertBy le) []

def seqAll {α : Type} (l : List (Option (List α))) : Option (List α) := (allSome l).map List.flatten

-- ---------------------------------------------------------------- phase 1: what a chunk uses

/-- "If this is an ES6 import from a CommonJS file … pull in the namespace symbol instead" -/
def nsTarget (sym : Sym) (r : Ref) : Ref :=
  match sym.ns with
  | some n => n
  | none => r

/-- one iteration of `for ref := range part.SymbolUses`: `none` = panic, `some none` = `continue`,
`some (some r)` = `imports[r] = true` -/
def resolveUse (g : G) (f : File) (ref : Ref) : Option (Option Ref) :=
  match g.sym? ref with
  | none => none
  | some sym =>
    if sym.unbound then some none
    else if sym.missing then some none
    else
      match f.binds.lookup ref with
      | some t =>
        match g.sym? t with
        | none => none
        | some tsym => some (some (nsTarget tsym t))
      | none =>
        if f.wrap == 1 && ref != f.wrapperRef then some none
        else some (some (nsTarget sym ref))

def keep : List (Option Ref) → List Ref := List.filterMap id

def partImports (g : G) (f : File) (p : Part) : Option (List Ref) :=
  (allSome (p.uses.map (resolveUse g f))).map keep

def liveParts (f : File) : List Part := f.parts.filter (·.live)

/-- the `switch repr := …Repr.(type) { case *graph.JSRepr:` body for one file of the chunk -/
def fileImports (g : G) (s : Nat) : Option (List Ref) :=
  match g.file? s with
  | none => none
  | some f => if f.isJS then seqAll ((liveParts f).map (partImports g f)) else some []

/-- "If this is an import, then target what the import points to" (through the ImportsToBind of the file that
owns the export) -/
def boundTarget (ef : File) (r : Ref) : Ref :=
  match ef.binds.lookup r with
  | some t => t
  | none => r

/-- one alias of "Include the exports if this is an entry point chunk" -/
def resolveExport (g : G) (e : Name × Nat × Ref) : Option Ref :=
  match g.file? e.2.1 with
  | none => none
  | some ef =>
    if !ef.isJS then none          -- the type assertion `.(*graph.JSRepr)` panics
    else
      let t := boundTarget ef e.2.2
      match g.sym? t with
      | none => none
      | some tsym => some (nsTarget tsym t)

def entryImports (g : G) (c : Chunk) : Option (List Ref) :=
  if !c.isEntry then some [] else
  match g.file? c.entrySrc with
  | none => none
  | some f =>
    if !f.isJS then some [] else
    (if f.wrap != 1 then allSome (f.exports.map (resolveExport g)) else some []).map fun ex =>
      ex ++ (if f.force then [f.exportsRef] else []) ++ (if f.wrap != 0 then [f.wrapperRef] else [])

/-- `chunkMeta.imports` of one chunk after the parallel phase (a set) -/
def chunkImports (g : G) (c : Chunk) : Option (List Ref) :=
  match seqAll (c.files.map (fileImports g)), entryImports g c with
  | some a, some b => some (a ++ b).eraseDups
  | _, _ => none

/-- symbols whose `ChunkIndex` the goroutine of this chunk writes (a file that does not exist panics in
`fileImports` already) -/
def chunkDeclared (g : G) (c : Chunk) : List Ref :=
  c.files.flatMap fun s =>
    match g.file? s with
    | some f => if f.isJS then (liveParts f).flatMap (·.declared) else []
    | none => []

/-- `Symbol.ChunkIndex` after the first phase: the last chunk (in chunk order) that declares the symbol -/
def declChunk (g : G) (r : Ref) : Option Nat :=
  ((g.chunks.zipIdx.filter (fun ci => (chunkDeclared g ci.1).contains r)).getLast?).map (·.2)

/-- chunks named by the rewritten `import()` records of the chunk's live parts -/
def fileDyn (g : G) (s : Nat) : Option (List Nat) :=
  match g.file? s with
  | none => none
  | some f =>
    if f.isJS then
      allSome (((liveParts f).flatMap (·.dyn)).map fun t => (g.file? t).map (·.entryChunk))
    else some []

def chunkDyn (g : G) (c : Chunk) (ci : Nat) : Option (List Nat) :=
  (seqAll (c.files.map (fileDyn g))).map fun l =>
    sortBy (fun a b => decide (a ≤ b)) ((l.filter (· != ci)).eraseDups)

-- ---------------------------------------------------------------- phase 2: imports and exports as sets

/-- `importsFromOtherChunks[o]` of chunk `ci` before sorting -/
def itemsFor (g : G) (imps : List Ref) (ci o : Nat) : List Ref :=
  if o == ci then [] else imps.filter (fun r => declChunk g r == some o)

/-- "make sure we import all chunks belonging to this entry point" -/
def entryKey (g : G) (c : Chunk) (ci o : Nat) : Bool :=
  c.isEntry && o != ci &&
    match g.chunks[o]? with
    | some oc => oc.js && oc.bits.contains c.entryBit
    | none => false

/-- the keys of `importsFromOtherChunks`, in the order `sortedCrossChunkImports` puts them -/
def importKeys (g : G) (c : Chunk) (imps : List Ref) (ci : Nat) : List Nat :=
  (List.range g.chunks.length).filter fun o => !(itemsFor g imps ci o).isEmpty || entryKey g c ci o

/-- `chunkMetas[o].exports`: everything some OTHER JavaScript chunk imports from `o` -/
def exportSet (g : G) (allImps : List (List Ref)) (o : Nat) : List Ref :=
  (((g.chunks.zip allImps).zipIdx.filter (fun x => x.1.1.js)).flatMap
    (fun x => itemsFor g x.1.2 x.2 o)).eraseDups

-- ---------------------------------------------------------------- phase 3: export aliases

/-- strconv.Itoa for a non-negative number, as code points -/
def decAux : Nat → Nat → List Nat
  | 0, n => [48 + n % 10]
  | fuel + 1, n => if n < 10 then [48 + n] else decAux fuel (n / 10) ++ [48 + n % 10]

/-- (fuel `n` is more than the number of digits of `n`: Lemmas/CrossChunk.lean `dec_eq`) -/
def dec (n : Nat) : List Nat := decAux n n

/-- the `for { tries++ … }` loop of NextRenamedName; `used` is the map `r.used`. The loop ends after at most
`len(used)+1` rounds (Lemmas/CrossChunk.lean: `findFree_isSome`), which is the fuel `nextRenamed` passes. -/
def findFree (used : List (Name × Nat)) (pre : Name) : Nat → Nat → Option (Name × Nat)
  | 0, _ => none
  | fuel + 1, tries =>
    let cand := pre ++ dec (tries + 1)
    if (used.lookup cand).isSome then findFree used pre fuel (tries + 1) else some (cand, tries + 1)

/-- ExportRenamer.NextRenamedName: returns the alias and the new `r.used` (note that Go assigns
`r.used[name] = tries` AFTER `name` has been overwritten with the new alias) -/
def nextRenamed (used : List (Name × Nat)) (name : Name) : Option (Name × List (Name × Nat)) :=
  match used.lookup name with
  | some tries => (findFree used name (used.length + 1) tries).map fun ct => (ct.1, (ct.1, ct.2) :: used)
  | none => some (name, (name, 1) :: used)

def renameAll (g : G) : List (Name × Nat) → List Ref → Option (List (Ref × Name))
  | _, [] => some []
  | used, r :: rest =>
    match g.sym? r with
    | none => none
    | some s =>
      match nextRenamed used s.name with
      | none => none
      | some au => (renameAll g au.2 rest).map ((r, au.1) :: ·)

/-- ast.DefaultNameMinifierJS -/
def defaultAlphabet : Rename.Alphabet :=
  { head := "abcdefghijklmnopqrstuvwxyzABCDEFGHIJKLMNOPQRSTUVWXYZ_$".toList,
    tail := "abcdefghijklmnopqrstuvwxyzABCDEFGHIJKLMNOPQRSTUVWXYZ0123456789_$".toList }

/-- ExportRenamer.NextMinifiedName for `r.count = i` -/
def minName (i : Nat) : Name := (Rename.name defaultAlphabet i).map Char.toNat

def stableKey (g : G) (r : Ref) : Option (Nat × Nat × Ref) := (g.file? r.1).map fun f => (f.stable, r.2, r)

/-- sortedCrossChunkExportItems -/
def sortedExports (g : G) (l : List Ref) : Option (List Ref) :=
  (allSome (l.map (stableKey g))).map fun ks =>
    (sortBy (fun a b => a.1 < b.1 || (a.1 == b.1 && a.2.1 ≤ b.2.1)) ks).map (·.2.2)

def assignAliases (g : G) (l : List Ref) : Option (List (Ref × Name)) :=
  if g.minify then some (l.zipIdx.map fun x => (x.1, minName x.2)) else renameAll g [] l

/-- `exportsToOtherChunks` of chunk `o` in the order of the generated `export { … }` clause -/
def exportItems (g : G) (allImps : List (List Ref)) (o : Nat) : Option (List (Ref × Name)) :=
  match g.chunks[o]? with
  | none => some []
  | some c =>
    if c.js then (sortedExports g (exportSet g allImps o)).bind (assignAliases g) else some []

-- ---------------------------------------------------------------- phase 4: import statements

/-- `exportsToOtherChunks[item.ref]`: a Go map read, the zero value "" when absent (never the case: Props) -/
def aliasOf (ex : List (Ref × Name)) (r : Ref) : Name :=
  match ex.lookup r with
  | some a => a
  | none => []

/-- sortedCrossChunkImports: one entry per key, items sorted by alias, entries sorted by chunk index -/
def importsOf (g : G) (allEx : List (List (Ref × Name))) (c : Chunk) (imps : List Ref) (ci : Nat) :
    List (Nat × List (Ref × Name)) :=
  (importKeys g c imps ci).map fun o =>
    (o, sortBy (fun a b => decide (a.2 ≤ b.2))
          ((itemsFor g imps ci o).map fun r => (r, aliasOf (allEx.getD o []) r)))

-- ---------------------------------------------------------------- the tail of an entry chunk (ESM output)

inductive TailTok where
  | ref (r : Ref)                        -- an identifier the tail mentions
  | decl (r : Ref)                       -- `var r = …` generated by the tail itself
  | item (r : Ref) (alias : Name)        -- `export { r as alias }`, r bound outside the tail
  | itemLocal (r : Ref) (alias : Name)   -- `export { r as alias }`, r declared by the tail (CJSExportCopies)
deriving Repr, DecidableEq

/-- one alias of the export clause: the statements generated before the clause and the clause item -/
def tailItem (g : G) (f : File) (i : Nat) (e : Name × Nat × Ref) : Option (List TailTok × TailTok) :=
  match g.file? e.2.1 with
  | none => none
  | some ef =>
    if !ef.isJS then none else
      let t := boundTarget ef e.2.2
      match g.sym? t with
      | none => none
      | some tsym =>
        match tsym.ns with
        | some n =>
          match f.copies[i]? with
          | none => none
          | some tmp => some ([.decl tmp, .ref n], .itemLocal tmp e.1)
        | none => some ([], .item t e.1)

/-- generateEntryPointTailJS, `case config.FormatESModule` -/
def tailOf (g : G) (f : File) : Option (List TailTok) :=
  if f.wrap == 1 then some [.ref f.wrapperRef] else
  (allSome (f.exports.zipIdx.map fun x => tailItem g f x.2 x.1)).map fun its =>
    (if f.wrap == 2 then [.ref f.wrapperRef] else []) ++ its.flatMap (·.1) ++ its.map (·.2)

def chunkTail (g : G) (c : Chunk) : Option (List TailTok) :=
  if c.js && c.isEntry then
    match g.file? c.entrySrc with
    | none => none
    | some f => if f.isJS then tailOf g f else some []
  else some []

/-- symbols the tail needs from outside itself -/
def tailNeeds : List TailTok → List Ref
  | [] => []
  | .ref r :: rest => r :: tailNeeds rest
  | .item r _ :: rest => r :: tailNeeds rest
  | _ :: rest => tailNeeds rest

-- ---------------------------------------------------------------- everything together

structure ChunkOut where
  imports : List (Nat × List (Ref × Name))   -- importsFromOtherChunks / crossChunkPrefixStmts
  exports : List (Ref × Name)                -- exportsToOtherChunks / crossChunkSuffixStmts
  cci : List (Bool × Nat)                    -- crossChunkImports: (dynamic?, chunk index)
  tail : List TailTok
deriving Repr, DecidableEq

def mkOut (g : G) (allEx : List (List (Ref × Name))) (c : Chunk) (imps : List Ref) (dyn : List Nat)
    (tail : List TailTok) (ci : Nat) : ChunkOut :=
  if c.js then
    { imports := importsOf g allEx c imps ci
      exports := allEx.getD ci []
      cci := dyn.map (fun o => (true, o)) ++ (importKeys g c imps ci).map (fun o => (false, o))
      tail := tail }
  else { imports := [], exports := [], cci := [], tail := tail }

def run (g : G) : Option (List ChunkOut) :=
  match allSome (g.chunks.map (chunkImports g)),
        allSome (g.chunks.zipIdx.map fun x => chunkDyn g x.1 x.2),
        allSome (g.chunks.map (chunkTail g)) with
  | some allImps, some allDyn, some allTail =>
    match allSome ((List.range g.chunks.length).map (exportItems g allImps)) with
    | some allEx =>
      some ((g.chunks.zip (allImps.zip (allDyn.zip allTail))).zipIdx.map fun x =>
        mkOut g allEx x.1.1 x.1.2.1 x.1.2.2.1 x.1.2.2.2 x.2)
    | none => none
  | _, _, _ => none

end EsbuildModel.CrossChunk
